import Klepto.Driver.Main
def main : IO Unit := Klepto.Driver.main
