import Klepto.Driver.Backend
import Klepto.Model.FS
/-! line protocol for suite `fs` (M8): the system-call program of one archive operation and what a
fresh process reads back in every crash state -/
namespace Klepto.Driver
open Lean Klepto.Backend Klepto.Crash Klepto.AMap

/-- staging names are printed by rank of first appearance in the program (the harness numbers the
implementation's random names the same way) -/
def tempsOf : DSys Nat → List DName
  | .mkdir n | .creatOut n | .writeOut n _ | .tornOut n | .creatIn n | .writeIn n | .tornIn n
  | .unlinkOut n | .unlinkIn n | .rmdir n => [n]
  | .rename a b => [a, b]
  | .close => []

def tempRank (prog : List (DSys Nat)) : List Nat :=
  (prog.flatMap tempsOf).foldl (fun acc n => match n with
    | .temp i => if i ∈ acc then acc else acc ++ [i]
    | .key _ => acc) []

def dnameStrR (rank : List Nat) : DName → String
  | .key n => n
  | .temp i => s!"t{rank.idxOf i}"

def jDSys (rank : List Nat) (x : DSys Nat) : Json :=
  let dnameStr := dnameStrR rank
  match x with
  | .mkdir n => Json.arr #["mkdir", dnameStr n]
  | .creatOut n => Json.arr #["creatOut", dnameStr n]
  | .writeOut n _ => Json.arr #["writeOut", dnameStr n]
  | .tornOut n => Json.arr #["tornOut", dnameStr n]
  | .creatIn n => Json.arr #["creatIn", dnameStr n]
  | .writeIn n => Json.arr #["writeIn", dnameStr n]
  | .tornIn n => Json.arr #["tornIn", dnameStr n]
  | .close => Json.arr #["close"]
  | .unlinkOut n => Json.arr #["unlinkOut", dnameStr n]
  | .unlinkIn n => Json.arr #["unlinkIn", dnameStr n]
  | .rmdir n => Json.arr #["rmdir", dnameStr n]
  | .rename a b => Json.arr #["rename", dnameStr a, dnameStr b]

def jFSys : FSys (List (PKey × Nat)) → Json
  | .creat t => Json.arr #["creat", s!"t{t}"]
  | .write t _ => Json.arr #["write", s!"t{t}"]
  | .tornWrite t => Json.arr #["tornWrite", s!"t{t}"]
  | .close t => Json.arr #["close", s!"t{t}"]
  | .unlinkTarget => Json.arr #["unlinkTarget"]
  | .rename t => Json.arr #["rename", s!"t{t}"]

/-- crash states tagged with (number of completed calls, torn) -/
def dirCrashTagged : DirFS Nat → Nat → List (DSys Nat) → List (Nat × Bool × DirFS Nat)
  | s, j, [] => [(j, false, s)]
  | s, j, x :: xs =>
    (j, false, s) :: (match x with
      | .writeOut n _ => [(j, true, dstep s (.tornOut n))]
      | .writeIn n => [(j, true, dstep s (.tornIn n))]
      | _ => []) ++ dirCrashTagged (dstep s x) (j + 1) xs

def fileCrashTagged : FileFS (List (PKey × Nat)) → Nat → List (FSys (List (PKey × Nat))) → List (Nat × Bool × FileFS (List (PKey × Nat)))
  | s, j, [] => [(j, false, s)]
  | s, j, x :: xs =>
    (j, false, s) :: (match x with
      | .write t _ => [(j, true, fstep s (.tornWrite t))]
      | _ => []) ++ fileCrashTagged (fstep s x) (j + 1) xs

def kvnOf (j : Json) : R (List (PKey × Nat × Bool)) := do
  (← arrOf j).toList.mapM fun p => do
    let q ← arrOf p
    if q.size = 3 then pure (← pkeyOf q[0]!, ← natOf q[1]!, ← boolOf q[2]!) else .error "expected [key, value, needInp]"

def jState (j : Nat) (torn : Bool) (view : Option (List (PKey × Nat))) : Json :=
  Json.mkObj [("j", Json.num (j : JsonNumber)), ("torn", Json.bool torn),
    ("view", match view with | some v => jKV v | none => Json.null)]

def fsStep (j : Json) : R Json := do
  let kind ← strField j "kind"
  let prior ← field j "prior" >>= kvnOf
  let what ← strField j "what"
  let inpFirst ← boolField j "inpFirst"
  let order ← (← field j "order" >>= arrOf).toList.mapM strOf
  let kvs ← if what == "set" then field j "kvs" >>= kvnOf else pure []
  let ks ← if what == "del" then (← field j "ks" >>= arrOf).toList.mapM pkeyOf else pure []
  let cached ← if what == "open" then boolField j "cached" else pure false
  if kind == "file" then
    let old : List (PKey × Nat) := prior.map fun p => (p.1, p.2.1)
    -- the dict operation on the loaded contents; `none` = no `__save__` is reached
    let new? : Option (List (PKey × Nat)) :=
      match what with
      | "set" => some (update old (kvs.map fun p => (p.1, p.2.1)))
      | "del" => some (ks.foldl erase old)
      | "clear" => some []
      | "popitem" => match old.getLast? with | some p => some (erase old p.1) | none => none
      | "open" => if cached then none else some old           -- archives.file_archive(cached=False): update({}) rewrites
      | _ => none
    let fs : FileFS (List (PKey × Nat)) := { target := some (.full old), temps := [] }
    let prog := match new? with | some m => saveProg true 0 m | none => []
    let states := (fileCrashTagged fs 0 prog).map fun (jj, t, st) => jState jj t (some (fileRecover [] st))
    return Json.mkObj [("prog", Json.arr (prog.map jFSys).toArray), ("states", Json.arr states.toArray)]
  else if kind == "dir" then
    let nameOf (k : PKey) : DName := .key k.fname
    let s0 : DirFS Nat := prior.map fun p =>
      (nameOf p.1, { out := some (.full p.2.1), inp := if p.2.2 then some (.full ()) else none })
    let table : List (DName × PKey) := (prior.map fun p => (nameOf p.1, p.1)) ++ (kvs.map fun p => (nameOf p.1, p.1))
    let acts : List (DAct Nat) :=
      match what with
      | "set" => kvs.map fun p => .store p.1.fname p.2.2 p.2.1
      | "del" => (ks.filter fun k => has s0 (nameOf k)).map fun k => .remove k.fname
      | "clear" => order.map .remove
      | "popitem" => (order.take 1).map .remove
      | _ => []
    let prog := actsProg true inpFirst s0 0 acts
    let view (s : DirFS Nat) : Option (List (PKey × Nat)) :=
      (dirRecover true s).map fun l => l.filterMap fun p => (get? table p.1).map fun k => (k, p.2)
    let states := (dirCrashTagged s0 0 prog).map fun (jj, t, st) => jState jj t (view st)
    return Json.mkObj [("prog", Json.arr (prog.map (jDSys (tempRank prog))).toArray), ("states", Json.arr states.toArray)]
  else if kind == "sql" then
    let old : List (PKey × Nat) := prior.map fun p => (p.1, p.2.1)
    let stmts : List (SqlStmt PKey Nat) :=
      match what with
      | "set" => (normalize (kvs.map fun p => (p.1, p.2.1))).map fun p => .insert p.1 p.2
      | "del" => ks.map .delete
      | "clear" => (keys (sqlDict old)).map .delete
      | _ => []
    let states := (sqlCrashStates old stmts).map fun rows => jState 0 false (some (sqlDict rows))
    return Json.mkObj [("prog", Json.arr #[]), ("states", Json.arr states.toArray)]
  else .error s!"bad kind {kind}"

end Klepto.Driver
