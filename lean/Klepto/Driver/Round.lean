import Klepto.Driver.Common
import Klepto.Model.Round
/-! line protocol for suite `round` (M5) -/
namespace Klepto.Driver
open Lean Klepto.Round

def intOf (j : Json) : R Int :=
  match j.getInt? with
  | .ok n => .ok n
  | .error _ => .error "expected int"

def flOf (j : Json) : R Fl := do
  match j with
  | .str "nan" => pure .nan
  | _ =>
  match j.getObjVal? "f" with
  | .ok v =>
    let a ← arrOf v
    if a.size = 3 then return .fin (← boolOf a[0]!) (← natOf a[1]!) (← intOf a[2]!) else .error "bad float"
  | .error _ =>
  match j.getObjVal? "z" with
  | .ok v => return .zero (← boolOf v)
  | .error _ =>
  match j.getObjVal? "inf" with
  | .ok v => return .inf (← boolOf v)
  | .error _ => .error "bad float"

def jFl : Fl → Json
  | .fin neg m e => Json.mkObj [("f", Json.arr #[Json.bool neg, Json.num (m : JsonNumber), Json.num (JsonNumber.fromInt e)])]
  | .zero neg => Json.mkObj [("z", Json.bool neg)]
  | .inf neg => Json.mkObj [("inf", Json.bool neg)]
  | .nan => Json.str "nan"

partial def pvOf (j : Json) : R (PV Fl) := do
  match j.getObjVal? "f" with
  | .ok _ => return .flt (← flOf j)
  | .error _ =>
  if j == Json.str "nan" then return .flt .nan else
  match j.getObjVal? "z" with
  | .ok _ => return .flt (← flOf j)
  | .error _ =>
  match j.getObjVal? "inf" with
  | .ok _ => return .flt (← flOf j)
  | .error _ =>
  match j.getObjVal? "l" with
  | .ok v => return .leaf (← natOf v)
  | .error _ =>
  match j.getObjVal? "d" with
  | .ok v =>
    let a ← arrOf v
    if a.size ≠ 2 then .error "bad dict" else
    let sk ← boolOf a[0]!
    let kvs ← (← arrOf a[1]!).toList.mapM fun p => do
      let q ← arrOf p
      if q.size ≠ 2 then .error "bad item" else
      pure ((← natOf q[0]!), (← pvOf q[1]!))
    return .dict sk kvs
  | .error _ =>
  match j.getObjVal? "s" with
  | .ok v =>
    let a ← arrOf v
    if a.size ≠ 3 then .error "bad seq" else
    return .seq (← natOf a[0]!) (← boolOf a[1]!) (← (← arrOf a[2]!).toList.mapM pvOf)
  | .error _ => .error "bad value"

partial def jPV : PV Fl → Json
  | .flt x => jFl x
  | .leaf id => Json.mkObj [("l", Json.num (id : JsonNumber))]
  | .dict sk kvs => Json.mkObj [("d", Json.arr #[Json.bool sk,
      Json.arr (kvs.map fun p => Json.arr #[Json.num (p.1 : JsonNumber), jPV p.2]).toArray])]
  | .seq ty rb xs => Json.mkObj [("s", Json.arr #[Json.num (ty : JsonNumber), Json.bool rb, Json.arr (xs.map jPV).toArray])]

def rerrStr : RErr → String
  | .typeError => "TypeError"
  | .overflow => "OverflowError"

def roundStep (j : Json) : R Json := do
  let op ← strField j "op"
  match op with
  | "pyround" =>
    match pyRound (← field j "n" >>= intOf) (← field j "x" >>= flOf) with
    | .ok y => return jFl y
    | .error e => return Json.mkObj [("err", Json.str (rerrStr e))]
  | "round" =>
    let deep ← boolField j "deep"
    let tj ← field j "tol"
    let rnd : Option (Fl → Except RErr Fl) ← if tj.isNull then pure none else do
      let n ← intOf tj
      pure (some (pyRound n))
    let args ← (← field j "args" >>= arrOf).toList.mapM pvOf
    let kwds ← (← field j "kwds" >>= arrOf).toList.mapM fun p => do
      let q ← arrOf p
      if q.size ≠ 2 then .error "bad item" else
      pure ((← natOf q[0]!), (← pvOf q[1]!))
    match roundArgs deep rnd args kwds with
    | .ok (a, k) => return Json.mkObj [("args", Json.arr (a.map jPV).toArray),
        ("kwds", Json.arr (k.map fun p => Json.arr #[Json.num (p.1 : JsonNumber), jPV p.2]).toArray)]
    | .error e => return Json.mkObj [("err", Json.str (rerrStr e))]
  | s => .error s!"bad op {s}"

end Klepto.Driver
