import Klepto.Driver.Common
import Klepto.Model.PKey
/-! line protocol for suite `backend` (M7): archives as mappings, handles, copy, == -/
namespace Klepto.Driver
open Lean Klepto.Backend

structure BackendD where
  codec : Codec PKey Nat
  sys : Sys PKey Nat

def atomOf (j : Json) : R Atom := do
  match j.getObjVal? "i" with
  | .ok v => match v.getInt? with
    | .ok n => return .int n
    | .error _ => .error "bad int key"
  | .error _ =>
  match j.getObjVal? "s" with
  | .ok v => return .str (← strOf v)
  | .error _ =>
  match j.getObjVal? "b" with
  | .ok v => return .bytes (← strOf v) (← strField j "md5")
  | .error _ => .error "bad atom"

def pkeyOf (j : Json) : R PKey := do
  match j.getObjVal? "t" with
  | .ok v => return .tup (← (← arrOf v).toList.mapM atomOf)
  | .error _ => return .atom (← atomOf j)

def jAtom : Atom → Json
  | .int n => Json.mkObj [("i", Json.num (JsonNumber.fromInt n))]
  | .str s => Json.mkObj [("s", Json.str s)]
  | .bytes h m => Json.mkObj [("b", Json.str h), ("md5", Json.str m)]

def jPKey : PKey → Json
  | .atom a => jAtom a
  | .tup l => Json.mkObj [("t", Json.arr (l.map jAtom).toArray)]

def kvListOf (j : Json) : R (List (PKey × Nat)) := do
  (← arrOf j).toList.mapM fun p => do
    let q ← arrOf p
    if q.size = 2 then pure (← pkeyOf q[0]!, ← natOf q[1]!) else .error "expected [key, value]"

def optNatOf (j : Json) : R (Option Nat) := if j.isNull then pure none else some <$> natOf j

def keyModeOf : String → R KeyMode
  | "id" => pure .id | "json" => pure .json | "sql" => pure .sql
  | s => .error s!"bad key mode {s}"

def bstOf (kind : String) (init : List (PKey × Nat)) : R (BSt PKey Nat) :=
  match kind with
  | "dict" => pure (.dict init)
  | "null" => pure .null
  | "file" => pure (.file init)
  | "sql" => pure (.sql init)
  | "dir" => pure (.dir (init.map fun p =>
      (p.1.fname, { inp := if p.1.plain then none else some p.1, val := p.2 })))
  | s => .error s!"bad backend kind {s}"

def backendOf (j : Json) : R BackendD := do
  let kind ← strField j "kind"
  let mode ← strField j "ck" >>= keyModeOf
  let cvj ← field j "cv" >>= arrOf
  let cv ← cvj.toList.mapM fun p => do
    let q ← arrOf p
    if q.size = 2 then pure (← natOf q[0]!, ← optNatOf q[1]!) else .error "expected [v, readback]"
  let cached ← boolField j "cached"
  let st ← bstOf kind []
  pure { codec := concreteCodec mode cv,
         sys := [("a", { mem := if cached then some [] else none, st := st })] }

def backendOpOf (j : Json) : R (SOp PKey Nat) := do
  let op ← strField j "op"
  let h ← strField j "h"
  match op with
  | "copy" => return .copy h (← strField j "to")
  | "eq" => return .eq h (← strField j "o")
  | "dump" => return .dump h
  | "load" => return .load h
  | "dumpk" => return .dumpKeys h (← (← field j "ks" >>= arrOf).toList.mapM pkeyOf)
  | "sync" => return .sync h
  | "setitem" => return .op h (.setitem (← field j "k" >>= pkeyOf) (← natField j "v"))
  | "getitem" => return .op h (.getitem (← field j "k" >>= pkeyOf))
  | "delitem" => return .op h (.delitem (← field j "k" >>= pkeyOf))
  | "contains" => return .op h (.contains (← field j "k" >>= pkeyOf))
  | "len" => return .op h .len
  | "keys" => return .op h .keys
  | "values" => return .op h .values
  | "items" => return .op h .items
  | "get" => return .op h (.get (← field j "k" >>= pkeyOf) (← natField j "d"))
  | "pop" => return .op h (.pop (← field j "k" >>= pkeyOf) (← field j "d" >>= optNatOf))
  | "popitem" =>
    let c ← field j "choice"
    return .op h (.popitem (← if c.isNull then pure none else some <$> pkeyOf c))
  | "popkeys" =>
    let ks ← (← field j "ks" >>= arrOf).toList.mapM pkeyOf
    return .op h (.popkeys ks (← field j "d" >>= optNatOf))
  | "setdefault" => return .op h (.setdefault (← field j "k" >>= pkeyOf) (← natField j "d"))
  | "update" => return .op h (.update (← field j "kvs" >>= kvListOf))
  | "clear" => return .op h .clear
  | s => .error s!"bad op {s}"

def jKV (l : List (PKey × Nat)) : Json :=
  Json.arr (l.map fun p => Json.arr #[jPKey p.1, Json.num (p.2 : JsonNumber)]).toArray

def jBOut : Backend.Out PKey Nat → Json
  | .unit => Json.mkObj [("o", "unit")]
  | .val v => Json.mkObj [("o", "val"), ("v", Json.num (v : JsonNumber))]
  | .bool b => Json.mkObj [("o", "bool"), ("v", Json.bool b)]
  | .nat n => Json.mkObj [("o", "nat"), ("v", Json.num (n : JsonNumber))]
  | .keys l => Json.mkObj [("o", "keys"), ("v", Json.arr (l.map jPKey).toArray)]
  | .vals l => Json.mkObj [("o", "vals"), ("v", jNats l)]
  | .items l => Json.mkObj [("o", "items"), ("v", jKV l)]
  | .pair k v => Json.mkObj [("o", "pair"), ("k", jPKey k), ("v", Json.num (v : JsonNumber))]
  | .vlist l => Json.mkObj [("o", "vlist"), ("v", jNats l)]
  | .err e => Json.mkObj [("o", "err"), ("v", Json.str (excStr e))]
  | .refused => Json.mkObj [("o", "refused")]

/-- contents of every handle after the step: cache contents and `__asdict__()` of the archive
(`"EXC"` when it raises) -/
def jSys (c : Codec PKey Nat) (s : Sys PKey Nat) : Json :=
  Json.mkObj (s.map fun p =>
    (p.1, Json.mkObj [
      ("mem", match p.2.mem with | some m => jKV m | none => Json.null),
      ("arch", match p.2.st.asDict c with | some m => jKV m | none => Json.str "EXC")]))

def backendStep (d : BackendD) (j : Json) : R (BackendD × Json) := do
  if (← strField j "op") == "pool" then
    return (d, Json.mkObj [("pool", Json.arr (mainPool.map jPKey).toArray)])
  let op ← backendOpOf j
  let (s', o) := d.sys.step d.codec op
  pure ({ d with sys := s' }, Json.mkObj [("out", jBOut o), ("sys", jSys d.codec s')])

end Klepto.Driver
