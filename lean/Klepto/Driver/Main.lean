import Klepto.Driver.Wrapper
import Klepto.Model.WrapperFail
import Klepto.Driver.Keys
import Klepto.Driver.Round
import Klepto.Driver.Backend
import Klepto.Driver.FS
import Klepto.Driver.Sched
/-! the driver loop: one JSON object per input line, one JSON object per output line.
A line with `"op":"cfg"` starts a new trace of the suite named in its `"suite"` field. -/
namespace Klepto.Driver
open Lean

inductive DState
  | idle
  | wrapper (cfg : Cfg) (s : St Nat Nat)
  | wrapperF (r : Refuse Nat) (cfg : Cfg) (s : St Nat Nat)
  | cache (c : Cache Nat Nat)
  | keys (c : KeysCfg)
  | round
  | backend (d : BackendD)
  | fs

def badOp (msg : String) : Json := Json.mkObj [("bad-op", Json.str msg)]

def startTrace (j : Json) : DState × Json :=
  match strField j "suite" with
  | .error e => (.idle, badOp e)
  | .ok "wrapper" =>
    match wrapCfgOf j with
    | .ok (cfg, s) => (.wrapper cfg s, Json.str "ok")
    | .error e => (.idle, badOp e)
  | .ok "wrapperF" =>
    -- M3F: the cfg line also says which (interned) values the archive refuses, how it writes in bulk, what it raises
    match (do
      let (cfg, s) ← wrapCfgOf j
      let bad ← field j "refuse" >>= natList
      let atomic ← boolField j "bulkAtomic"
      let exc ← strField j "exc" >>= excOf
      pure (({ bad := fun v => bad.contains v, bulkAtomic := atomic, exc := exc } : Refuse Nat), cfg, s) : R (Refuse Nat × Cfg × St Nat Nat)) with
    | .ok (r, cfg, s) => (.wrapperF r cfg s, Json.str "ok")
    | .error e => (.idle, badOp e)
  | .ok "cache" =>
    match cacheOf j with
    | .ok c => (.cache c, Json.str "ok")
    | .error e => (.idle, badOp e)
  | .ok "keys" =>
    match keysCfgOf j with
    | .ok c => (.keys c, Json.str "ok")
    | .error e => (.idle, badOp e)
  | .ok "round" => (.round, Json.str "ok")
  | .ok "fs" => (.fs, Json.str "ok")
  | .ok "backend" =>
    match backendOf j with
    | .ok d => (.backend d, Json.str "ok")
    | .error e => (.idle, badOp e)
  | .ok s => (.idle, badOp s!"unknown suite {s}")

def stepLine (st : DState) (line : String) : DState × Json :=
  match Json.parse line with
  | .error e => (st, badOp s!"parse: {e}")
  | .ok j =>
    match strField j "op" with
    | .error e => (st, badOp e)
    | .ok "cfg" => startTrace j
    | .ok _ =>
      match st with
      | .idle => (st, badOp "no trace started")
      | .wrapper cfg s =>
        match wrapOpOf j with
        | .error e => (st, badOp e)
        | .ok op =>
          let (s', o) := step cfg s op
          (.wrapper cfg s', Json.mkObj (("out", jOut o) :: jSt s'))
      | .wrapperF r cfg s =>
        match wrapOpOf j with
        | .error e => (st, badOp e)
        | .ok op =>
          let (s', o) := stepF r cfg s op
          (.wrapperF r cfg s', Json.mkObj (("out", jOut o) :: jSt s'))
      | .round =>
        match roundStep j with
        | .ok o => (st, o)
        | .error e => (st, badOp e)
      | .fs =>
        match (if (strField j "op").toOption == some "sched" then schedStep j else fsStep j) with
        | .ok o => (st, o)
        | .error e => (st, badOp e)
      | .backend d =>
        match backendStep d j with
        | .ok (d', o) => (.backend d', o)
        | .error e => (st, badOp e)
      | .keys c =>
        match keysStep c j with
        | .ok o => (st, o)
        | .error e => (st, badOp e)
      | .cache c =>
        match cacheOpOf j with
        | .error e => (st, badOp e)
        | .ok op =>
          let (c', e) := c.step op
          (.cache c', Json.mkObj (("exc", match e with
              | some x => Json.str (excStr x) | none => Json.null) :: jCache c'))

partial def loop (h : IO.FS.Stream) (out : IO.FS.Stream) (st : DState) : IO Unit := do
  let line ← h.getLine
  if line.isEmpty then return ()
  let l := line.trimAscii.toString
  if l.isEmpty then loop h out st else
  let (st', o) := stepLine st l
  out.putStrLn o.compress
  loop h out st'

def main : IO Unit := do
  let out ← IO.getStdout
  loop (← IO.getStdin) out .idle
  out.flush

end Klepto.Driver
