import Lean.Data.Json
import Klepto.Model.Wrapper
/-! JSON-lines driver: shared decoding/encoding helpers (no Mathlib). -/
namespace Klepto.Driver
open Lean

abbrev R := Except String

def field (j : Json) (k : String) : R Json :=
  match j.getObjVal? k with
  | .ok v => .ok v
  | .error _ => .error s!"missing field {k}"

def natOf (j : Json) : R Nat :=
  match j.getNat? with
  | .ok n => .ok n
  | .error _ => .error "expected nat"

def boolOf (j : Json) : R Bool :=
  match j.getBool? with
  | .ok n => .ok n
  | .error _ => .error "expected bool"

def strOf (j : Json) : R String :=
  match j.getStr? with
  | .ok n => .ok n
  | .error _ => .error "expected string"

def arrOf (j : Json) : R (Array Json) :=
  match j.getArr? with
  | .ok n => .ok n
  | .error _ => .error "expected array"

def natField (j : Json) (k : String) : R Nat := field j k >>= natOf
def boolField (j : Json) (k : String) : R Bool := field j k >>= boolOf
def strField (j : Json) (k : String) : R String := field j k >>= strOf

def natList (j : Json) : R (List Nat) := do
  let a ← arrOf j
  a.toList.mapM natOf

/-- `[[k,v],…]` -/
def pairList (j : Json) : R (List (Nat × Nat)) := do
  let a ← arrOf j
  a.toList.mapM fun p => do
    let q ← arrOf p
    if q.size = 2 then
      let k ← natOf q[0]!
      let v ← natOf q[1]!
      pure (k, v)
    else .error "expected pair"

/-- `null` or `[[k,v],…]` -/
def optPairList (j : Json) : R (Option (List (Nat × Nat))) :=
  if j.isNull then pure none else some <$> pairList j

def excOf (s : String) : R Exc :=
  match s with
  | "KeyError" => pure .keyError
  | "TypeError" => pure .typeError
  | "ValueError" => pure .valueError
  | "IndexError" => pure .indexError
  | "AttributeError" => pure .attributeError
  | "Other" => pure .other
  | _ =>
    if s.startsWith "user:" then
      match (s.drop 5).toNat? with
      | some n => pure (.user n)
      | none => .error s!"bad exception {s}"
    else .error s!"bad exception {s}"

def excStr : Exc → String
  | .keyError => "KeyError" | .typeError => "TypeError" | .valueError => "ValueError"
  | .indexError => "IndexError" | .attributeError => "AttributeError"
  | .user n => s!"user:{n}" | .other => "Other"

def jPairs (m : List (Nat × Nat)) : Json :=
  Json.arr (m.map fun (p : Nat × Nat) => Json.arr #[Json.num (p.1 : JsonNumber), Json.num (p.2 : JsonNumber)]).toArray

def jOptPairs : Option (List (Nat × Nat)) → Json
  | none => Json.null
  | some m => jPairs m

def jNats (m : List Nat) : Json := Json.arr (m.map fun (n : Nat) => Json.num (n : JsonNumber)).toArray

end Klepto.Driver
