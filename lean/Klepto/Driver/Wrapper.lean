import Klepto.Driver.Common
/-! line protocol for suites `wrapper` (M3) and `cache` (M2) -/
namespace Klepto.Driver
open Lean

def algoOf : String → R Algo
  | "no" => pure .no | "inf" => pure .inf | "lfu" => pure .lfu
  | "lru" => pure .lru | "mru" => pure .mru | "rr" => pure .rr
  | s => .error s!"bad algo {s}"

def keyInOf (j : Json) : R (KeyIn Nat) := do
  match j.getObjVal? "ok" with
  | .ok v => return .ok (← natOf v)
  | .error _ =>
  match j.getObjVal? "gen" with
  | .ok v => return .genError (← excOf (← strOf v))
  | .error _ =>
  match j.getObjVal? "unh" with
  | .ok v => return .unhashable (← excOf (← strOf v))
  | .error _ => .error "bad key"

def fnOf (j : Json) : R (Except Exc Nat) := do
  match j.getObjVal? "ok" with
  | .ok v => return .ok (← natOf v)
  | .error _ =>
  match j.getObjVal? "err" with
  | .ok v => return .error (← excOf (← strOf v))
  | .error _ => .error "bad fn"

def cacheOf (j : Json) : R (Cache Nat Nat) := do
  let mem ← field j "mem" >>= pairList
  let arch ← field j "arch" >>= optPairList
  let bare ← boolField j "bare"
  pure { mem := mem, arch := arch, swap := none, bare := bare }

def wrapCfgOf (j : Json) : R (Cfg × St Nat Nat) := do
  let algo ← strField j "algo" >>= algoOf
  let safe ← boolField j "safe"
  let maxsize ← natField j "maxsize"
  let purge ← boolField j "purge"
  let c ← cacheOf j
  pure ({ algo, safe, maxsize, purge }, St.init c)

def wrapOpOf (j : Json) : R (Op Nat Nat) := do
  let op ← strField j "op"
  match op with
  | "call" =>
    let key ← field j "key" >>= keyInOf
    let fn ← field j "fn" >>= fnOf
    let vj ← field j "victim"
    let victim ← if vj.isNull then pure none else some <$> natOf vj
    pure (.call { key, fn, victim })
  | "lookup" => return .lookup (← field j "key" >>= keyInOf)
  | "clear" => return .clear (← boolField j "keep")
  | "load" => return .load (← field j "ks" >>= natList)
  | "loadAll" => pure .loadAll
  | "dump" => return .dump (← field j "ks" >>= natList)
  | "dumpAll" => pure .dumpAll
  | "on" => pure .archivedOn
  | "off" => pure .archivedOff
  | "archivedq" => pure .archivedQ
  | "setarch" => return .setArchive (← field j "a" >>= optPairList)
  | "extput" => return .extPut (← natField j "k") (← natField j "v")
  | "extdel" => return .extDel (← natField j "k")
  | "info" => pure .info
  | s => .error s!"bad op {s}"

def jOut : Out Nat → Json
  | .ret v e => Json.mkObj [("ret", Json.num v), ("evals", Json.num e)]
  | .raised x e => Json.mkObj [("exc", Json.str (excStr x)), ("evals", Json.num e)]
  | .unit => Json.str "unit"
  | .info h m l ms sz => Json.mkObj [("info", Json.arr #[Json.num h, Json.num m, Json.num l,
      (match ms with | some n => Json.num n | none => Json.null), Json.num sz])]
  | .flag b => Json.mkObj [("flag", Json.bool b)]

def jCache (c : Cache Nat Nat) : List (String × Json) :=
  [("mem", jPairs c.mem), ("arch", jOptPairs c.arch), ("swap", jOptPairs c.swap)]

def jSt (s : St Nat Nat) : List (String × Json) :=
  jCache s.c ++ [("stats", jNats [s.hit, s.miss, s.load]), ("queue", jNats s.queue),
    ("uc", jPairs s.uc)]

def cacheOpOf (j : Json) : R (COp Nat Nat) := do
  let op ← strField j "op"
  match op with
  | "put" => return .put (← natField j "k") (← natField j "v")
  | "del" => return .del (← natField j "k")
  | "pop" => return .pop (← natField j "k")
  | "clearMem" => pure .clearMem
  | "load" => return .load (← field j "ks" >>= natList)
  | "loadAll" => pure .loadAll
  | "dump" => return .dump (← field j "ks" >>= natList)
  | "dumpAll" => pure .dumpAll
  | "sync" => return .sync (← boolField j "clear")
  | "on" => pure .on
  | "off" => pure .off
  | "drop" => pure .drop
  | "open" => return .openA (← field j "a" >>= optPairList)
  | "setarch" => return .setA (← field j "a" >>= optPairList)
  | "aput" => return .aput (← natField j "k") (← natField j "v")
  | "adel" => return .adel (← natField j "k")
  | s => .error s!"bad op {s}"

end Klepto.Driver
