import Klepto.Driver.Common
import Klepto.Model.Keys
import Klepto.Model.Validate
/-! line protocol for suite `keys` (M4): signatures, binding, `_keygen`, keymaps.  `Val = Nat`
(objects interned by the harness). -/
namespace Klepto.Driver
open Lean Klepto.Keys

structure KeysCfg where
  consts : Consts Nat
  order : List Nat              -- names in Python's sort order
  ty : List (Nat × Nat)         -- value id ↦ id of its type object
  fast : List Nat               -- ids of keymap._fasttypes
  func : Func Nat

def optNat (j : Json) : R (Option Nat) := if j.isNull then pure none else some <$> natOf j

def paramOf (j : Json) : R (Param Nat) := do
  let a ← arrOf j
  if a.size = 2 then
    return { name := (← natOf a[0]!), dflt := (← optNat a[1]!) }
  else .error "bad param"

def funcOf (j : Json) : R (Func Nat) := do
  let pos ← (← field j "pos" >>= arrOf).toList.mapM paramOf
  let kwonly ← (← field j "kwonly" >>= arrOf).toList.mapM paramOf
  return { pos, kwonly, varargs := (← boolField j "varargs"), varkw := (← boolField j "varkw"),
           pArgs := (← field j "pArgs" >>= natList), pKwds := (← field j "pKwds" >>= pairList),
           bound := (← boolField j "bound"),
           nposonly := (match j.getObjVal? "nposonly" with
             | .ok v => (match v.getNat? with | .ok n => n | .error _ => 0)
             | .error _ => 0) }

def keysCfgOf (j : Json) : R KeysCfg := do
  return { consts := { null := (← natField j "null"), star := (← natField j "star"), dstar := (← natField j "dstar") },
           order := (← field j "order" >>= natList), ty := (← field j "ty" >>= pairList),
           fast := (← field j "fast" >>= natList), func := (← field j "func" >>= funcOf) }

def KeysCfg.le (c : KeysCfg) (a b : Nat) : Bool :=
  match c.order.idxOf? a, c.order.idxOf? b with
  | some i, some j => i ≤ j
  | some _, none => true
  | none, some _ => false
  | none, none => a ≤ b

def KeysCfg.tyOf (c : KeysCfg) (v : Nat) : Nat := (AMap.get? c.ty v).getD 0

def ignOf (j : Json) : R (List (Ign Nat)) := do
  (← arrOf j).toList.mapM fun e =>
    match e.getObjVal? "i" with
    | .ok v => Ign.idx <$> natOf v
    | .error _ => match e.getObjVal? "n" with
      | .ok v => Ign.name <$> natOf v
      | .error _ => match e.getObjVal? "neg" with
        | .ok v => Ign.neg <$> natOf v
        | .error _ => .error "bad ignore entry"

def callOf (j : Json) : R (PCall Nat) := do
  return { args := (← field j "args" >>= natList), kwds := (← field j "kwds" >>= pairList),
           selfLike := (← boolField j "selfLike") }

def kmOf (j : Json) : R (KM Nat) := do
  return { typed := (← boolField j "typed"), flat := (← boolField j "flat"), mark := (← field j "mark" >>= optNat) }

def keysStep (c : KeysCfg) (j : Json) : R Json := do
  let op ← strField j "op"
  match op with
  | "keygen" =>
    let r := keygen c.consts c.func (← field j "ign" >>= ignOf) (← callOf j)
    return Json.mkObj [("va", jNats r.1), ("kw", jPairs r.2)]
  | "key" =>
    let km ← field j "km" >>= kmOf
    let r := keygen c.consts c.func (← field j "ign" >>= ignOf) (← callOf j)
    let jFlat : FlatKey Nat → Json := fun fk => match fk with
      | .tup l => Json.mkObj [("tup", jNats l)]
      | .scalar v => Json.mkObj [("scalar", Json.num (v : JsonNumber))]
    let jNonFlat : NonFlatKey Nat → Json := fun k =>
      Json.mkObj [("args", jNats k.args), ("kwds", jPairs k.kwds),
        ("types", match k.types with
          | some (a, b) => Json.arr #[jNats a, jNats b]
          | none => Json.null)]
    -- the structured key of this keymap, and the object / type the inner keymap of a chain would receive
    let (outerJ, xScalar) : Json × Option Nat :=
      if km.flat then
        match encodeFlat km c.le c.tyOf (fun t => c.fast.contains t) r.1 r.2 with
        | .tup l => (jFlat (.tup l), none)
        | .scalar v => (jFlat (.scalar v), some v)
      else (jNonFlat (encrypt km c.le c.tyOf r.1 r.2), none)
    match j.getObjVal? "inner" with
    | .error _ => return outerJ
    | .ok ij =>
      let ikm ← kmOf ij
      let tupTy ← natField j "tupTy"
      -- placeholder 1000000 stands for the outer structured key when it is a tuple
      let (x, xty) := match xScalar with
        | some v => (v, c.tyOf v)
        | none => (1000000, tupTy)
      let inner := match chainInner ikm c.le xty (c.fast.contains xty) x with
        | .inl fk => jFlat fk
        | .inr nk => jNonFlat nk
      return Json.mkObj [("outer", outerJ), ("inner", inner)]
  | "bind" =>
    let cl ← callOf j
    match bindPO (← natField j "self") c.func cl with
    | some b => return Json.mkObj [("named", jPairs b.named), ("extraPos", jNats b.extraPos), ("extraKw", jPairs b.extraKw)]
    | none => return Json.null
  | "validate" =>
    return Json.mkObj [("valid", Json.bool (validate c.func (← callOf j)))]
  | "signature" =>
    match kSignature c.func with
    | some (e, d) => return Json.mkObj [("explicit", jNats e), ("defaults", jPairs d)]
    | none => return Json.null
  | s => .error s!"bad op {s}"

end Klepto.Driver
