import Klepto.Driver.FS
import Klepto.Model.Sched
/-! line protocol for suite `sched`: replay a recorded schedule of 2-3 processes on the small-step model -/
namespace Klepto.Driver
open Lean Klepto.Backend Klepto.Crash Klepto.Sched Klepto.AMap

def jRKey (k : RKey) : Json := Json.arr #[Json.str k.name, Json.bool k.real]

def jRRes : RRes Nat → Json
  | .val v => Json.mkObj [("val", Json.num (v : JsonNumber))]
  | .keyError => Json.str "KeyError"
  | .bool b => Json.mkObj [("bool", Json.bool b)]
  | .nat n => Json.mkObj [("nat", Json.num (n : JsonNumber))]
  | .keys l => Json.mkObj [("keys", Json.arr (l.map jRKey).toArray)]
  | .dict l => Json.mkObj [("dict", Json.arr (l.map fun p => Json.arr #[Json.str p.1.name, Json.bool p.1.real, Json.num (p.2 : JsonNumber)]).toArray)]

def rkindOf (j : Json) : R RKind := do
  match (← strField j "kind") with
  | "lookup" => return .lookup (← field j "k" >>= pkeyOf).fname
  | "contains" => return .contains (← field j "k" >>= pkeyOf).fname
  | "len" => pure .len
  | "keys" => pure .keys
  | "asdict" => pure .asdict
  | s => .error s!"bad reader kind {s}"

def schedStep (j : Json) : R Json := do
  let kind ← strField j "kind"
  let prior ← field j "prior" >>= kvnOf
  let sched ← field j "sched" >>= natList
  let procsJ ← field j "procs" >>= arrOf
  if kind == "dir" then
    let s0 : DirFS Nat := prior.map fun p =>
      (.key p.1.fname, { out := some (.full p.2.1), inp := if p.2.2 then some (.full ()) else none })
    let mut procs : List (DProc Nat) := []
    let mut need : List (String × Bool) := prior.map fun p => (p.1.fname, p.2.2)
    let mut progs : List Json := []
    let mut i := 0
    for pj in procsJ.toList do
      let role ← strField pj "role"
      if role == "writer" then
        let what ← strField pj "what"
        let inpFirst ← boolField pj "inpFirst"
        let kvs ← if what == "set" then field pj "kvs" >>= kvnOf else pure []
        let ks ← if what == "del" then (← field pj "ks" >>= arrOf).toList.mapM pkeyOf else pure []
        let acts : List (DAct Nat) :=
          match what with
          | "set" => kvs.map fun p => .store p.1.fname p.2.2 p.2.1
          | "del" => (ks.filter fun k => has s0 (.key k.fname)).map fun k => .remove k.fname
          | _ => []
        need := need ++ (kvs.map fun p => (p.1.fname, p.2.2))
        let prog := actsProg true inpFirst s0 (10 * (i + 1)) acts
        progs := progs ++ [Json.arr (prog.map (jDSys (tempRank prog))).toArray]
        procs := procs ++ [.writer prog]
      else
        let k ← rkindOf pj
        let order ← (← field pj "order" >>= arrOf).toList.mapM strOf
        progs := progs ++ [Json.null]
        procs := procs ++ [.reader k order .start]
      i := i + 1
    let needInp (n : String) : Bool := (get? need n).getD false
    let fin := runDir needInp { disk := s0, procs := procs } sched
    let results := fin.procs.map fun p => match p with
      | .writer [] => Json.str "ok"
      | .writer _ => Json.str "unfinished"
      | .reader _ _ (.done r) => jRRes r
      | .reader _ _ _ => Json.str "unfinished"
    let view := (dirRecover true fin.disk).map fun l => l.filterMap fun p => match p.1 with | .key n => some (n, p.2) | .temp _ => none
    return Json.mkObj [("results", Json.arr results.toArray), ("progs", Json.arr progs.toArray),
      ("final", match view with
        | some v => Json.arr (v.map fun p => Json.arr #[Json.str p.1, Json.num (p.2 : JsonNumber)]).toArray
        | none => Json.null)]
  else if kind == "file" then
    let old : List (PKey × Nat) := prior.map fun p => (p.1, p.2.1)
    let mut procs : List (FProc (List (PKey × Nat))) := []
    let mut i := 0
    for pj in procsJ.toList do
      let role ← strField pj "role"
      if role == "writer" then
        let what ← strField pj "what"
        let kvs ← if what == "set" then field pj "kvs" >>= kvnOf else pure []
        let ks ← if what == "del" then (← field pj "ks" >>= arrOf).toList.mapM pkeyOf else pure []
        let f : List (PKey × Nat) → List (PKey × Nat) :=
          match what with
          | "set" => fun m => update m (kvs.map fun p => (p.1, p.2.1))
          | "del" => fun m => ks.foldl erase m
          | _ => id                                  -- opener: update({})
        procs := procs ++ [{ kind := .write f, tmp := i, ph := .start }]
      else
        procs := procs ++ [{ kind := .read, tmp := i, ph := .start }]
      i := i + 1
    let fin := runFile ([] : List (PKey × Nat)) { disk := { target := some (.full old), temps := [] }, procs := procs } sched
    let results := fin.procs.map fun p => match p.ph, p.seen with
      | .done _, some seen => Json.mkObj [("seen", jKV seen)]
      | _, _ => Json.str "unfinished"
    return Json.mkObj [("results", Json.arr results.toArray), ("final", jKV (fileRecover [] fin.disk))]
  else .error s!"bad kind {kind}"

end Klepto.Driver
