import Klepto.Model.AMap
/-! Lemmas about `AMap` (M1): the association-list dict. Core only. -/
namespace Klepto
namespace AMap
variable {K : Type} {V : Type} [DecidableEq K]

theorem has_iff_mem_keys (m : List (K × V)) (k : K) : has m k = true ↔ k ∈ keys m := by
  induction m with
  | nil => simp [has, get?, keys]
  | cons p m ih =>
    obtain ⟨k', v⟩ := p
    by_cases h : k' = k
    · simp [has, get?, keys, h]
    · have : has m k = true ↔ k ∈ keys m := ih
      simp only [has, get?, h, if_false, keys, List.map_cons, List.mem_cons] at this ⊢
      constructor
      · intro hh; exact Or.inr (this.mp hh)
      · rintro (hh | hh)
        · exact absurd hh.symm h
        · exact this.mpr hh

theorem length_put (m : List (K × V)) (k : K) (v : V) :
    (put m k v).length = if has m k then m.length else m.length + 1 := by
  induction m with
  | nil => simp [put, has, get?]
  | cons p m ih =>
    obtain ⟨k', v'⟩ := p
    by_cases h : k' = k
    · simp [put, has, get?, h]
    · simp only [put, h, if_false, List.length_cons, has, get?] at ih ⊢
      rw [ih]; split <;> simp [*]

theorem length_erase (m : List (K × V)) (k : K) :
    (erase m k).length = if has m k then m.length - 1 else m.length := by
  induction m with
  | nil => simp [erase, has, get?]
  | cons p m ih =>
    obtain ⟨k', v'⟩ := p
    by_cases h : k' = k
    · simp [erase, has, get?, h]
    · simp only [erase, h, if_false, List.length_cons, has, get?] at ih ⊢
      by_cases hh : (get? m k).isSome = true
      · have : 0 < m.length := by
          cases m with
          | nil => simp [get?] at hh
          | cons _ _ => simp
        simp only [hh, if_true] at ih ⊢
        omega
      · simp only [hh] at ih ⊢
        simp at ih ⊢
        exact ih

theorem keys_erase_subset (m : List (K × V)) (k : K) : ∀ x ∈ keys (erase m k), x ∈ keys m := by
  induction m with
  | nil => simp [erase, keys]
  | cons p m ih =>
    obtain ⟨k', v'⟩ := p
    intro x hx
    by_cases h : k' = k
    · simp [erase, h, keys] at hx ⊢; exact Or.inr hx
    · simp only [erase, h, if_false, keys, List.map_cons, List.mem_cons] at hx ⊢
      rcases hx with hx | hx
      · exact Or.inl hx
      · exact Or.inr (ih x hx)

theorem keys_put (m : List (K × V)) (k : K) (v : V) : ∀ x, x ∈ keys (put m k v) ↔ x = k ∨ x ∈ keys m := by
  induction m with
  | nil => intro x; simp [put, keys]
  | cons p m ih =>
    obtain ⟨k', v'⟩ := p
    intro x
    by_cases h : k' = k
    · subst h; simp [put, keys]
    · simp only [put, h, if_false, keys, List.map_cons, List.mem_cons]
      have := ih x
      simp only [keys] at this
      rw [this]
      constructor
      · rintro (h1 | h1 | h1)
        · exact Or.inr (Or.inl h1)
        · exact Or.inl h1
        · exact Or.inr (Or.inr h1)
      · rintro (h1 | h1 | h1)
        · exact Or.inr (Or.inl h1)
        · exact Or.inl h1
        · exact Or.inr (Or.inr h1)



theorem get?_put (m : List (K × V)) (k j : K) (v : V) :
    get? (put m k v) j = if j = k then some v else get? m j := by
  induction m with
  | nil => by_cases h : k = j <;> simp [put, get?, h, eq_comm]
  | cons p m ih =>
    obtain ⟨k', v'⟩ := p
    by_cases h : k' = k
    · subst h
      by_cases hj : k' = j
      · simp [put, get?, hj]
      · have : ¬ j = k' := fun h => hj h.symm
        simp [put, get?, hj, this]
    · by_cases hj : k' = j
      · subst hj; simp [put, get?, h]
      · simp [put, get?, h, hj, ih]

theorem has_put (m : List (K × V)) (k j : K) (v : V) :
    has (put m k v) j = (decide (j = k) || has m j) := by
  simp only [has, get?_put]
  by_cases h : j = k <;> simp [h]

theorem has_of_has_erase (m : List (K × V)) (k j : K) : has (erase m k) j = true → has m j = true := by
  intro h
  rw [has_iff_mem_keys] at h ⊢
  exact keys_erase_subset m k j h

theorem length_erase_le (m : List (K × V)) (k : K) : (erase m k).length ≤ m.length := by
  rw [length_erase]; split <;> omega

theorem length_erase_lt (m : List (K × V)) (k : K) (h : has m k = true) : (erase m k).length + 1 = m.length := by
  rw [length_erase, h]
  have : 0 < m.length := by
    cases m with
    | nil => simp [has, get?] at h
    | cons _ _ => simp
  simp; omega


theorem has_eq_true_iff (m : List (K × V)) (k : K) : has m k = true ↔ ∃ v, get? m k = some v := by
  unfold has; cases get? m k <;> simp

theorem has_eq_false_iff (m : List (K × V)) (k : K) : has m k = false ↔ get? m k = none := by
  unfold has; cases get? m k <;> simp

theorem get?_eq_none_of_not_mem (m : List (K × V)) (k : K) (h : k ∉ keys m) : get? m k = none := by
  have h1 : ¬ has m k = true := fun hh => h ((has_iff_mem_keys m k).mp hh)
  have h2 : has m k = false := by simpa using h1
  exact (has_eq_false_iff m k).mp h2

theorem mem_keys_of_get? (m : List (K × V)) (k : K) (v : V) (h : get? m k = some v) : k ∈ keys m :=
  (has_iff_mem_keys m k).mp ((has_eq_true_iff m k).mpr ⟨v, h⟩)

theorem put_ne_nil (m : List (K × V)) (k : K) (v : V) : put m k v ≠ [] := by
  cases m with
  | nil => simp [put]
  | cons p m => obtain ⟨k', v'⟩ := p; simp only [put]; split <;> simp

theorem keys_put_mem (m : List (K × V)) (k : K) (v : V) : k ∈ keys (put m k v) :=
  (keys_put m k v k).mpr (Or.inl rfl)

/-- `put` keeps the order of the existing keys and appends a new key at the end -/
theorem keys_put_eq (m : List (K × V)) (k : K) (v : V) :
    keys (put m k v) = if has m k then keys m else keys m ++ [k] := by
  induction m with
  | nil => simp [put, keys, has, get?]
  | cons p m ih =>
    obtain ⟨k', v'⟩ := p
    by_cases h : k' = k
    · simp [put, keys, has, get?, h]
    · simp only [put, h, if_false, has, get?] at ih ⊢
      simp only [keys, List.map_cons] at ih ⊢
      rw [ih]; split <;> simp [*]

theorem nodup_keys_put (m : List (K × V)) (k : K) (v : V) (h : (keys m).Nodup) :
    (keys (put m k v)).Nodup := by
  rw [keys_put_eq]
  split
  · exact h
  · rename_i hk
    have : k ∉ keys m := fun hm => hk ((has_iff_mem_keys m k).mpr hm)
    exact List.nodup_append.mpr ⟨h, by simp, by
      intro a ha b hb; simp at hb; subst hb; intro hab; subst hab; exact this ha⟩

theorem keys_erase_eq (m : List (K × V)) (k : K) : keys (erase m k) = (keys m).erase k := by
  induction m with
  | nil => simp [erase, keys]
  | cons p m ih =>
    obtain ⟨k', v'⟩ := p
    by_cases h : k' = k
    · simp [erase, keys, h]
    · simp only [erase, h, if_false, keys, List.map_cons] at ih ⊢
      rw [List.erase_cons_tail (by simpa using h)]
      simp [ih]

theorem nodup_keys_erase (m : List (K × V)) (k : K) (h : (keys m).Nodup) :
    (keys (erase m k)).Nodup := by
  rw [keys_erase_eq]; exact h.erase k

theorem get?_erase (m : List (K × V)) (k j : K) (h : (keys m).Nodup) :
    get? (erase m k) j = if j = k then none else get? m j := by
  induction m with
  | nil => simp [erase, get?]
  | cons p m ih =>
    obtain ⟨k', v'⟩ := p
    simp only [keys, List.map_cons, List.nodup_cons] at h
    by_cases hk : k' = k
    · subst hk
      simp only [erase, if_true]
      by_cases hj : j = k'
      · subst hj; simp only [if_true]
        exact get?_eq_none_of_not_mem m j h.1
      · have : ¬ k' = j := fun h => hj h.symm
        simp [get?, hj, this]
    · simp only [erase, hk, if_false, get?]
      by_cases hj : k' = j
      · subst hj
        have : ¬ k' = k := hk
        simp [this]
      · simp only [hj, if_false]
        exact ih h.2

theorem has_erase (m : List (K × V)) (k j : K) (h : (keys m).Nodup) :
    has (erase m k) j = (!decide (j = k) && has m j) := by
  simp only [has, get?_erase m k j h]
  by_cases hj : j = k <;> simp [hj]

theorem get?_update (m o : List (K × V)) (j : K) :
    get? (update m o) j = match get? o.reverse j with
      | some v => some v
      | none => get? m j := by
  unfold update
  induction o generalizing m with
  | nil => simp [get?]
  | cons p o ih =>
    obtain ⟨k, v⟩ := p
    simp only [List.foldl_cons, List.reverse_cons]
    rw [ih]
    have happ : ∀ (l : List (K × V)), get? (l ++ [(k, v)]) j =
        match get? l j with | some w => some w | none => if k = j then some v else none := by
      intro l
      induction l with
      | nil => simp [get?]
      | cons q l ihl =>
        obtain ⟨k2, v2⟩ := q
        simp only [List.cons_append, get?]
        split
        · rfl
        · exact ihl
    rw [happ]
    cases get? o.reverse j with
    | some w => rfl
    | none =>
      simp only [get?_put]
      by_cases hkj : k = j
      · simp [hkj]
      · have : ¬ j = k := fun h => hkj h.symm
        simp [hkj, this]

theorem nodup_keys_update (m o : List (K × V)) (h : (keys m).Nodup) : (keys (update m o)).Nodup := by
  unfold update
  induction o generalizing m with
  | nil => simpa
  | cons p o ih => simp only [List.foldl_cons]; exact ih _ (nodup_keys_put m p.1 p.2 h)

theorem has_update_of_has (m o : List (K × V)) (j : K) (h : has m j = true) : has (update m o) j = true := by
  unfold update
  induction o generalizing m with
  | nil => simpa
  | cons p o ih =>
    simp only [List.foldl_cons]; apply ih; rw [has_put]; simp [h]

theorem length_update_ge (m o : List (K × V)) : m.length ≤ (update m o).length := by
  unfold update
  induction o generalizing m with
  | nil => simp
  | cons p o ih =>
    simp only [List.foldl_cons]
    refine Nat.le_trans ?_ (ih _)
    rw [length_put]; split <;> omega

end AMap

/-! ### insertion sort -/

theorem insertBy_perm {α : Type} (le : α → α → Bool) (x : α) (l : List α) : (insertBy le x l).Perm (x :: l) := by
  induction l with
  | nil => exact List.Perm.refl _
  | cons y ys ih =>
    simp only [insertBy]
    split
    · exact List.Perm.refl _
    · exact (List.Perm.cons y ih).trans (List.Perm.swap x y ys)

theorem isort_perm {α : Type} (le : α → α → Bool) (l : List α) : (isort le l).Perm l := by
  induction l with
  | nil => exact List.Perm.refl _
  | cons x xs ih => exact (insertBy_perm le x _).trans (List.Perm.cons x ih)

theorem insertBy_pairwise {α : Type} (le : α → α → Bool)
    (trans : ∀ a b c, le a b = true → le b c = true → le a c = true)
    (total : ∀ a b, (le a b || le b a) = true) (x : α) (l : List α)
    (h : l.Pairwise (fun a b => le a b = true)) : (insertBy le x l).Pairwise (fun a b => le a b = true) := by
  induction l with
  | nil => simp [insertBy]
  | cons y ys ih =>
    simp only [insertBy]
    have hy := List.pairwise_cons.mp h
    split
    · rename_i hxy
      refine List.pairwise_cons.mpr ⟨?_, h⟩
      intro a ha
      rcases List.mem_cons.mp ha with rfl | ha
      · exact hxy
      · exact trans _ _ _ hxy (hy.1 a ha)
    · rename_i hxy
      have hyx : le y x = true := by
        have := total x y
        simp only [Bool.or_eq_true] at this
        rcases this with h1 | h1
        · exact absurd h1 hxy
        · exact h1
      refine List.pairwise_cons.mpr ⟨?_, ih hy.2⟩
      intro a ha
      have := (insertBy_perm le x ys).mem_iff.mp ha
      rcases List.mem_cons.mp this with rfl | ha'
      · exact hyx
      · exact hy.1 a ha'

theorem isort_pairwise {α : Type} (le : α → α → Bool)
    (trans : ∀ a b c, le a b = true → le b c = true → le a c = true)
    (total : ∀ a b, (le a b || le b a) = true) (l : List α) :
    (isort le l).Pairwise (fun a b => le a b = true) := by
  induction l with
  | nil => simp [isort]
  | cons x xs ih => exact insertBy_pairwise le trans total x _ ih

theorem mem_isort {α : Type} (le : α → α → Bool) (l : List α) (a : α) : a ∈ isort le l ↔ a ∈ l :=
  (isort_perm le l).mem_iff

end Klepto
