import Klepto.Lemmas.Basic
/-! Counters are touched only where the code increments them. -/
namespace Klepto
open AMap
set_option linter.unusedSectionVars false
variable {K V : Type} [DecidableEq K]

/-- the three counters of `info()` -/
def St.stats (s : St K V) : Nat × Nat × Nat := (s.hit, s.miss, s.load)

theorem lfu_fold_stats (vs : List (K × Nat)) (s : St K V) :
    (vs.foldl (fun s p => { evictOne s p.1 with uc := erase s.uc p.1 }) s).stats = s.stats := by
  induction vs generalizing s with
  | nil => rfl
  | cons p vs ih => simp only [List.foldl_cons]; rw [ih]; rfl

theorem overflow_stats (cfg : Cfg) (s s' : St K V) (victim : Option K)
    (h : overflow cfg s victim = some s') : s'.stats = s.stats := by
  unfold overflow at h
  split at h
  · split at h
    · cases h; rfl
    · split at h
      · cases h; exact lfu_fold_stats _ _
      · split at h
        · cases h
        · cases h; rfl
      · split at h
        · cases h
        · cases h; rfl
      · split at h <;> cases h <;> rfl
      · cases h; rfl
  · cases h; rfl

@[simp] theorem post_stats (cfg : Cfg) (s : St K V) (k : K) : (post cfg s k).stats = s.stats := by
  simp [St.stats]

@[simp] theorem useKey_stats (cfg : Cfg) (s : St K V) (k : K) : (useKey cfg s k).stats = s.stats := by
  simp [St.stats]

/-- `finish` never touches the counters (even when it ends in `IndexError`) -/
theorem finish_stats (cfg : Cfg) (s2 : St K V) (k : K) (v : V) (n : Nat) (vi : Option K) :
    (finish cfg s2 k v n vi).1.stats = s2.stats := by
  unfold finish
  split
  · rfl
  · split
    · rfl
    · rename_i s3 ho; simp [overflow_stats cfg s2 s3 vi ho]

end Klepto
