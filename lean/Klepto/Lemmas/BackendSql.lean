import Klepto.Lemmas.DictSpec
/-! Lemmas about the sqlite row-list model (`SqlB`): the view of a row list is "last row wins". -/
namespace Klepto.Backend
open Klepto AMap
variable {K V : Type} [DecidableEq K]

theorem sqlGet_nil (j : K) : sqlGet ([] : SqlSt K V) j = none := rfl

theorem sqlGet_append_single (rows : SqlSt K V) (k j : K) (v : V) :
    sqlGet (rows ++ [(k, v)]) j = if j = k then some v else sqlGet rows j := by
  unfold sqlGet
  rw [List.filter_append]
  by_cases hj : j = k
  · subst hj; simp
  · have : ¬ k = j := fun h => hj h.symm
    simp [hj, this]

theorem sqlGet_delete (rows : SqlSt K V) (k j : K) :
    sqlGet (sqlDelete rows k) j = if j = k then none else sqlGet rows j := by
  unfold sqlGet sqlDelete
  rw [List.filter_filter]
  by_cases hj : j = k
  · subst hj
    have : (rows.filter fun r => decide (r.1 = j) && decide (r.1 ≠ j)) = [] := by
      apply List.filter_eq_nil_iff.mpr; intro a _; by_cases h : a.1 = j <;> simp [h]
    simp [this]
  · simp only [hj, if_false]
    congr 2
    apply List.filter_congr
    intro a _
    by_cases h : a.1 = j
    · simp [h, hj]
    · simp [h]

theorem view_sqlInsertOk (rows : SqlSt K V) (k : K) (v : V) :
    sqlGet (rows ++ [(k, v)]) = View.put (sqlGet rows) k v := by
  funext j; simp [View.put, sqlGet_append_single]

theorem view_sqlDelete (rows : SqlSt K V) (k : K) : sqlGet (sqlDelete rows k) = View.del (sqlGet rows) k := by
  funext j; simp [View.del, sqlGet_delete]

theorem sqlGet_cons (p : K × V) (rows : SqlSt K V) (j : K) :
    sqlGet (p :: rows) j = match sqlGet rows j with | some w => some w | none => if p.1 = j then some p.2 else none := by
  unfold sqlGet
  by_cases h : p.1 = j
  · simp only [List.filter_cons, h, decide_true, if_true]
    cases hf : rows.filter (fun r => decide (r.1 = j)) with
    | nil => simp
    | cons a l =>
      rw [List.getLast?_cons_cons]
      cases hl : (a :: l).getLast? with
      | none => simp at hl
      | some w => rfl
  · have hf : List.filter (fun r => decide (r.1 = j)) (p :: rows) = List.filter (fun r => decide (r.1 = j)) rows := by
      simp [List.filter_cons, h]
    rw [hf]
    simp only [h, if_false]
    generalize ((rows.filter fun r => decide (r.1 = j)).getLast?) = o
    cases o <;> rfl

theorem get?_reverse_eq_sqlGet (rows : SqlSt K V) (j : K) : get? rows.reverse j = sqlGet rows j := by
  induction rows with
  | nil => rfl
  | cons p rows ih =>
    obtain ⟨k, v⟩ := p
    rw [List.reverse_cons, get?_append_single, sqlGet_cons, ih]
    cases sqlGet rows j <;> rfl

theorem view_sqlDict (rows : SqlSt K V) : get? (sqlDict rows) = sqlGet rows := by
  funext j
  unfold sqlDict normalize
  rw [get?_update, get?_reverse_eq_sqlGet]
  cases sqlGet rows j <;> simp [get?]

theorem nodup_sqlDict (rows : SqlSt K V) : (keys (sqlDict rows)).Nodup :=
  nodup_keys_update [] rows (by simp [keys])

theorem itemsOf_sqlDict (rows : SqlSt K V) : ItemsOf (sqlGet rows) (sqlDict rows) := by
  have := itemsOf_self (sqlDict rows) (nodup_sqlDict rows)
  rwa [view_sqlDict] at this

theorem view_del_of_none (d : View K V) (k : K) (h : d k = none) : d.del k = d := by
  funext j; by_cases hj : j = k <;> simp [View.del, hj, h]

theorem view_put_of_some (d : View K V) (k : K) (v : V) (h : d k = some v) : d.put k v = d := by
  funext j; by_cases hj : j = k <;> simp [View.put, hj, h]

theorem sqlPopSeq_view (x : V) (rows : SqlSt K V) (ks : List K) :
    sqlGet (sqlPopSeq x rows ks).1 = (View.popSeq x (sqlGet rows) ks).1 ∧
    (sqlPopSeq x rows ks).2 = (View.popSeq x (sqlGet rows) ks).2 := by
  induction ks generalizing rows with
  | nil => exact ⟨rfl, rfl⟩
  | cons k ks ih =>
    have := ih (sqlDelete rows k)
    rw [view_sqlDelete] at this
    simp only [sqlPopSeq, View.popSeq]
    exact ⟨this.1, by rw [this.2]⟩

theorem sqlPopAll_view (rows : SqlSt K V) (ks : List K) :
    ∀ r, View.popAll (sqlGet rows) ks = some r →
      sqlGet (sqlPopAll rows ks).1 = r.1 ∧ (sqlPopAll rows ks).2 = some r.2 := by
  induction ks generalizing rows with
  | nil => intro r hr; simp [View.popAll] at hr; subst hr; exact ⟨rfl, rfl⟩
  | cons k ks ih =>
    intro r hr
    simp only [View.popAll] at hr
    cases hg : sqlGet rows k with
    | none => simp [hg] at hr
    | some v =>
      simp only [hg] at hr
      cases hp : View.popAll (View.del (sqlGet rows) k) ks with
      | none => simp [hp] at hr
      | some r' =>
        simp only [hp, Option.map_some, Option.some.injEq] at hr
        subst hr
        have := ih (sqlDelete rows k) r' (by rw [view_sqlDelete]; exact hp)
        simp only [sqlPopAll, hg]
        exact ⟨this.1, by simp [this.2]⟩

theorem get?_reverse_nodup (l : List (K × V)) (h : (keys l).Nodup) (j : K) : get? l.reverse j = get? l j := by
  rw [get?_reverse_eq_sqlGet]
  have := congrFun (view_sqlDict l) j
  rw [← this]
  unfold sqlDict
  rw [normalize_id l h]

theorem putAll_apply (d : View K V) (l : List (K × V)) (j : K) :
    View.putAll d l j = match get? l.reverse j with | some v => some v | none => d j := by
  unfold View.putAll
  induction l generalizing d with
  | nil => rfl
  | cons p l ih =>
    obtain ⟨k, v⟩ := p
    simp only [List.foldl_cons, List.reverse_cons]
    rw [ih, get?_append_single]
    cases get? l.reverse j with
    | some w => rfl
    | none =>
      simp only [View.put]
      by_cases h : j = k
      · subst h; simp
      · have : ¬ k = j := fun hh => h hh.symm
        simp [h, this]

theorem putAll_normalize (d : View K V) (l : List (K × V)) : View.putAll d (normalize l) = View.putAll d l := by
  funext j
  rw [putAll_apply, putAll_apply]
  have h1 : get? (normalize l).reverse j = get? (normalize l) j :=
    get?_reverse_nodup _ (nodup_keys_update [] l (by simp [keys])) j
  have h2 := congrFun (view_sqlDict l) j
  unfold sqlDict at h2
  rw [h1, h2, get?_reverse_eq_sqlGet]

end Klepto.Backend
