import Klepto.Model.Wrapper
/-!
# Equivariance of M1–M3 under an injective renaming of keys

The wrapper, the cache and the dict model use keys only through `=`.  Hence a state whose keys
were all renamed by an injective `φ : K → K'` (and whose values were mapped by any `ψ : V → V'`)
behaves, on renamed operations, exactly like the original — step by step, output by output.

This is what a serialisation round trip does to a state: every key and value is rebuilt as a new
object (a new identity), equal objects are rebuilt equal and distinct ones distinct.  Core only.
-/
namespace Klepto
open AMap
set_option linter.unusedSectionVars false
set_option linter.unusedSimpArgs false
variable {K K' V V' : Type} [DecidableEq K] [DecidableEq K']

def Inj (φ : K → K') : Prop := ∀ a b, φ a = φ b → a = b

/-- rename an association list -/
def mapKV (φ : K → K') (ψ : V → V') (m : List (K × V)) : List (K' × V') := m.map (fun p => (φ p.1, ψ p.2))

namespace AMap
variable {φ : K → K'} {ψ : V → V'}

@[simp] theorem mapKV_nil : mapKV φ ψ ([] : List (K × V)) = [] := rfl
@[simp] theorem mapKV_cons (k : K) (v : V) (m : List (K × V)) :
    mapKV φ ψ ((k, v) :: m) = (φ k, ψ v) :: mapKV φ ψ m := rfl
@[simp] theorem length_mapKV (m : List (K × V)) : (mapKV φ ψ m).length = m.length := by simp [mapKV]

theorem get?_mapKV (hφ : Inj φ) (m : List (K × V)) (k : K) :
    get? (mapKV φ ψ m) (φ k) = (get? m k).map ψ := by
  induction m with
  | nil => rfl
  | cons p m ih =>
    obtain ⟨k', v⟩ := p
    by_cases h : k' = k
    · simp [get?, h]
    · have : φ k' ≠ φ k := fun e => h (hφ _ _ e)
      simp [get?, h, this, ih]

theorem has_mapKV (hφ : Inj φ) (m : List (K × V)) (k : K) : has (mapKV φ ψ m) (φ k) = has m k := by
  simp [has, get?_mapKV hφ]

theorem put_mapKV (hφ : Inj φ) (m : List (K × V)) (k : K) (v : V) :
    put (mapKV φ ψ m) (φ k) (ψ v) = mapKV φ ψ (put m k v) := by
  induction m with
  | nil => rfl
  | cons p m ih =>
    obtain ⟨k', v'⟩ := p
    by_cases h : k' = k
    · simp [put, h]
    · have : φ k' ≠ φ k := fun e => h (hφ _ _ e)
      simp [put, h, this, ih]

theorem erase_mapKV (hφ : Inj φ) (m : List (K × V)) (k : K) :
    erase (mapKV φ ψ m) (φ k) = mapKV φ ψ (erase m k) := by
  induction m with
  | nil => rfl
  | cons p m ih =>
    obtain ⟨k', v'⟩ := p
    by_cases h : k' = k
    · simp [erase, h]
    · have : φ k' ≠ φ k := fun e => h (hφ _ _ e)
      simp [erase, h, this, ih]

theorem update_mapKV (hφ : Inj φ) (m o : List (K × V)) :
    update (mapKV φ ψ m) (mapKV φ ψ o) = mapKV φ ψ (update m o) := by
  induction o generalizing m with
  | nil => rfl
  | cons p o ih =>
    obtain ⟨k, v⟩ := p
    simp only [update, mapKV_cons, List.foldl_cons] at ih ⊢
    rw [put_mapKV hφ]; exact ih _

end AMap

/-! ### the cache -/
def Cache.rename (φ : K → K') (ψ : V → V') (c : Cache K V) : Cache K' V' :=
  { mem := mapKV φ ψ c.mem, arch := c.arch.map (mapKV φ ψ), swap := c.swap.map (mapKV φ ψ), bare := c.bare }

namespace Cache
variable {φ : K → K'} {ψ : V → V'}

@[simp] theorem rename_archived (c : Cache K V) : (c.rename φ ψ).archived = c.archived := by
  simp [rename, archived]

theorem rename_load1 (hφ : Inj φ) (c : Cache K V) (k : K) :
    (c.rename φ ψ).load1 (φ k) = (c.load1 k).rename φ ψ := by
  obtain ⟨mem, arch, swap, bare⟩ := c
  cases arch with
  | none => simp [load1, rename]
  | some a =>
    simp only [load1, rename, Option.map_some, AMap.get?_mapKV hφ]
    cases hg : get? a k with
    | none => simp
    | some v => simp [AMap.put_mapKV hφ]

theorem rename_dump1 (hφ : Inj φ) (c : Cache K V) (k : K) :
    (c.rename φ ψ).dump1 (φ k) = (c.dump1 k).rename φ ψ := by
  obtain ⟨mem, arch, swap, bare⟩ := c
  cases arch with
  | none => simp [dump1, rename]
  | some a =>
    simp only [dump1, rename, Option.map_some, AMap.get?_mapKV hφ]
    cases hg : get? mem k with
    | none => simp
    | some v => simp [AMap.put_mapKV hφ]

theorem rename_dumpAll (hφ : Inj φ) (c : Cache K V) :
    (c.rename φ ψ).dumpAll = c.dumpAll.rename φ ψ := by
  obtain ⟨mem, arch, swap, bare⟩ := c
  cases arch with
  | none => simp [dumpAll, rename]
  | some a => simp [dumpAll, rename, AMap.update_mapKV hφ]

theorem rename_loadAll (hφ : Inj φ) (c : Cache K V) :
    (c.rename φ ψ).loadAll = c.loadAll.rename φ ψ := by
  obtain ⟨mem, arch, swap, bare⟩ := c
  cases arch with
  | none => simp [loadAll, rename]
  | some a => simp [loadAll, rename, AMap.update_mapKV hφ]

theorem rename_loadKeys (hφ : Inj φ) (c : Cache K V) (ks : List K) :
    (c.rename φ ψ).loadKeys (ks.map φ) = (c.loadKeys ks).rename φ ψ := by
  induction ks generalizing c with
  | nil => rfl
  | cons k ks ih => simp only [loadKeys, List.map_cons, List.foldl_cons] at ih ⊢; rw [rename_load1 hφ]; exact ih _

theorem rename_dumpKeys (hφ : Inj φ) (c : Cache K V) (ks : List K) :
    (c.rename φ ψ).dumpKeys (ks.map φ) = (c.dumpKeys ks).rename φ ψ := by
  induction ks generalizing c with
  | nil => rfl
  | cons k ks ih => simp only [dumpKeys, List.map_cons, List.foldl_cons] at ih ⊢; rw [rename_dump1 hφ]; exact ih _

theorem rename_delMem (hφ : Inj φ) (c : Cache K V) (k : K) :
    (c.rename φ ψ).delMem (φ k) = (c.delMem k).rename φ ψ := by
  simp [delMem, rename, AMap.erase_mapKV hφ]

@[simp] theorem rename_clearMem (c : Cache K V) : (c.rename φ ψ).clearMem = c.clearMem.rename φ ψ := by
  simp [clearMem, rename]

theorem rename_setArchive (c : Cache K V) (a : Option (List (K × V))) :
    (c.rename φ ψ).setArchive (a.map (mapKV φ ψ)) = (c.setArchive a).rename φ ψ := by
  obtain ⟨mem, arch, swap, bare⟩ := c
  cases swap <;> simp [setArchive, rename]

theorem rename_swapDance (c : Cache K V) : (c.rename φ ψ).swapDance = c.swapDance.rename φ ψ := by
  obtain ⟨mem, arch, swap, bare⟩ := c
  cases arch <;> cases swap <;> simp [swapDance, setArchive, rename]

theorem rename_archivedOn (c : Cache K V) :
    (c.rename φ ψ).archivedOn = c.archivedOn.map (rename φ ψ) := by
  obtain ⟨mem, arch, swap, bare⟩ := c
  cases bare <;> cases arch <;> cases swap <;> simp [archivedOn, swapDance, setArchive, rename]

theorem rename_archivedOff (c : Cache K V) :
    (c.rename φ ψ).archivedOff = c.archivedOff.map (rename φ ψ) := by
  obtain ⟨mem, arch, swap, bare⟩ := c
  cases bare <;> cases arch <;> cases swap <;> simp [archivedOff, swapDance, setArchive, rename]

theorem rename_extPut (hφ : Inj φ) (c : Cache K V) (k : K) (v : V) :
    (c.rename φ ψ).extPut (φ k) (ψ v) = (c.extPut k v).rename φ ψ := by
  obtain ⟨mem, arch, swap, bare⟩ := c
  cases arch <;> simp [extPut, rename, AMap.put_mapKV hφ]

theorem rename_extDel (hφ : Inj φ) (c : Cache K V) (k : K) :
    (c.rename φ ψ).extDel (φ k) = (c.extDel k).rename φ ψ := by
  obtain ⟨mem, arch, swap, bare⟩ := c
  cases arch <;> simp [extDel, rename, AMap.erase_mapKV hφ]

end Cache
end Klepto

/-! ### the wrapper -/
namespace Klepto
open AMap
set_option linter.unusedSectionVars false
set_option linter.unusedSimpArgs false
variable {K K' V V' : Type} [DecidableEq K] [DecidableEq K']

def St.rename (φ : K → K') (ψ : V → V') (s : St K V) : St K' V' :=
  { c := s.c.rename φ ψ, queue := s.queue.map φ, rc := mapKV φ id s.rc, uc := mapKV φ id s.uc,
    hit := s.hit, miss := s.miss, load := s.load }

def KeyIn.rename (φ : K → K') : KeyIn K → KeyIn K'
  | .ok k => .ok (φ k)
  | .genError e => .genError e
  | .unhashable e => .unhashable e

def exMap (ψ : V → V') : Except Exc V → Except Exc V'
  | .ok v => .ok (ψ v)
  | .error e => .error e

def CallIn.rename (φ : K → K') (ψ : V → V') (ci : CallIn K V) : CallIn K' V' :=
  { key := ci.key.rename φ, fn := exMap ψ ci.fn, victim := ci.victim.map φ }

def Out.rename (ψ : V → V') : Out V → Out V'
  | .ret v n => .ret (ψ v) n
  | .raised e n => .raised e n
  | .unit => .unit
  | .info h m l ms sz => .info h m l ms sz
  | .flag b => .flag b

def Op.rename (φ : K → K') (ψ : V → V') : Op K V → Op K' V'
  | .call ci => .call (ci.rename φ ψ)
  | .lookup key => .lookup (key.rename φ)
  | .clear keep => .clear keep
  | .load ks => .load (ks.map φ)
  | .loadAll => .loadAll
  | .dump ks => .dump (ks.map φ)
  | .dumpAll => .dumpAll
  | .archivedOn => .archivedOn
  | .archivedOff => .archivedOff
  | .archivedQ => .archivedQ
  | .setArchive a => .setArchive (a.map (mapKV φ ψ))
  | .extPut k v => .extPut (φ k) (ψ v)
  | .extDel k => .extDel (φ k)
  | .info => .info

/-- a pair (state, output) renamed -/
def renP (φ : K → K') (ψ : V → V') (r : St K V × Out V) : St K' V' × Out V' := (r.1.rename φ ψ, r.2.rename ψ)

section
variable {φ : K → K'} {ψ : V → V'}

theorem cget_rename (hφ : Inj φ) (m : List (K × Int)) (k : K) : cget (mapKV φ id m) (φ k) = cget m k := by
  simp [cget, AMap.get?_mapKV hφ]

theorem ucget_rename (hφ : Inj φ) (m : List (K × Nat)) (k : K) : ucget (mapKV φ id m) (φ k) = ucget m k := by
  simp [ucget, AMap.get?_mapKV hφ]

theorem lruLoop_rename (hφ : Inj φ) (q : List K) (rc : List (K × Int)) :
    lruLoop (q.map φ) (mapKV φ id rc) =
      (lruLoop q rc).map (fun r => (φ r.1, r.2.1.map φ, mapKV φ id r.2.2)) := by
  induction q generalizing rc with
  | nil => rfl
  | cons k q ih =>
    simp only [List.map_cons, lruLoop, cget_rename hφ]
    have hp : put (mapKV φ id rc) (φ k) (cget rc k - 1) = mapKV φ id (put rc k (cget rc k - 1)) := by
      have := AMap.put_mapKV (ψ := (id : Int → Int)) hφ rc k (cget rc k - 1)
      simpa using this
    rw [hp, cget_rename hφ]
    by_cases h : cget (put rc k (cget rc k - 1)) k = 0
    · simp [h]
    · simp [h, ih]

theorem mem_map_inj (hφ : Inj φ) (k : K) (l : List K) : φ k ∈ l.map φ ↔ k ∈ l := by
  constructor
  · intro h
    obtain ⟨a, ha, e⟩ := List.mem_map.mp h
    exact hφ _ _ e ▸ ha
  · exact fun h => List.mem_map.mpr ⟨k, h, rfl⟩

theorem compactQ_rename (hφ : Inj φ) (q : List K) : compactQ (q.map φ) = (compactQ q).map φ := by
  unfold compactQ
  rw [← List.map_reverse]
  generalize q.reverse = r
  suffices h : ∀ (acc : List K), List.foldl (fun acc k => if k ∈ acc then acc else k :: acc) (acc.map φ) (r.map φ) =
      (List.foldl (fun acc k => if k ∈ acc then acc else k :: acc) acc r).map φ by simpa using h []
  induction r with
  | nil => intro acc; rfl
  | cons k r ih =>
    intro acc
    simp only [List.map_cons, List.foldl_cons, mem_map_inj hφ]
    by_cases h : k ∈ acc
    · simp [h, ih]
    · simpa [h] using ih (k :: acc)

theorem nsmallest_rename (n : Nat) (uc : List (K × Nat)) :
    nsmallest n (mapKV φ id uc) = mapKV φ id (nsmallest n uc) := by
  unfold nsmallest mapKV
  rw [List.map_take]
  congr 1
  exact (List.map_mergeSort (f := fun p : K × Nat => (φ p.1, id p.2)) (r := fun a b => decide (a.2 ≤ b.2))
    (s := fun a b => decide (a.2 ≤ b.2)) (fun a _ b _ => rfl)).symm

theorem useKey_rename (hφ : Inj φ) (cfg : Cfg) (s : St K V) (k : K) :
    useKey cfg (s.rename φ ψ) (φ k) = (useKey cfg s k).rename φ ψ := by
  unfold useKey
  cases cfg.algo <;> simp only [St.rename]
  · -- lfu
    have := AMap.put_mapKV (ψ := (id : Nat → Nat)) hφ s.uc k (ucget s.uc k + 1)
    simp [ucget_rename hφ, this] 
    simpa using this
  · -- lru
    have := AMap.put_mapKV (ψ := (id : Int → Int)) hφ s.rc k (cget s.rc k + 1)
    simp [cget_rename hφ]
    simpa using this

theorem evictOne_rename (hφ : Inj φ) (s : St K V) (k : K) :
    evictOne (s.rename φ ψ) (φ k) = (evictOne s k).rename φ ψ := by
  simp [evictOne, St.rename, Cache.rename_dump1 hφ, Cache.rename_delMem hφ]


theorem lfuFold_rename (hφ : Inj φ) (vs : List (K × Nat)) (s : St K V) :
    (mapKV φ id vs).foldl (fun s p => { evictOne s p.1 with uc := erase s.uc p.1 }) (s.rename φ ψ) =
    (vs.foldl (fun s p => { evictOne s p.1 with uc := erase s.uc p.1 }) s).rename φ ψ := by
  induction vs generalizing s with
  | nil => rfl
  | cons p vs ih =>
    obtain ⟨k, n⟩ := p
    simp only [mapKV_cons, List.foldl_cons]
    have h1 : ({ evictOne (s.rename φ ψ) (φ k) with uc := erase (s.rename φ ψ).uc (φ k) } : St K' V') =
        ({ evictOne s k with uc := erase s.uc k } : St K V).rename φ ψ := by
      rw [evictOne_rename hφ]
      have := AMap.erase_mapKV (ψ := (id : Nat → Nat)) hφ s.uc k
      simp [St.rename, this]
    rw [h1]; exact ih _

theorem overflow_rename (hφ : Inj φ) (cfg : Cfg) (s : St K V) (victim : Option K) :
    overflow cfg (s.rename φ ψ) (victim.map φ) = (overflow cfg s victim).map (St.rename φ ψ) := by
  unfold overflow
  have hlen : (s.rename φ ψ).c.mem.length = s.c.mem.length := by simp [St.rename, Cache.rename]
  have harch : (s.rename φ ψ).c.archived = s.c.archived := by simp [St.rename]
  rw [hlen, harch]
  by_cases hgt : s.c.mem.length > cfg.maxsize
  · simp only [hgt, if_true]
    by_cases hp : (s.c.archived && cfg.purge) = true
    · simp only [hp, if_true, Option.map_some]
      simp [St.rename, Cache.rename_dumpAll hφ]
    · simp only [hp]
      cases halgo : cfg.algo with
      | no => simp
      | inf => simp
      | lfu =>
        simp only [Option.map_some, Bool.false_eq_true, if_false]
        have : (s.rename φ ψ).uc = mapKV φ id s.uc := rfl
        rw [this, nsmallest_rename, lfuFold_rename hφ]
      | lru =>
        simp only [Bool.false_eq_true, if_false]
        have hq : (s.rename φ ψ).queue = s.queue.map φ := rfl
        have hr : (s.rename φ ψ).rc = mapKV φ id s.rc := rfl
        rw [hq, hr, lruLoop_rename hφ]
        cases hl : lruLoop s.queue s.rc with
        | none => simp
        | some r =>
          obtain ⟨k, q, rc⟩ := r
          simp only [Option.map_some]
          rw [evictOne_rename hφ]
          have := AMap.erase_mapKV (ψ := (id : Int → Int)) hφ rc k
          simp [St.rename, this]
      | mru =>
        simp only [Bool.false_eq_true, if_false]
        have hq : (s.rename φ ψ).queue = s.queue.map φ := rfl
        rw [hq, List.getLast?_map]
        cases hl : s.queue.getLast? with
        | none => simp
        | some k =>
          simp only [Option.map_some]
          rw [evictOne_rename hφ]
          simp [St.rename]
      | rr =>
        simp only [Bool.false_eq_true, if_false]
        cases victim with
        | none => simp
        | some k => simp [evictOne_rename hφ]
  · simp [hgt]

theorem post_rename (hφ : Inj φ) (cfg : Cfg) (s : St K V) (k : K) :
    post cfg (s.rename φ ψ) (φ k) = (post cfg s k).rename φ ψ := by
  unfold post
  cases cfg.algo <;> simp only [St.rename]
  · -- lru
    simp only [List.length_map]
    by_cases h : s.queue.length > cfg.maxsize * 10
    · simp only [h, if_true, compactQ_rename hφ]
      simp [mapKV, List.map_map, Function.comp_def]
    · simp [h]
  · -- mru
    simp

theorem evalDirect_rename (s : St K V) (fn : Except Exc V) :
    evalDirect (s.rename φ ψ) (exMap ψ fn) = renP φ ψ (evalDirect s fn) := by
  cases fn <;> simp [evalDirect, exMap, renP, St.rename, Out.rename]

theorem preload_rename (hφ : Inj φ) (c : Cache K V) (k : K) :
    (c.rename φ ψ).preload (φ k) = (c.preload k).rename φ ψ := by
  unfold Cache.preload
  rw [Cache.rename_archived]
  cases c.archived <;> simp [Cache.rename_load1 hφ]

theorem keyFail_rename (cfg : Cfg) (s : St K V) (fn : Except Exc V) (e : Exc) :
    keyFail cfg (s.rename φ ψ) (exMap ψ fn) e = renP φ ψ (keyFail cfg s fn e) := by
  unfold keyFail
  cases cfg.safe <;> simp [evalDirect_rename, renP, Out.rename]

theorem erase_map_inj (hφ : Inj φ) (l : List K) (k : K) : (l.map φ).erase (φ k) = (l.erase k).map φ := by
  induction l with
  | nil => rfl
  | cons a l ih =>
    by_cases h : a = k
    · simp [h]
    · have h' : φ a ≠ φ k := fun e => h (hφ _ _ e)
      simp [List.erase_cons, h, h', ih]

theorem hitStep_rename (hφ : Inj φ) (cfg : Cfg) (s : St K V) (k : K) (v : V) :
    hitStep cfg (s.rename φ ψ) (φ k) (ψ v) = renP φ ψ (hitStep cfg s k v) := by
  unfold hitStep renP
  by_cases h : cfg.algo = .mru
  · simp only [h, if_true, Out.rename]
    have e : (⟨(s.rename φ ψ).c, (s.rename φ ψ).queue.erase (φ k), (s.rename φ ψ).rc, (s.rename φ ψ).uc,
        (s.rename φ ψ).hit + 1, (s.rename φ ψ).miss, (s.rename φ ψ).load⟩ : St K' V') =
        St.rename φ ψ ⟨s.c, s.queue.erase k, s.rc, s.uc, s.hit + 1, s.miss, s.load⟩ := by
      simp [St.rename, erase_map_inj hφ]
    rw [e, post_rename hφ]
  · simp only [h, if_false, Out.rename]
    rw [useKey_rename hφ]
    have e : (⟨((useKey cfg s k).rename φ ψ).c, ((useKey cfg s k).rename φ ψ).queue, ((useKey cfg s k).rename φ ψ).rc,
        ((useKey cfg s k).rename φ ψ).uc, ((useKey cfg s k).rename φ ψ).hit + 1, ((useKey cfg s k).rename φ ψ).miss,
        ((useKey cfg s k).rename φ ψ).load⟩ : St K' V') =
        St.rename φ ψ ⟨(useKey cfg s k).c, (useKey cfg s k).queue, (useKey cfg s k).rc, (useKey cfg s k).uc,
          (useKey cfg s k).hit + 1, (useKey cfg s k).miss, (useKey cfg s k).load⟩ := by
      simp [St.rename]
    rw [e, post_rename hφ]

theorem finish_rename (hφ : Inj φ) (cfg : Cfg) (s : St K V) (k : K) (v : V) (n : Nat) (victim : Option K) :
    finish cfg (s.rename φ ψ) (φ k) (ψ v) n (victim.map φ) = renP φ ψ (finish cfg s k v n victim) := by
  unfold finish renP
  by_cases h : cfg.algo = .inf
  · simp [h, Out.rename]
  · simp only [h, if_false]
    rw [overflow_rename hφ]
    cases overflow cfg s victim with
    | none => simp [Out.rename]
    | some s3 => simp [Out.rename, post_rename hφ]


theorem loadStep_rename (hφ : Inj φ) (cfg : Cfg) (s : St K V) (k : K) (v : V) (victim : Option K) :
    loadStep cfg (s.rename φ ψ) (φ k) (ψ v) (victim.map φ) = renP φ ψ (loadStep cfg s k v victim) := by
  unfold loadStep
  have e1 : ({ (s.rename φ ψ) with c := (s.rename φ ψ).c.preload (φ k) } : St K' V') =
      ({ s with c := s.c.preload k } : St K V).rename φ ψ := by
    have := preload_rename (ψ := ψ) hφ s.c k
    simp [St.rename, this]
  simp only []
  rw [e1, useKey_rename hφ]
  rw [← finish_rename hφ]
  congr 1

theorem missStep_rename (hφ : Inj φ) (cfg : Cfg) (s : St K V) (k : K) (v : V) (victim : Option K) :
    missStep cfg (s.rename φ ψ) (φ k) (ψ v) (victim.map φ) = renP φ ψ (missStep cfg s k v victim) := by
  unfold missStep
  have e1 : ({ (s.rename φ ψ) with c := { ((s.rename φ ψ).c.preload (φ k)) with
        mem := put ((s.rename φ ψ).c.preload (φ k)).mem (φ k) (ψ v) } } : St K' V') =
      ({ s with c := { (s.c.preload k) with mem := put (s.c.preload k).mem k v } } : St K V).rename φ ψ := by
    have h1 : (s.c.rename φ ψ).preload (φ k) = (s.c.preload k).rename φ ψ := preload_rename (ψ := ψ) hφ s.c k
    have h2 := AMap.put_mapKV (ψ := ψ) hφ (s.c.preload k).mem k v
    simp only [St.rename]
    rw [h1]
    simp [Cache.rename, h2]
  simp only []
  rw [e1, useKey_rename hφ]
  rw [← finish_rename hφ]
  congr 1

theorem callCached_rename (hφ : Inj φ) (cfg : Cfg) (s : St K V) (ci : CallIn K V) :
    callCached cfg (s.rename φ ψ) (ci.rename φ ψ) = renP φ ψ (callCached cfg s ci) := by
  obtain ⟨key, fn, victim⟩ := ci
  unfold callCached
  cases key with
  | genError e => simp [CallIn.rename, KeyIn.rename, keyFail_rename]
  | unhashable e => simp [CallIn.rename, KeyIn.rename, keyFail_rename]
  | ok k =>
    simp only [CallIn.rename, KeyIn.rename]
    have hm : get? (s.rename φ ψ).c.mem (φ k) = (get? s.c.mem k).map ψ := by
      simp [St.rename, Cache.rename, AMap.get?_mapKV hφ]
    have hp : get? ((s.rename φ ψ).c.preload (φ k)).mem (φ k) = (get? (s.c.preload k).mem k).map ψ := by
      have h1 : (s.rename φ ψ).c.preload (φ k) = (s.c.preload k).rename φ ψ := preload_rename (ψ := ψ) hφ s.c k
      rw [h1]; simp [Cache.rename, AMap.get?_mapKV hφ]
    rw [hm, hp]
    cases h1 : get? s.c.mem k with
    | some v => simp [hitStep_rename hφ]
    | none =>
      cases h2 : get? (s.c.preload k).mem k with
      | some v => simp [loadStep_rename hφ]
      | none =>
        cases fn with
        | error e => simp [exMap, renP, Out.rename]
        | ok v => simp [exMap, missStep_rename hφ]

theorem callNo_rename (hφ : Inj φ) (cfg : Cfg) (s : St K V) (ci : CallIn K V) :
    callNo cfg (s.rename φ ψ) (ci.rename φ ψ) = renP φ ψ (callNo cfg s ci) := by
  obtain ⟨key, fn, victim⟩ := ci
  unfold callNo
  cases key with
  | genError e => simp [CallIn.rename, KeyIn.rename, keyFail_rename]
  | unhashable e =>
    simp only [CallIn.rename, KeyIn.rename]
    cases cfg.safe with
    | false => simp [renP, Out.rename]
    | true =>
      cases fn with
      | error e' => simp [exMap, renP, Out.rename]
      | ok v =>
        have ha : (s.rename φ ψ).c.archived = s.c.archived := by simp [St.rename]
        simp only [exMap, if_true, ha, renP, Out.rename]
        cases s.c.archived <;> simp [St.rename, Cache.rename_dumpAll hφ]
  | ok k =>
    simp only [CallIn.rename, KeyIn.rename]
    have h1 : (s.rename φ ψ).c.preload (φ k) = (s.c.preload k).rename φ ψ := preload_rename (ψ := ψ) hφ s.c k
    rw [h1]
    have hp : get? ((s.c.preload k).rename φ ψ).mem (φ k) = (get? (s.c.preload k).mem k).map ψ := by
      simp [Cache.rename, AMap.get?_mapKV hφ]
    rw [hp]
    cases h2 : get? (s.c.preload k).mem k with
    | some v => simp [renP, Out.rename, St.rename]
    | none =>
      cases fn with
      | error e => simp [exMap, renP, Out.rename]
      | ok v =>
        simp only [Option.map_none, exMap, renP, Out.rename]
        have hput : ({ ((s.c.preload k).rename φ ψ) with mem := put ((s.c.preload k).rename φ ψ).mem (φ k) (ψ v) } : Cache K' V') =
            ({ (s.c.preload k) with mem := put (s.c.preload k).mem k v } : Cache K V).rename φ ψ := by
          have h2 := AMap.put_mapKV (ψ := ψ) hφ (s.c.preload k).mem k v
          simp [Cache.rename, h2]
        rw [hput, Cache.rename_archived]
        cases ({ (s.c.preload k) with mem := put (s.c.preload k).mem k v } : Cache K V).archived <;>
          simp [St.rename, Cache.rename_dumpAll hφ]

theorem call_rename (hφ : Inj φ) (cfg : Cfg) (s : St K V) (ci : CallIn K V) :
    call cfg (s.rename φ ψ) (ci.rename φ ψ) = renP φ ψ (call cfg s ci) := by
  unfold call
  by_cases h : cfg.algo = .no
  · simp [h, callNo_rename hφ]
  · simp [h, callCached_rename hφ]


theorem step_rename (hφ : Inj φ) (cfg : Cfg) (s : St K V) (op : Op K V) :
    step cfg (s.rename φ ψ) (op.rename φ ψ) = renP φ ψ (step cfg s op) := by
  cases op with
  | call ci => simp [step, Op.rename, call_rename hφ]
  | lookup key =>
    cases key with
    | ok k =>
      have hm : get? (s.rename φ ψ).c.mem (φ k) = (get? s.c.mem k).map ψ := by
        simp [St.rename, Cache.rename, AMap.get?_mapKV hφ]
      simp only [step, Op.rename, KeyIn.rename, hm]
      cases get? s.c.mem k <;> simp [renP, Out.rename]
    | genError e => simp [step, Op.rename, KeyIn.rename, renP, Out.rename]
    | unhashable e => simp [step, Op.rename, KeyIn.rename, renP, Out.rename]
  | clear keep =>
    simp only [step, Op.rename, renP, Out.rename]
    by_cases h : cfg.algo = .no <;> cases keep <;> simp [h, St.rename, St.clearBook, Cache.rename, Cache.clearMem]
  | load ks => simp [step, Op.rename, renP, Out.rename, St.rename, Cache.rename_loadKeys hφ]
  | loadAll => simp [step, Op.rename, renP, Out.rename, St.rename, Cache.rename_loadAll hφ]
  | dump ks => simp [step, Op.rename, renP, Out.rename, St.rename, Cache.rename_dumpKeys hφ]
  | dumpAll => simp [step, Op.rename, renP, Out.rename, St.rename, Cache.rename_dumpAll hφ]
  | archivedOn =>
    have h : (s.rename φ ψ).c.archivedOn = s.c.archivedOn.map (Cache.rename φ ψ) := Cache.rename_archivedOn s.c
    simp only [step, Op.rename, h]
    cases s.c.archivedOn <;> simp [renP, Out.rename, St.rename]
  | archivedOff =>
    have h : (s.rename φ ψ).c.archivedOff = s.c.archivedOff.map (Cache.rename φ ψ) := Cache.rename_archivedOff s.c
    simp only [step, Op.rename, h]
    cases s.c.archivedOff <;> simp [renP, Out.rename, St.rename]
  | archivedQ => simp [step, Op.rename, renP, Out.rename, St.rename]
  | setArchive a =>
    have hb : (s.rename φ ψ).c.bare = s.c.bare := rfl
    have h : (s.rename φ ψ).c.setArchive (a.map (mapKV φ ψ)) = (s.c.setArchive a).rename φ ψ := Cache.rename_setArchive s.c a
    simp only [step, Op.rename, hb, h]
    cases s.c.bare <;> simp [renP, Out.rename, St.rename]
  | extPut k v =>
    have h : (s.rename φ ψ).c.extPut (φ k) (ψ v) = (s.c.extPut k v).rename φ ψ := Cache.rename_extPut hφ s.c k v
    simp [step, Op.rename, renP, Out.rename, h]; simp [St.rename]
  | extDel k =>
    have h : (s.rename φ ψ).c.extDel (φ k) = (s.c.extDel k).rename φ ψ := Cache.rename_extDel hφ s.c k
    simp [step, Op.rename, renP, Out.rename, h]; simp [St.rename]
  | info => simp [step, Op.rename, renP, Out.rename, infoOut, St.rename, Cache.rename]

/-- **equivariance of whole histories**: renamed state, renamed operations ⇒ renamed final state and
renamed outputs, one for one -/
theorem run_rename (hφ : Inj φ) (cfg : Cfg) (s : St K V) (ops : List (Op K V)) :
    run cfg (s.rename φ ψ) (ops.map (Op.rename φ ψ)) =
      ((run cfg s ops).1.rename φ ψ, (run cfg s ops).2.map (Out.rename ψ)) := by
  induction ops generalizing s with
  | nil => rfl
  | cons op ops ih =>
    simp only [List.map_cons, run]
    rw [step_rename hφ]
    simp only [renP]
    rw [ih]

end
end Klepto
