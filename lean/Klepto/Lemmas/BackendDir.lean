import Klepto.Lemmas.BackendSql
/-!
Lemmas about the `dir_archive` model (`DirB`): under the invariant "every directory is named by the
file name of the key it reports" and a key universe on which the file-name map is injective, the
directory tree *is* a dict: `toDict` lists it, and lookups by file name are lookups by key.
-/
namespace Klepto.Backend
open Klepto AMap
set_option linter.unusedSectionVars false
variable {K V : Type} [DecidableEq K]

/-- the dict a directory tree denotes: reported key ↦ value, in listing order -/
def toDict (c : Codec K V) (s : DirSt K V) : List (K × V) := s.map fun p => (entryKey c p.1 p.2, p.2.val)

/-- what the property's quantifier asks of the keys: the backend accepts them — their file names are
distinct, and a key stored without an input file is recovered from its directory name -/
structure DirCodecOK (c : Codec K V) (U : K → Prop) : Prop where
  inj : ∀ a b, U a → U b → c.fname a = c.fname b → a = b
  plain_ok : ∀ k, U k → c.plain k = true → c.strKey (c.fname k) = k

/-- reachable states: directory names are distinct, each directory is named after the key it
reports, and holds a value the codec reads back as stored -/
def DirInv (c : Codec K V) (U : K → Prop) (s : DirSt K V) : Prop :=
  (keys s).Nodup ∧ ∀ p ∈ s, U (entryKey c p.1 p.2) ∧ c.fname (entryKey c p.1 p.2) = p.1 ∧ c.cv p.2.val = some p.2.val

variable {c : Codec K V} {U : K → Prop}

theorem DirInv.tail {p : String × DirEntry K V} {s : DirSt K V} (h : DirInv c U (p :: s)) : DirInv c U s := by
  obtain ⟨hn, hp⟩ := h
  simp only [keys, List.map_cons, List.nodup_cons] at hn
  exact ⟨hn.2, fun q hq => hp q (List.mem_cons_of_mem _ hq)⟩

/-- on an accepted key, "the directory is called `fname k`" and "the directory reports `k`" coincide -/
theorem name_eq_iff (hc : DirCodecOK c U) {p : String × DirEntry K V} {s : DirSt K V} (h : DirInv c U (p :: s))
    {k : K} (hk : U k) : p.1 = c.fname k ↔ entryKey c p.1 p.2 = k := by
  obtain ⟨hu, hf, _⟩ := h.2 p (by simp)
  constructor
  · intro hn; exact hc.inj _ _ hu hk (by rw [hf, hn])
  · intro he; rw [← hf, he]

theorem get?_dir (hc : DirCodecOK c U) (s : DirSt K V) (h : DirInv c U s) (k : K) (hk : U k) :
    (get? s (c.fname k)).map (·.val) = get? (toDict c s) k := by
  induction s with
  | nil => rfl
  | cons p s ih =>
    have hiff := name_eq_iff hc h hk
    simp only [toDict, List.map_cons, get?]
    by_cases hn : p.1 = c.fname k
    · have he := hiff.mp hn
      rw [hn] at he
      simp [hn, he]
    · have : ¬ entryKey c p.1 p.2 = k := fun he => hn (hiff.mpr he)
      simp only [hn, this, if_false]
      exact ih h.tail

theorem dirGet_eq (hc : DirCodecOK c U) (s : DirSt K V) (h : DirInv c U s) (k : K) (hk : U k) :
    dirGet c s k = get? (toDict c s) k := get?_dir hc s h k hk

theorem has_dir (hc : DirCodecOK c U) (s : DirSt K V) (h : DirInv c U s) (k : K) (hk : U k) :
    has s (c.fname k) = (get? (toDict c s) k).isSome := by
  rw [← get?_dir hc s h k hk]; simp [has]

theorem toDict_erase (hc : DirCodecOK c U) (s : DirSt K V) (h : DirInv c U s) (k : K) (hk : U k) :
    toDict c (erase s (c.fname k)) = erase (toDict c s) k := by
  induction s with
  | nil => rfl
  | cons p s ih =>
    have hiff := name_eq_iff hc h hk
    simp only [toDict, List.map_cons, erase]
    by_cases hn : p.1 = c.fname k
    · have he := hiff.mp hn
      rw [hn] at he
      simp [hn, he]
    · have : ¬ entryKey c p.1 p.2 = k := fun he => hn (hiff.mpr he)
      simp only [hn, this, if_false, List.map_cons]
      congr 1
      exact ih h.tail

theorem keys_toDict_mem (s : DirSt K V) (h : DirInv c U s) (k : K) (hk : k ∈ keys (toDict c s)) :
    c.fname k ∈ keys s := by
  simp only [keys, toDict, List.map_map, List.mem_map] at hk ⊢
  obtain ⟨p, hp, he⟩ := hk
  refine ⟨p, hp, ?_⟩
  have := (h.2 p hp).2.1
  simp only [Function.comp] at he
  rw [← he]; exact this.symm

theorem toDict_nodup (s : DirSt K V) (h : DirInv c U s) : (keys (toDict c s)).Nodup := by
  induction s with
  | nil => simp [toDict, keys]
  | cons p s ih =>
    have hn := h.1
    simp only [keys, List.map_cons, List.nodup_cons] at hn
    simp only [toDict, List.map_cons, keys, List.nodup_cons]
    refine ⟨?_, ih h.tail⟩
    intro hm
    have := keys_toDict_mem s h.tail _ hm
    rw [(h.2 p (by simp)).2.1] at this
    exact hn.1 this

theorem toDict_U (s : DirSt K V) (h : DirInv c U s) (k : K) (hk : k ∈ keys (toDict c s)) : U k := by
  simp only [keys, toDict, List.map_map, List.mem_map] at hk
  obtain ⟨p, hp, he⟩ := hk
  simp only [Function.comp] at he
  rw [← he]; exact (h.2 p hp).1

theorem dirInv_erase (s : DirSt K V) (h : DirInv c U s) (n : String) : DirInv c U (erase s n) := by
  refine ⟨nodup_keys_erase s n h.1, fun p hp => h.2 p ?_⟩
  clear h
  induction s with
  | nil => simp [erase] at hp
  | cons q s ih =>
    by_cases hq : q.1 = n
    · simp only [erase, hq, if_true] at hp; exact List.mem_cons_of_mem _ hp
    · simp only [erase, hq, if_false, List.mem_cons] at hp
      rcases hp with hp | hp
      · simp [hp]
      · exact List.mem_cons_of_mem _ (ih hp)

theorem view_dirRm (hc : DirCodecOK c U) (s : DirSt K V) (h : DirInv c U s) (k : K) (hk : U k) :
    get? (toDict c (dirRm c s k)) = View.del (get? (toDict c s)) k ∧ DirInv c U (dirRm c s k) := by
  unfold dirRm
  rw [toDict_erase hc s h k hk, view_erase _ k (toDict_nodup s h)]
  exact ⟨rfl, dirInv_erase s h _⟩

theorem mem_put_dir (s : DirSt K V) (n : String) (e : DirEntry K V) (p) (hp : p ∈ put s n e) : p = (n, e) ∨ p ∈ s := by
  induction s with
  | nil => simp [put] at hp; exact Or.inl hp
  | cons q s ih =>
    by_cases hk : q.1 = n
    · simp only [put, hk, if_true, List.mem_cons] at hp
      rcases hp with hp | hp
      · exact Or.inl (by rw [hp, ← hk])
      · exact Or.inr (List.mem_cons_of_mem _ hp)
    · simp only [put, hk, if_false, List.mem_cons] at hp
      rcases hp with hp | hp
      · exact Or.inr (by simp [hp])
      · rcases ih hp with h | h
        · exact Or.inl h
        · exact Or.inr (List.mem_cons_of_mem _ h)

theorem view_dirStore (hc : DirCodecOK c U) (s : DirSt K V) (h : DirInv c U s) (k : K) (hk : U k) (v : V)
    (hv : c.cv v = some v) :
    ∃ s', dirStore c s k v = some s' ∧ get? (toDict c s') = View.put (get? (toDict c s)) k v ∧ DirInv c U s' := by
  let e : DirEntry K V := { inp := if c.plain k then none else some k, val := v }
  have hkey : entryKey c (c.fname k) e = k := by
    simp only [entryKey, e]
    by_cases hp : c.plain k = true
    · simp [hp, hc.plain_ok k hk hp]
    · simp [hp]
  refine ⟨put (erase s (c.fname k)) (c.fname k) e, by simp [dirStore, hv, e], ?_, ?_⟩
  · have hinv' := dirInv_erase s h (c.fname k)
    have hnot : c.fname k ∉ keys (erase s (c.fname k)) := by
      rw [keys_erase_eq]; exact fun hm => (List.Nodup.mem_erase_iff h.1).mp hm |>.1 rfl
    rw [put_append_of_not_mem _ _ _ hnot]
    have : toDict c (erase s (c.fname k) ++ [(c.fname k, e)]) = toDict c (erase s (c.fname k)) ++ [(k, v)] := by
      simp [toDict, hkey, e]
    rw [this, toDict_erase hc s h k hk]
    funext j
    rw [get?_append_single, get?_erase _ k j (toDict_nodup s h)]
    by_cases hj : j = k
    · subst hj; simp [View.put]
    · have : ¬ k = j := fun hh => hj hh.symm
      simp only [hj, if_false, this, View.put]
      cases get? (toDict c s) j <;> rfl
  · refine ⟨nodup_keys_put _ _ _ (nodup_keys_erase s _ h.1), fun p hp => ?_⟩
    rcases mem_put_dir _ _ _ p hp with rfl | hp
    · exact ⟨by rw [hkey]; exact hk, by rw [hkey], hv⟩
    · exact (dirInv_erase s h (c.fname k)).2 p hp

theorem dirKeys_eq (s : DirSt K V) (h : DirInv c U s) : dirKeys c s = keys (toDict c s) := by
  unfold dirKeys
  have hnd : (keys (s.map fun p => (entryKey c p.1 p.2, ()))).Nodup := by
    have := toDict_nodup s h
    have e : keys (s.map fun p => (entryKey c p.1 p.2, ())) = keys (toDict c s) := by
      simp [keys, toDict, List.map_map, Function.comp]
    rw [e]; exact this
  rw [normalize_id _ hnd]
  simp [keys, toDict, List.map_map, Function.comp]

theorem dirItems_eq (hc : DirCodecOK c U) (s : DirSt K V) (h : DirInv c U s) : dirItems c s = some (toDict c s) := by
  unfold dirItems
  rw [dirKeys_eq s h]
  have hall : ∀ k ∈ keys (toDict c s), ∃ v, dirGet c s k = some v ∧ get? (toDict c s) k = some v := by
    intro k hk
    have hU := toDict_U s h k hk
    obtain ⟨v, hv⟩ := (has_eq_true_iff _ k).mp ((has_iff_mem_keys _ k).mpr hk)
    exact ⟨v, by rw [dirGet_eq hc s h k hU]; exact hv, hv⟩
  -- mapM over the keys of an association list with distinct keys returns the list itself
  have hnd := toDict_nodup s h
  generalize toDict c s = m at hall hnd
  have key : ∀ (l : List (K × V)), (∀ p ∈ l, dirGet c s p.1 = some p.2) →
      (keys l).mapM (fun k => (dirGet c s k).map fun v => (k, v)) = some l := by
    intro l
    induction l with
    | nil => intro _; rfl
    | cons q l ih =>
      intro hq
      have h1 := hq q (by simp)
      simp only [keys, List.map_cons, List.mapM_cons, h1, Option.map_some]
      have := ih (fun p hp => hq p (List.mem_cons_of_mem _ hp))
      simp only [keys] at this
      rw [this]
      rfl
  apply key
  intro p hp
  obtain ⟨v, h1, h2⟩ := hall p.1 (List.mem_map_of_mem (f := (·.1)) hp)
  rw [h1, ← h2, (mem_iff_get? m hnd p.1 p.2).mp hp]

theorem dirPopSeq_view (hc : DirCodecOK c U) (x : V) (s : DirSt K V) (ks : List K) (h : DirInv c U s)
    (hks : ∀ k ∈ ks, U k) :
    get? (toDict c (dirPopSeq c x s ks).1) = (View.popSeq x (get? (toDict c s)) ks).1 ∧
    (dirPopSeq c x s ks).2 = (View.popSeq x (get? (toDict c s)) ks).2 ∧ DirInv c U (dirPopSeq c x s ks).1 := by
  induction ks generalizing s with
  | nil => exact ⟨rfl, rfl, h⟩
  | cons k ks ih =>
    have hk := hks k (by simp)
    have hg := dirGet_eq hc s h k hk
    simp only [dirPopSeq, View.popSeq]
    cases hq : dirGet c s k with
    | some v =>
      obtain ⟨h1, h2⟩ := view_dirRm hc s h k hk
      have := ih (dirRm c s k) h2 (fun j hj => hks j (List.mem_cons_of_mem _ hj))
      rw [h1] at this
      rw [← hg, hq]
      exact ⟨this.1, by rw [this.2.1], this.2.2⟩
    | none =>
      have := ih s h (fun j hj => hks j (List.mem_cons_of_mem _ hj))
      rw [← hg, hq]
      have hd : View.del (get? (toDict c s)) k = get? (toDict c s) := view_del_of_none _ k (by rw [← hg, hq])
      rw [hd]
      exact ⟨this.1, by rw [this.2.1], this.2.2⟩

theorem dirPopAll_view (hc : DirCodecOK c U) (s : DirSt K V) (ks : List K) (h : DirInv c U s) (hks : ∀ k ∈ ks, U k) :
    ∀ r, View.popAll (get? (toDict c s)) ks = some r →
      get? (toDict c (dirPopAll c s ks).1) = r.1 ∧ (dirPopAll c s ks).2 = some r.2 ∧ DirInv c U (dirPopAll c s ks).1 := by
  induction ks generalizing s with
  | nil => intro r hr; simp [View.popAll] at hr; subst hr; exact ⟨rfl, rfl, h⟩
  | cons k ks ih =>
    intro r hr
    have hk := hks k (by simp)
    have hg := dirGet_eq hc s h k hk
    simp only [View.popAll] at hr
    cases hq : get? (toDict c s) k with
    | none => simp [hq] at hr
    | some v =>
      simp only [hq] at hr
      cases hp : View.popAll (View.del (get? (toDict c s)) k) ks with
      | none => simp [hp] at hr
      | some r' =>
        simp only [hp, Option.map_some, Option.some.injEq] at hr
        subst hr
        obtain ⟨h1, h2⟩ := view_dirRm hc s h k hk
        have := ih (dirRm c s k) h2 (fun j hj => hks j (List.mem_cons_of_mem _ hj)) r' (by rw [h1]; exact hp)
        simp only [dirPopAll, hg, hq]
        exact ⟨this.1, by simp [this.2.1], this.2.2⟩

theorem dirUpdate_view (hc : DirCodecOK c U) (s : DirSt K V) (l : List (K × V)) (h : DirInv c U s)
    (hl : ∀ p ∈ l, U p.1 ∧ c.cv p.2 = some p.2) :
    (dirUpdate c s l).2 = none ∧ get? (toDict c (dirUpdate c s l).1) = View.putAll (get? (toDict c s)) l ∧
    DirInv c U (dirUpdate c s l).1 := by
  induction l generalizing s with
  | nil => exact ⟨rfl, rfl, h⟩
  | cons p l ih =>
    obtain ⟨k, v⟩ := p
    obtain ⟨hk, hv⟩ := hl (k, v) (by simp)
    obtain ⟨s', h1, h2, h3⟩ := view_dirStore hc s h k hk v hv
    have := ih s' h3 (fun q hq => hl q (List.mem_cons_of_mem _ hq))
    simp only [dirUpdate, h1]
    rw [h2] at this
    exact this

end Klepto.Backend
