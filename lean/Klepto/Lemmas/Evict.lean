import Klepto.Lemmas.WF
/-! What eviction and purge do to (memory, archive), pointwise in the key: entries only ever
*move* from memory to the archive. -/
namespace Klepto
open AMap
set_option linter.unusedSectionVars false
variable {K V : Type} [DecidableEq K]

/-- `archive.get(j)` of the attached archive (`none` for a null archive) -/
def Cache.aget (c : Cache K V) (j : K) : Option V :=
  match c.arch with
  | some a => get? a j
  | none => none

theorem get?_reverse_nodup (m : List (K × V)) (j : K) (h : (keys m).Nodup) :
    get? m.reverse j = get? m j := by
  induction m with
  | nil => rfl
  | cons p m ih =>
    obtain ⟨k, v⟩ := p
    simp only [keys, List.map_cons, List.nodup_cons] at h
    have happ : ∀ (l : List (K × V)), get? (l ++ [(k, v)]) j =
        match get? l j with | some w => some w | none => if k = j then some v else none := by
      intro l
      induction l with
      | nil => simp [get?]
      | cons q l ihl =>
        obtain ⟨k2, v2⟩ := q
        simp only [List.cons_append, get?]
        split
        · rfl
        · exact ihl
    rw [List.reverse_cons, happ, ih h.2]
    simp only [get?]
    by_cases hk : k = j
    · subst hk
      have : get? m k = none := get?_eq_none_of_not_mem m k h.1
      simp [this]
    · simp only [hk, if_false]
      cases get? m j <;> rfl

theorem get?_update_nodup (m o : List (K × V)) (j : K) (h : (keys o).Nodup) :
    get? (update m o) j = match get? o j with
      | some v => some v
      | none => get? m j := by
  rw [get?_update, get?_reverse_nodup o j h]
  <;> rfl

/-! ### `aget` through the cache helpers -/

@[simp] theorem aget_delMem (c : Cache K V) (k j : K) : (c.delMem k).aget j = c.aget j := rfl
@[simp] theorem aget_clearMem (c : Cache K V) (j : K) : c.clearMem.aget j = c.aget j := rfl
@[simp] theorem aget_preload (c : Cache K V) (k j : K) : (c.preload k).aget j = c.aget j := by
  simp [Cache.aget]
@[simp] theorem aget_setMem (c : Cache K V) (m : List (K × V)) (j : K) :
    ({ c with mem := m } : Cache K V).aget j = c.aget j := rfl

theorem aget_dump1 (c : Cache K V) (k j : K) :
    (c.dump1 k).aget j = match c.arch, get? c.mem k with
      | some _, some v => if j = k then some v else c.aget j
      | _, _ => c.aget j := by
  unfold Cache.dump1
  split
  · rename_i a v ha hv
    simp only [Cache.aget, ha, hv, get?_put]
  · rename_i hh
    split
    · rename_i a v ha hv; exact absurd hv (by intro hv; exact hh a v ha hv)
    · rfl

theorem aget_dumpAll (c : Cache K V) (j : K) (hn : (keys c.mem).Nodup) :
    c.dumpAll.aget j = match c.arch with
      | some _ => (match get? c.mem j with | some v => some v | none => c.aget j)
      | none => none := by
  unfold Cache.dumpAll
  cases ha : c.arch with
  | none => simp [Cache.aget, ha]
  | some a => simp only [Cache.aget, ha]; rw [get?_update_nodup _ _ _ hn]

/-- entries only move from memory to the archive (holds for every eviction, archived or not) -/
structure MoveRel (c c' : Cache K V) : Prop where
  mem : ∀ j, get? c'.mem j = get? c.mem j ∨ get? c'.mem j = none
  arch : ∀ j, c'.aget j = c.aget j ∨ ((get? c.mem j).isSome ∧ c'.aget j = get? c.mem j)
  swap : c'.swap = c.swap
  archived : c'.archived = c.archived
  nodup : (keys c.mem).Nodup → (keys c'.mem).Nodup

/-- with an archive attached: whatever leaves memory is in the archive with the same value -/
def Leaves (c c' : Cache K V) : Prop :=
  ∀ j, get? c'.mem j = none → (get? c.mem j).isSome → c'.aget j = get? c.mem j

theorem MoveRel.refl (c : Cache K V) : MoveRel c c :=
  ⟨fun _ => Or.inl rfl, fun _ => Or.inl rfl, rfl, rfl, id⟩

theorem Leaves.refl (c : Cache K V) : Leaves c c := by
  intro j h1 h2; rw [h1] at h2; cases h2

theorem MoveRel.trans {c c' c'' : Cache K V} (h1 : MoveRel c c') (h2 : MoveRel c' c'') : MoveRel c c'' := by
  refine ⟨fun j => ?_, fun j => ?_, h2.swap.trans h1.swap, h2.archived.trans h1.archived, fun h => h2.nodup (h1.nodup h)⟩
  · rcases h2.mem j with h | h
    · rw [h]; exact h1.mem j
    · exact Or.inr h
  · rcases h2.arch j with h | ⟨hs, h⟩
    · rw [h]; exact h1.arch j
    · rcases h1.mem j with hm | hm
      · rw [hm] at hs h; exact Or.inr ⟨hs, h⟩
      · rw [hm] at hs; cases hs

theorem Leaves.trans {c c' c'' : Cache K V} (m1 : MoveRel c c') (m2 : MoveRel c' c'')
    (h1 : Leaves c c') (h2 : Leaves c' c'') : Leaves c c'' := by
  intro j hn hs
  rcases m1.mem j with hm | hm
  · -- still resident in c'
    have := h2 j hn (by rw [hm]; exact hs)
    rw [this, hm]
  · have h := h1 j hm hs
    rcases m2.arch j with ha | ⟨hs', _⟩
    · rw [ha, h]
    · rw [hm] at hs'; cases hs'

/-- one eviction: `if archived: dump(k)`; `del cache[k]` -/
theorem moveRel_evictOne (c : Cache K V) (k : K) (hn : (keys c.mem).Nodup) :
    MoveRel c ((c.dump1 k).delMem k) := by
  have harch : ((c.dump1 k).delMem k).archived = c.archived := by
    have := dump1_archived c k
    simpa [Cache.delMem, Cache.archived] using this
  refine ⟨fun j => ?_, fun j => ?_, by simp [Cache.delMem], harch, fun _ => ?_⟩
  · simp only [delMem_mem, dump1_mem, get?_erase _ _ _ hn]
    by_cases hj : j = k <;> simp [hj]
  · simp only [aget_delMem, aget_dump1]
    split
    · rename_i a v ha hv
      by_cases hj : j = k
      · subst hj; simp [hv]
      · simp [hj]
    · exact Or.inl rfl
  · simp only [delMem_mem, dump1_mem]; exact nodup_keys_erase _ _ hn
  
theorem leaves_evictOne (c : Cache K V) (k : K) (hn : (keys c.mem).Nodup) (ha : c.archived = true) :
    Leaves c ((c.dump1 k).delMem k) := by
  intro j hnone hs
  simp only [delMem_mem, dump1_mem, get?_erase _ _ _ hn] at hnone
  by_cases hj : j = k
  · subst hj
    obtain ⟨a, haa⟩ := (archived_iff c).mp ha
    cases hv : get? c.mem j with
    | none => rw [hv] at hs; cases hs
    | some v => simp [aget_dump1, haa, hv]
  · simp only [hj, if_false] at hnone
    rw [hnone] at hs; cases hs

/-- purge: `cache.dump(); cache.clear()` -/
theorem moveRel_purge (c : Cache K V) (hn : (keys c.mem).Nodup) : MoveRel c c.dumpAll.clearMem := by
  have harch : c.dumpAll.clearMem.archived = c.archived := by
    have := dumpAll_archived c
    simpa [Cache.clearMem, Cache.archived] using this
  refine ⟨fun j => Or.inr rfl, fun j => ?_, by simp [Cache.clearMem], harch,
    fun _ => by simp [keys]⟩
  simp only [aget_clearMem, aget_dumpAll _ _ hn]
  cases ha : c.arch with
  | none => left; simp [Cache.aget, ha]
  | some a =>
    simp only
    cases hv : get? c.mem j with
    | none => exact Or.inl rfl
    | some v => exact Or.inr ⟨rfl, rfl⟩

theorem leaves_purge (c : Cache K V) (hn : (keys c.mem).Nodup) (ha : c.archived = true) :
    Leaves c c.dumpAll.clearMem := by
  intro j _ hs
  obtain ⟨a, haa⟩ := (archived_iff c).mp ha
  simp only [aget_clearMem, aget_dumpAll _ _ hn, haa]
  cases hv : get? c.mem j with
  | none => rw [hv] at hs; cases hs
  | some v => rfl

theorem moveRel_lfu_fold (vs : List (K × Nat)) (s : St K V) (hn : (keys s.c.mem).Nodup) :
    MoveRel s.c (vs.foldl (fun s p => { evictOne s p.1 with uc := erase s.uc p.1 }) s).c := by
  induction vs generalizing s with
  | nil => exact MoveRel.refl _
  | cons p vs ih =>
    simp only [List.foldl_cons]
    have h1 : MoveRel s.c ({ evictOne s p.1 with uc := erase s.uc p.1 } : St K V).c :=
      moveRel_evictOne s.c p.1 hn
    exact h1.trans (ih _ (h1.nodup hn))

theorem leaves_lfu_fold (vs : List (K × Nat)) (s : St K V) (hn : (keys s.c.mem).Nodup)
    (ha : s.c.archived = true) :
    Leaves s.c (vs.foldl (fun s p => { evictOne s p.1 with uc := erase s.uc p.1 }) s).c := by
  induction vs generalizing s with
  | nil => exact Leaves.refl _
  | cons p vs ih =>
    simp only [List.foldl_cons]
    have m1 : MoveRel s.c ({ evictOne s p.1 with uc := erase s.uc p.1 } : St K V).c :=
      moveRel_evictOne s.c p.1 hn
    have l1 : Leaves s.c ({ evictOne s p.1 with uc := erase s.uc p.1 } : St K V).c :=
      leaves_evictOne s.c p.1 hn ha
    exact Leaves.trans m1 (moveRel_lfu_fold vs _ (m1.nodup hn)) l1
      (ih _ (m1.nodup hn) (by rw [m1.archived]; exact ha))

/-- the `# purge cache` block only moves entries from memory to the archive -/
theorem moveRel_overflow (cfg : Cfg) (s s' : St K V) (victim : Option K) (hn : (keys s.c.mem).Nodup)
    (h : overflow cfg s victim = some s') : MoveRel s.c s'.c := by
  unfold overflow at h
  split at h
  · split at h
    · cases h; exact moveRel_purge s.c hn
    · split at h
      · cases h; exact moveRel_lfu_fold _ s hn
      · split at h
        · cases h
        · cases h; exact moveRel_evictOne s.c _ hn
      · split at h
        · cases h
        · cases h; exact moveRel_evictOne s.c _ hn
      · split at h
        · cases h; exact moveRel_evictOne s.c _ hn
        · cases h; exact MoveRel.refl _
      · cases h; exact MoveRel.refl _
  · cases h; exact MoveRel.refl _

theorem leaves_overflow (cfg : Cfg) (s s' : St K V) (victim : Option K) (hn : (keys s.c.mem).Nodup)
    (ha : s.c.archived = true) (h : overflow cfg s victim = some s') : Leaves s.c s'.c := by
  unfold overflow at h
  split at h
  · split at h
    · cases h; exact leaves_purge s.c hn ha
    · split at h
      · cases h; exact leaves_lfu_fold _ s hn ha
      · split at h
        · cases h
        · cases h; exact leaves_evictOne s.c _ hn ha
      · split at h
        · cases h
        · cases h; exact leaves_evictOne s.c _ hn ha
      · split at h
        · cases h; exact leaves_evictOne s.c _ hn ha
        · cases h; exact Leaves.refl _
      · cases h; exact Leaves.refl _
  · cases h; exact Leaves.refl _

theorem moveRel_finish (cfg : Cfg) (s2 : St K V) (k : K) (v : V) (n : Nat) (vi : Option K)
    (hn : (keys s2.c.mem).Nodup) : MoveRel s2.c (finish cfg s2 k v n vi).1.c := by
  unfold finish
  split
  · exact MoveRel.refl _
  · split
    · exact MoveRel.refl _
    · rename_i s3 ho; simp only [post_c]; exact moveRel_overflow cfg s2 s3 vi hn ho

theorem leaves_finish (cfg : Cfg) (s2 : St K V) (k : K) (v : V) (n : Nat) (vi : Option K)
    (hn : (keys s2.c.mem).Nodup) (ha : s2.c.archived = true) : Leaves s2.c (finish cfg s2 k v n vi).1.c := by
  unfold finish
  split
  · exact Leaves.refl _
  · split
    · exact Leaves.refl _
    · rename_i s3 ho; simp only [post_c]; exact leaves_overflow cfg s2 s3 vi hn ha ho

end Klepto

namespace Klepto
open AMap
set_option linter.unusedSectionVars false
variable {K V : Type} [DecidableEq K]

/-! ### the archive stays a dict (distinct keys) -/

def ArchNodup (c : Cache K V) : Prop := ∀ a, c.arch = some a → (keys a).Nodup

theorem archNodup_dump1 (c : Cache K V) (k : K) (h : ArchNodup c) : ArchNodup (c.dump1 k) := by
  unfold Cache.dump1
  split
  · rename_i a v ha hv
    intro a' ha'; simp at ha'; subst ha'; exact nodup_keys_put _ _ _ (h a ha)
  · exact h

theorem archNodup_dumpAll (c : Cache K V) (h : ArchNodup c) : ArchNodup c.dumpAll := by
  unfold Cache.dumpAll
  split
  · rename_i a ha
    intro a' ha'; simp at ha'; subst ha'; exact nodup_keys_update _ _ (h a ha)
  · exact h

theorem archNodup_of_arch_eq {c c' : Cache K V} (h : ArchNodup c) (he : c'.arch = c.arch) : ArchNodup c' := by
  intro a ha; rw [he] at ha; exact h a ha

theorem archNodup_dumpKeys (c : Cache K V) (ks : List K) (h : ArchNodup c) : ArchNodup (c.dumpKeys ks) := by
  unfold Cache.dumpKeys
  induction ks generalizing c with
  | nil => exact h
  | cons k ks ih => simp only [List.foldl_cons]; exact ih _ (archNodup_dump1 c k h)

theorem archNodup_lfu_fold (vs : List (K × Nat)) (s : St K V) (h : ArchNodup s.c) :
    ArchNodup (vs.foldl (fun s p => { evictOne s p.1 with uc := erase s.uc p.1 }) s).c := by
  induction vs generalizing s with
  | nil => exact h
  | cons p vs ih =>
    simp only [List.foldl_cons]
    refine ih _ ?_
    exact archNodup_of_arch_eq (archNodup_dump1 s.c p.1 h) (by simp [evictOne, Cache.delMem])

theorem archNodup_overflow (cfg : Cfg) (s s' : St K V) (victim : Option K) (hn : ArchNodup s.c)
    (h : overflow cfg s victim = some s') : ArchNodup s'.c := by
  have hev : ∀ k, ArchNodup (evictOne s k).c := fun k =>
    archNodup_of_arch_eq (archNodup_dump1 s.c k hn) (by simp [evictOne, Cache.delMem])
  unfold overflow at h
  split at h
  · split at h
    · cases h; exact archNodup_of_arch_eq (archNodup_dumpAll s.c hn) (by simp [Cache.clearMem])
    · split at h
      · cases h; exact archNodup_lfu_fold _ s hn
      · split at h
        · cases h
        · cases h; exact hev _
      · split at h
        · cases h
        · cases h; exact hev _
      · split at h
        · cases h; exact hev _
        · cases h; exact hn
      · cases h; exact hn
  · cases h; exact hn

theorem archNodup_finish (cfg : Cfg) (s2 : St K V) (k : K) (v : V) (n : Nat) (vi : Option K)
    (hn : ArchNodup s2.c) : ArchNodup (finish cfg s2 k v n vi).1.c := by
  unfold finish
  split
  · exact hn
  · split
    · exact hn
    · rename_i s3 ho; simp only [post_c]; exact archNodup_overflow cfg s2 s3 vi hn ho

theorem archNodup_callCached (cfg : Cfg) (s : St K V) (ci : CallIn K V) (hn : ArchNodup s.c) :
    ArchNodup (callCached cfg s ci).1.c := by
  unfold callCached
  split
  · simp only [keyFail]; split <;> simp only [evalDirect_c] <;> exact hn
  · simp only [keyFail]; split <;> simp only [evalDirect_c] <;> exact hn
  · split
    · simp only [hitStep, post_c]; split <;> simp only [useKey_c] <;> exact hn
    · split
      · simp only [loadStep]
        exact archNodup_finish _ _ _ _ _ _ (archNodup_of_arch_eq hn (by simp))
      · split
        · exact hn
        · simp only [missStep]
          exact archNodup_finish _ _ _ _ _ _ (archNodup_of_arch_eq hn (by simp))

end Klepto
