import Klepto.Lemmas.Lru
/-! The bookkeeping invariant `WF` of M3 and its preservation by every operation of the
wrapper alphabet.  `mru` with `purge` is excluded where noted: after a purge the code appends the
current key to the (just cleared) recency queue although the entry is no longer resident
(finding F27), so "tracked keys are resident" is not an invariant of that configuration. -/
namespace Klepto
open AMap
set_option linter.unusedSectionVars false
variable {K V : Type} [DecidableEq K]

structure WF (cfg : Cfg) (s : St K V) : Prop where
  memNodup : (keys s.c.mem).Nodup
  queueRes : ∀ k ∈ s.queue, has s.c.mem k = true
  ucRes : ∀ k ∈ keys s.uc, has s.c.mem k = true
  ucNodup : (keys s.uc).Nodup
  rcNodup : (keys s.rc).Nodup
  rcInv : cfg.algo = .lru → RcInv s.queue s.rc
  mruNodup : cfg.algo = .mru → s.queue.Nodup
  queueNil : cfg.algo ≠ .lru → cfg.algo ≠ .mru → s.queue = []
  ucNil : cfg.algo ≠ .lfu → s.uc = []

/-- the configuration in which `WF` is inductive -/
def MruNoPurge (cfg : Cfg) : Prop := cfg.algo = .mru → cfg.purge = false

theorem wf_init (cfg : Cfg) (c : Cache K V) (h : (keys c.mem).Nodup) : WF cfg (St.init c) :=
  ⟨h, by simp [St.init], by simp [St.init, keys], by simp [St.init, keys], by simp [St.init, keys],
   fun _ k => by simp [St.init, cget, get?], fun _ => by simp [St.init], fun _ _ => rfl, fun _ => rfl⟩

/-- memory may grow (and the archive change) without disturbing the bookkeeping -/
theorem wf_of_mem_grow {cfg : Cfg} {s : St K V} (c' : Cache K V) (h : WF cfg s)
    (hn : (keys c'.mem).Nodup) (hsub : ∀ j, has s.c.mem j = true → has c'.mem j = true) :
    WF cfg { s with c := c' } :=
  ⟨hn, fun k hk => hsub k (h.queueRes k hk), fun k hk => hsub k (h.ucRes k hk), h.ucNodup, h.rcNodup,
   h.rcInv, h.mruNodup, h.queueNil, h.ucNil⟩

theorem wf_same_mem {cfg : Cfg} {s : St K V} (c' : Cache K V) (h : WF cfg s) (hm : c'.mem = s.c.mem) :
    WF cfg { s with c := c' } :=
  wf_of_mem_grow c' h (by rw [hm]; exact h.memNodup) (by intro j hj; rw [hm]; exact hj)

theorem wf_clear (cfg : Cfg) (s : St K V) (c' : Cache K V) (hm : c'.mem = []) :
    WF cfg { s.clearBook with c := c' } :=
  ⟨by simp [hm, keys], by simp [St.clearBook], by simp [St.clearBook, keys], by simp [St.clearBook, keys],
   by simp [St.clearBook, keys], fun _ k => by simp [St.clearBook, cget, get?], fun _ => by simp [St.clearBook],
   fun _ _ => rfl, fun _ => rfl⟩

/-! ### cache-level operations -/

theorem load1_grow (c : Cache K V) (k : K) (hn : (keys c.mem).Nodup) :
    (keys (c.load1 k).mem).Nodup ∧ ∀ j, has c.mem j = true → has (c.load1 k).mem j = true := by
  rw [load1_mem]
  split
  · split
    · exact ⟨nodup_keys_put _ _ _ hn, fun j hj => by rw [has_put]; simp [hj]⟩
    · exact ⟨hn, fun _ h => h⟩
  · exact ⟨hn, fun _ h => h⟩

theorem preload_grow (c : Cache K V) (k : K) (hn : (keys c.mem).Nodup) :
    (keys (c.preload k).mem).Nodup ∧ ∀ j, has c.mem j = true → has (c.preload k).mem j = true := by
  unfold Cache.preload; split
  · exact load1_grow c k hn
  · exact ⟨hn, fun _ h => h⟩

theorem loadKeys_grow (c : Cache K V) (ks : List K) (hn : (keys c.mem).Nodup) :
    (keys (c.loadKeys ks).mem).Nodup ∧ ∀ j, has c.mem j = true → has (c.loadKeys ks).mem j = true := by
  unfold Cache.loadKeys
  induction ks generalizing c with
  | nil => exact ⟨hn, fun _ h => h⟩
  | cons k ks ih =>
    simp only [List.foldl_cons]
    have h1 := load1_grow c k hn
    have h2 := ih (c.load1 k) h1.1
    exact ⟨h2.1, fun j hj => h2.2 j (h1.2 j hj)⟩

theorem loadAll_grow (c : Cache K V) (hn : (keys c.mem).Nodup) :
    (keys c.loadAll.mem).Nodup ∧ ∀ j, has c.mem j = true → has c.loadAll.mem j = true := by
  unfold Cache.loadAll; split
  · exact ⟨nodup_keys_update _ _ hn, fun j hj => has_update_of_has _ _ j hj⟩
  · exact ⟨hn, fun _ h => h⟩

@[simp] theorem dumpKeys_mem (c : Cache K V) (ks : List K) : (c.dumpKeys ks).mem = c.mem := by
  unfold Cache.dumpKeys
  induction ks generalizing c with
  | nil => rfl
  | cons k ks ih => simp only [List.foldl_cons]; rw [ih]; simp

@[simp] theorem setArchive_mem (c : Cache K V) (a : Option (List (K × V))) : (c.setArchive a).mem = c.mem := by
  unfold Cache.setArchive; split <;> rfl
@[simp] theorem swapDance_mem (c : Cache K V) : c.swapDance.mem = c.mem := by
  simp [Cache.swapDance]
theorem archivedOn_mem (c c' : Cache K V) (h : c.archivedOn = some c') : c'.mem = c.mem := by
  unfold Cache.archivedOn at h
  split at h
  · cases h
  · split at h
    · cases h; simp
    · split at h <;> cases h; rfl
theorem archivedOff_mem (c c' : Cache K V) (h : c.archivedOff = some c') : c'.mem = c.mem := by
  unfold Cache.archivedOff at h
  split at h
  · cases h
  · split at h <;> cases h <;> simp
@[simp] theorem extPut_mem (c : Cache K V) (k : K) (v : V) : (c.extPut k v).mem = c.mem := by
  unfold Cache.extPut; split <;> rfl
@[simp] theorem extDel_mem (c : Cache K V) (k : K) : (c.extDel k).mem = c.mem := by
  unfold Cache.extDel; split <;> rfl

/-! ### bookkeeping of a use -/

theorem count_append_singleton (q : List K) (k j : K) :
    ((q ++ [k]).count j : Int) = (q.count j : Int) + (if j = k then 1 else 0) := by
  rw [List.count_append]
  by_cases h : j = k
  · subst h; simp
  · have : (k == j) = false := by simp [beq_eq_false_iff_ne]; exact fun hh => h hh.symm
    simp [h, List.count_cons, this]

/-- recording a use of a resident key keeps `WF` (mru records uses elsewhere) -/
theorem wf_useKey {cfg : Cfg} {s : St K V} (k : K) (h : WF cfg s) (hk : has s.c.mem k = true) :
    WF cfg (useKey cfg s k) := by
  unfold useKey
  split
  · -- lfu
    rename_i ha
    refine ⟨h.memNodup, h.queueRes, ?_, nodup_keys_put _ _ _ h.ucNodup, h.rcNodup, ?_, ?_, h.queueNil, ?_⟩
    · intro j hj
      rcases (keys_put _ _ _ j).mp hj with rfl | hj
      · exact hk
      · exact h.ucRes j hj
    · intro hl; rw [ha] at hl; cases hl
    · intro hl; rw [ha] at hl; cases hl
    · intro hl; exact absurd ha hl
  · -- lru
    rename_i ha
    refine ⟨h.memNodup, ?_, h.ucRes, h.ucNodup, nodup_keys_put _ _ _ h.rcNodup, ?_, ?_, ?_, h.ucNil⟩
    · intro j hj
      rcases List.mem_append.mp hj with hj | hj
      · exact h.queueRes j hj
      · simp at hj; subst hj; exact hk
    · intro _ j
      rw [cget_put, count_append_singleton, h.rcInv ha j]
      by_cases hj : j = k
      · subst hj; simp [h.rcInv ha j]
      · simp [hj]
    · intro hl; rw [ha] at hl; cases hl
    · intro hl; exact absurd ha hl
  · exact h

/-! ### eviction -/

theorem mem_keys_erase_iff (m : List (K × V)) (k j : K) (h : (keys m).Nodup) :
    j ∈ keys (erase m k) ↔ j ≠ k ∧ j ∈ keys m := by
  rw [keys_erase_eq]; exact h.mem_erase_iff

theorem has_erase_of_ne (m : List (K × V)) (k j : K) (h : (keys m).Nodup) (hj : has m j = true)
    (hne : j ≠ k) : has (erase m k) j = true := by
  rw [has_erase m k j h]; simp [hne, hj]

/-- one lfu eviction step -/
theorem wf_lfu_evict {cfg : Cfg} {s : St K V} (k : K) (h : WF cfg s) (ha : cfg.algo = .lfu) :
    WF cfg { evictOne s k with uc := erase s.uc k } := by
  have hq : s.queue = [] := h.queueNil (by rw [ha]; simp) (by rw [ha]; simp)
  refine ⟨?_, ?_, ?_, nodup_keys_erase _ _ h.ucNodup, h.rcNodup, ?_, ?_, ?_, ?_⟩
  · simp; exact nodup_keys_erase _ _ h.memNodup
  · simp [hq]
  · intro j hj
    have := (mem_keys_erase_iff s.uc k j h.ucNodup).mp hj
    simp only [evictOne_mem]
    exact has_erase_of_ne _ _ _ h.memNodup (h.ucRes j this.2) this.1
  · intro hl; rw [ha] at hl; cases hl
  · intro hl; rw [ha] at hl; cases hl
  · intro _ _; simpa using hq
  · intro hl; exact absurd ha hl

theorem wf_lfu_fold {cfg : Cfg} (vs : List (K × Nat)) (s : St K V) (h : WF cfg s) (ha : cfg.algo = .lfu) :
    WF cfg (vs.foldl (fun s p => { evictOne s p.1 with uc := erase s.uc p.1 }) s) := by
  induction vs generalizing s with
  | nil => exact h
  | cons p vs ih => simp only [List.foldl_cons]; exact ih _ (wf_lfu_evict p.1 h ha)

theorem count_eq_zero_of_not_mem' (q : List K) (k : K) (h : k ∉ q) : (q.count k : Int) = 0 := by
  simp [List.count_eq_zero_of_not_mem h]

/-- the `# purge cache` block keeps `WF` -/
theorem wf_overflow {cfg : Cfg} {s s' : St K V} (victim : Option K) (h : WF cfg s)
    (ho : overflow cfg s victim = some s') : WF cfg s' := by
  unfold overflow at ho
  split at ho
  · split at ho
    · cases ho
      exact ⟨by simp [keys], by simp, by simp [keys], by simp [keys], by simp [keys],
        fun _ k => by simp [cget, get?], fun _ => by simp, fun _ _ => rfl, fun _ => rfl⟩
    · split at ho
      · rename_i ha; cases ho; exact wf_lfu_fold _ s h ha
      · -- lru
        rename_i ha
        split at ho
        · cases ho
        · rename_i k q rc hloop
          cases ho
          have hqne : s.queue ≠ [] := by
            intro hq; rw [hq] at hloop; simp [lruLoop] at hloop
          obtain ⟨pre, v, post, rc', he, hq, hv, _, hi, _, hn⟩ := lruLoop_spec s.queue s.rc (h.rcInv ha) hqne
          rw [hloop] at he; cases he
          have hsub := (lruLoop_mem _ _ _ _ _ hloop).2
          refine ⟨?_, ?_, ?_, h.ucNodup, nodup_keys_erase _ _ (hn h.rcNodup), ?_, ?_, ?_, h.ucNil⟩
          · simp; exact nodup_keys_erase _ _ h.memNodup
          · intro j hj
            simp only [evictOne_mem]
            refine has_erase_of_ne _ _ _ h.memNodup (h.queueRes j (hsub j hj)) ?_
            intro hjk; subst hjk; exact hv hj
          · intro j hj
            have hu : s.uc = [] := h.ucNil (by rw [ha]; simp)
            simp [hu, keys] at hj
          · intro _ j
            rw [cget_erase _ _ _ (hn h.rcNodup)]
            by_cases hj : j = k
            · subst hj; simp [List.count_eq_zero_of_not_mem hv]
            · simp [hj, hi j]
          · intro hl; rw [ha] at hl; cases hl
          · intro hl; exact absurd ha hl
      · -- mru
        rename_i ha
        split at ho
        · cases ho
        · rename_i k hk
          cases ho
          have hnd := h.mruNodup ha
          have hq : s.queue = s.queue.dropLast ++ [k] := by
            obtain ⟨ys, hys⟩ := List.getLast?_eq_some_iff.mp hk
            rw [hys]; simp
          have hknot : k ∉ s.queue.dropLast := by
            intro hmem
            rw [hq] at hnd
            have := (List.nodup_append.mp hnd).2.2 k hmem k (by simp)
            exact this rfl
          refine ⟨?_, ?_, ?_, h.ucNodup, h.rcNodup, ?_, ?_, ?_, h.ucNil⟩
          · simp; exact nodup_keys_erase _ _ h.memNodup
          · intro j hj
            simp only [evictOne_mem]
            refine has_erase_of_ne _ _ _ h.memNodup (h.queueRes j (List.dropLast_subset _ hj)) ?_
            intro hjk; subst hjk; exact hknot hj
          · intro j hj
            have hu : s.uc = [] := h.ucNil (by rw [ha]; simp)
            simp [hu, keys] at hj
          · intro hl; rw [ha] at hl; cases hl
          · intro _; exact (List.dropLast_sublist _).nodup hnd
          · intro _ hl; exact absurd ha hl
      · -- rr
        rename_i ha
        have hq : s.queue = [] := h.queueNil (by rw [ha]; simp) (by rw [ha]; simp)
        have hu : s.uc = [] := h.ucNil (by rw [ha]; simp)
        split at ho
        · rename_i k
          cases ho
          refine ⟨?_, ?_, ?_, h.ucNodup, h.rcNodup, ?_, ?_, ?_, h.ucNil⟩
          · simp; exact nodup_keys_erase _ _ h.memNodup
          · simp [hq]
          · simp [hu, keys]
          · intro hl; rw [ha] at hl; cases hl
          · intro hl; rw [ha] at hl; cases hl
          · intro _ _; simpa using hq
        · cases ho; exact h
      · cases ho; exact h
  · cases ho; exact h

/-! ### after the `try` block -/

theorem get?_map_one (l : List K) (j : K) :
    get? (l.map (fun k => (k, (1 : Int)))) j = if j ∈ l then some 1 else none := by
  induction l with
  | nil => simp [get?]
  | cons a l ih =>
    simp only [List.map_cons, get?, List.mem_cons]
    by_cases h : a = j
    · simp [h]
    · have : ¬ j = a := fun hh => h hh.symm
      simp [h, this, ih]

theorem keys_map_one (l : List K) : keys (l.map (fun k => (k, (1 : Int)))) = l := by
  simp [keys, List.map_map, Function.comp_def]

theorem wf_post {cfg : Cfg} {s : St K V} (k : K) (h : WF cfg s)
    (hm : cfg.algo = .mru → has s.c.mem k = true ∧ k ∉ s.queue) : WF cfg (post cfg s k) := by
  unfold post
  split
  · rename_i ha
    obtain ⟨hk, hnot⟩ := hm ha
    refine ⟨h.memNodup, ?_, h.ucRes, h.ucNodup, h.rcNodup, ?_, ?_, ?_, h.ucNil⟩
    · intro j hj
      rcases List.mem_append.mp hj with hj | hj
      · exact h.queueRes j hj
      · simp at hj; subst hj; exact hk
    · intro hl; rw [ha] at hl; cases hl
    · intro _
      exact List.nodup_append.mpr ⟨h.mruNodup ha, by simp, by
        intro a ha' b hb; simp at hb; subst hb; intro hab; subst hab; exact hnot ha'⟩
    · intro _ hl; exact absurd ha hl
  · rename_i ha
    split
    · refine ⟨h.memNodup, ?_, h.ucRes, h.ucNodup, ?_, ?_, ?_, ?_, h.ucNil⟩
      · intro j hj
        rw [compactQ_eq_dkl, mem_dkl] at hj
        exact h.queueRes j hj
      · show (keys ((compactQ s.queue).map (fun k => (k, (1 : Int))))).Nodup
        rw [keys_map_one, compactQ_eq_dkl]; exact nodup_dkl _
      · intro _ j
        show cget ((compactQ s.queue).map (fun k => (k, (1 : Int)))) j = ((compactQ s.queue).count j : Int)
        unfold cget
        rw [get?_map_one, compactQ_eq_dkl, (nodup_dkl s.queue).count]
        split <;> simp
      · intro hl; rw [ha] at hl; cases hl
      · intro hl; exact absurd ha hl
    · exact h
  · exact h

/-! ### the call paths -/

theorem wf_keyFail {cfg : Cfg} {s : St K V} (fn : Except Exc V) (e : Exc) (h : WF cfg s) :
    WF cfg (keyFail cfg s fn e).1 := by
  unfold keyFail evalDirect
  split
  · split
    · exact ⟨h.memNodup, h.queueRes, h.ucRes, h.ucNodup, h.rcNodup, h.rcInv, h.mruNodup, h.queueNil, h.ucNil⟩
    · exact h
  · exact h

theorem wf_hitStep {cfg : Cfg} {s : St K V} (k : K) (v : V) (h : WF cfg s)
    (hk : has s.c.mem k = true) : WF cfg (hitStep cfg s k v).1 := by
  unfold hitStep
  simp only
  by_cases ha : cfg.algo = .mru
  · simp only [ha, if_true]
    have hnd := h.mruNodup ha
    have h1 : WF cfg ({ s with queue := s.queue.erase k } : St K V) :=
      ⟨h.memNodup, fun j hj => h.queueRes j (List.mem_of_mem_erase hj), h.ucRes, h.ucNodup, h.rcNodup,
       fun hl => (by rw [ha] at hl; cases hl), fun _ => hnd.erase k, fun _ hl => absurd ha hl, h.ucNil⟩
    have h2 : WF cfg ({ ({ s with queue := s.queue.erase k } : St K V) with hit := s.hit + 1 } : St K V) :=
      ⟨h1.memNodup, h1.queueRes, h1.ucRes, h1.ucNodup, h1.rcNodup, h1.rcInv, h1.mruNodup, h1.queueNil, h1.ucNil⟩
    have := wf_post (cfg := cfg) k h2 (fun _ => ⟨hk, by
      show k ∉ s.queue.erase k
      intro hmem; exact (hnd.mem_erase_iff.mp hmem).1 rfl⟩)
    simpa [ha] using this
  · simp only [ha, if_false]
    have h1 := wf_useKey (cfg := cfg) k h hk
    have h2 : WF cfg ({ useKey cfg s k with hit := (useKey cfg s k).hit + 1 } : St K V) :=
      ⟨h1.memNodup, h1.queueRes, h1.ucRes, h1.ucNodup, h1.rcNodup, h1.rcInv, h1.mruNodup, h1.queueNil, h1.ucNil⟩
    exact wf_post k h2 (fun hm => absurd hm ha)

/-- the shared tail.  `hfresh`: for mru the key is resident in `s2` and not yet in the queue;
`MruNoPurge` keeps it resident across the purge block (finding F27 otherwise). -/
theorem wf_finish {cfg : Cfg} {s2 : St K V} (k : K) (v : V) (n : Nat) (victim : Option K)
    (h : WF cfg s2) (hmp : MruNoPurge cfg)
    (hfresh : cfg.algo = .mru → has s2.c.mem k = true ∧ k ∉ s2.queue) :
    WF cfg (finish cfg s2 k v n victim).1 := by
  unfold finish
  split
  · exact h
  · split
    · exact h
    · rename_i s3 ho
      refine wf_post k (wf_overflow victim h ho) ?_
      intro ha
      obtain ⟨hk, hnot⟩ := hfresh ha
      -- mru without purge: the victim is the last queue entry, which is not `k`
      unfold overflow at ho
      split at ho
      · have hp : cfg.purge = false := hmp ha
        simp only [hp, Bool.and_false, Bool.false_eq_true, if_false, ha] at ho
        split at ho
        · cases ho
        · rename_i j hj
          cases ho
          have hjq : j ∈ s2.queue := List.mem_of_getLast? hj
          have hne : k ≠ j := fun hkj => hnot (hkj ▸ hjq)
          refine ⟨?_, fun hmem => hnot (List.dropLast_subset _ hmem)⟩
          simp only [evictOne_mem]
          exact has_erase_of_ne _ _ _ h.memNodup hk hne
      · cases ho; exact ⟨hk, hnot⟩

theorem wf_stats {cfg : Cfg} {s : St K V} (a b c : Nat) (h : WF cfg s) :
    WF cfg { s with hit := a, miss := b, load := c } :=
  ⟨h.memNodup, h.queueRes, h.ucRes, h.ucNodup, h.rcNodup, h.rcInv, h.mruNodup, h.queueNil, h.ucNil⟩

theorem not_mem_queue_of_absent {cfg : Cfg} {s : St K V} (k : K) (h : WF cfg s)
    (hk : get? s.c.mem k = none) : k ∉ s.queue := by
  intro hmem
  have := h.queueRes k hmem
  rw [has_eq_true_iff] at this
  obtain ⟨v, hv⟩ := this
  rw [hk] at hv; cases hv

theorem useKey_queue_mru (cfg : Cfg) (s : St K V) (k : K) (ha : cfg.algo = .mru) :
    (useKey cfg s k).queue = s.queue := by
  unfold useKey; simp [ha]

theorem wf_loadStep {cfg : Cfg} {s : St K V} (k : K) (v : V) (victim : Option K) (h : WF cfg s)
    (hmp : MruNoPurge cfg) (hk : get? s.c.mem k = none) (hl : get? (s.c.preload k).mem k = some v) :
    WF cfg (loadStep cfg s k v victim).1 := by
  unfold loadStep
  have hg := preload_grow s.c k h.memNodup
  have h0 : WF cfg ({ s with c := s.c.preload k } : St K V) := wf_of_mem_grow _ h hg.1 hg.2
  have hres : has (s.c.preload k).mem k = true := (has_eq_true_iff _ _).mpr ⟨v, hl⟩
  have h1 := wf_useKey (cfg := cfg) k h0 hres
  refine wf_finish k v 0 victim (wf_stats _ _ _ h1) hmp ?_
  intro ha
  refine ⟨by simpa using hres, ?_⟩
  rw [useKey_queue_mru _ _ _ ha]
  exact not_mem_queue_of_absent (cfg := cfg) (s := s) k h hk

theorem wf_missStep {cfg : Cfg} {s : St K V} (k : K) (v : V) (victim : Option K) (h : WF cfg s)
    (hmp : MruNoPurge cfg) (hk : get? s.c.mem k = none) :
    WF cfg (missStep cfg s k v victim).1 := by
  unfold missStep
  have hg := preload_grow s.c k h.memNodup
  have hres : has (put (s.c.preload k).mem k v) k = true := by rw [has_put]; simp
  have h0 : WF cfg ({ s with c := { s.c.preload k with mem := put (s.c.preload k).mem k v } } : St K V) :=
    wf_of_mem_grow _ h (nodup_keys_put _ _ _ hg.1)
      (fun j hj => by show has (put (s.c.preload k).mem k v) j = true; rw [has_put]; simp [hg.2 j hj])
  have h1 := wf_useKey (cfg := cfg) k h0 hres
  refine wf_finish k v 1 victim (wf_stats _ _ _ h1) hmp ?_
  intro ha
  refine ⟨by simpa using hres, ?_⟩
  rw [useKey_queue_mru _ _ _ ha]
  exact not_mem_queue_of_absent (cfg := cfg) (s := s) k h hk

theorem wf_callCached {cfg : Cfg} {s : St K V} (ci : CallIn K V) (h : WF cfg s) (hmp : MruNoPurge cfg) :
    WF cfg (callCached cfg s ci).1 := by
  unfold callCached
  cases hkey : ci.key with
  | genError e => exact wf_keyFail _ _ h
  | unhashable e => exact wf_keyFail _ _ h
  | ok k =>
    simp only
    cases hm : get? s.c.mem k with
    | some v => exact wf_hitStep k v h ((has_eq_true_iff _ _).mpr ⟨v, hm⟩)
    | none =>
      simp only
      cases hl : get? (s.c.preload k).mem k with
      | some v => exact wf_loadStep k v _ h hmp hm hl
      | none =>
        simp only
        cases hf : ci.fn with
        | error e => exact h
        | ok v => exact wf_missStep k v _ h hmp hm

theorem wf_callNo {cfg : Cfg} {s : St K V} (ci : CallIn K V) (h : WF cfg s) (ha : cfg.algo = .no) :
    WF cfg (callNo cfg s ci).1 := by
  have hq : s.queue = [] := h.queueNil (by rw [ha]; simp) (by rw [ha]; simp)
  have hu : s.uc = [] := h.ucNil (by rw [ha]; simp)
  have hclr : ∀ (c' : Cache K V) (a b c : Nat), c'.mem = [] →
      WF cfg ({ s with c := c', hit := a, miss := b, load := c } : St K V) := by
    intro c' a b c hm
    exact ⟨by simp [hm, keys], by simp [hq], by simp [hu, keys], h.ucNodup, h.rcNodup,
      fun hl => (by rw [ha] at hl; cases hl), fun hl => (by rw [ha] at hl; cases hl),
      fun _ _ => hq, fun _ => hu⟩
  unfold callNo
  split
  · exact wf_keyFail _ _ h
  · split
    · split
      · exact hclr _ _ _ _ rfl
      · exact h
    · exact h
  · simp only
    split
    · exact hclr _ _ _ _ rfl
    · split
      · exact h
      · exact hclr _ _ _ _ rfl

theorem wf_call {cfg : Cfg} {s : St K V} (ci : CallIn K V) (h : WF cfg s) (hmp : MruNoPurge cfg) :
    WF cfg (call cfg s ci).1 := by
  unfold call
  split
  · rename_i ha; exact wf_callNo ci h ha
  · exact wf_callCached ci h hmp

/-- `WF` is an invariant of the whole wrapper alphabet -/
theorem wf_step {cfg : Cfg} {s : St K V} (op : Op K V) (h : WF cfg s) (hmp : MruNoPurge cfg) :
    WF cfg (step cfg s op).1 := by
  cases op with
  | call ci => exact wf_call ci h hmp
  | lookup key =>
    simp only [step]
    split
    · split <;> exact h
    · exact h
    · exact h
  | clear keep =>
    simp only [step]
    have h1 : WF cfg ({ s.clearBook with c := s.c.clearMem } : St K V) := wf_clear cfg s _ rfl
    split
    · exact h1
    · exact wf_stats 0 0 0 h1
  | load ks =>
    have hg := loadKeys_grow s.c ks h.memNodup
    exact wf_of_mem_grow _ h hg.1 hg.2
  | loadAll =>
    have hg := loadAll_grow s.c h.memNodup
    exact wf_of_mem_grow _ h hg.1 hg.2
  | dump ks => exact wf_same_mem _ h (by simp)
  | dumpAll => exact wf_same_mem _ h (by simp)
  | archivedOn =>
    simp only [step]
    split
    · rename_i c' hc; exact wf_same_mem _ h (archivedOn_mem _ _ hc)
    · exact h
  | archivedOff =>
    simp only [step]
    split
    · rename_i c' hc; exact wf_same_mem _ h (archivedOff_mem _ _ hc)
    · exact h
  | archivedQ => exact h
  | setArchive a =>
    simp only [step]
    split
    · exact h
    · exact wf_same_mem _ h (by simp)
  | extPut k v => exact wf_same_mem _ h (by simp)
  | extDel k => exact wf_same_mem _ h (by simp)
  | info => exact h

/-- every state reachable by a history of operations is well-formed -/
theorem wf_run {cfg : Cfg} (ops : List (Op K V)) (s : St K V) (h : WF cfg s) (hmp : MruNoPurge cfg) :
    WF cfg (run cfg s ops).1 := by
  induction ops generalizing s with
  | nil => exact h
  | cons op ops ih =>
    simp only [run]
    exact ih _ (wf_step op h hmp)

end Klepto
