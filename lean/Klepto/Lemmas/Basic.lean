import Klepto.Model.Wrapper
import Klepto.Lemmas.AMap
/-! Basic rewriting lemmas for M2/M3: which component each helper touches. Core only. -/
namespace Klepto
open AMap
set_option linter.unusedSectionVars false
variable {K V : Type} [DecidableEq K]

/-! ### cache -/

@[simp] theorem dump1_mem (c : Cache K V) (k : K) : (c.dump1 k).mem = c.mem := by
  unfold Cache.dump1; split <;> rfl
@[simp] theorem dump1_swap (c : Cache K V) (k : K) : (c.dump1 k).swap = c.swap := by
  unfold Cache.dump1; split <;> rfl
@[simp] theorem dump1_bare (c : Cache K V) (k : K) : (c.dump1 k).bare = c.bare := by
  unfold Cache.dump1; split <;> rfl
@[simp] theorem dumpAll_mem (c : Cache K V) : c.dumpAll.mem = c.mem := by
  unfold Cache.dumpAll; split <;> rfl
@[simp] theorem dumpAll_swap (c : Cache K V) : c.dumpAll.swap = c.swap := by
  unfold Cache.dumpAll; split <;> rfl
@[simp] theorem load1_arch (c : Cache K V) (k : K) : (c.load1 k).arch = c.arch := by
  unfold Cache.load1; split <;> try rfl
  split <;> rfl
@[simp] theorem load1_swap (c : Cache K V) (k : K) : (c.load1 k).swap = c.swap := by
  unfold Cache.load1; split <;> try rfl
  split <;> rfl
@[simp] theorem loadAll_arch (c : Cache K V) : c.loadAll.arch = c.arch := by
  unfold Cache.loadAll; split <;> rfl
@[simp] theorem preload_arch (c : Cache K V) (k : K) : (c.preload k).arch = c.arch := by
  unfold Cache.preload; split <;> simp
@[simp] theorem preload_swap (c : Cache K V) (k : K) : (c.preload k).swap = c.swap := by
  unfold Cache.preload; split <;> simp
@[simp] theorem clearMem_arch (c : Cache K V) : c.clearMem.arch = c.arch := rfl
@[simp] theorem clearMem_mem (c : Cache K V) : c.clearMem.mem = [] := rfl
@[simp] theorem delMem_arch (c : Cache K V) (k : K) : (c.delMem k).arch = c.arch := rfl
@[simp] theorem delMem_mem (c : Cache K V) (k : K) : (c.delMem k).mem = erase c.mem k := rfl

theorem archived_iff (c : Cache K V) : c.archived = true ↔ ∃ a, c.arch = some a := by
  unfold Cache.archived; cases c.arch <;> simp

@[simp] theorem dump1_archived (c : Cache K V) (k : K) : (c.dump1 k).archived = c.archived := by
  unfold Cache.dump1 Cache.archived; split <;> simp_all
@[simp] theorem dumpAll_archived (c : Cache K V) : c.dumpAll.archived = c.archived := by
  unfold Cache.dumpAll Cache.archived; split <;> simp_all
@[simp] theorem preload_archived (c : Cache K V) (k : K) : (c.preload k).archived = c.archived := by
  simp [Cache.archived]

/-- what `cache.load(k)` does to memory -/
theorem load1_mem (c : Cache K V) (k : K) :
    (c.load1 k).mem = match c.arch with
      | some a => (match get? a k with | some v => put c.mem k v | none => c.mem)
      | none => c.mem := by
  unfold Cache.load1; split
  · split <;> simp_all
  · simp_all

theorem preload_mem (c : Cache K V) (k : K) :
    (c.preload k).mem = match c.arch with
      | some a => (match get? a k with | some v => put c.mem k v | none => c.mem)
      | none => c.mem := by
  unfold Cache.preload
  split
  · exact load1_mem c k
  · rename_i h
    have : c.arch = none := by
      unfold Cache.archived at h; cases hc : c.arch <;> simp_all
    simp [this]

/-- the key is found after `preload` iff it was resident or the archive has it -/
theorem preload_get_self (c : Cache K V) (k : K) :
    get? (c.preload k).mem k = match c.arch with
      | some a => (match get? a k with | some v => some v | none => get? c.mem k)
      | none => get? c.mem k := by
  rw [preload_mem]
  split
  · split <;> simp_all [get?_put]
  · rfl

theorem preload_get_other (c : Cache K V) (k j : K) (h : j ≠ k) :
    get? (c.preload k).mem j = get? c.mem j := by
  rw [preload_mem]
  split
  · split <;> simp_all [get?_put]
  · rfl

/-! ### bookkeeping helpers -/

@[simp] theorem useKey_c (cfg : Cfg) (s : St K V) (k : K) : (useKey cfg s k).c = s.c := by
  unfold useKey; split <;> rfl
@[simp] theorem useKey_hit (cfg : Cfg) (s : St K V) (k : K) : (useKey cfg s k).hit = s.hit := by
  unfold useKey; split <;> rfl
@[simp] theorem useKey_miss (cfg : Cfg) (s : St K V) (k : K) : (useKey cfg s k).miss = s.miss := by
  unfold useKey; split <;> rfl
@[simp] theorem useKey_load (cfg : Cfg) (s : St K V) (k : K) : (useKey cfg s k).load = s.load := by
  unfold useKey; split <;> rfl
@[simp] theorem post_c (cfg : Cfg) (s : St K V) (k : K) : (post cfg s k).c = s.c := by
  unfold post; split <;> try rfl
  split <;> rfl
@[simp] theorem post_hit (cfg : Cfg) (s : St K V) (k : K) : (post cfg s k).hit = s.hit := by
  unfold post; split <;> try rfl
  split <;> rfl
@[simp] theorem post_miss (cfg : Cfg) (s : St K V) (k : K) : (post cfg s k).miss = s.miss := by
  unfold post; split <;> try rfl
  split <;> rfl
@[simp] theorem post_load (cfg : Cfg) (s : St K V) (k : K) : (post cfg s k).load = s.load := by
  unfold post; split <;> try rfl
  split <;> rfl
@[simp] theorem post_uc (cfg : Cfg) (s : St K V) (k : K) : (post cfg s k).uc = s.uc := by
  unfold post; split <;> try rfl
  split <;> rfl

@[simp] theorem evictOne_mem (s : St K V) (k : K) : (evictOne s k).c.mem = erase s.c.mem k := by
  simp [evictOne, Cache.delMem]
@[simp] theorem evictOne_hit (s : St K V) (k : K) : (evictOne s k).hit = s.hit := rfl
@[simp] theorem evictOne_miss (s : St K V) (k : K) : (evictOne s k).miss = s.miss := rfl
@[simp] theorem evictOne_load (s : St K V) (k : K) : (evictOne s k).load = s.load := rfl
@[simp] theorem evictOne_queue (s : St K V) (k : K) : (evictOne s k).queue = s.queue := rfl
@[simp] theorem evictOne_rc (s : St K V) (k : K) : (evictOne s k).rc = s.rc := rfl
@[simp] theorem evictOne_uc (s : St K V) (k : K) : (evictOne s k).uc = s.uc := rfl
@[simp] theorem evictOne_swap (s : St K V) (k : K) : (evictOne s k).c.swap = s.c.swap := by
  simp [evictOne, Cache.delMem]
@[simp] theorem evictOne_archived (s : St K V) (k : K) : (evictOne s k).c.archived = s.c.archived := by
  have := dump1_archived s.c k
  simp only [Cache.archived] at this
  simp [evictOne, Cache.delMem, Cache.archived, this]

theorem evalDirect_c (s : St K V) (fn : Except Exc V) : (evalDirect s fn).1.c = s.c := by
  unfold evalDirect; split <;> rfl

theorem cget_put (m : List (K × Int)) (k j : K) (x : Int) :
    cget (put m k x) j = if j = k then x else cget m j := by
  unfold cget; rw [get?_put]; split <;> simp

theorem cget_erase (m : List (K × Int)) (k j : K) (h : (keys m).Nodup) :
    cget (erase m k) j = if j = k then 0 else cget m j := by
  unfold cget; rw [get?_erase m k j h]; split <;> simp

theorem ucget_put (m : List (K × Nat)) (k j : K) (x : Nat) :
    ucget (put m k x) j = if j = k then x else ucget m j := by
  unfold ucget; rw [get?_put]; split <;> simp

end Klepto
