import Klepto.Model.FS
import Klepto.Lemmas.DictSpec
/-!
Lemmas about the disk model M8 (`Model/FS.lean`): pointwise effect of every system call, calls that
touch only staging names are invisible to a reader, crash-state enumeration over concatenated programs.
-/
namespace Klepto.Crash
open Klepto AMap
set_option linter.unusedSectionVars false
variable {V : Type}

/-- the disk states agree on every entry a reader can see (staging names are hidden) -/
def VisEq (s s' : DirFS V) : Prop := ∀ m, get? s (.key m) = get? s' (.key m)

theorem VisEq.refl (s : DirFS V) : VisEq s s := fun _ => rfl
theorem VisEq.trans {a b c : DirFS V} (h1 : VisEq a b) (h2 : VisEq b c) : VisEq a c := fun m => (h1 m).trans (h2 m)
theorem VisEq.symm {a b : DirFS V} (h : VisEq a b) : VisEq b a := fun m => (h m).symm

theorem valAt_congr {s s' : DirFS V} (h : VisEq s s') (n : DName) : valAt true s n = valAt true s' n := by
  cases n with
  | key m => simp [valAt, visible, h m]
  | temp i => simp [valAt, visible]

theorem readable_congr {s s' : DirFS V} (h : VisEq s s') (hr : Readable true s) : Readable true s' := by
  intro n d hg hv
  cases n with
  | key m => exact hr (.key m) d (by rw [h m]; exact hg) hv
  | temp i => simp [visible] at hv

/-! ## pointwise effect of `upd`, `put`, `erase` on names -/

theorem get?_upd (s : DirFS V) (n m : DName) (f : DDir V → DDir V) :
    get? (upd s n f) m = if m = n then (get? s n).map f else get? s m := by
  unfold upd
  cases hg : get? s n with
  | none => by_cases h : m = n <;> simp [h, hg]
  | some d =>
    simp only [get?_put]
    by_cases h : m = n <;> simp [h]

theorem nodup_upd (s : DirFS V) (n : DName) (f : DDir V → DDir V) (h : (keys s).Nodup) : (keys (upd s n f)).Nodup := by
  unfold upd
  cases get? s n with
  | none => exact h
  | some d => exact nodup_keys_put s n _ h

/-- system calls that name only staging directories -/
def TempOnly : DSys V → Prop
  | .mkdir (.temp _) | .creatOut (.temp _) | .writeOut (.temp _) _ | .tornOut (.temp _) | .creatIn (.temp _)
  | .writeIn (.temp _) | .tornIn (.temp _) | .close | .unlinkOut (.temp _) | .unlinkIn (.temp _) | .rmdir (.temp _) => True
  | .rename (.temp _) (.temp _) => True
  | _ => False

theorem nodup_dstep (s : DirFS V) (x : DSys V) (h : (keys s).Nodup) : (keys (dstep s x)).Nodup := by
  cases x <;> simp only [dstep] <;> (try exact nodup_upd _ _ _ h) <;> (try exact h)
  · split
    · exact h
    · exact nodup_keys_put _ _ _ h
  · split
    · split
      · exact nodup_keys_erase _ _ h
      · exact h
    · exact h
  · split
    · exact nodup_keys_put _ _ _ (nodup_keys_erase _ _ h)
    · exact h

theorem nodup_drun (s : DirFS V) (p : List (DSys V)) (h : (keys s).Nodup) : (keys (drun s p)).Nodup := by
  unfold drun
  induction p generalizing s with
  | nil => exact h
  | cons x xs ih => exact ih _ (nodup_dstep s x h)

/-- a call that names only staging directories changes nothing a reader can see -/
theorem visEq_tempOnly (s : DirFS V) (x : DSys V) (hx : TempOnly x) (hn : (keys s).Nodup) : VisEq (dstep s x) s := by
  intro m
  cases x with
  | mkdir n =>
    cases n with
    | key _ => exact absurd hx (by simp [TempOnly])
    | temp i =>
      simp only [dstep]; split
      · rfl
      · simp [get?_put]
  | creatOut n => cases n with
    | key _ => exact absurd hx (by simp [TempOnly])
    | temp i => simp [dstep, get?_upd]
  | writeOut n v => cases n with
    | key _ => exact absurd hx (by simp [TempOnly])
    | temp i => simp [dstep, get?_upd]
  | tornOut n => cases n with
    | key _ => exact absurd hx (by simp [TempOnly])
    | temp i => simp [dstep, get?_upd]
  | creatIn n => cases n with
    | key _ => exact absurd hx (by simp [TempOnly])
    | temp i => simp [dstep, get?_upd]
  | writeIn n => cases n with
    | key _ => exact absurd hx (by simp [TempOnly])
    | temp i => simp [dstep, get?_upd]
  | tornIn n => cases n with
    | key _ => exact absurd hx (by simp [TempOnly])
    | temp i => simp [dstep, get?_upd]
  | close => rfl
  | unlinkOut n => cases n with
    | key _ => exact absurd hx (by simp [TempOnly])
    | temp i => simp [dstep, get?_upd]
  | unlinkIn n => cases n with
    | key _ => exact absurd hx (by simp [TempOnly])
    | temp i => simp [dstep, get?_upd]
  | rmdir n => cases n with
    | key _ => exact absurd hx (by simp [TempOnly])
    | temp i =>
      simp only [dstep]
      split
      · split
        · rw [get?_erase _ _ _ hn]; simp
        · rfl
      · rfl
  | rename a b =>
    cases a with
    | key _ => exact absurd hx (by simp [TempOnly])
    | temp i =>
      cases b with
      | key _ => exact absurd hx (by simp [TempOnly])
      | temp j =>
        simp only [dstep]
        split
        · rw [get?_put, get?_erase _ _ _ hn]; simp
        · rfl

/-! ## crash enumeration -/

theorem allCrash_of_tempOnly (P : DirFS V → Prop) (hP : ∀ s s', VisEq s s' → P s → P s')
    (s : DirFS V) (p : List (DSys V)) (hp : ∀ x ∈ p, TempOnly x) (hn : (keys s).Nodup) (h : P s) :
    AllCrash P s p ∧ VisEq (drun s p) s := by
  induction p generalizing s with
  | nil => exact ⟨h, VisEq.refl _⟩
  | cons x xs ih =>
    have hx := hp x (by simp)
    have hv := visEq_tempOnly s x hx hn
    have h' : P (dstep s x) := hP _ _ hv.symm h
    obtain ⟨h1, h2⟩ := ih (dstep s x) (fun y hy => hp y (List.mem_cons_of_mem _ hy)) (nodup_dstep s x hn) h'
    refine ⟨⟨h, ?_, h1⟩, ?_⟩
    · cases x with
      | writeOut n v =>
        cases n with
        | key _ => exact absurd hx (by simp [TempOnly])
        | temp i => exact hP _ _ (visEq_tempOnly s (.tornOut (.temp i)) (by simp [TempOnly]) hn).symm h
      | writeIn n =>
        cases n with
        | key _ => exact absurd hx (by simp [TempOnly])
        | temp i => exact hP _ _ (visEq_tempOnly s (.tornIn (.temp i)) (by simp [TempOnly]) hn).symm h
      | _ => trivial
    · simp only [drun, List.foldl_cons] at h2 ⊢
      exact h2.trans hv

theorem drun_append (s : DirFS V) (p q : List (DSys V)) : drun s (p ++ q) = drun (drun s p) q := by
  simp [drun, List.foldl_append]

/-- crash states of `p ++ q`: those of `p`, then those of `q` from where `p` ended -/
theorem allCrash_append (P : DirFS V → Prop) (s : DirFS V) (p q : List (DSys V))
    (h1 : AllCrash P s p) (h2 : AllCrash P (drun s p) q) : AllCrash P s (p ++ q) := by
  induction p generalizing s with
  | nil => simpa [drun] using h2
  | cons x xs ih =>
    obtain ⟨a, b, c⟩ := h1
    exact ⟨a, b, ih _ c (by simpa [drun] using h2)⟩

/-- `AllCrash` is the proposition "every enumerated crash state satisfies `P`" -/
theorem allCrash_iff (P : DirFS V → Prop) (s : DirFS V) (p : List (DSys V)) :
    AllCrash P s p ↔ ∀ c ∈ dirCrashStates s p, P c := by
  induction p generalizing s with
  | nil => simp [AllCrash, dirCrashStates]
  | cons x xs ih =>
    simp only [AllCrash, dirCrashStates, List.mem_cons, List.mem_append]
    rw [ih]
    constructor
    · rintro ⟨a, b, c⟩ st hst
      rcases hst with (rfl | hst) | hst
      · exact a
      · cases x <;> simp at hst <;> (subst hst; exact b)
      · exact c st hst
    · intro h
      refine ⟨h s (Or.inl (Or.inl rfl)), ?_, fun st hst => h st (Or.inr hst)⟩
      cases x <;> (try trivial) <;> exact h _ (Or.inl (Or.inr (by simp)))

end Klepto.Crash
