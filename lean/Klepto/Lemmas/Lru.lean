import Klepto.Lemmas.Basic
/-! LRU bookkeeping: the `popleft` loop over `(queue, refcount)` and the queue compaction
refine a *recency list* (`dkl`: distinct keys ordered by last occurrence, oldest first). -/
namespace Klepto
open AMap
set_option linter.unusedSectionVars false
variable {K : Type} [DecidableEq K]

/-- `refcount[k]` = number of occurrences of `k` in the queue -/
def RcInv (q : List K) (rc : List (K × Int)) : Prop := ∀ k, cget rc k = (q.count k : Int)

theorem dec_inv {q : List K} {rc : List (K × Int)} {k : K} (h : RcInv (k :: q) rc) :
    RcInv q (put rc k (cget rc k - 1)) := by
  intro j
  rw [cget_put]
  have := h j
  by_cases hj : j = k
  · subst hj; simp [List.count_cons_self] at this; simp; omega
  · have hne : (k == j) = false := by simp [beq_eq_false_iff_ne]; exact fun h => hj h.symm
    simp [hj, List.count_cons, hne] at this ⊢; exact this

/-- recency list: distinct keys ordered by last occurrence (oldest first) -/
def dkl : List K → List K
  | [] => []
  | k :: q => if k ∈ q then dkl q else k :: dkl q

theorem mem_dkl (q : List K) (x : K) : x ∈ dkl q ↔ x ∈ q := by
  induction q with
  | nil => simp [dkl]
  | cons k q ih =>
    simp only [dkl]
    split
    · rename_i h; rw [ih]; constructor
      · exact fun hx => List.mem_cons_of_mem _ hx
      · intro hx; rcases List.mem_cons.mp hx with rfl | hx
        · exact h
        · exact hx
    · simp [ih]

theorem nodup_dkl (q : List K) : (dkl q).Nodup := by
  induction q with
  | nil => simp [dkl]
  | cons k q ih =>
    simp only [dkl]; split
    · exact ih
    · rename_i h; exact List.nodup_cons.mpr ⟨fun hh => h ((mem_dkl q k).mp hh), ih⟩

theorem dkl_of_nodup (q : List K) (h : q.Nodup) : dkl q = q := by
  induction q with
  | nil => rfl
  | cons k q ih =>
    have := List.nodup_cons.mp h
    simp [dkl, this.1, ih this.2]

/-- the code's compaction (pop from the right, `appendleft` unseen keys) is `dkl` -/
theorem compactQ_eq_dkl (q : List K) : compactQ q = dkl q := by
  unfold compactQ
  rw [List.foldl_reverse]
  induction q with
  | nil => simp [dkl]
  | cons k q ih =>
    simp only [List.foldr_cons, dkl]
    rw [ih]
    by_cases h : k ∈ q
    · simp [h, mem_dkl]
    · simp [h, mem_dkl]

/-- a use of `k` moves it to the most-recent end of the recency list -/
theorem dkl_append (q : List K) (k : K) : dkl (q ++ [k]) = (dkl q).filter (· ≠ k) ++ [k] := by
  induction q with
  | nil => simp [dkl]
  | cons a q ih =>
    simp only [List.cons_append, dkl]
    by_cases ha : a = k
    · subst ha
      simp [ih]
      split
      · rfl
      · simp
    · by_cases hq : a ∈ q
      · simp [hq, ih]
      · have : a ∉ q ++ [k] := by simp [hq, ha]
        simp [hq, this, ih, ha]

/-- under the invariant a non-empty queue always yields a victim (the loop never underflows);
the victim is the head of the recency list, the remaining queue is a suffix in which the victim
no longer occurs, and every key popped on the way occurs again later or is the victim. -/
theorem lruLoop_spec : ∀ (q : List K) (rc : List (K × Int)), RcInv q rc → q ≠ [] →
    ∃ pre v post rc', lruLoop q rc = some (v, post, rc') ∧ q = pre ++ v :: post ∧ v ∉ post ∧
      (∀ x ∈ pre, x ∈ post ∨ x = v) ∧ RcInv post rc' ∧ dkl q = v :: dkl post ∧
      ((keys rc).Nodup → (keys rc').Nodup)
  | [], _, _, h => absurd rfl h
  | k :: q, rc, hinv, _ => by
    have hinv' := dec_inv hinv
    by_cases hk : cget (put rc k (cget rc k - 1)) k = 0
    · have hnot : k ∉ q := by
        have := hinv' k; rw [hk] at this
        intro hmem
        have : 0 < q.count k := List.count_pos_iff.mpr hmem
        omega
      refine ⟨[], k, q, put rc k (cget rc k - 1), ?_, rfl, hnot, by simp, hinv', ?_, ?_⟩
      · simp [lruLoop, hk]
      · simp [dkl, hnot]
      · intro hn; exact nodup_keys_put _ _ _ hn
    · have hmem : k ∈ q := by
        have hc := hinv' k
        have : q.count k ≠ 0 := by intro h0; rw [h0] at hc; exact hk (by simpa using hc)
        exact List.count_pos_iff.mp (Nat.pos_of_ne_zero this)
      have hne : q ≠ [] := List.ne_nil_of_mem hmem
      obtain ⟨pre, v, post, rc', he, hq, hv, hpre, hi, hd, hn⟩ := lruLoop_spec q _ hinv' hne
      refine ⟨k :: pre, v, post, rc', ?_, by simp [hq], hv, ?_, hi, ?_, ?_⟩
      · simp [lruLoop, hk, he]
      · intro x hx
        rcases List.mem_cons.mp hx with rfl | hx
        · rw [hq] at hmem
          rcases List.mem_append.mp hmem with h | h
          · exact hpre x h
          · rcases List.mem_cons.mp h with rfl | h
            · exact Or.inr rfl
            · exact Or.inl h
        · exact hpre x hx
      · simp [dkl, hmem, hd]
      · intro h0; exact hn (nodup_keys_put _ _ _ h0)

/-- whatever the bookkeeping looks like, a victim returned by the loop was in the queue and
the remaining queue is a suffix of it -/
theorem lruLoop_mem : ∀ (q : List K) (rc : List (K × Int)) v q' rc',
    lruLoop q rc = some (v, q', rc') → v ∈ q ∧ ∀ x ∈ q', x ∈ q
  | [], _, _, _, _, h => by simp [lruLoop] at h
  | k :: q, rc, v, q', rc', h => by
    simp only [lruLoop] at h
    split at h
    · simp at h; obtain ⟨h1, h2, _⟩ := h; subst h1; subst h2
      exact ⟨by simp, fun x hx => List.mem_cons_of_mem _ hx⟩
    · have := lruLoop_mem q _ v q' rc' h
      exact ⟨List.mem_cons_of_mem _ this.1, fun x hx => List.mem_cons_of_mem _ (this.2 x hx)⟩

end Klepto
