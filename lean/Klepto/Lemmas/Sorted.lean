import Klepto.Lemmas.Keygen
/-! `sorted(kwds.items())` is canonical: dicts equal as maps have the same sorted item list. -/
namespace Klepto.Keys
open Klepto.AMap
set_option linter.unusedSectionVars false
variable {Val : Type} [DecidableEq Val]

/-- what is assumed of Python's ordering on the parameter names (strings): a total order -/
structure TotalOrder (le : Val → Val → Bool) : Prop where
  trans : ∀ a b c, le a b = true → le b c = true → le a c = true
  total : ∀ a b, (le a b || le b a) = true
  antisymm : ∀ a b, le a b = true → le b a = true → a = b

theorem mem_of_get? (m : List (Val × Val)) (k v : Val) (h : get? m k = some v) : (k, v) ∈ m := by
  induction m with
  | nil => simp [get?] at h
  | cons p m ih =>
    obtain ⟨k', v'⟩ := p
    by_cases hk : k' = k
    · subst hk; simp [get?] at h; subst h; simp
    · simp [get?, hk] at h; exact List.mem_cons_of_mem _ (ih h)

theorem get?_of_mem (m : List (Val × Val)) (k v : Val) (hnd : (keys m).Nodup) (h : (k, v) ∈ m) :
    get? m k = some v := by
  induction m with
  | nil => simp at h
  | cons p m ih =>
    obtain ⟨k', v'⟩ := p
    simp only [keys, List.map_cons, List.nodup_cons] at hnd
    rcases List.mem_cons.mp h with h | h
    · cases h; simp [get?]
    · have hk : k' ≠ k := by
        intro hh; subst hh
        exact hnd.1 (List.mem_map_of_mem (f := (·.1)) h)
      simp [get?, hk]; exact ih hnd.2 h

theorem nodup_of_nodup_keys (m : List (Val × Val)) (h : (keys m).Nodup) : m.Nodup := by
  induction m with
  | nil => simp
  | cons p m ih =>
    simp only [keys, List.map_cons, List.nodup_cons] at h
    refine List.nodup_cons.mpr ⟨?_, ih h.2⟩
    intro hm; exact h.1 (List.mem_map_of_mem (f := (·.1)) hm)

theorem perm_of_get?_eq (l₁ l₂ : List (Val × Val)) (h₁ : (keys l₁).Nodup) (h₂ : (keys l₂).Nodup)
    (h : ∀ n, get? l₁ n = get? l₂ n) : l₁.Perm l₂ := by
  refine (List.perm_ext_iff_of_nodup (nodup_of_nodup_keys _ h₁) (nodup_of_nodup_keys _ h₂)).mpr ?_
  rintro ⟨k, v⟩
  constructor
  · intro hm; exact mem_of_get? _ _ _ (by rw [← h]; exact get?_of_mem _ _ _ h₁ hm)
  · intro hm; exact mem_of_get? _ _ _ (by rw [h]; exact get?_of_mem _ _ _ h₂ hm)

/-- **flat keys erase keyword order**: two keyword dicts that are equal as maps have the same
sorted item list, whatever their insertion orders were -/
theorem sorted_items_canonical (le : Val → Val → Bool) (hle : TotalOrder le)
    (l₁ l₂ : List (Val × Val)) (h₁ : (keys l₁).Nodup) (h₂ : (keys l₂).Nodup)
    (h : ∀ n, get? l₁ n = get? l₂ n) : sortedItems le l₁ = sortedItems le l₂ := by
  unfold sortedItems
  have hp : (isort (fun a b => le a.1 b.1) l₁).Perm (isort (fun a b => le a.1 b.1) l₂) :=
    (isort_perm _ l₁).trans ((perm_of_get?_eq l₁ l₂ h₁ h₂ h).trans (isort_perm _ l₂).symm)
  have tr : ∀ (a b c : Val × Val), le a.1 b.1 = true → le b.1 c.1 = true → le a.1 c.1 = true :=
    fun a b c => hle.trans a.1 b.1 c.1
  have tot : ∀ (a b : Val × Val), (le a.1 b.1 || le b.1 a.1) = true := fun a b => hle.total a.1 b.1
  refine List.Perm.eq_of_pairwise (le := fun a b => le a.1 b.1 = true) ?_
    (isort_pairwise _ tr tot l₁) (isort_pairwise _ tr tot l₂) hp
  intro a b ha hb hab hba
  have hk : a.1 = b.1 := hle.antisymm _ _ hab hba
  have ha' : a ∈ l₁ := (mem_isort _ _ _).mp ha
  have hb' : b ∈ l₂ := (mem_isort _ _ _).mp hb
  obtain ⟨ka, va⟩ := a; obtain ⟨kb, vb⟩ := b
  simp only at hk; subst hk
  have e1 := get?_of_mem _ _ _ h₁ ha'
  have e2 := get?_of_mem _ _ _ h₂ hb'
  rw [h ka, e2] at e1
  cases e1; rfl

/-- a dict built by `update` has distinct keys -/
theorem keygenPlain_nodup (f : Func Val) (c : PCall Val) (hpos : (names f.pos).Nodup) :
    (keys (keygenPlain f c).2).Nodup := by
  unfold keygenPlain
  refine nodup_keys_update _ _ (nodup_keys_update _ _ (nodup_keys_update _ _ (keys_defaultsOf_nodup _ hpos)))

end Klepto.Keys
