import Klepto.Lemmas.Evict
/-! One characterisation of what a call of a caching decorator does to the cache: at most one
insertion (a value loaded from the archive, or a freshly computed one for a key the archive does not
have), followed by moves from memory to the archive. -/
namespace Klepto
open AMap
set_option linter.unusedSectionVars false
variable {K V : Type} [DecidableEq K]

/-- `c2` is `c` with the entry `k ↦ v` inserted into memory -/
structure Ins (c c2 : Cache K V) (k : K) (v : V) : Prop where
  absent : get? c.mem k = none
  mem : c2.mem = put c.mem k v
  arch : c2.arch = c.arch
  swap : c2.swap = c.swap
  /-- the inserted value is the archived one, or the archive has nothing for `k` -/
  agree : c.aget k = some v ∨ c.aget k = none

theorem Ins.archived {c c2 : Cache K V} {k : K} {v : V} (h : Ins c c2 k v) : c2.archived = c.archived := by
  simp [Cache.archived, h.arch]

theorem Ins.aget {c c2 : Cache K V} {k : K} {v : V} (h : Ins c c2 k v) (j : K) : c2.aget j = c.aget j := by
  simp [Cache.aget, h.arch]

theorem Ins.get_other {c c2 : Cache K V} {k : K} {v : V} (h : Ins c c2 k v) (j : K) (hj : j ≠ k) :
    get? c2.mem j = get? c.mem j := by
  rw [h.mem, get?_put]; simp [hj]

theorem Ins.get_self {c c2 : Cache K V} {k : K} {v : V} (h : Ins c c2 k v) : get? c2.mem k = some v := by
  rw [h.mem, get?_put]; simp

theorem Ins.nodup {c c2 : Cache K V} {k : K} {v : V} (h : Ins c c2 k v) (hn : (keys c.mem).Nodup) :
    (keys c2.mem).Nodup := by rw [h.mem]; exact nodup_keys_put _ _ _ hn

/-- LOAD: `preload` inserted the archived value -/
theorem ins_of_load (c : Cache K V) (k : K) (v : V) (hk : get? c.mem k = none)
    (hl : get? (c.preload k).mem k = some v) : Ins c (c.preload k) k v ∧ c.aget k = some v := by
  have h1 := preload_mem c k
  have h2 := preload_get_self c k
  rw [hl] at h2
  cases ha : c.arch with
  | none => simp [ha, hk] at h2
  | some a =>
    simp only [ha] at h1 h2
    cases hak : get? a k with
    | none => simp [hak, hk] at h2
    | some w =>
      simp only [hak] at h1 h2; cases h2
      have hag : c.aget k = some v := by simp [Cache.aget, ha, hak]
      exact ⟨⟨hk, h1, by simp, by simp, Or.inl hag⟩, hag⟩

/-- not found after `preload`: memory is untouched and the attached archive has nothing for `k` -/
theorem preload_of_notfound (c : Cache K V) (k : K) (hl : get? (c.preload k).mem k = none) :
    (c.preload k).mem = c.mem ∧ c.aget k = none := by
  have h1 := preload_mem c k
  have h2 := preload_get_self c k
  rw [hl] at h2
  cases ha : c.arch with
  | none => simp only [ha] at h1; exact ⟨h1, by simp [Cache.aget, ha]⟩
  | some a =>
    simp only [ha] at h1 h2
    cases hak : get? a k with
    | none => simp only [hak] at h1; exact ⟨h1, by simp [Cache.aget, ha, hak]⟩
    | some w => simp [hak] at h2

theorem ins_of_miss (c : Cache K V) (k : K) (v : V) (hk : get? c.mem k = none)
    (hl : get? (c.preload k).mem k = none) :
    Ins c { c.preload k with mem := put (c.preload k).mem k v } k v := by
  obtain ⟨hm, ha⟩ := preload_of_notfound c k hl
  exact ⟨hk, by simp [hm], by simp, by simp, Or.inr ha⟩

theorem finish_out (cfg : Cfg) (s2 : St K V) (k : K) (v : V) (n : Nat) (vi : Option K) :
    (finish cfg s2 k v n vi).2 = .ret v n ∨ (finish cfg s2 k v n vi).2 = .raised .indexError n := by
  unfold finish
  split
  · exact Or.inl rfl
  · split
    · exact Or.inr rfl
    · exact Or.inl rfl

/-- the value returned by a call that does not insert is the resident one -/
def RetResident (s : St K V) (ci : CallIn K V) (o : Out V) : Prop :=
  ∀ k v n, ci.key = .ok k → o = .ret v n → get? s.c.mem k = some v

/-- the value returned by a call that inserts `v` is `v` -/
def RetIs (o : Out V) (v : V) : Prop := ∀ v' n, o = .ret v' n → v' = v

/-- **what a call of a caching decorator does to the cache** -/
theorem callCached_rel (cfg : Cfg) (s : St K V) (ci : CallIn K V) (hn : (keys s.c.mem).Nodup) :
    ∃ c2, ((c2 = s.c ∧ RetResident s ci (callCached cfg s ci).2 ∧
          (∀ k v, ci.key = .ok k → ci.fn = .ok v → (get? s.c.mem k).isSome = true)) ∨
        ∃ k v, ci.key = .ok k ∧ Ins s.c c2 k v ∧ RetIs (callCached cfg s ci).2 v ∧
          (s.c.aget k = some v ∨ ci.fn = .ok v)) ∧
      MoveRel c2 (callCached cfg s ci).1.c ∧
      (s.c.archived = true → Leaves c2 (callCached cfg s ci).1.c) := by
  unfold callCached
  cases hkey : ci.key with
  | genError e =>
    refine ⟨s.c, Or.inl ⟨rfl, fun k v n hk _ => (by rw [hkey] at hk; cases hk), fun k v hk _ => (by cases hk)⟩, ?_, fun _ => ?_⟩ <;>
      (simp only [keyFail]; split <;> simp only [evalDirect_c] <;> first | exact MoveRel.refl _ | exact Leaves.refl _)
  | unhashable e =>
    refine ⟨s.c, Or.inl ⟨rfl, fun k v n hk _ => (by rw [hkey] at hk; cases hk), fun k v hk _ => (by cases hk)⟩, ?_, fun _ => ?_⟩ <;>
      (simp only [keyFail]; split <;> simp only [evalDirect_c] <;> first | exact MoveRel.refl _ | exact Leaves.refl _)
  | ok k =>
    simp only
    cases hm : get? s.c.mem k with
    | some v =>
      refine ⟨s.c, Or.inl ⟨rfl, fun k' v' n hk ho => (by
        rw [hkey] at hk; cases hk; simp only [hitStep] at ho; cases ho; exact hm),
        fun k' v' hk _ => (by cases hk; simp [hm])⟩, ?_, fun _ => ?_⟩ <;>
        (simp only [hitStep, post_c]; split <;> simp only [useKey_c] <;> first | exact MoveRel.refl _ | exact Leaves.refl _)
    | none =>
      simp only
      cases hl : get? (s.c.preload k).mem k with
      | some v =>
        simp only
        obtain ⟨hins, hag⟩ := ins_of_load s.c k v hm hl
        refine ⟨s.c.preload k, Or.inr ⟨k, v, rfl, hins, fun v' n ho => by
          simp only [loadStep] at ho
          rcases finish_out cfg _ k v 0 ci.victim with h | h <;> rw [h] at ho <;> cases ho; rfl, Or.inl hag⟩, ?_, fun ha => ?_⟩
        · simp only [loadStep]
          have := moveRel_finish cfg ({ useKey cfg { s with c := s.c.preload k } k with
            load := (useKey cfg { s with c := s.c.preload k } k).load + 1 }) k v 0 ci.victim
            (by simpa using hins.nodup hn)
          simpa using this
        · simp only [loadStep]
          have := leaves_finish cfg ({ useKey cfg { s with c := s.c.preload k } k with
            load := (useKey cfg { s with c := s.c.preload k } k).load + 1 }) k v 0 ci.victim
            (by simpa using hins.nodup hn) (by simpa using ha)
          simpa using this
      | none =>
        simp only
        cases hf : ci.fn with
        | error e => exact ⟨s.c, Or.inl ⟨rfl, fun k v n _ ho => (by cases ho), fun k v _ h => (by cases h)⟩, MoveRel.refl _, fun _ => Leaves.refl _⟩
        | ok v =>
          simp only
          have hins := ins_of_miss s.c k v hm hl
          refine ⟨_, Or.inr ⟨k, v, rfl, hins, fun v' n ho => by
            simp only [missStep] at ho
            rcases finish_out cfg _ k v 1 ci.victim with h | h <;> rw [h] at ho <;> cases ho; rfl, Or.inr rfl⟩, ?_, fun ha => ?_⟩
          · simp only [missStep]
            have := moveRel_finish cfg ({ useKey cfg { s with c := { s.c.preload k with
                mem := put (s.c.preload k).mem k v } } k with
              miss := (useKey cfg { s with c := { s.c.preload k with
                mem := put (s.c.preload k).mem k v } } k).miss + 1 }) k v 1 ci.victim
              (by simpa using hins.nodup hn)
            simpa using this
          · simp only [missStep]
            have := leaves_finish cfg ({ useKey cfg { s with c := { s.c.preload k with
                mem := put (s.c.preload k).mem k v } } k with
              miss := (useKey cfg { s with c := { s.c.preload k with
                mem := put (s.c.preload k).mem k v } } k).miss + 1 }) k v 1 ci.victim
              (by simpa using hins.nodup hn) (by simpa [Cache.archived] using ha)
            simpa using this

end Klepto
