import Klepto.Model.Sched
import Klepto.Lemmas.FS
/-!
Lemmas for C14: the effect of a system call on the disk *as a function of names* (so that disks
are compared extensionally), commutation of calls that name different directories, interleavings.
-/
namespace Klepto.Sched
open Klepto AMap Crash
set_option linter.unusedSectionVars false
variable {V : Type}

/-- the disk as a function of directory names -/
abbrev DView (V : Type) := DName → Option (DDir V)

/-- the names a call mentions -/
def sysNames : DSys V → List DName
  | .mkdir n | .creatOut n | .writeOut n _ | .tornOut n | .creatIn n | .writeIn n | .tornIn n
  | .unlinkOut n | .unlinkIn n | .rmdir n => [n]
  | .rename a b => [a, b]
  | .close => []

/-- what a single-name call does to the entry under its name -/
def entryEffect : DSys V → Option (DDir V) → Option (DDir V)
  | .mkdir _, none => some { out := none, inp := none }
  | .mkdir _, some d => some d
  | .creatOut _, o => o.map fun d => { d with out := some .empty }
  | .writeOut _ v, o => o.map fun d => if d.out.isSome then { d with out := some (.full v) } else d
  | .tornOut _, o => o.map fun d => if d.out.isSome then { d with out := some .torn } else d
  | .creatIn _, o => o.map fun d => { d with inp := some .empty }
  | .writeIn _, o => o.map fun d => if d.inp.isSome then { d with inp := some (.full ()) } else d
  | .tornIn _, o => o.map fun d => if d.inp.isSome then { d with inp := some .torn } else d
  | .unlinkOut _, o => o.map fun d => { d with out := none }
  | .unlinkIn _, o => o.map fun d => { d with inp := none }
  | .rmdir _, some d => if d.out.isNone && d.inp.isNone then none else some d
  | .rmdir _, none => none
  | _, o => o

/-- the call on views -/
def vstep (d : DView V) : DSys V → DView V
  | .close => d
  | .rename a b => fun m =>
    match d a, d b with
    | some e, none => if m = b then some e else if m = a then none else d m
    | _, _ => d m
  | x => fun m => match sysNames x with
    | [n] => if m = n then entryEffect x (d n) else d m
    | _ => d m

def vrun (d : DView V) (p : List (DSys V)) : DView V := p.foldl vstep d

/-- `dstep` on lists is `vstep` on views -/
theorem get?_dstep (s : DirFS V) (x : DSys V) (hn : (keys s).Nodup) : get? (dstep s x) = vstep (get? s) x := by
  funext m
  cases x with
  | mkdir n =>
    simp only [dstep, vstep, sysNames, entryEffect]
    cases hg : get? s n with
    | none =>
      have : has s n = false := by simp [has, hg]
      simp only [this, Bool.false_eq_true, if_false, get?_put]
    | some d =>
      have : has s n = true := by simp [has, hg]
      simp only [this, if_true]
      by_cases h : m = n <;> simp [h, hg, entryEffect]
  | creatOut n => simp only [dstep, vstep, sysNames, get?_upd]; by_cases h : m = n <;> simp [h, entryEffect]
  | writeOut n v => simp only [dstep, vstep, sysNames, get?_upd]; by_cases h : m = n <;> simp [h, entryEffect]
  | tornOut n => simp only [dstep, vstep, sysNames, get?_upd]; by_cases h : m = n <;> simp [h, entryEffect]
  | creatIn n => simp only [dstep, vstep, sysNames, get?_upd]; by_cases h : m = n <;> simp [h, entryEffect]
  | writeIn n => simp only [dstep, vstep, sysNames, get?_upd]; by_cases h : m = n <;> simp [h, entryEffect]
  | tornIn n => simp only [dstep, vstep, sysNames, get?_upd]; by_cases h : m = n <;> simp [h, entryEffect]
  | close => rfl
  | unlinkOut n => simp only [dstep, vstep, sysNames, get?_upd]; by_cases h : m = n <;> simp [h, entryEffect]
  | unlinkIn n => simp only [dstep, vstep, sysNames, get?_upd]; by_cases h : m = n <;> simp [h, entryEffect]
  | rmdir n =>
    simp only [dstep, vstep, sysNames]
    cases hg : get? s n with
    | none => by_cases h : m = n <;> simp [h, hg, entryEffect]
    | some d =>
      by_cases hd : (d.out.isNone && d.inp.isNone) = true
      · simp only [hd, if_true, get?_erase _ _ _ hn]
        by_cases h : m = n <;> simp [h, entryEffect, hd]
      · simp only [hd]
        by_cases h : m = n <;> simp [h, hg, entryEffect, hd]
  | rename a b =>
    simp only [dstep, vstep]
    cases ha : get? s a <;> cases hb : get? s b <;> simp only []
    rw [get?_put, get?_erase _ _ _ hn]

theorem get?_drun (s : DirFS V) (p : List (DSys V)) (hn : (keys s).Nodup) : get? (drun s p) = vrun (get? s) p := by
  unfold drun vrun
  induction p generalizing s with
  | nil => rfl
  | cons x xs ih =>
    simp only [List.foldl_cons]
    rw [ih _ (nodup_dstep s x hn), get?_dstep s x hn]

/-- two calls that mention no common name -/
def Indep (x y : DSys V) : Prop := ∀ a ∈ sysNames x, ∀ b ∈ sysNames y, a ≠ b

/-- a call leaves every name it does not mention alone, and looks only at the names it mentions -/
theorem vstep_frame (d : DView V) (x : DSys V) (m : DName) (hm : m ∉ sysNames x) : vstep d x m = d m := by
  cases x with
  | close => rfl
  | rename a b =>
    simp only [sysNames, List.mem_cons, List.mem_nil_iff, or_false, not_or] at hm
    simp only [vstep]
    split <;> simp [hm.1, hm.2]
  | mkdir n | creatOut n | writeOut n v | tornOut n | creatIn n | writeIn n | tornIn n | unlinkOut n | unlinkIn n | rmdir n =>
    simp only [sysNames, List.mem_singleton] at hm
    simp [vstep, sysNames, hm]

theorem vstep_local (d d' : DView V) (x : DSys V) (h : ∀ n ∈ sysNames x, d n = d' n) (m : DName) (hm : m ∈ sysNames x) :
    vstep d x m = vstep d' x m := by
  cases x with
  | close => simp [sysNames] at hm
  | rename a b =>
    simp only [sysNames, List.mem_cons, List.mem_nil_iff, or_false] at hm h
    simp only [vstep]
    rw [h a (Or.inl rfl), h b (Or.inr rfl)]
    rcases hm with rfl | rfl <;> (split <;> simp_all)
  | mkdir n | creatOut n | writeOut n v | tornOut n | creatIn n | writeIn n | tornIn n | unlinkOut n | unlinkIn n | rmdir n =>
    simp only [sysNames, List.mem_singleton] at hm h
    subst hm
    simp [vstep, sysNames, h]

/-- **calls on different names commute** -/
theorem vstep_comm (d : DView V) (x y : DSys V) (h : Indep x y) : vstep (vstep d x) y = vstep (vstep d y) x := by
  funext m
  by_cases hx : m ∈ sysNames x
  · have hy : m ∉ sysNames y := fun hy => h m hx m hy rfl
    rw [vstep_frame _ y m hy]
    exact (vstep_local _ _ x (fun n hn => (vstep_frame d y n (fun hny => h n hn n hny rfl)).symm) m hx)
  · by_cases hy : m ∈ sysNames y
    · rw [vstep_frame _ x m hx]
      exact (vstep_local _ _ y (fun n hn => vstep_frame d x n (fun hnx => h n hnx n hn rfl)) m hy)
    · rw [vstep_frame _ y m hy, vstep_frame _ x m hx, vstep_frame _ x m hx, vstep_frame _ y m hy]

/-- all interleavings of two sequences -/
inductive Interleave {α : Type} : List α → List α → List α → Prop
  | nil : Interleave [] [] []
  | left (x p q l) : Interleave p q l → Interleave (x :: p) q (x :: l)
  | right (y p q l) : Interleave p q l → Interleave p (y :: q) (y :: l)

theorem vrun_cons (d : DView V) (x : DSys V) (p : List (DSys V)) : vrun d (x :: p) = vrun (vstep d x) p := rfl

/-- a call independent of a whole program can be moved behind it -/
theorem vrun_swap (d : DView V) (y : DSys V) (p : List (DSys V)) (h : ∀ x ∈ p, Indep x y) :
    vrun (vstep d y) p = vstep (vrun d p) y := by
  induction p generalizing d with
  | nil => rfl
  | cons x xs ih =>
    rw [vrun_cons, vrun_cons, ← vstep_comm d x y (h x (by simp)), ih _ (fun z hz => h z (List.mem_cons_of_mem _ hz))]

theorem vrun_append (d : DView V) (p q : List (DSys V)) : vrun d (p ++ q) = vrun (vrun d p) q := by
  simp [vrun, List.foldl_append]

/-- **every interleaving of two programs on disjoint names ends where running one after the other ends** -/
theorem vrun_interleave (d : DView V) (p q l : List (DSys V)) (hi : Interleave p q l)
    (h : ∀ x ∈ p, ∀ y ∈ q, Indep x y) : vrun d l = vrun (vrun d p) q := by
  induction hi generalizing d with
  | nil => rfl
  | left x p q l _ ih =>
    rw [vrun_cons, vrun_cons]
    exact ih _ (fun a ha b hb => h a (List.mem_cons_of_mem _ ha) b hb)
  | right y p q l _ ih =>
    rw [vrun_cons, ih _ (fun a ha b hb => h a ha b (List.mem_cons_of_mem _ hb)), vrun_cons,
      vrun_swap d y p (fun x hx => h x hx y (by simp))]

end Klepto.Sched
