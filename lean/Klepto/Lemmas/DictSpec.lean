import Klepto.Model.Backend
import Klepto.Lemmas.AMap
/-!
# The specification the archives are held to: a Python `dict`, stated on contents

`View K V := K → Option V` is "the contents" — extensional by construction, no order, no
representation.  `DictSpec d op out d'` says: *a dict holding contents `d` answers `op` with `out`
and then holds `d'`*.  Listings (`keys`/`values`/`items`) are any duplicate-free enumeration of the
contents, `len` is the length of one, `popitem` removes *some* present pair (a store that has no
insertion order fixes none), `popkeys` is klepto's all-or-nothing extension (`_archives.py:155-164`).
A failed operation (`KeyError`) leaves the contents unchanged.
-/
namespace Klepto.Backend
open Klepto AMap

abbrev View (K V : Type) := K → Option V

variable {K V : Type} [DecidableEq K]

def View.put (d : View K V) (k : K) (v : V) : View K V := fun j => if j = k then some v else d j
def View.del (d : View K V) (k : K) : View K V := fun j => if j = k then none else d j
def View.empty : View K V := fun _ => none
def View.putAll (d : View K V) (kvs : List (K × V)) : View K V := kvs.foldl (fun d p => d.put p.1 p.2) d

/-- `l` enumerates the contents `d` exactly once each -/
def ItemsOf (d : View K V) (l : List (K × V)) : Prop :=
  (keys l).Nodup ∧ ∀ k v, (k, v) ∈ l ↔ d k = some v

/-- `[d.pop(k, x) for k in ks]` on contents -/
def View.popSeq (x : V) : View K V → List K → View K V × List V
  | d, [] => (d, [])
  | d, k :: ks =>
    let r := View.popSeq x (d.del k) ks
    (r.1, (d k).getD x :: r.2)

/-- `[d.pop(k) for k in ks]`: `none` as soon as a key is missing (a repeated key is missing the
second time) -/
def View.popAll : View K V → List K → Option (View K V × List V)
  | d, [] => some (d, [])
  | d, k :: ks =>
    match d k with
    | none => none
    | some v => (View.popAll (d.del k) ks).map fun r => (r.1, v :: r.2)

inductive DictSpec : View K V → Op K V → Out K V → View K V → Prop
  | setitem (d k v) : DictSpec d (.setitem k v) .unit (d.put k v)
  | getitem_hit (d k v) : d k = some v → DictSpec d (.getitem k) (.val v) d
  | getitem_miss (d k) : d k = none → DictSpec d (.getitem k) (.err .keyError) d
  | delitem_hit (d k v) : d k = some v → DictSpec d (.delitem k) .unit (d.del k)
  | delitem_miss (d k) : d k = none → DictSpec d (.delitem k) (.err .keyError) d
  | contains (d k) : DictSpec d (.contains k) (.bool (d k).isSome) d
  | len (d l) : ItemsOf d l → DictSpec d .len (.nat l.length) d
  | keys (d l) : ItemsOf d l → DictSpec d .keys (.keys (AMap.keys l)) d
  | values (d l) : ItemsOf d l → DictSpec d .values (.vals (l.map (·.2))) d
  | items (d l) : ItemsOf d l → DictSpec d .items (.items l) d
  | get (d k x) : DictSpec d (.get k x) (.val ((d k).getD x)) d
  | pop_hit (d k v x) : d k = some v → DictSpec d (.pop k x) (.val v) (d.del k)
  | pop_default (d k x) : d k = none → DictSpec d (.pop k (some x)) (.val x) d
  | pop_miss (d k) : d k = none → DictSpec d (.pop k none) (.err .keyError) d
  | popitem (d k v c) : d k = some v → DictSpec d (.popitem c) (.pair k v) (d.del k)
  | popitem_empty (d c) : (∀ k, d k = none) → DictSpec d (.popitem c) (.err .keyError) d
  | popkeys_default (d ks x) : DictSpec d (.popkeys ks (some x)) (.vlist (d.popSeq x ks).2) (d.popSeq x ks).1
  | popkeys_all (d ks d' l) : d.popAll ks = some (d', l) → DictSpec d (.popkeys ks none) (.vlist l) d'
  | popkeys_miss (d ks) : d.popAll ks = none → DictSpec d (.popkeys ks none) (.err .keyError) d
  | setdefault_hit (d k v x) : d k = some v → DictSpec d (.setdefault k x) (.val v) d
  | setdefault_miss (d k x) : d k = none → DictSpec d (.setdefault k x) (.val x) (d.put k x)
  | update (d kvs) : DictSpec d (.update kvs) .unit (d.putAll kvs)
  | clear (d) : DictSpec d .clear .unit View.empty

/-- a whole history: the list of (operation, answer) pairs is a history of a dict that starts
with contents `d` and ends with `d'` -/
inductive DictRun : View K V → List (Op K V × Out K V) → View K V → Prop
  | nil (d) : DictRun d [] d
  | cons (d op o d' tr d'') : DictSpec d op o d' → DictRun d' tr d'' → DictRun d ((op, o) :: tr) d''

/-! ## contents of an association list -/

theorem view_put (m : List (K × V)) (k : K) (v : V) : get? (put m k v) = View.put (get? m) k v := by
  funext j; simp [View.put, get?_put]

theorem view_erase (m : List (K × V)) (k : K) (h : (keys m).Nodup) :
    get? (erase m k) = View.del (get? m) k := by
  funext j; simp [View.del, get?_erase m k j h]

theorem view_nil : get? ([] : List (K × V)) = View.empty := by
  funext j; simp [View.empty, get?]

theorem mem_iff_get? (m : List (K × V)) (h : (keys m).Nodup) (k : K) (v : V) :
    (k, v) ∈ m ↔ get? m k = some v := by
  induction m with
  | nil => simp [get?]
  | cons p m ih =>
    obtain ⟨k', v'⟩ := p
    simp only [keys, List.map_cons, List.nodup_cons] at h
    simp only [List.mem_cons, Prod.mk.injEq, get?]
    by_cases hk : k' = k
    · subst hk
      simp only [if_true, Option.some.injEq]
      constructor
      · rintro (⟨_, hv⟩ | hm)
        · exact hv.symm
        · exact absurd (List.mem_map_of_mem (f := (·.1)) hm) h.1
      · intro hv; exact Or.inl (by simp [hv])
    · simp only [hk, if_false]
      rw [← ih h.2]
      constructor
      · rintro (⟨rfl, _⟩ | hm)
        · exact absurd rfl hk
        · exact hm
      · exact Or.inr

theorem itemsOf_self (m : List (K × V)) (h : (keys m).Nodup) : ItemsOf (get? m) m :=
  ⟨h, fun k v => mem_iff_get? m h k v⟩

theorem view_update (m o : List (K × V)) : get? (update m o) = View.putAll (get? m) o := by
  unfold update View.putAll
  induction o generalizing m with
  | nil => rfl
  | cons p o ih => simp only [List.foldl_cons]; rw [ih, view_put]

theorem getLast?_mem_get? (m : List (K × V)) (h : (keys m).Nodup) (k : K) (v : V)
    (hl : m.getLast? = some (k, v)) : get? m k = some v :=
  (mem_iff_get? m h k v).mp (List.mem_of_getLast? hl)

theorem get?_none_of_nil_iff (m : List (K × V)) : m = [] ↔ ∀ k, get? m k = none := by
  cases m with
  | nil => simp [get?]
  | cons p m =>
    simp only [reduceCtorEq, false_iff]
    intro hh
    have := hh p.1
    simp [get?] at this

theorem popSeq_view (x : V) (m : List (K × V)) (ks : List K) (h : (keys m).Nodup) :
    get? (popSeq x m ks).1 = (View.popSeq x (get? m) ks).1 ∧
    (popSeq x m ks).2 = (View.popSeq x (get? m) ks).2 ∧ (keys (popSeq x m ks).1).Nodup := by
  induction ks generalizing m with
  | nil => exact ⟨rfl, rfl, h⟩
  | cons k ks ih =>
    have := ih (erase m k) (nodup_keys_erase m k h)
    rw [view_erase m k h] at this
    simp only [popSeq, View.popSeq]
    exact ⟨this.1, by rw [this.2.1], this.2.2⟩

theorem popAllL_view (m : List (K × V)) (ks : List K) (h : (keys m).Nodup) :
    (popAllL m ks).map (fun r => (get? r.1, r.2)) = View.popAll (get? m) ks ∧
    (∀ r, popAllL m ks = some r → (keys r.1).Nodup) := by
  induction ks generalizing m with
  | nil => simp [popAllL, View.popAll, h]
  | cons k ks ih =>
    have := ih (erase m k) (nodup_keys_erase m k h)
    rw [view_erase m k h] at this
    simp only [popAllL, View.popAll]
    cases hg : get? m k with
    | none => simp
    | some v =>
      simp only
      rw [← this.1]
      refine ⟨by cases popAllL (erase m k) ks <;> simp, ?_⟩
      intro r hr
      cases hp : popAllL (erase m k) ks with
      | none => simp [hp] at hr
      | some r' =>
        simp only [hp, Option.map_some, Option.some.injEq] at hr
        subst hr
        exact this.2 r' hp

theorem popAll_isSome_congr (d1 : View K V) {W : Type} (d2 : View K W) (ks : List K)
    (h : ∀ k, (d1 k).isSome = (d2 k).isSome) : (View.popAll d1 ks).isSome = (View.popAll d2 ks).isSome := by
  induction ks generalizing d1 d2 with
  | nil => rfl
  | cons k ks ih =>
    have hk := h k
    simp only [View.popAll]
    cases h1 : d1 k <;> cases h2 : d2 k <;> simp [h1, h2] at hk
    · rfl
    · simp only [Option.isSome_map]
      apply ih
      intro j
      by_cases hj : j = k <;> simp [View.del, hj, h j]

theorem allPresentOnce_isSome (m : List (K × V)) (ks : List K) (h : (keys m).Nodup) :
    allPresentOnce m ks = (View.popAll (get? m) ks).isSome := by
  induction ks generalizing m with
  | nil => rfl
  | cons k ks ih =>
    simp only [allPresentOnce, View.popAll]
    cases hg : get? m k with
    | none => simp [has, hg]
    | some v =>
      simp only [has, hg, Option.isSome_some, Bool.true_and, Option.isSome_map]
      rw [ih (erase m k) (nodup_keys_erase m k h), view_erase m k h]

theorem put_append_of_not_mem (m : List (K × V)) (k : K) (v : V) (h : k ∉ keys m) : put m k v = m ++ [(k, v)] := by
  induction m with
  | nil => rfl
  | cons q m ih =>
    obtain ⟨k', v'⟩ := q
    simp only [keys, List.map_cons, List.mem_cons, not_or] at h
    have : ¬ k' = k := fun hh => h.1 hh.symm
    simp only [put, this, if_false, List.cons_append]
    rw [ih h.2]

theorem update_append (acc m : List (K × V)) (h : (keys (acc ++ m)).Nodup) : update acc m = acc ++ m := by
  unfold update
  induction m generalizing acc with
  | nil => simp
  | cons p m ih =>
    obtain ⟨k, v⟩ := p
    simp only [List.foldl_cons]
    have hk : k ∉ keys acc := by
      simp only [keys, List.map_append, List.map_cons] at h
      have := List.nodup_append.mp h
      intro hk
      exact this.2.2 k hk k (by simp) rfl
    rw [put_append_of_not_mem acc k v hk, ih]
    · simp
    · simpa using h

theorem normalize_id (m : List (K × V)) (h : (keys m).Nodup) : normalize m = m := by
  unfold normalize; rw [update_append [] m (by simpa using h)]; rfl

theorem get?_append_single (l : List (K × V)) (k j : K) (v : V) :
    get? (l ++ [(k, v)]) j = match get? l j with | some w => some w | none => if k = j then some v else none := by
  induction l with
  | nil => simp [get?]
  | cons q l ihl =>
    obtain ⟨k2, v2⟩ := q
    simp only [List.cons_append, get?]
    split
    · rfl
    · exact ihl

end Klepto.Backend
