import Klepto.Model.Keys
import Klepto.Lemmas.AMap
/-! `_keygen` computes the CPython binding (plain functions, no ignore): the core of C09-C11. -/
namespace Klepto.Keys
open Klepto.AMap
set_option linter.unusedSectionVars false
variable {Val : Type} [DecidableEq Val]

/-! ### pointwise lookups -/

theorem get?_update (m o : List (Val × Val)) (k : Val) (ho : (keys o).Nodup) :
    get? (update m o) k = (get? o k).orElse (fun _ => get? m k) := by
  induction o generalizing m with
  | nil => simp [update, get?]
  | cons p o ih =>
    obtain ⟨k', v'⟩ := p
    simp only [keys, List.map_cons, List.nodup_cons] at ho
    simp only [update, List.foldl_cons] at ih ⊢
    rw [ih _ ho.2]
    by_cases h : k' = k
    · subst h
      have : get? o k' = none := by
        cases hg : get? o k' with
        | none => rfl
        | some v =>
          have : has o k' = true := by simp [has, hg]
          rw [has_iff_mem_keys] at this
          exact absurd this ho.1
      simp [get?, this, get?_put]
    · have hne : ¬ k = k' := fun hh => h hh.symm
      simp [get?, h, get?_put, hne]


theorem get?_append (a b : List (Val × Val)) (k : Val) :
    get? (a ++ b) k = (get? a k).orElse (fun _ => get? b k) := by
  induction a with
  | nil => simp [get?]
  | cons p a ih =>
    obtain ⟨k', v'⟩ := p
    by_cases h : k' = k <;> simp [get?, h, ih]

theorem get?_none_of_not_mem (m : List (Val × Val)) (k : Val) (h : k ∉ keys m) : get? m k = none := by
  cases hg : get? m k with
  | none => rfl
  | some v =>
    have : has m k = true := by simp [has, hg]
    rw [has_iff_mem_keys] at this
    exact absurd this h

theorem get?_filter_key (m : List (Val × Val)) (P : Val → Bool) (k : Val) :
    get? (m.filter (fun p => P p.1)) k = if P k then get? m k else none := by
  induction m with
  | nil => simp [get?]
  | cons p m ih =>
    obtain ⟨k', v'⟩ := p
    by_cases hp : P k' = true
    · simp only [List.filter_cons, hp, if_true]
      by_cases h : k' = k
      · subst h; simp [get?, hp]
      · simp [get?, h, ih]
    · simp only [List.filter_cons, hp]
      by_cases h : k' = k
      · subst h; simp [get?, hp, ih]
      · simp [get?, h, ih]

/-- lookup in the result of bindPos -/
theorem bindPos_get? (kwds : List (Val × Val)) :
    ∀ (ps : List (Param Val)) (args : List Val) (r : List (Val × Val)),
      (names ps).Nodup → bindPos kwds ps args = some r →
      keys r = names ps ∧
      ∀ n, n ∈ names ps →
        get? r n = (get? ((names ps).zip args) n).orElse (fun _ =>
                    (get? kwds n).orElse (fun _ => get? (defaultsOf ps) n)) := by
  intro ps
  induction ps with
  | nil => intro args r _ h; simp [bindPos] at h; subst h; simp [keys, names]
  | cons pd ps ih =>
    obtain ⟨p, d⟩ := pd
    intro args r hnd h
    simp only [names, List.map_cons, List.nodup_cons] at hnd
    have hpn : p ∉ names ps := hnd.1
    cases args with
    | cons a as =>
      simp only [bindPos] at h
      cases hk : get? kwds p with
      | some v => simp [hk] at h
      | none =>
        simp only [hk] at h
        cases hr : bindPos kwds ps as with
        | none => simp [hr] at h
        | some r' =>
          simp [hr] at h; subst h
          obtain ⟨hkeys, hget⟩ := ih as r' hnd.2 hr
          refine ⟨by simp [keys, names] at hkeys ⊢; exact hkeys, ?_⟩
          intro n hn
          by_cases hpe : p = n
          · subst hpe; simp [get?, names]
          · have hn' : n ∈ names ps := by
              simp [names] at hn ⊢; rcases hn with hn | hn
              · exact absurd hn.symm hpe
              · exact hn
            have := hget n hn'
            cases d with
            | none => simp [get?, hpe, names, defaultsOf] at this ⊢; exact this
            | some dv => simp [get?, hpe, names, defaultsOf] at this ⊢; exact this
    | nil =>
      simp only [bindPos] at h
      -- common tail: r = (p, x) :: r' with x the bound value
      have key : ∀ x r', bindPos kwds ps [] = some r' → r = (p, x) :: r' →
          (get? kwds p).orElse (fun _ => d) = some x →
          keys r = names ((⟨p, d⟩ : Param Val) :: ps) ∧ ∀ n, n ∈ names ((⟨p, d⟩ : Param Val) :: ps) →
            get? r n = (get? ((names ((⟨p, d⟩ : Param Val) :: ps)).zip ([] : List Val)) n).orElse (fun _ =>
              (get? kwds n).orElse (fun _ => get? (defaultsOf ((⟨p, d⟩ : Param Val) :: ps)) n)) := by
        intro x r' hr hrr hx
        subst hrr
        obtain ⟨hkeys, hget⟩ := ih [] r' hnd.2 hr
        refine ⟨by simp [keys, names] at hkeys ⊢; exact hkeys, ?_⟩
        intro n hn
        by_cases hpe : p = n
        · subst hpe
          cases hk : get? kwds p with
          | some v => simp [hk] at hx; subst hx; simp [get?, hk]
          | none =>
            simp [hk] at hx; subst hx
            simp [get?, hk, defaultsOf]
        · have hn' : n ∈ names ps := by
            simp [names] at hn ⊢; rcases hn with hn | hn
            · exact absurd hn.symm hpe
            · exact hn
          have := hget n hn'
          cases d with
          | none => simp [get?, hpe, names, defaultsOf] at this ⊢; exact this
          | some dv => simp [get?, hpe, names, defaultsOf] at this ⊢; exact this
      cases hk : get? kwds p with
      | some v =>
        simp only [hk] at h
        cases hr : bindPos kwds ps [] with
        | none => simp [hr] at h
        | some r' => simp [hr] at h; exact key v r' hr h.symm (by simp [hk])
      | none =>
        simp only [hk] at h
        cases d with
        | none => simp at h
        | some dv =>
          simp only at h
          cases hr : bindPos kwds ps [] with
          | none => simp [hr] at h
          | some r' => simp [hr] at h; exact key dv r' hr h.symm (by simp [hk])



theorem bindKwOnly_get? (kwds : List (Val × Val)) :
    ∀ (ps : List (Param Val)) (r : List (Val × Val)),
      bindKwOnly kwds ps = some r →
      keys r = names ps ∧
      ∀ n, n ∈ names ps → (names ps).Nodup →
        get? r n = (get? kwds n).orElse (fun _ => get? (defaultsOf ps) n) := by
  intro ps
  induction ps with
  | nil => intro r h; simp [bindKwOnly] at h; subst h; simp [keys, names]
  | cons pd ps ih =>
    obtain ⟨p, d⟩ := pd
    intro r h
    simp only [bindKwOnly] at h
    have key : ∀ x r', bindKwOnly kwds ps = some r' → r = (p, x) :: r' →
        (get? kwds p).orElse (fun _ => d) = some x →
        keys r = names ((⟨p, d⟩ : Param Val) :: ps) ∧ ∀ n, n ∈ names ((⟨p, d⟩ : Param Val) :: ps) → (names ((⟨p, d⟩ : Param Val) :: ps)).Nodup →
          get? r n = (get? kwds n).orElse (fun _ => get? (defaultsOf ((⟨p, d⟩ : Param Val) :: ps)) n) := by
      intro x r' hr hrr hx
      subst hrr
      obtain ⟨hkeys, hget⟩ := ih r' hr
      refine ⟨by simp [keys, names] at hkeys ⊢; exact hkeys, ?_⟩
      intro n hn hnd
      simp only [names, List.map_cons, List.nodup_cons] at hnd
      by_cases hpe : p = n
      · subst hpe
        cases hk : get? kwds p with
        | some v => simp [hk] at hx; subst hx; simp [get?, hk]
        | none => simp [hk] at hx; subst hx; simp [get?, hk, defaultsOf]
      · have hn' : n ∈ names ps := by
          simp [names] at hn ⊢; rcases hn with hn | hn
          · exact absurd hn.symm hpe
          · exact hn
        have := hget n hn' hnd.2
        cases d with
        | none => simp [get?, hpe, defaultsOf] at this ⊢; exact this
        | some dv => simp [get?, hpe, defaultsOf] at this ⊢; exact this
    cases hk : get? kwds p with
    | some v =>
      simp only [hk] at h
      cases hr : bindKwOnly kwds ps with
      | none => simp [hr] at h
      | some r' => simp [hr] at h; exact key v r' hr h.symm (by simp [hk])
    | none =>
      simp only [hk] at h
      cases d with
      | none => simp at h
      | some dv =>
        simp only at h
        cases hr : bindKwOnly kwds ps with
        | none => simp [hr] at h
        | some r' => simp [hr] at h; exact key dv r' hr h.symm (by simp [hk])

theorem keys_defaultsOf_subset (ps : List (Param Val)) : ∀ n ∈ keys (defaultsOf ps), n ∈ names ps := by
  intro n hn
  simp only [keys, List.mem_map] at hn
  obtain ⟨⟨n', v⟩, hmem, hn'⟩ := hn
  simp only at hn'; subst hn'
  simp only [defaultsOf, List.mem_filterMap] at hmem
  obtain ⟨⟨p, d⟩, hp, hd⟩ := hmem
  cases d with
  | none => simp at hd
  | some dv =>
    simp at hd
    simp only [names, List.mem_map]
    exact ⟨⟨p, some dv⟩, hp, hd.1⟩

theorem keys_defaultsOf_nodup (ps : List (Param Val)) (h : (names ps).Nodup) : (keys (defaultsOf ps)).Nodup := by
  induction ps with
  | nil => simp [defaultsOf, keys]
  | cons pd ps ih =>
    obtain ⟨p, d⟩ := pd
    simp only [names, List.map_cons, List.nodup_cons] at h
    cases d with
    | none => simpa [defaultsOf, keys] using ih h.2
    | some dv =>
      have h1 := ih h.2
      have h2 : p ∉ keys (defaultsOf ps) := fun hh => h.1 (keys_defaultsOf_subset ps p hh)
      simp [defaultsOf, keys] at h1 h2 ⊢
      exact ⟨h2, h1⟩

theorem keys_zip_nodup (ns : List Val) (args : List Val) (h : ns.Nodup) : (keys (ns.zip args)).Nodup := by
  induction ns generalizing args with
  | nil => simp [keys]
  | cons n ns ih =>
    cases args with
    | nil => simp [keys]
    | cons a as =>
      simp only [List.nodup_cons] at h
      have := ih as h.2
      simp only [keys, List.zip_cons_cons, List.map_cons, List.nodup_cons] at this ⊢
      refine ⟨?_, this⟩
      intro hmem
      apply h.1
      simp at hmem
      obtain ⟨v, hv⟩ := hmem
      exact (List.of_mem_zip hv).1

theorem keys_zip_subset (ns : List Val) (args : List Val) : ∀ n ∈ keys (ns.zip args), n ∈ ns := by
  intro n hn
  simp [keys] at hn
  obtain ⟨v, hv⟩ := hn
  exact (List.of_mem_zip hv).1

/-- a plain Python function: not a partial, not a bound method -/
def Plain (f : Func Val) : Prop := f.pArgs = [] ∧ f.pKwds = [] ∧ f.bound = false

/-- `_keygen` of a plain function without an ignore specification, in closed form -/
def keygenPlain (f : Func Val) (c : PCall Val) : List Val × List (Val × Val) :=
  (c.args.drop f.pos.length,
   update (update (update (defaultsOf f.pos) (defaultsOf f.kwonly)) c.kwds) ((names f.pos).zip c.args))

theorem enum_map_snd {α : Type} (l : List α) : (enum l).map (·.2) = l := by
  unfold enum
  rw [List.map_snd_zip]
  simp

theorem update_nil (m : List (Val × Val)) : update m [] = m := rfl

theorem update_acc_append (acc o : List (Val × Val)) (ho : (keys o).Nodup)
    (hd : ∀ n ∈ keys o, n ∉ keys acc) : update acc o = acc ++ o := by
  unfold update
  induction o generalizing acc with
  | nil => simp
  | cons p o ih =>
    obtain ⟨n, v⟩ := p
    simp only [keys, List.map_cons, List.nodup_cons] at ho
    simp only [List.foldl_cons]
    have hn : n ∉ keys acc := hd n (by simp [keys])
    have hput : put acc n v = acc ++ [(n, v)] := by
      clear ih hd ho
      induction acc with
      | nil => rfl
      | cons q acc iha =>
        obtain ⟨n', v'⟩ := q
        simp only [keys, List.map_cons, List.mem_cons, not_or] at hn
        have hne : ¬ n' = n := fun h => hn.1 h.symm
        simp only [put, hne, if_false, List.cons_append]
        rw [iha]; exact hn.2
    rw [hput, ih (acc ++ [(n, v)]) ho.2]
    · simp
    · intro m hm
      simp only [keys, List.map_append, List.mem_append, List.map_cons, List.map_nil, List.mem_singleton, not_or]
      refine ⟨hd m (by simp [keys]; exact Or.inr (by simpa [keys] using hm)), ?_⟩
      intro hmn; subst hmn; exact ho.1 (by simpa [keys] using hm)

theorem update_nil_left (o : List (Val × Val)) (ho : (keys o).Nodup) : update [] o = o := by
  rw [update_acc_append [] o ho (by simp [keys])]; rfl

theorem keygen_plain (k : Consts Val) (f : Func Val) (c : PCall Val) (hp : Plain f) :
    keygen k f [] c = keygenPlain f c := by
  obtain ⟨h1, h2, h3⟩ := hp
  have hsig : kSignature f = some (names f.pos, update (defaultsOf f.pos) (defaultsOf f.kwonly)) := by
    simp [kSignature, h1, h2, h3, update_nil, has, get?]
  have hmask : ∀ (p : IgnPlan Val) (i : Nat) (l : List Val), p.star = false → p.idx = [] → maskFrom k p i l = l := by
    intro p i l hs hi
    induction l generalizing i with
    | nil => rfl
    | cons a as ih => simp [maskFrom, hs, hi, ih]
  have hlen : (names f.pos).length = f.pos.length := by simp [names]
  have hf : ∀ (l : List (Nat × Val)), l.filter (fun _ => false) = [] := by
    intro l; induction l with
    | nil => rfl
    | cons a l ih => simp [List.filter_cons]
  cases hh : (names f.pos).head? <;>
    (simp only [keygen, hsig, keygenWith, maskArgs]
     rw [hmask _ 0 _ (by simp [ignPlan, ignNames]) (by simp [ignPlan, ignIdx, ignNames, hf])]
     simp [ignPlan, hh, ignIdx, ignNames, keygenPlain, hlen, hf])

/-- **keygen computes the binding** (plain function, no ignore specification): whenever CPython
accepts the call, `_keygen` returns the extra positionals unchanged and a dict that maps exactly the
bound names to the bound values. -/
theorem keygen_eq_bind (k : Consts Val) (self : Val) (f : Func Val) (c : PCall Val) (b : Binding Val)
    (hpl : Plain f)
    (hwf : (names f.pos ++ names f.kwonly).Nodup) (hk : (keys c.kwds).Nodup)
    (hb : bind self f c = some b) :
    (keygen k f [] c).1 = b.extraPos ∧
    ∀ n, get? (keygen k f [] c).2 n = get? (b.named ++ b.extraKw) n := by
  rw [keygen_plain k f c hpl]
  have hposnd : (names f.pos).Nodup := (List.nodup_append.mp hwf).1
  have hkwnd : (names f.kwonly).Nodup := (List.nodup_append.mp hwf).2.1
  have hdisj : ∀ n, n ∈ names f.pos → n ∉ names f.kwonly := by
    intro n h1 h2; exact (List.nodup_append.mp hwf).2.2 n h1 n h2 rfl
  obtain ⟨h1, h2, h3⟩ := hpl
  unfold bind at hb
  simp only [h1, h2, h3, Bool.false_eq_true, if_false, List.nil_append, update_nil_left c.kwds hk] at hb
  unfold bindPlain at hb
  split at hb
  · cases hb
  · simp only at hb
    split at hb
    · cases hb
    · split at hb
      · rename_i a bk ha hbk
        cases hb
        refine ⟨rfl, ?_⟩
        intro n
        obtain ⟨hka, hga⟩ := bindPos_get? c.kwds f.pos c.args a hposnd ha
        obtain ⟨hkb, hgb⟩ := bindKwOnly_get? c.kwds f.kwonly bk hbk
        have hcode : get? (keygenPlain f c).2 n =
            (get? ((names f.pos).zip c.args) n).orElse (fun _ =>
              (get? c.kwds n).orElse (fun _ =>
                (get? (defaultsOf f.kwonly) n).orElse (fun _ => get? (defaultsOf f.pos) n))) := by
          simp only [keygenPlain]
          rw [get?_update _ _ _ (keys_zip_nodup _ _ hposnd), get?_update _ _ _ hk,
              get?_update _ _ _ (keys_defaultsOf_nodup _ hkwnd)]
        have hfil : get? (c.kwds.filter (fun p => isExtra f p.1)) n = if isExtra f n then get? c.kwds n else none :=
          get?_filter_key c.kwds (isExtra f) n
        rw [hcode, get?_append, get?_append, hfil]
        by_cases hp : n ∈ names f.pos
        · have hnk : n ∉ names f.kwonly := hdisj n hp
          have hdk : get? (defaultsOf f.kwonly) n = none :=
            get?_none_of_not_mem _ _ (fun hh => hnk (keys_defaultsOf_subset _ _ hh))
          have hbn : get? bk n = none := get?_none_of_not_mem _ _ (by rw [hkb]; exact hnk)
          have hex : isExtra f n = false := by simp [isExtra, hp]
          rw [hga n hp, hdk, hbn, hex]
          cases h1 : get? ((names f.pos).zip c.args) n <;> cases h2 : get? c.kwds n <;>
            cases h3 : get? (defaultsOf f.pos) n <;> simp
        · have hz : get? ((names f.pos).zip c.args) n = none :=
            get?_none_of_not_mem _ _ (fun hh => hp (keys_zip_subset _ _ _ hh))
          have hdp : get? (defaultsOf f.pos) n = none :=
            get?_none_of_not_mem _ _ (fun hh => hp (keys_defaultsOf_subset _ _ hh))
          have han : get? a n = none := get?_none_of_not_mem _ _ (by rw [hka]; exact hp)
          rw [hz, hdp, han]
          by_cases hq : n ∈ names f.kwonly
          · have hex : isExtra f n = false := by simp [isExtra, hq]
            rw [hgb n hq hkwnd, hex]
            cases h2 : get? c.kwds n <;> cases h3 : get? (defaultsOf f.kwonly) n <;> simp
          · have hbn : get? bk n = none := get?_none_of_not_mem _ _ (by rw [hkb]; exact hq)
            have hdk : get? (defaultsOf f.kwonly) n = none :=
              get?_none_of_not_mem _ _ (fun hh => hq (keys_defaultsOf_subset _ _ hh))
            have hex : isExtra f n = true := by simp [isExtra, hp, hq]
            rw [hbn, hdk, hex]
            cases get? c.kwds n <;> simp
      · cases hb

end Klepto.Keys
