import Lean
/-! Axiom audit: enumerate every theorem declared under a namespace and print the axioms it
depends on (measured from the environment, not a constant). -/
namespace Klepto
open Lean Elab Command

def auditNamespace (ns : Name) : CommandElabM Unit := do
  let env ← getEnv
  let mut names : Array Name := #[]
  for (n, ci) in env.constants.toList do
    -- (auto-generated equation / injectivity / sizeOf lemmas of structures are not proof obligations)
    let str := n.toString
    let auto := (str.splitOn ".injEq").length > 1 || (str.splitOn ".sizeOf_spec").length > 1 || (str.splitOn ".inj").length > 1 ||
      (str.splitOn ".eq_").length > 1 || (str.splitOn "match_").length > 1 || (str.splitOn ".noConfusion").length > 1 || (str.splitOn "._").length > 1
    if ns.isPrefixOf n && !n.isInternal && !auto then
      match ci with
      | .thmInfo _ => names := names.push n
      | _ => pure ()
  let sorted := names.qsort (fun a b => a.toString < b.toString)
  for n in sorted do
    let axs ← liftCoreM (collectAxioms n)
    let s := ",".intercalate (axs.toList.map toString)
    IO.println s!"THEOREM {n} {s}"

end Klepto
