import Klepto.Model.AMap
/-!
# M2 — `Cache`: `klepto.archives.cache` (`_archives.py:129-238`) and `_abc.archive`

`arch = none` is a `null_archive`; `some a` is a lossless archive holding `a`.
`swap` is `__swap__`.  `bare = true` models an archive object used directly as the cache
(`_abc.py:33-60`): `load`/`dump`/`sync` do nothing, `archived()` is `False`, every attempt to
toggle or replace the archive raises `ValueError`.
-/
namespace Klepto
open AMap

inductive Exc
  | keyError | typeError | valueError | indexError | attributeError | user (n : Nat) | other
  deriving DecidableEq, Repr

structure Cache (K V : Type) where
  mem : List (K × V)
  arch : Option (List (K × V))
  swap : Option (List (K × V))
  bare : Bool := false
  deriving Repr, DecidableEq

variable {K V : Type} [DecidableEq K]

namespace Cache

def empty : Cache K V := { mem := [], arch := none, swap := none }

/-- `cache.archived()` -/
def archived (c : Cache K V) : Bool := c.arch.isSome

/-- `cache.load(k)`: `try: self.update({k: self.archive[k]}) except KeyError: pass` -/
def load1 (c : Cache K V) (k : K) : Cache K V :=
  match c.arch with
  | some a => match get? a k with
    | some v => { c with mem := put c.mem k v }
    | none => c
  | none => c

/-- `cache.dump(k)`: `if k in self: self.archive.update({k: self[k]})` -/
def dump1 (c : Cache K V) (k : K) : Cache K V :=
  match c.arch, get? c.mem k with
  | some a, some v => { c with arch := some (put a k v) }
  | _, _ => c

/-- `cache.dump()`: `self.archive.update(self)` -/
def dumpAll (c : Cache K V) : Cache K V :=
  match c.arch with
  | some a => { c with arch := some (update a c.mem) }
  | none => c

/-- `cache.load()`: `self.update(self.archive.__asdict__())` -/
def loadAll (c : Cache K V) : Cache K V :=
  match c.arch with
  | some a => { c with mem := update c.mem a }
  | none => c

def loadKeys (c : Cache K V) (ks : List K) : Cache K V := ks.foldl load1 c
def dumpKeys (c : Cache K V) (ks : List K) : Cache K V := ks.foldl dump1 c

def delMem (c : Cache K V) (k : K) : Cache K V := { c with mem := erase c.mem k }
def clearMem (c : Cache K V) : Cache K V := { c with mem := [] }

/-- the property setter `cache.archive = a` (`__archive`, lines 231-234) -/
def setArchive (c : Cache K V) (a : Option (List (K × V))) : Cache K V :=
  match c.swap with
  | some _ => { c with swap := c.arch, arch := a }
  | none => { c with arch := a }

/-- `self.__swap__, self.archive = self.archive, self.__swap__` -/
def swapDance (c : Cache K V) : Cache K V :=
  let a := c.arch
  let s := c.swap
  setArchive { c with swap := a } s

/-- `cache.archived(True)`; `none` = `ValueError` -/
def archivedOn (c : Cache K V) : Option (Cache K V) :=
  if c.bare then none else
  match c.swap with
  | some _ => some (swapDance c)
  | none => if c.arch.isNone then none else some c

/-- `cache.archived(False)`; `none` = `ValueError` (bare archive only) -/
def archivedOff (c : Cache K V) : Option (Cache K V) :=
  if c.bare then none else
  match c.arch with
  | some _ => some (swapDance c)
  | none => some c

/-- `cache.sync(clear)` -/
def sync (c : Cache K V) (clear : Bool) : Cache K V :=
  if c.bare then c else
  if clear then
    (match c.arch with
     | some _ => { c with arch := some [] }
     | none => c).dumpAll
  else c.dumpAll.loadAll

/-- `cache.drop()`; `none` = `ValueError` -/
def drop (c : Cache K V) : Option (Cache K V) :=
  (archivedOn c).map (fun c' => setArchive c' none)

/-- `cache.open(a)`; `none` = `ValueError` (bare archive only) -/
def openArch (c : Cache K V) (a : Option (List (K × V))) : Option (Cache K V) :=
  if c.bare then none else
  match archivedOn c with
  | some c' => some (setArchive c' a)
  | none => some (setArchive c a)

/-- direct mutation of the attached archive object (another handle / another session) -/
def extPut (c : Cache K V) (k : K) (v : V) : Cache K V :=
  match c.arch with
  | some a => { c with arch := some (put a k v) }
  | none => c

def extDel (c : Cache K V) (k : K) : Cache K V :=
  match c.arch with
  | some a => { c with arch := some (erase a k) }
  | none => c

end Cache

/-- operations of a bare `klepto.archives.cache` (suite `cache`, property C08) -/
inductive COp (K V : Type)
  | put (k : K) (v : V) | del (k : K) | pop (k : K) | clearMem
  | load (ks : List K) | loadAll | dump (ks : List K) | dumpAll
  | sync (clear : Bool) | on | off | drop | openA (a : Option (List (K × V)))
  | setA (a : Option (List (K × V))) | aput (k : K) (v : V) | adel (k : K)
  deriving Repr

/-- one step of a bare cache; the second component is the exception raised, if any -/
def Cache.step (c : Cache K V) : COp K V → Cache K V × Option Exc
  | .put k v => ({ c with mem := put c.mem k v }, none)
  | .del k => if has c.mem k then (c.delMem k, none) else (c, some .keyError)
  | .pop k => if has c.mem k then (c.delMem k, none) else (c, some .keyError)
  | .clearMem => (c.clearMem, none)
  | .load ks => (c.loadKeys ks, none)
  | .loadAll => (c.loadAll, none)
  | .dump ks => (c.dumpKeys ks, none)
  | .dumpAll => (c.dumpAll, none)
  | .sync cl => (c.sync cl, none)
  | .on => match c.archivedOn with
    | some c' => (c', none)
    | none => (c, some .valueError)
  | .off => match c.archivedOff with
    | some c' => (c', none)
    | none => (c, some .valueError)
  | .drop => match c.drop with
    | some c' => (c', none)
    | none => (c, some .valueError)
  | .openA a => match c.openArch a with
    | some c' => (c', none)
    | none => (c, some .valueError)
  | .setA a => if c.bare then (c, some .valueError) else (c.setArchive a, none)
  | .aput k v => (c.extPut k v, none)
  | .adel k =>
    match c.arch with
    | some a => if has a k then (c.extDel k, none) else (c, some .keyError)
    | none => (c, some .keyError)

end Klepto
