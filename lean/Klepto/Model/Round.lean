/-!
# M5 — `klepto.rounding`: `simple_round`, `deep_round` (and `shallow_round`)

Python values as far as rounding can tell them apart:
* `flt x`        — a `float` (`isinstance(j, float)`; `bool`/`int` are not)
* `leaf id`      — returned unchanged: ints, bools, `None`, `str`, exception instances, any
                   non-iterable object
* `dict sk kvs`  — a `dict` (`sk`: all keys are `str`; irrelevant since fix 2nd commit — the values are
                   rounded and re-attached to the original keys)
* `seq ty rb xs` — any other iterable of type `ty` (list, tuple, set, frozenset, bytes, range, …);
                   `rb = false` when `ty(tuple_of_elements)` raises (e.g. `range`)
`rnd` is `round(·, tol)` on floats; it may raise (`OverflowError`).
-/
namespace Klepto.Round

inductive RErr | typeError | overflow
  deriving DecidableEq, Repr

inductive PV (F : Type) where
  | flt (x : F)
  | leaf (id : Nat)
  | dict (strKeys : Bool) (kvs : List (Nat × PV F))
  | seq (ty : Nat) (rebuildable : Bool) (xs : List (PV F))
  deriving Repr

variable {F : Type}

mutual
/-- what `deep_round` does to one positional argument / keyword value -/
def deepRound (rnd : F → Except RErr F) : PV F → Except RErr (PV F)
  | .flt x => do return .flt (← rnd x)
  | .leaf id => pure (.leaf id)
  | .dict sk kvs => do return .dict sk (← deepRoundKvs rnd kvs)
  | .seq ty rb xs => do
      let ys ← deepRoundList rnd xs
      if rb then pure (.seq ty rb ys) else .error .typeError
def deepRoundList (rnd : F → Except RErr F) : List (PV F) → Except RErr (List (PV F))
  | [] => pure []
  | x :: xs => do
      let y ← deepRound rnd x
      let ys ← deepRoundList rnd xs
      pure (y :: ys)
def deepRoundKvs (rnd : F → Except RErr F) : List (Nat × PV F) → Except RErr (List (Nat × PV F))
  | [] => pure []
  | (k, v) :: kvs => do
      let w ← deepRound rnd v
      let ws ← deepRoundKvs rnd kvs
      pure ((k, w) :: ws)
end

/-- `simple_round`: only top-level floats -/
def simpleRound1 (rnd : F → Except RErr F) : PV F → Except RErr (PV F)
  | .flt x => do return .flt (← rnd x)
  | v => pure v

/-- the decorators' `rounded_args(*args, **kwds)`: `tol = None` disables rounding -/
def roundArgs (deep : Bool) (rnd : Option (F → Except RErr F)) (args : List (PV F)) (kwds : List (Nat × PV F)) :
    Except RErr (List (PV F) × List (Nat × PV F)) :=
  match rnd with
  | none => pure (args, kwds)
  | some r =>
    if deep then do
      let a ← deepRoundList r args
      let k ← deepRoundKvs r kwds
      pure (a, k)
    else do
      let a ← args.mapM (simpleRound1 r)
      let k ← kwds.mapM (fun p => do return (p.1, ← simpleRound1 r p.2))
      pure (a, k)

/-! ## the specification: "floats rounded, everything else identical" -/
mutual
def mapFloats (g : F → F) : PV F → PV F
  | .flt x => .flt (g x)
  | .leaf id => .leaf id
  | .dict sk kvs => .dict sk (mapFloatsKvs g kvs)
  | .seq ty rb xs => .seq ty rb (mapFloatsList g xs)
def mapFloatsList (g : F → F) : List (PV F) → List (PV F)
  | [] => []
  | x :: xs => mapFloats g x :: mapFloatsList g xs
def mapFloatsKvs (g : F → F) : List (Nat × PV F) → List (Nat × PV F)
  | [] => []
  | (k, v) :: kvs => (k, mapFloats g v) :: mapFloatsKvs g kvs
end

mutual
/-- every iterable can be rebuilt from its elements -/
def WellBehaved : PV F → Bool
  | .flt _ => true
  | .leaf _ => true
  | .dict _ kvs => WellBehavedKvs kvs
  | .seq _ rb xs => rb && WellBehavedList xs
def WellBehavedList : List (PV F) → Bool
  | [] => true
  | x :: xs => WellBehaved x && WellBehavedList xs
def WellBehavedKvs : List (Nat × PV F) → Bool
  | [] => true
  | (_, v) :: kvs => WellBehaved v && WellBehavedKvs kvs
end

/-! ## `round(x, n)` on binary64, exactly (CPython: correctly rounded decimal via dtoa mode 3,
half-even on the exact binary value, then correctly rounded back) -/

inductive Fl
  | fin (neg : Bool) (m : Nat) (e : Int)     -- (-1)^neg · m · 2^e, m > 0
  | zero (neg : Bool)
  | inf (neg : Bool)
  | nan
  deriving DecidableEq, Repr

def bitLen (n : Nat) : Nat := if n = 0 then 0 else Nat.log2 n + 1

/-- round-half-even of `num / den` (`den > 0`) -/
def rheDiv (num den : Nat) : Nat :=
  let q := num / den
  let r := num % den
  if 2 * r > den ∨ (2 * r = den ∧ q % 2 = 1) then q + 1 else q

def shl (a : Nat) (k : Int) : Nat := if k ≥ 0 then a <<< k.toNat else a
/-- numerator and denominator of `num/den / 2^e` -/
def scaled (num den : Nat) (e : Int) : Nat × Nat := if e ≥ 0 then (num, den <<< e.toNat) else (num <<< (-e).toNat, den)

/-- adjust `e` until `2^52 ≤ num/den/2^e < 2^53` (the initial guess is off by at most one) -/
def adjust : Nat → Nat → Nat → Int → Int
  | 0, _, _, e => e
  | fuel + 1, num, den, e =>
    let (a, b) := scaled num den e
    if a ≥ b <<< 53 then adjust fuel num den (e + 1)
    else if a < b <<< 52 then adjust fuel num den (e - 1)
    else e

/-- nearest binary64 to `num/den` (`num, den > 0`), ties to even; `none` = overflow -/
def toDouble (num den : Nat) : Option (Nat × Int) :=
  let e0 : Int := (bitLen num : Int) - (bitLen den : Int) - 53
  let e1 := adjust 4 num den e0
  let e := if e1 < -1074 then -1074 else e1
  let (a, b) := scaled num den e
  let m := rheDiv a b
  let (m, e) := if m = 2 ^ 53 then (m / 2, e + 1) else (m, e)
  if e + 52 > 1023 ∧ m ≥ 2 ^ 52 then none else some (m, e)

/-- CPython's `round(x, n)` for a float `x` and an int `n` -/
def pyRound (n : Int) : Fl → Except RErr Fl
  | .fin neg m e =>
    let (num, den) : Nat × Nat := if e ≥ 0 then (m <<< e.toNat, 1) else (m, 1 <<< (-e).toNat)
    let (num, den) := if n ≥ 0 then (num * 10 ^ n.toNat, den) else (num, den * 10 ^ (-n).toNat)
    let q := rheDiv num den
    if q = 0 then pure (.zero neg) else
    let r := if n ≥ 0 then toDouble q (10 ^ n.toNat) else toDouble (q * 10 ^ (-n).toNat) 1
    match r with
    | none => .error .overflow
    | some (0, _) => pure (.zero neg)
    | some (m', e') => pure (.fin neg m' e')
  | x => pure x

end Klepto.Round
