import Klepto.Model.Wrapper
/-!
# M3F — the wrapper when the attached archive REFUSES values

`Model/Wrapper.lean` assumes that a write-back (`cache.dump(k)`, `cache.dump()`) always succeeds.  A real
archive encodes what it stores (pickle, json, a database binding) and the encoder raises on some values;
the exception leaves the twelve `wrapper` closures from the middle of the `# purge cache` block.  This file
is the same step function with that edge made explicit:

* `Refuse.bad v`      - the archive's encoder raises on `v` (nothing is written for it: `*_unencodable`, C03);
* `Refuse.bulkAtomic` - `archive.update(d)` with a refused value in `d` writes nothing (`file_archive`:
                        read, merge, encode the whole dict, write) - otherwise the entries in front of it, in the
                        order of the memory dict, have been written (`dir_archive`, `sqltable_archive`: one store
                        per item);
* `Refuse.exc`        - the class of the exception the encoder raises.

What is left behind is written from the statement order of `_cache.py` / `safe.py` (identical in both: the
bare `except:` of the `safe` variants is a sibling of `except KeyError:` and does not see what the miss path
raises): the entry of the call is stored, the counter is incremented, the victim has been taken out of the
recency queue / is still counted, and it is still in memory; the code after the block (`post`) is skipped.
Archives handed in as the cache itself (`bare`) refuse at `cache[key] = result`; they are outside this model.
-/
namespace Klepto
open AMap

structure Refuse (V : Type) where
  bad : V → Bool
  bulkAtomic : Bool
  exc : Exc

variable {K V : Type} [DecidableEq K]

namespace Cache

/-- `cache.dump(k)`; `none` = the archive raised (and wrote nothing) -/
def dump1F (r : Refuse V) (c : Cache K V) (k : K) : Option (Cache K V) :=
  match c.arch, get? c.mem k with
  | some _, some v => if r.bad v then none else some (c.dump1 k)
  | _, _ => some (c.dump1 k)

/-- the resident entries an item-by-item `archive.update(cache)` stores before it meets a refused value -/
def goodPrefix (r : Refuse V) (m : List (K × V)) : List (K × V) := m.takeWhile (fun p => !r.bad p.2)

/-- `cache.dump()`; `.error c'` = the archive raised, `c'` is what is left -/
def dumpAllF (r : Refuse V) (c : Cache K V) : Except (Cache K V) (Cache K V) :=
  match c.arch with
  | some a =>
    if c.mem.any (fun p => r.bad p.2) then
      .error (if r.bulkAtomic then c else { c with arch := some (update a (goodPrefix r c.mem)) })
    else .ok c.dumpAll
  | none => .ok c.dumpAll

/-- `cache.dump(k1, k2, …)`: one `archive.update({k: v})` per resident key, in order -/
def dumpKeysF (r : Refuse V) : Cache K V → List K → Except (Cache K V) (Cache K V)
  | c, [] => .ok c
  | c, k :: ks =>
    match c.dump1F r k with
    | none => .error c
    | some c' => dumpKeysF r c' ks

end Cache

/-- outcome of the `# purge cache` block -/
inductive OvF (K V : Type)
  | ok (s : St K V)
  | indexErr
  | refused (s : St K V)

/-- lfu: `for k, _ in nsmallest(...): dump(k); del cache[k]; use_count.pop(k)`; `true` = the archive raised -/
def lfuFoldF (r : Refuse V) : List (K × Nat) → St K V → St K V × Bool
  | [], s => (s, false)
  | p :: vs, s =>
    match s.c.dump1F r p.1 with
    | none => (s, true)
    | some c => lfuFoldF r vs { s with c := c.delMem p.1, uc := erase s.uc p.1 }

def overflowF (r : Refuse V) (cfg : Cfg) (s : St K V) (victim : Option K) : OvF K V :=
  if s.c.mem.length > cfg.maxsize then
    if s.c.archived && cfg.purge then
      match s.c.dumpAllF r with
      | .ok c => .ok { s with c := c.clearMem, queue := [], rc := [], uc := [] }
      | .error c => .refused { s with c := c }
    else match cfg.algo with
      | .lfu =>
        let res := lfuFoldF r (nsmallest (max 2 (cfg.maxsize / 10)) s.uc) s
        if res.2 then .refused res.1 else .ok res.1
      | .lru =>
        match lruLoop s.queue s.rc with
        | none => .indexErr
        | some (k, q, rc) =>
          match s.c.dump1F r k with
          | some c => .ok { s with c := c.delMem k, queue := q, rc := erase rc k }
          | none => .refused { s with queue := q, rc := rc }
      | .mru =>
        match s.queue.getLast? with
        | none => .indexErr
        | some k =>
          match s.c.dump1F r k with
          | some c => .ok { s with c := c.delMem k, queue := s.queue.dropLast }
          | none => .refused { s with queue := s.queue.dropLast }
      | .rr =>
        match victim with
        | some k =>
          match s.c.dump1F r k with
          | some c => .ok { s with c := c.delMem k }
          | none => .refused s
        | none => .ok s
      | _ => .ok s
  else .ok s

def finishF (r : Refuse V) (cfg : Cfg) (s2 : St K V) (k : K) (v : V) (evals : Nat) (victim : Option K) :
    St K V × Out V :=
  if cfg.algo = .inf then (s2, .ret v evals) else
  match overflowF r cfg s2 victim with
  | .indexErr => (s2, .raised .indexError evals)
  | .refused s3 => (s3, .raised r.exc evals)
  | .ok s3 => (post cfg s3 k, .ret v evals)

def loadStepF (r : Refuse V) (cfg : Cfg) (s : St K V) (k : K) (v : V) (victim : Option K) : St K V × Out V :=
  let s1 := useKey cfg { s with c := s.c.preload k } k
  finishF r cfg { s1 with load := s1.load + 1 } k v 0 victim

def missStepF (r : Refuse V) (cfg : Cfg) (s : St K V) (k : K) (v : V) (victim : Option K) : St K V × Out V :=
  let c1 := s.c.preload k
  let s1 := useKey cfg { s with c := { c1 with mem := put c1.mem k v } } k
  finishF r cfg { s1 with miss := s1.miss + 1 } k v 1 victim

def callCachedF (r : Refuse V) (cfg : Cfg) (s : St K V) (ci : CallIn K V) : St K V × Out V :=
  match ci.key with
  | .genError e => keyFail cfg s ci.fn e
  | .unhashable e => keyFail cfg s ci.fn e
  | .ok k =>
    match get? s.c.mem k with
    | some v => hitStep cfg s k v
    | none =>
      match get? (s.c.preload k).mem k with
      | some v => loadStepF r cfg s k v ci.victim
      | none =>
        match ci.fn with
        | .error e => (s, .raised e 1)
        | .ok v => missStepF r cfg s k v ci.victim

/-- `no_cache`: the entry is stored and counted, then `cache.dump()` raises before `cache.clear()` -/
def callNoF (r : Refuse V) (cfg : Cfg) (s : St K V) (ci : CallIn K V) : St K V × Out V :=
  match ci.key with
  | .genError e => keyFail cfg s ci.fn e
  | .unhashable e =>
    if cfg.safe then
      match ci.fn with
      | .ok v =>
        match (if s.c.archived then s.c.dumpAllF r else .ok s.c) with
        | .ok c3 => ({ s with c := c3.clearMem, miss := s.miss + 1 }, .ret v 1)
        | .error c3 => ({ s with c := c3, miss := s.miss + 1 }, .raised r.exc 1)
      | .error e' => (s, .raised e' 1)
    else (s, .raised e 0)
  | .ok k =>
    let c1 := s.c.preload k
    match get? c1.mem k with
    | some v =>
      ({ s with c := c1.clearMem, load := s.load + 1 }, .ret v 0)
    | none =>
      match ci.fn with
      | .error e => (s, .raised e 1)
      | .ok v =>
        let c2 := { c1 with mem := put c1.mem k v }
        match (if c2.archived then c2.dumpAllF r else .ok c2) with
        | .ok c3 => ({ s with c := c3.clearMem, miss := s.miss + 1 }, .ret v 1)
        | .error c3 => ({ s with c := c3, miss := s.miss + 1 }, .raised r.exc 1)

def callF (r : Refuse V) (cfg : Cfg) (s : St K V) (ci : CallIn K V) : St K V × Out V :=
  if cfg.algo = .no then callNoF r cfg s ci else callCachedF r cfg s ci

/-- the whole alphabet; `f.dump()` / `f.dump(k…)` raise as well when the archive refuses -/
def stepF (r : Refuse V) (cfg : Cfg) (s : St K V) : Op K V → St K V × Out V
  | .call ci => callF r cfg s ci
  | .dump ks =>
    match s.c.dumpKeysF r ks with
    | .ok c => ({ s with c := c }, .unit)
    | .error c => ({ s with c := c }, .raised r.exc 0)
  | .dumpAll =>
    match s.c.dumpAllF r with
    | .ok c => ({ s with c := c }, .unit)
    | .error c => ({ s with c := c }, .raised r.exc 0)
  | op => step cfg s op

def runF (r : Refuse V) (cfg : Cfg) : St K V → List (Op K V) → St K V × List (Out V)
  | s, [] => (s, [])
  | s, op :: ops =>
    let (s1, o) := stepF r cfg s op
    let (s2, os) := runF r cfg s1 ops
    (s2, o :: os)

end Klepto
