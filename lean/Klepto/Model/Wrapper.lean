import Klepto.Model.Cache
/-!
# M3 — `Wrapper`: the twelve `wrapper` closures of `_cache.py` / `safe.py`

One parametrised step function.  `Cfg.safe` adds the three `try/except` lines of `safe.py`;
`Cfg.algo` selects the bookkeeping and eviction block.  The key pipeline
(`rounded_args → _keygen → keymap`) and the user function are *inputs* of a call
(`CallIn`): what the pipeline produced for this call, and what the function would return.
-/
namespace Klepto
open AMap

inductive Algo | no | inf | lfu | lru | mru | rr
  deriving DecidableEq, Repr

structure Cfg where
  algo : Algo
  safe : Bool
  maxsize : Nat
  purge : Bool
  deriving Repr

structure St (K V : Type) where
  c : Cache K V
  queue : List K
  rc : List (K × Int)
  uc : List (K × Nat)
  hit : Nat
  miss : Nat
  load : Nat
  deriving Repr, DecidableEq

/-- what the key pipeline did for a call -/
inductive KeyIn (K : Type)
  | ok (k : K)            -- a hashable key
  | genError (e : Exc)    -- rounding / `_keygen` / keymap raised `e`
  | unhashable (e : Exc)  -- a key was produced but `cache[key]` raises `e` (TypeError)
  deriving Repr

structure CallIn (K V : Type) where
  key : KeyIn K
  fn : Except Exc V       -- what `user_function(*args, **kwds)` does when evaluated
  victim : Option K       -- `random.choice`'s pick (rr only)

/-- observable outcome of an operation; `evals` = number of evaluations of the user function -/
inductive Out (V : Type)
  | ret (v : V) (evals : Nat)
  | raised (e : Exc) (evals : Nat)
  | unit
  | info (hit miss load : Nat) (maxsize : Option Nat) (size : Nat)
  | flag (b : Bool)
  deriving Repr, DecidableEq

def Out.isIndexError {V : Type} : Out V → Bool
  | .raised .indexError _ => true
  | _ => false

variable {K V : Type} [DecidableEq K]

/-- what the harness guarantees about `random.choice` (rr): the recorded victim was resident
before the call or is the key of the call itself -/
def victimOK (cfg : Cfg) (s : St K V) (ci : CallIn K V) : Bool :=
  match cfg.algo with
  | .rr => match ci.victim with
    | some kv => has s.c.mem kv || (match ci.key with | .ok k => decide (k = kv) | _ => false)
    | none => false
  | _ => true

def cget (m : List (K × Int)) (k : K) : Int := (get? m k).getD 0
def ucget (m : List (K × Nat)) (k : K) : Nat := (get? m k).getD 0

/-- lru: `key = queue_popleft(); refcount[key] -= 1; while refcount[key]: …`;
`none` = `IndexError: pop from an empty deque` -/
def lruLoop : List K → List (K × Int) → Option (K × List K × List (K × Int))
  | [], _ => none
  | k :: q, rc =>
    let rc' := put rc k (cget rc k - 1)
    if cget rc' k = 0 then some (k, q, rc') else lruLoop q rc'

/-- lru queue compaction (`_cache.py:776-783`): pop from the right, keep first sightings,
`appendleft` -/
def compactQ (q : List K) : List K :=
  q.reverse.foldl (fun acc k => if k ∈ acc then acc else k :: acc) []

/-- `heapq.nsmallest(n, use_count.items(), key=itemgetter(1))` = stable sort, then take -/
def nsmallest (n : Nat) (uc : List (K × Nat)) : List (K × Nat) :=
  (uc.mergeSort (fun a b => a.2 ≤ b.2)).take n

/-- record a use of key `k` (hit / load / miss bookkeeping; mru's hit is separate) -/
def useKey (cfg : Cfg) (s : St K V) (k : K) : St K V :=
  match cfg.algo with
  | .lfu => { s with uc := put s.uc k (ucget s.uc k + 1) }
  | .lru => { s with queue := s.queue ++ [k], rc := put s.rc k (cget s.rc k + 1) }
  | _ => s

/-- `if cache.archived(): cache.dump(k)`; `try: del cache[k] except KeyError: pass` -/
def evictOne (s : St K V) (k : K) : St K V :=
  { s with c := (s.c.dump1 k).delMem k }

/-- the `# purge cache` block after a load or a miss; `none` = `IndexError` -/
def overflow (cfg : Cfg) (s : St K V) (victim : Option K) : Option (St K V) :=
  if s.c.mem.length > cfg.maxsize then
    if s.c.archived && cfg.purge then
      some { s with c := s.c.dumpAll.clearMem, queue := [], rc := [], uc := [] }
    else match cfg.algo with
      | .lfu =>
        let vs := nsmallest (max 2 (cfg.maxsize / 10)) s.uc
        some (vs.foldl (fun s p => { evictOne s p.1 with uc := erase s.uc p.1 }) s)
      | .lru =>
        match lruLoop s.queue s.rc with
        | none => none
        | some (k, q, rc) => some { evictOne s k with queue := q, rc := erase rc k }
      | .mru =>
        match s.queue.getLast? with
        | none => none
        | some k => some { evictOne s k with queue := s.queue.dropLast }
      | .rr =>
        match victim with
        | some k => some (evictOne s k)
        | none => some s
      | _ => some s
  else some s

/-- after the `try/except` block: mru appends the key, lru compacts its queue -/
def post (cfg : Cfg) (s : St K V) (k : K) : St K V :=
  match cfg.algo with
  | .mru => { s with queue := s.queue ++ [k] }
  | .lru =>
    if s.queue.length > cfg.maxsize * 10 then
      let q := compactQ s.queue
      { s with queue := q, rc := q.map (fun k => (k, (1 : Int))) }
    else s
  | _ => s

/-- the `safe` fall-back: evaluate the function directly -/
def evalDirect (s : St K V) (fn : Except Exc V) : St K V × Out V :=
  match fn with
  | .ok v => ({ s with miss := s.miss + 1 }, .ret v 1)
  | .error e => (s, .raised e 1)

/-- `if cache.archived(): cache.load(key)` -/
def Cache.preload (c : Cache K V) (k : K) : Cache K V :=
  if c.archived then c.load1 k else c

/-- a key failure: `safe` evaluates the function directly, otherwise the error propagates -/
def keyFail (cfg : Cfg) (s : St K V) (fn : Except Exc V) (e : Exc) : St K V × Out V :=
  if cfg.safe then evalDirect s fn else (s, .raised e 0)

/-- a HIT: bookkeeping, counter, then the code after the `try` block -/
def hitStep (cfg : Cfg) (s : St K V) (k : K) (v : V) : St K V × Out V :=
  let s1 := if cfg.algo = .mru then { s with queue := s.queue.erase k } else useKey cfg s k
  (post cfg { s1 with hit := s1.hit + 1 } k, .ret v 0)

/-- the tail shared by the LOAD and MISS paths: the `# purge cache` block, then `post` -/
def finish (cfg : Cfg) (s2 : St K V) (k : K) (v : V) (evals : Nat) (victim : Option K) :
    St K V × Out V :=
  if cfg.algo = .inf then (s2, .ret v evals) else
  match overflow cfg s2 victim with
  | none => (s2, .raised .indexError evals)
  | some s3 => (post cfg s3 k, .ret v evals)

/-- a LOAD: the entry was fetched from the archive by `preload` -/
def loadStep (cfg : Cfg) (s : St K V) (k : K) (v : V) (victim : Option K) : St K V × Out V :=
  let s1 := useKey cfg { s with c := s.c.preload k } k
  finish cfg { s1 with load := s1.load + 1 } k v 0 victim

/-- a MISS whose evaluation returned `v` -/
def missStep (cfg : Cfg) (s : St K V) (k : K) (v : V) (victim : Option K) : St K V × Out V :=
  let c1 := s.c.preload k
  let s1 := useKey cfg { s with c := { c1 with mem := put c1.mem k v } } k
  finish cfg { s1 with miss := s1.miss + 1 } k v 1 victim

/-- the five caching algorithms (`inf` has no purge block) -/
def callCached (cfg : Cfg) (s : St K V) (ci : CallIn K V) : St K V × Out V :=
  match ci.key with
  | .genError e => keyFail cfg s ci.fn e
  | .unhashable e => keyFail cfg s ci.fn e
  | .ok k =>
    match get? s.c.mem k with
    | some v => hitStep cfg s k v
    | none =>
      match get? (s.c.preload k).mem k with
      | some v => loadStep cfg s k v ci.victim
      | none =>
        match ci.fn with
        | .error e => (s, .raised e 1)
        | .ok v => missStep cfg s k v ci.victim

/-- `no_cache`: look in the archive, else compute; then dump and clear -/
def callNo (cfg : Cfg) (s : St K V) (ci : CallIn K V) : St K V × Out V :=
  match ci.key with
  | .genError e => keyFail cfg s ci.fn e
  | .unhashable e =>
    -- safe.py: the bare `except:` evaluates the function and then falls through to the
    -- `# purge cache` block (entries handed in with the cache are dumped and cleared)
    if cfg.safe then
      match ci.fn with
      | .ok v =>
        let c3 := if s.c.archived then s.c.dumpAll else s.c
        ({ s with c := c3.clearMem, miss := s.miss + 1 }, .ret v 1)
      | .error e' => (s, .raised e' 1)
    else (s, .raised e 0)
  | .ok k =>
    let c1 := s.c.preload k
    match get? c1.mem k with
    | some v =>
      ({ s with c := c1.clearMem, load := s.load + 1 }, .ret v 0)
    | none =>
      match ci.fn with
      | .error e => (s, .raised e 1)
      | .ok v =>
        let c2 := { c1 with mem := put c1.mem k v }
        let c3 := if c2.archived then c2.dumpAll else c2
        ({ s with c := c3.clearMem, miss := s.miss + 1 }, .ret v 1)

def call (cfg : Cfg) (s : St K V) (ci : CallIn K V) : St K V × Out V :=
  if cfg.algo = .no then callNo cfg s ci else callCached cfg s ci

/-- the whole alphabet exposed on a decorated function -/
inductive Op (K V : Type)
  | call (ci : CallIn K V)
  | lookup (key : KeyIn K)
  | clear (keep : Bool)
  | load (ks : List K) | loadAll | dump (ks : List K) | dumpAll
  | archivedOn | archivedOff | archivedQ
  | setArchive (a : Option (List (K × V)))
  | extPut (k : K) (v : V) | extDel (k : K)
  | info

def St.clearBook (s : St K V) : St K V := { s with queue := [], rc := [], uc := [] }

def infoOut (cfg : Cfg) (s : St K V) : Out V :=
  .info s.hit s.miss s.load
    (match cfg.algo with | .no => some 0 | .inf => none | _ => some cfg.maxsize)
    s.c.mem.length

def step (cfg : Cfg) (s : St K V) : Op K V → St K V × Out V
  | .call ci => call cfg s ci
  | .lookup key =>
    match key with
    | .ok k => match get? s.c.mem k with
      | some v => (s, .ret v 0)
      | none => (s, .raised .keyError 0)
    | .genError e => (s, .raised e 0)
    | .unhashable e => (s, .raised e 0)
  | .clear keep =>
    let s1 : St K V := { s.clearBook with c := s.c.clearMem }
    (if keep then s1 else { s1 with hit := 0, miss := 0, load := 0 }, .unit)
  | .load ks => ({ s with c := s.c.loadKeys ks }, .unit)
  | .loadAll => ({ s with c := s.c.loadAll }, .unit)
  | .dump ks => ({ s with c := s.c.dumpKeys ks }, .unit)
  | .dumpAll => ({ s with c := s.c.dumpAll }, .unit)
  | .archivedOn => match s.c.archivedOn with
    | some c' => ({ s with c := c' }, .unit)
    | none => (s, .raised .valueError 0)
  | .archivedOff => match s.c.archivedOff with
    | some c' => ({ s with c := c' }, .unit)
    | none => (s, .raised .valueError 0)
  | .archivedQ => (s, .flag s.c.archived)
  | .setArchive a =>
    if s.c.bare then (s, .raised .valueError 0) else ({ s with c := s.c.setArchive a }, .unit)
  | .extPut k v => ({ s with c := s.c.extPut k v }, .unit)
  | .extDel k => ({ s with c := s.c.extDel k }, .unit)
  | .info => (s, infoOut cfg s)

def St.init (c : Cache K V) : St K V :=
  { c := c, queue := [], rc := [], uc := [], hit := 0, miss := 0, load := 0 }

/-- run a history, collecting the outputs -/
def run (cfg : Cfg) : St K V → List (Op K V) → St K V × List (Out V)
  | s, [] => (s, [])
  | s, op :: ops =>
    let (s1, o) := step cfg s op
    let (s2, os) := run cfg s1 ops
    (s2, o :: os)

end Klepto
