import Klepto.Model.Keys
/-!
# M6 — `klepto._inspect.validate` / `isvalid`

`signature(func)` with `markup=True, variadic=True` (names the partial fixes are marked `'!'`),
then the checks of `validate`, line by line.  `true` = `validate` returns normally
(`isvalid` is `True`), `false` = it raises `TypeError`.  The function is never called: the model has
no access to it.
-/
namespace Klepto.Keys
open Klepto.AMap
variable {Val : Type} [DecidableEq Val]

/-- `signature(func, markup=True)`: explicit names with their `'!'` mark, unmarked defaults,
and the names fixed positionally (the `'!'`-marked keys of the defaults dict);
`none` = the partial always fails (`TypeError` at inspection time) -/
def sigMarked (f : Func Val) : Option (List (Val × Bool) × List (Val × Val) × List Val) :=
  let argNames := names f.pos
  let fixed := (if f.bound then argNames.drop 1 else argNames).zip f.pArgs   -- (a bound method's instance is not among the parameters the partial fills)
  if fixed.any (fun p => has f.pKwds p.1) then none else
  let defaults0 := update (update (defaultsOf f.pos) (defaultsOf f.kwonly)) f.pKwds
  let explicit := (argNames.filter (fun n => !(has fixed n))).map (fun n => (n, has f.pKwds n))
  let explicit := if f.bound then explicit.drop 1 else explicit
  let defaults := defaults0.filter (fun p => !(has fixed p.1))
  some (explicit, defaults, keys fixed)

def inter (a b : List Val) : List Val := a.filter (fun x => b.contains x)
def diff (a b : List Val) : List Val := a.filter (fun x => !b.contains x)

/-- the ten checks of `validate`, in the order of the code (each `false` is a `raise TypeError`) -/
structure VChecks where
  pVarkw : Bool      -- partial built for **kwds, but **kwds not used in func.func
  pVarargs : Bool    -- partial built for *args, but *args not used in func.func
  varargs : Bool     -- extra positionals but no *args
  varkw : Bool       -- unknown keywords but no **kwds
  badArgs : Bool     -- positional given for a parameter the partial fixed by keyword
  badKwds : Bool     -- keyword given for a parameter the partial fixed positionally
  dup : Bool         -- a parameter given both positionally and by keyword
  required : Bool    -- a required parameter is missing
  boundSelf : Bool   -- the instance parameter of a bound method given again by keyword
  kwonlyReq : Bool   -- a required keyword-only parameter is missing

def VChecks.all (v : VChecks) : Bool :=
  v.pVarkw && v.pVarargs && v.varargs && v.varkw && v.badArgs && v.badKwds && v.dup && v.required && v.boundSelf && v.kwonlyReq

def vchecks (f : Func Val) (c : PCall Val) (explicitM : List (Val × Bool)) (defaults : List (Val × Val))
    (badKwds : List Val) : VChecks :=
  -- signature of the wrapped function (for a partial): required = named without defaults
  let pNamed := (let e := names f.pos; if f.bound then e.drop 1 else e)
  let badArgs := (explicitM.filter (·.2)).map (·.1)
  let named := explicitM.map (·.1)
  let argsKwds := named.zip c.args
  { pVarkw := (diff (diff (diff (keys f.pKwds) badKwds) badArgs) (names f.kwonly)).isEmpty || f.varkw,
    pVarargs := decide (f.pArgs.length ≤ pNamed.length) || f.varargs,
    varargs := (c.args.drop named.length).isEmpty || f.varargs,
    varkw := (diff (keys c.kwds) (named ++ names f.kwonly)).isEmpty || f.varkw,
    badArgs := (inter badArgs (keys argsKwds)).isEmpty,
    badKwds := (inter badKwds (keys c.kwds)).isEmpty,
    dup := (inter (keys argsKwds) (keys c.kwds)).isEmpty,
    required := (diff named (keys defaults)).all (fun n => (keys c.kwds).contains n || (keys argsKwds).contains n),
    boundSelf := !(f.bound && f.nposonly == 0 && (match (names f.pos).head? with
      | some n => (keys c.kwds).contains n || (keys f.pKwds).contains n
      | none => false)),
    kwonlyReq := (names f.kwonly).all (fun n => (keys defaults).contains n || (keys c.kwds).contains n) }

/-- `validate(func, *args, **kwds)` does not raise -/
def validate (f : Func Val) (c : PCall Val) : Bool :=
  match sigMarked f with
  | none => false
  | some (explicitM, defaults, badKwds) => (vchecks f c explicitM defaults badKwds).all

end Klepto.Keys
