import Klepto.Model.FS
/-!
# M8 (continued) — several processes on one archive: small steps and schedules

Each process performs one archive operation.  A *writer* is its M8 program of mutating system calls
(each call is one atomic step).  A *reader* of a `dir_archive` is a small state machine over the
archive's own read helpers — `_lsdir()`, `_hasinput(dir)`, `_lookup(key, input)` and the existence test
of `__contains__` — each helper call observing the disk at one instant (`_archives.py:535-600`).
On a `file_archive` every process first reads the whole file (`__asdict__`), a writer then saves
what it computed *from what it read* — the read-modify-write that lets an opener
(`archives.file_archive(name, cached=False)`: `update({})`) undo a concurrent write (finding F20).

A schedule is a list of process numbers; `runDir` / `runFile` execute it.  Import-free, executable.
-/
namespace Klepto.Sched
open Klepto AMap Crash

/-! ## `dir_archive` -/

inductive RKind
  | lookup (n : String)            -- `d[k]`, `d.get(k)`
  | contains (n : String)          -- `k in d`
  | len
  | keys                           -- `keys()`, iteration
  | asdict                         -- `__asdict__()`, `items()`, `cache.load()`
  deriving Repr, DecidableEq

/-- a listed key as the reader classified it: the directory it came from, and whether the key was
recovered (`real = false`: no input file was found, so the key is taken to be the directory name —
for a key that needs an input file that is a key nobody stored) -/
structure RKey where
  name : String
  real : Bool
  deriving Repr, DecidableEq

inductive RRes (V : Type)
  | val (v : V)
  | keyError
  | bool (b : Bool)
  | nat (n : Nat)
  | keys (l : List RKey)
  | dict (l : List (RKey × V))
  deriving Repr, DecidableEq

inductive RPhase (V : Type)
  | start
  | classify (todo : List String) (ks : List RKey) (values : Bool)                -- next call: `_hasinput(todo.head)`
  | readInput (n : String) (todo : List String) (ks : List RKey) (values : Bool)  -- next call: `_lookup(n, input=True)`
  | values (todo : List RKey) (acc : List (RKey × V))                             -- next call: `_lookup(todo.head)`
  | done (r : RRes V)
  deriving Repr, DecidableEq

variable {V : Type}

def visNames (s : DirFS V) : List String :=
  s.filterMap fun p => match p.1 with | .key n => some n | .temp _ => none

/-- phases that have nothing left to ask the disk move on without a step -/
def advance : RPhase V → RPhase V
  | .classify [] ks true => match ks with
    | [] => .done (.dict [])
    | _ => .values ks []
  | .classify [] ks false => .done (.keys ks)
  | .values [] acc => .done (.dict acc)
  | p => p

/-- one helper call of a reader against the disk as it is now; `order` = the order in which the
implementation's directory listing came back, `needInp n` = the key stored under `n` needs an input file -/
def rstep (needInp : String → Bool) (order : List String) (s : DirFS V) (k : RKind) : RPhase V → RPhase V
  | .start =>
    match k with
    | .lookup n => .done (match (get? s (.key n)).bind DDir.value with | some v => .val v | none => .keyError)
    | .contains n => .done (.bool (has s (.key n)))
    | .len => .done (.nat (visNames s).length)
    | .keys => advance (.classify ((order.filter (· ∈ visNames s)) ++ ((visNames s).filter (· ∉ order))) [] false)
    | .asdict => advance (.classify ((order.filter (· ∈ visNames s)) ++ ((visNames s).filter (· ∉ order))) [] true)
  | .classify (n :: todo) ks vals =>
    match get? s (.key n) with
    | some d => if d.inp.isSome then .readInput n todo ks vals
                else advance (.classify todo (ks ++ [{ name := n, real := !needInp n }]) vals)
    | none => advance (.classify todo (ks ++ [{ name := n, real := !needInp n }]) vals)
  | .readInput n todo ks vals =>
    match get? s (.key n) with
    | some d => match d.inp with
      | some (.full ()) => advance (.classify todo (ks ++ [{ name := n, real := true }]) vals)
      | _ => .done .keyError
    | none => .done .keyError
  | .values (key :: todo) acc =>
    match (get? s (.key key.name)).bind DDir.value with
    | some v => advance (.values todo (acc ++ [(key, v)]))
    | none => .done .keyError
  | p => p

inductive DProc (V : Type)
  | writer (prog : List (DSys V))
  | reader (k : RKind) (order : List String) (ph : RPhase V)
  deriving Repr

structure DSysState (V : Type) where
  disk : DirFS V
  procs : List (DProc V)
  deriving Repr

def setAt {α : Type} : List α → Nat → α → List α
  | [], _, _ => []
  | _ :: xs, 0, a => a :: xs
  | x :: xs, i + 1, a => x :: setAt xs i a

/-- process `i` performs its next call (a finished process does nothing) -/
def dirStep (needInp : String → Bool) (st : DSysState V) (i : Nat) : DSysState V :=
  match st.procs[i]? with
  | some (.writer (x :: xs)) => { disk := dstep st.disk x, procs := setAt st.procs i (.writer xs) }
  | some (.reader k order ph) => { st with procs := setAt st.procs i (.reader k order (rstep needInp order st.disk k ph)) }
  | _ => st

def runDir (needInp : String → Bool) (st : DSysState V) (sched : List Nat) : DSysState V :=
  sched.foldl (dirStep needInp) st

/-! ## `file_archive` -/

variable {C : Type}

inductive FPhase (C : Type)
  | start                                   -- next: open the archive for reading
  | saving (prog : List (FSys C))           -- next: the calls of `__save__`
  | done (seen : C)                         -- what the process read (a reader's answer)
  deriving Repr

inductive FKind (C : Type)
  | read                                    -- `__asdict__()` and everything built on it
  | write (f : C → C)                       -- `memo = __asdict__(); memo = f(memo); __save__(memo)`

structure FProc (C : Type) where
  kind : FKind C
  tmp : Nat
  ph : FPhase C
  seen : Option C := none

structure FSysState (C : Type) where
  disk : FileFS C
  procs : List (FProc C)

def fileProcStep (emptyD : C) (st : FSysState C) (i : Nat) : FSysState C :=
  match st.procs[i]? with
  | some p =>
    match p.ph, p.kind with
    | .start, .read => { st with procs := setAt st.procs i { p with ph := .done (fileRecover emptyD st.disk), seen := some (fileRecover emptyD st.disk) } }
    | .start, .write f =>
      let memo := fileRecover emptyD st.disk
      { st with procs := setAt st.procs i { p with ph := .saving (saveProg true p.tmp (f memo)), seen := some memo } }
    | .saving (x :: xs), _ => { disk := fstep st.disk x, procs := setAt st.procs i { p with ph := if xs.isEmpty then .done emptyD else .saving xs } }
    | _, _ => st
  | none => st

def runFile (emptyD : C) (st : FSysState C) (sched : List Nat) : FSysState C :=
  sched.foldl (fileProcStep emptyD) st

end Klepto.Sched
