import Klepto.Model.Backend
/-!
# Concrete archive keys and `dir_archive._fname`

The key universe the archives are driven with: what klepto's own keymaps produce —
ints, strings, flat tuples of those, and pickle byte-strings (`picklemap`).  `pyStr`/`pyRepr` are
Python's `str`/`repr` on that universe (strings restricted to characters whose `repr` is the
string between single quotes: the harness generates only `[A-Za-z0-9_ .-]`).

`fname` is `dir_archive._fname` (`_archives.py:508-516`): pickles are named by their md5 digest
(a parameter of the key: the harness supplies `hashlib.md5(bytes).hexdigest()`), everything else by
`str(key)`, with `-` replaced by `_`.
-/
namespace Klepto.Backend

inductive Atom
  | int (n : Int)
  | str (s : String)
  | bytes (hex : String) (md5 : String)       -- a pickle: starts with PROTO, ends with STOP
  deriving Repr, DecidableEq

inductive PKey
  | atom (a : Atom)
  | tup (l : List Atom)
  deriving Repr, DecidableEq

def Atom.pyRepr : Atom → String
  | .int n => toString n
  | .str s => "'" ++ s ++ "'"
  | .bytes _ md5 => md5

def PKey.pyStr : PKey → String
  | .atom (.int n) => toString n
  | .atom (.str s) => s
  | .atom (.bytes _ md5) => md5
  | .tup [] => "()"
  | .tup [a] => "(" ++ a.pyRepr ++ ",)"
  | .tup l => "(" ++ ", ".intercalate (l.map Atom.pyRepr) ++ ")"

def dashToUnderscore (s : String) : String := String.ofList (s.toList.map fun c => if c = '-' then '_' else c)

/-- `dir_archive._fname(key)` -/
def PKey.fname (k : PKey) : String := dashToUnderscore k.pyStr

/-- `_fname(key) == key`: only a `str` can equal its own file name -/
def PKey.plain : PKey → Bool
  | .atom (.str s) => dashToUnderscore s == s
  | _ => false

/-- how a key comes back from the store -/
inductive KeyMode
  | id          -- pickle / source text / input files
  | json        -- single-file JSON: `json.dump` turns int keys into strings, rejects tuples and bytes
  | sql         -- sqlite parameter binding: scalars only
  deriving Repr, DecidableEq

def PKey.ck (m : KeyMode) (k : PKey) : Option PKey :=
  match m, k with
  | .id, k => some k
  | .json, .atom (.int n) => some (.atom (.str (toString n)))
  | .json, .atom (.str s) => some (.atom (.str s))
  | .json, _ => none
  | .sql, .atom a => some (.atom a)
  | .sql, .tup _ => none

/-- the codec of a concrete configuration: `cvTab` lists, for every value the trace uses, what the
encoder reads back (`none` = it raises); both come from an oracle independent of klepto -/
def concreteCodec (m : KeyMode) (cvTab : List (Nat × Option Nat)) : Codec PKey Nat where
  cv v := match AMap.get? cvTab v with | some r => r | none => none
  ck := PKey.ck m
  fname := PKey.fname
  strKey s := .atom (.str s)
  plain := PKey.plain
  noneV := 0

/-- the key pool of suite `backend`'s main stream (exported to the harness through the driver op
`pool`, which refuses to run if its own pool differs).  Pickle keys are represented by their
md5 digest as supplied by `hashlib` — `pickle.dumps` of `(1,)`, `'a'`, `(2, 'b')`. -/
def mainPool : List PKey :=
  [.atom (.str "a"), .atom (.str "b"), .atom (.str "k1"), .atom (.str "x_y"), .atom (.str "K"), .atom (.str "Q 7"),
   .atom (.str "z.z"), .atom (.str "Q7"), .atom (.str "TASK_1"), .atom (.str "K_K_a"), .atom (.str "k[0]"), .atom (.str "p-q"), .atom (.str "2024-01-15"),
   .atom (.str "LLLLLLLLLLLLLLLLLLLLLLLLLLLLLLLLLLLLLLLLLLLLLLLLLLLLLLLLLLLLLLLLLLLLLLLLLLLLLLLLLLLLLLLLLLLLLLLLLLLLLLLLLLLLLLLLLLLLLLLLLLLLLLLLLLLLLLLLLLLLLLLLLLLLLLLLLLLLLLLLLLLLLLLLLLLLLLLLLLLLLLLLLLLLLLLLLLLLLLLLLLLLLLLLLLLLLLLLLLLLLLLLLLLLLLLLLLLLLLLLLLLLLa"), .atom (.str "LLLLLLLLLLLLLLLLLLLLLLLLLLLLLLLLLLLLLLLLLLLLLLLLLLLLLLLLLLLLLLLLLLLLLLLLLLLLLLLLLLLLLLLLLLLLLLLLLLLLLLLLLLLLLLLLLLLLLLLLLLLLLLLLLLLLLLLLLLLLLLLLLLLLLLLLLLLLLLLLLLLLLLLLLLLLLLLLLLLLLLLLLLLLLLLLLLLLLLLLLLLLLLLLLLLLLLLLLLLLLLLLLLLLLLLLLLLLLLLLLLLLLb"),
   .atom (.int 7), .atom (.int 12), .atom (.int (-3)), .atom (.int 0),
   .tup [.int 1, .int 2], .tup [.str "a", .int 3], .tup [.int 5], .tup [], .tup [.str "x", .str "y"], .tup [.str "x[1]", .int 2],
   .atom (.bytes "80049505000000000000004b0185942e" "d800a4634ec418740f36ec222e805788"),
   .atom (.bytes "80049505000000000000008c0161942e" "d578e3b878268b39463a4a4a482457d3"),
   .atom (.bytes "80049509000000000000004b028c01629486942e" "aee327ddddaa1390787f94ace19882fe")]


end Klepto.Backend
