import Klepto.Model.Cache
/-!
# M7 — `Backend`: the mapping protocol of every archive class, as the code implements it

One model per archive class of `klepto/_archives.py`, each written from the method bodies
(not from `dict`): what is stored, and how every mapping method reads / rewrites the store.

* `DictB`  — `dict_archive` (241-281): a real `dict` (M1 `AMap`, `popitem` is LIFO)
* `NullB`  — `null_archive` (284-313): `__setitem__`/`update`/`setdefault` overridden to do nothing
* `FileB`  — `file_archive` (684-895): every method = `__asdict__()` / dict operation / `__save__(memo)`
* `DirB`   — `dir_archive` (316-681): one sub-directory `K_<fname(key)>` per key holding the value
             (and the real key in an `input` file when `fname(key) != key`)
* `SqlB`   — sqlite `sqltable_archive` (1520-1747): an append-only row list, last row wins,
             `pop` deletes every row of the key

Codecs are parameters (`Codec`): `cv v` is the value as it is read back (`none` = the encoder
raises), `ck k` the key as the single-file JSON encoder reads it back, `fname` the key → file name
map of `dir_archive._fname`, `strKey s` the key that `_getkey` reports for a directory without an
input file (the directory name itself, a `str`), `plain k` = "`_fname(key) == key`".

Import-free and executable.  `choice` arguments (`popitem`) carry the element an unordered store
(`os.listdir`, a Python `set`) happened to yield first in the implementation; the model checks it
is a listed key and refuses otherwise.
-/
namespace Klepto.Backend
open Klepto AMap

/-- mapping operations (quantifier of C03) -/
inductive Op (K V : Type)
  | setitem (k : K) (v : V)
  | getitem (k : K)
  | delitem (k : K)
  | contains (k : K)
  | len
  | keys
  | values
  | items
  | get (k : K) (d : V)                    -- `get(k, d)`; `get(k)` is `get k noneV`
  | pop (k : K) (d : Option V)
  | popitem (choice : Option K)            -- see above
  | popkeys (ks : List K) (d : Option V)
  | setdefault (k : K) (d : V)             -- `setdefault(k)` is `setdefault k noneV`
  | update (kvs : List (K × V))
  | clear
  deriving Repr

inductive Out (K V : Type)
  | unit
  | val (v : V)
  | bool (b : Bool)
  | nat (n : Nat)
  | keys (l : List K)
  | vals (l : List V)
  | items (l : List (K × V))
  | pair (k : K) (v : V)
  | vlist (l : List V)
  | err (e : Exc)
  | refused                                  -- the driver was handed an impossible `choice`
  deriving Repr, DecidableEq

structure Codec (K V : Type) where
  cv : V → Option V
  ck : K → Option K
  fname : K → String
  strKey : String → K
  plain : K → Bool
  noneV : V

variable {K V : Type} [DecidableEq K]

/-! ## `dict_archive`: Python `dict` (deterministic; `popitem` = last inserted) -/

/-- sequential `[d.pop(k, x) for k in ks]` -/
def popSeq (x : V) : List (K × V) → List K → List (K × V) × List V
  | m, [] => (m, [])
  | m, k :: ks =>
    let r := popSeq x (erase m k) ks
    (r.1, (get? m k).getD x :: r.2)

/-- all-or-nothing `popkeys(ks)`: the shadow-dict test `[memo.pop(k) for k in ks]` -/
def allPresentOnce : List (K × V) → List K → Bool
  | _, [] => true
  | m, k :: ks => has m k && allPresentOnce (erase m k) ks

/-- `[d.pop(k) for k in ks]`, stopping at the first `KeyError` -/
def popAllL : List (K × V) → List K → Option (List (K × V) × List V)
  | m, [] => some (m, [])
  | m, k :: ks =>
    match get? m k with
    | none => none
    | some v => (popAllL (erase m k) ks).map fun r => (r.1, v :: r.2)

def dictStep (m : List (K × V)) : Op K V → List (K × V) × Out K V
  | .setitem k v => (put m k v, .unit)
  | .getitem k => (m, match get? m k with | some v => .val v | none => .err .keyError)
  | .delitem k => if has m k then (erase m k, .unit) else (m, .err .keyError)
  | .contains k => (m, .bool (has m k))
  | .len => (m, .nat m.length)
  | .keys => (m, .keys (AMap.keys m))
  | .values => (m, .vals (m.map (·.2)))
  | .items => (m, .items m)
  | .get k d => (m, .val ((get? m k).getD d))
  | .pop k d =>
    match get? m k, d with
    | some v, _ => (erase m k, .val v)
    | none, some x => (m, .val x)
    | none, none => (m, .err .keyError)
  | .popitem _ =>
    match m.getLast? with
    | some (k, v) => (erase m k, .pair k v)
    | none => (m, .err .keyError)
  | .popkeys ks (some x) => let r := popSeq x m ks; (r.1, .vlist r.2)
  | .popkeys ks none =>
    -- shadow-dict test, then the real pops (for a `dict` the two see the same contents)
    if allPresentOnce m ks then
      match popAllL m ks with
      | some r => (r.1, .vlist r.2)
      | none => (m, .err .keyError)
    else (m, .err .keyError)
  | .setdefault k d =>
    match get? m k with
    | some v => (m, .val v)
    | none => (put m k d, .val d)
  | .update kvs => (update m kvs, .unit)
  | .clear => ([], .unit)

/-- a cache whose entries were bulk-loaded from a store without order (`os.listdir`, a Python `set`):
its insertion order is not determined by the history, so `popitem` takes the pair the
implementation popped (and refuses one that is not there) -/
def dictStepC (m : List (K × V)) : Op K V → List (K × V) × Out K V
  | .popitem (some k) =>
    match get? m k with
    | some v => (erase m k, .pair k v)
    | none => (m, .refused)
  | op => dictStep m op

/-! ## `null_archive` -/

def nullStep (noneV : V) : Op K V → Out K V
  | .setitem _ _ => .unit
  | .getitem _ => .err .keyError
  | .delitem _ => .err .keyError
  | .contains _ => .bool false
  | .len => .nat 0
  | .keys => .keys []
  | .values => .vals []
  | .items => .items []
  | .get _ d => .val d
  | .pop _ (some x) => .val x
  | .pop _ none => .err .keyError
  | .popitem _ => .err .keyError
  | .popkeys ks (some x) => .vlist (ks.map fun _ => x)
  | .popkeys [] none => .vlist []
  | .popkeys (_ :: _) none => .err .keyError
  | .setdefault _ d => let _ := noneV; .val d
  | .update _ => .unit
  | .clear => .unit

/-! ## `file_archive`: read the whole dict, operate, write the whole dict -/

/-- what `__save__(memo)` leaves in the file, as `__asdict__` reads it back: `none` when the
encoder raises (the temporary file is abandoned, the archive file is untouched) -/
def fileEncode (c : Codec K V) : List (K × V) → Option (List (K × V))
  | [] => some []
  | (k, v) :: m =>
    match c.ck k, c.cv v, fileEncode c m with
    | some k', some v', some m' => some ((k', v') :: m')
    | _, _, _ => none

/-- decoding a JSON/pickle object with repeated keys: later pairs win (`dict(pairs)`) -/
def normalize (m : List (K × V)) : List (K × V) := update [] m

def fileSave (c : Codec K V) (old memo : List (K × V)) : List (K × V) × Option Exc :=
  match fileEncode c memo with
  | some m' => (normalize m', none)
  | none => (old, some .other)

/-- `__save__` after the dict operation: not reached when the dict operation raised -/
def fileCommit (c : Codec K V) (m : List (K × V)) (r : List (K × V) × Out K V) : List (K × V) × Out K V :=
  match r.2 with
  | .err e => (m, .err e)
  | o =>
    match fileSave c m r.1 with
    | (m', none) => (m', o)
    | (m', some e) => (m', .err e)

/-- the operations that end in `__save__` write what the dict operation produced; the others
only read -/
def fileStep (c : Codec K V) (m : List (K × V)) (op : Op K V) : List (K × V) × Out K V :=
  match op with
  | .setdefault k d =>
    -- `res = self.__asdict__().get(key, *value); self.__setitem__(key, res)` : always rewrites
    let res := (get? m k).getD d
    match fileSave c m (put m k res) with
    | (m', none) => (m', .val res)
    | (m', some e) => (m', .err e)
  | .setitem _ _ | .update _ | .clear | .delitem _ | .pop _ _ | .popitem _ | .popkeys _ _ =>
    fileCommit c m (dictStep m op)
  | op => (m, (dictStep m op).2)

/-! ## `dir_archive` -/

structure DirEntry (K V : Type) where
  inp : Option K            -- contents of the `input` file, when there is one
  val : V
  deriving Repr, DecidableEq

abbrev DirSt (K V : Type) := List (String × DirEntry K V)

/-- `_getkey(dir)`: the stored input key, else the directory name -/
def entryKey (c : Codec K V) (name : String) (e : DirEntry K V) : K := e.inp.getD (c.strKey name)

/-- `_keydict()`: listing order, later duplicates collapse (a `dict` is built) -/
def dirKeys (c : Codec K V) (s : DirSt K V) : List K :=
  AMap.keys (normalize (s.map fun p => (entryKey c p.1 p.2, ())))

/-- `_lookup(key)` -/
def dirGet (c : Codec K V) (s : DirSt K V) (k : K) : Option V := (get? s (c.fname k)).map (·.val)

/-- `_store(key, value)`; `none` = the encoder raised (staging directory removed, nothing changed) -/
def dirStore (c : Codec K V) (s : DirSt K V) (k : K) (v : V) : Option (DirSt K V) :=
  match c.cv v with
  | none => none
  | some v' =>
    let e : DirEntry K V := { inp := if c.plain k then none else some k, val := v' }
    some (put (erase s (c.fname k)) (c.fname k) e)

def dirRm (c : Codec K V) (s : DirSt K V) (k : K) : DirSt K V := erase s (c.fname k)

/-- `pop(key, *value)`: `try: memo = {key: self[key]}; self._rmdir(key) except: memo = {}` -/
def dirPop (c : Codec K V) (s : DirSt K V) (k : K) (d : Option V) : DirSt K V × Out K V :=
  match dirGet c s k, d with
  | some v, _ => (dirRm c s k, .val v)
  | none, some x => (s, .val x)
  | none, none => (s, .err .keyError)

def dirPopSeq (c : Codec K V) (x : V) : DirSt K V → List K → DirSt K V × List V
  | s, [] => (s, [])
  | s, k :: ks =>
    let r := dirPopSeq c x (match dirGet c s k with | some _ => dirRm c s k | none => s) ks
    (r.1, (dirGet c s k).getD x :: r.2)

/-- `[self.pop(k) for k in ks]` after the shadow test passed; stops at the first `KeyError` -/
def dirPopAll (c : Codec K V) : DirSt K V → List K → DirSt K V × Option (List V)
  | s, [] => (s, some [])
  | s, k :: ks =>
    match dirGet c s k with
    | none => (s, none)
    | some v =>
      let r := dirPopAll c (dirRm c s k) ks
      (r.1, r.2.map (v :: ·))

def dirUpdate (c : Codec K V) : DirSt K V → List (K × V) → DirSt K V × Option Exc
  | s, [] => (s, none)
  | s, (k, v) :: kvs =>
    match dirStore c s k v with
    | none => (s, some .other)
    | some s' => dirUpdate c s' kvs

/-- items of the views: `for key in self: self[key]` — a listed key whose lookup fails raises -/
def dirItems (c : Codec K V) (s : DirSt K V) : Option (List (K × V)) :=
  (dirKeys c s).mapM fun k => (dirGet c s k).map fun v => (k, v)

def dirStep (c : Codec K V) (s : DirSt K V) : Op K V → DirSt K V × Out K V
  | .setitem k v =>
    match dirStore c s k v with
    | some s' => (s', .unit)
    | none => (s, .err .other)
  | .getitem k => (s, match dirGet c s k with | some v => .val v | none => .err .keyError)
  | .delitem k => if has s (c.fname k) then (dirRm c s k, .unit) else (s, .err .keyError)
  | .contains k => (s, .bool (has s (c.fname k)))
  | .len => (s, .nat s.length)
  | .keys => (s, .keys (dirKeys c s))
  | .values => (s, match dirItems c s with | some l => .vals (l.map (·.2)) | none => .err .keyError)
  | .items => (s, match dirItems c s with | some l => .items l | none => .err .keyError)
  | .get k d => (s, .val ((dirGet c s k).getD d))
  | .pop k d => dirPop c s k d
  | .popitem ch =>
    match dirKeys c s, ch with
    | [], _ => (s, .err .keyError)
    | _ :: _, none => (s, .refused)
    | ks, some k =>
      if k ∈ ks then
        match dirPop c s k none with
        | (s', .val v) => (s', .pair k v)
        | (s', o) => (s', o)
      else (s, .refused)
  | .popkeys ks (some x) => let r := dirPopSeq c x s ks; (r.1, .vlist r.2)
  | .popkeys ks none =>
    if allPresentOnce ((dirKeys c s).map fun k => (k, ())) ks then
      match dirPopAll c s ks with
      | (s', some l) => (s', .vlist l)
      | (s', none) => (s', .err .keyError)
    else (s, .err .keyError)
  | .setdefault k d =>
    let res := (dirGet c s k).getD d
    match dirStore c s k res with
    | some s' => (s', .val res)
    | none => (s, .err .other)
  | .update kvs =>
    match dirUpdate c s (normalize kvs) with
    | (s', none) => (s', .unit)
    | (s', some e) => (s', .err e)
  | .clear => ([], .unit)

/-! ## sqlite `sqltable_archive` -/

abbrev SqlSt (K V : Type) := List (K × V)      -- rows in insertion order

/-- `_select_key_items(key)[-1][-1]` -/
def sqlGet (rows : SqlSt K V) (k : K) : Option V := ((rows.filter fun r => r.1 = k).getLast?).map (·.2)

/-- `__asdict__`: `[d.update({k:v}) for (k,v) in rows]` -/
def sqlDict (rows : SqlSt K V) : List (K × V) := normalize rows

def sqlDelete (rows : SqlSt K V) (k : K) : SqlSt K V := rows.filter fun r => r.1 ≠ k

def sqlInsert (c : Codec K V) (rows : SqlSt K V) (k : K) (v : V) : Option (SqlSt K V) :=
  match c.ck k, c.cv v with
  | some k', some v' => some (rows ++ [(k', v')])
  | _, _ => none

def sqlPop (rows : SqlSt K V) (k : K) (d : Option V) : SqlSt K V × Out K V :=
  match sqlGet rows k, d with
  | some v, _ => (sqlDelete rows k, .val v)
  | none, some x => (sqlDelete rows k, .val x)
  | none, none => (rows, .err .keyError)

def sqlPopSeq (x : V) : SqlSt K V → List K → SqlSt K V × List V
  | s, [] => (s, [])
  | s, k :: ks =>
    let r := sqlPopSeq x (sqlDelete s k) ks
    (r.1, (sqlGet s k).getD x :: r.2)

def sqlPopAll : SqlSt K V → List K → SqlSt K V × Option (List V)
  | s, [] => (s, some [])
  | s, k :: ks =>
    match sqlGet s k with
    | none => (s, none)
    | some v =>
      let r := sqlPopAll (sqlDelete s k) ks
      (r.1, r.2.map (v :: ·))

def sqlUpdate (c : Codec K V) : SqlSt K V → List (K × V) → SqlSt K V × Option Exc
  | s, [] => (s, none)
  | s, (k, v) :: kvs =>
    match sqlInsert c s k v with
    | none => (s, some .other)
    | some s' => sqlUpdate c s' kvs

def sqlStep (c : Codec K V) (s : SqlSt K V) : Op K V → SqlSt K V × Out K V
  | .setitem k v =>
    match sqlInsert c s k v with
    | some s' => (s', .unit)
    | none => (s, .err .other)
  | .getitem k => (s, match sqlGet s k with | some v => .val v | none => .err .keyError)
  | .delitem k =>
    match sqlPop s k none with
    | (s', .err e) => (s', .err e)
    | (s', _) => (s', .unit)
  | .contains k => (s, .bool (sqlGet s k).isSome)
  | .len => (s, .nat (sqlDict s).length)
  | .keys => (s, .keys (AMap.keys (sqlDict s)))
  | .values => (s, .vals ((sqlDict s).map (·.2)))
  | .items => (s, .items (sqlDict s))
  | .get k d => (s, .val ((sqlGet s k).getD d))
  | .pop k d => sqlPop s k d
  | .popitem ch =>
    match AMap.keys (sqlDict s), ch with
    | [], _ => (s, .err .keyError)
    | _ :: _, none => (s, .refused)
    | ks, some k =>
      if k ∈ ks then
        match sqlPop s k none with
        | (s', .val v) => (s', .pair k v)
        | (s', o) => (s', o)
      else (s, .refused)
  | .popkeys ks (some x) => let r := sqlPopSeq x s ks; (r.1, .vlist r.2)
  | .popkeys ks none =>
    if allPresentOnce (sqlDict s) ks then
      match sqlPopAll s ks with
      | (s', some l) => (s', .vlist l)
      | (s', none) => (s', .err .keyError)
    else (s, .err .keyError)
  | .setdefault k d =>
    match sqlGet s k with
    | some v => (s, .val v)
    | none =>
      match sqlInsert c s k d with
      | some s' => (s', .val d)
      | none => (s, .err .other)
  | .update kvs =>
    match sqlUpdate c s (normalize kvs) with
    | (s', none) => (s', .unit)
    | (s', some e) => (s', .err e)
  | .clear => ([], .unit)

/-! ## a store of named archives: handles, `copy(name)`, `==` -/

inductive BSt (K V : Type)
  | dict (m : List (K × V))
  | null
  | file (m : List (K × V))
  | dir (s : DirSt K V)
  | sql (rows : SqlSt K V)
  deriving Repr

/-- `__asdict__()` of each class -/
def BSt.asDict (c : Codec K V) : BSt K V → Option (List (K × V))
  | .dict m => some m
  | .null => some []
  | .file m => some m
  | .dir s => dirItems c s
  | .sql rows => some (sqlDict rows)

def BSt.step (c : Codec K V) : BSt K V → Op K V → BSt K V × Out K V
  | .dict m, op => let r := dictStep m op; (.dict r.1, r.2)
  | .null, op => (.null, nullStep c.noneV op)
  | .file m, op => let r := fileStep c m op; (.file r.1, r.2)
  | .dir s, op => let r := dirStep c s op; (.dir r.1, r.2)
  | .sql s, op => let r := sqlStep c s op; (.sql r.1, r.2)

/-- dict equality: same keys, same values (both sides have `Nodup` keys) -/
def dictEq [DecidableEq V] (a b : List (K × V)) : Bool :=
  (a.all fun p => get? b p.1 == some p.2) && (b.all fun p => get? a p.1 == some p.2)

/-- the archive `copy(newname)` creates (as a state stored under the new name); `none` when
`__asdict__` raises on the way -/
def BSt.copy (c : Codec K V) : BSt K V → Option (BSt K V)
  | .dict m => some (.dict (update [] m))            -- `adict.update(self.__asdict__())`
  | .null => some .null
  | .file m => some (.file m)                        -- `shutil.copy2`
  | .dir s => some (.dir s)                          -- `shutil.copytree`
  | .sql rows => some (.sql (sqlUpdate c [] (sqlDict rows)).1)   -- new table, `update(asdict)`

/-- a handle: the archive, optionally behind an in-memory cache (`cached=True`) -/
structure Handle (K V : Type) where
  mem : Option (List (K × V))
  st : BSt K V
  deriving Repr

abbrev Sys (K V : Type) := List (String × Handle K V)

inductive SOp (K V : Type)
  | op (h : String) (o : Op K V)
  | copy (h to : String)
  | eq (h o : String)
  | dump (h : String)              -- cache.dump():  archive.update(cache)
  | load (h : String)              -- cache.load():  cache.update(archive.__asdict__())
  | dumpKeys (h : String) (ks : List K)   -- cache.dump(*ks): archive.update({k: cache[k]}) for resident k
  | sync (h : String)              -- cache.sync(clear=True): archive.clear(); cache.dump()
  deriving Repr

def BSt.ordered : BSt K V → Bool
  | .dir _ | .sql _ => false
  | _ => true

def Handle.step (c : Codec K V) (h : Handle K V) (o : Op K V) : Handle K V × Out K V :=
  match h.mem with
  | some m =>
    let r := if h.st.ordered then dictStep m o else dictStepC m o
    ({ h with mem := some r.1 }, r.2)
  | none => let r := h.st.step c o; ({ h with st := r.1 }, r.2)

def Sys.step [DecidableEq V] (c : Codec K V) (s : Sys K V) : SOp K V → Sys K V × Out K V
  | .op n o =>
    match get? s n with
    | none => (s, .refused)
    | some h => let r := h.step c o; (put s n r.1, r.2)
  | .copy n to =>
    match get? s n with
    | none => (s, .refused)
    | some h =>
      match h.st.copy c with
      | some st' => (put s to { mem := none, st := st' }, .unit)
      | none => (s, .err .other)
  | .eq n o =>
    match get? s n, get? s o with
    | some a, some b =>
      match a.st.asDict c, b.st.asDict c with
      | some x, some y => (s, .bool (dictEq x y))
      | _, _ => (s, .bool false)
    | _, _ => (s, .refused)
  | .dump n =>
    match get? s n with
    | some { mem := some m, st } =>
      let r := st.step c (.update m)
      (put s n { mem := some m, st := r.1 }, r.2)
    | _ => (s, .refused)
  | .load n =>
    match get? s n with
    | some { mem := some m, st } =>
      match st.asDict c with
      | some a => (put s n { mem := some (update m a), st := st }, .unit)
      | none => (s, .err .keyError)
    | _ => (s, .refused)
  | .dumpKeys n ks =>
    match get? s n with
    | some { mem := some m, st } =>
      let r := ks.foldl (fun (acc : BSt K V × Out K V) k =>
        match acc.2, get? m k with
        | .unit, some v => acc.1.step c (.update [(k, v)])
        | _, _ => acc) (st, .unit)
      (put s n { mem := some m, st := r.1 }, r.2)
    | _ => (s, .refused)
  | .sync n =>
    match get? s n with
    | some { mem := some m, st } =>
      let r := (st.step c .clear).1.step c (.update m)
      (put s n { mem := some m, st := r.1 }, r.2)
    | _ => (s, .refused)

end Klepto.Backend
