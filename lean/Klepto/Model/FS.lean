import Klepto.Model.Backend
/-!
# M8 — what is on disk, the system calls that change it, and what a fresh process reads back

The write protocols of `klepto/_archives.py` as *programs* of mutating system calls over an abstract
disk state, exactly in the order the code issues them (observed with `strace`, and re-checked against
the running code by suite `fs` on every run):

* `file_archive.__save__` (750-778): `open(tmp, O_CREAT|O_TRUNC)  write  close  [unlink(target)]  rename(tmp, target)`
  — the `unlink` is the code before fix F18 (`os.remove` then `os.renames`); after it: `os.replace`.
* `dir_archive._store` (602-654): `mkdir(K_tmp)  open/write/close output  [open/write/close input]`
  `rmtree(K_key) = unlink each file, rmdir`  `rename(K_tmp, K_key)`;
  `_rmdir`/`__delitem__`/`pop`: `rmtree(K_key)`;  `clear`: `rmtree` of every entry.
  After fix F19 an existing entry is first renamed aside to a hidden staging name (one atomic step)
  and removed from there, and `_lsdir` no longer lists staging directories.
* sqlite: one committed statement per row insert / per key delete (`commit per statement`).

A crash is a prefix of the program, possibly followed by a *torn* version of the next `write`.
`recover` is what `__asdict__()` of a fresh handle in a fresh process computes — `none` when it raises.
Import-free and executable.
-/
namespace Klepto.Crash
open Klepto AMap

/-- a regular file being written: created (empty), partly written, completely written -/
inductive FileSt (C : Type)
  | empty
  | torn
  | full (c : C)
  deriving Repr, DecidableEq

/-! ## `file_archive`: one file holding the whole dict -/

structure FileFS (C : Type) where
  target : Option (FileSt C)              -- the archive file (`none`: does not exist)
  temps : List (Nat × FileSt C)           -- `.I_<md5>` siblings (the current one, and junk of earlier crashes)
  deriving Repr, DecidableEq

inductive FSys (C : Type)
  | creat (t : Nat)
  | write (t : Nat) (c : C)
  | tornWrite (t : Nat)
  | close (t : Nat)
  | unlinkTarget
  | rename (t : Nat)                       -- rename(tmp, target): replaces the target atomically
  deriving Repr

def fstep {C : Type} (fs : FileFS C) : FSys C → FileFS C
  | .creat t => { fs with temps := put fs.temps t .empty }
  | .write t c => if has fs.temps t then { fs with temps := put fs.temps t (.full c) } else fs
  | .tornWrite t => if has fs.temps t then { fs with temps := put fs.temps t .torn } else fs
  | .close _ => fs
  | .unlinkTarget => { fs with target := none }
  | .rename t =>
    match get? fs.temps t with
    | some f => { target := some f, temps := erase fs.temps t }
    | none => fs

/-- `file_archive.__save__(memo)`; `fixed = false` is the code before F18 -/
def saveProg {C : Type} (fixed : Bool) (t : Nat) (memo : C) : List (FSys C) :=
  [.creat t, .write t memo] ++ (if fixed then [] else [.unlinkTarget]) ++ [.rename t]

/-- a fresh handle: the constructor creates `{}` when the file is missing; `__asdict__` answers `{}`
for anything it cannot load -/
def fileRecover {C : Type} (emptyDict : C) (fs : FileFS C) : C :=
  match fs.target with
  | some (.full c) => c
  | _ => emptyDict

/-- every disk state a kill can leave: after each prefix, plus a torn variant of the next write -/
def fileCrashStates {C : Type} : FileFS C → List (FSys C) → List (FileFS C)
  | fs, [] => [fs]
  | fs, x :: xs =>
    fs :: (match x with | .write t _ => [fstep fs (.tornWrite t)] | _ => []) ++ fileCrashStates (fstep fs x) xs

/-! ## `dir_archive`: one directory per key -/

/-- the directory of one entry: which files exist and how complete they are -/
structure DDir (V : Type) where
  out : Option (FileSt V)          -- `output.pkl`
  inp : Option (FileSt Unit)       -- `input.pkl` (its content, the key, is fixed by the directory name here)
  deriving Repr, DecidableEq

/-- directory names under the archive root: `K_<fname(key)>`, or a staging name `K_.I_<md5>` -/
inductive DName
  | key (n : String)
  | temp (i : Nat)
  deriving Repr, DecidableEq

abbrev DirFS (V : Type) := List (DName × DDir V)

inductive DSys (V : Type)
  | mkdir (n : DName)
  | creatOut (n : DName)
  | writeOut (n : DName) (v : V)
  | tornOut (n : DName)
  | creatIn (n : DName)
  | writeIn (n : DName)
  | tornIn (n : DName)
  | close
  | unlinkOut (n : DName)
  | unlinkIn (n : DName)
  | rmdir (n : DName)
  | rename (a b : DName)
  deriving Repr

variable {V : Type}

/-- change the entry `n` if it exists -/
def upd (s : DirFS V) (n : DName) (f : DDir V → DDir V) : DirFS V :=
  match get? s n with
  | some d => put s n (f d)
  | none => s

/-- failing calls (`EEXIST`, `ENOENT`, `ENOTEMPTY`) leave the disk as it is -/
def dstep (s : DirFS V) : DSys V → DirFS V
  | .mkdir n => if has s n then s else put s n { out := none, inp := none }
  | .creatOut n => upd s n fun d => { d with out := some .empty }
  | .writeOut n v => upd s n fun d => if d.out.isSome then { d with out := some (.full v) } else d
  | .tornOut n => upd s n fun d => if d.out.isSome then { d with out := some .torn } else d
  | .creatIn n => upd s n fun d => { d with inp := some .empty }
  | .writeIn n => upd s n fun d => if d.inp.isSome then { d with inp := some (.full ()) } else d
  | .tornIn n => upd s n fun d => if d.inp.isSome then { d with inp := some .torn } else d
  | .close => s
  | .unlinkOut n => upd s n fun d => { d with out := none }
  | .unlinkIn n => upd s n fun d => { d with inp := none }
  | .rmdir n =>
    match get? s n with
    | some d => if d.out.isNone && d.inp.isNone then erase s n else s
    | none => s
  | .rename a b =>
    match get? s a, get? s b with
    | some d, none => put (erase s a) b d
    | _, _ => s

def drun (s : DirFS V) (p : List (DSys V)) : DirFS V := p.foldl dstep s

/-- `rmtree(K_n)`: unlink the files that are there (in directory-listing order: `inpFirst`), then
the directory -/
def rmProg (inpFirst : Bool) (s : DirFS V) (n : DName) : List (DSys V) :=
  match get? s n with
  | none => []
  | some d =>
    let uo : List (DSys V) := if d.out.isSome then [.unlinkOut n] else []
    let ui : List (DSys V) := if d.inp.isSome then [.unlinkIn n] else []
    (if inpFirst then ui ++ uo else uo ++ ui) ++ [.rmdir n]

/-- removing the entry `n` (`_rmdir`).  `fixed` (the code after F19): rename it aside to the staging
name `trash` first — attempted even when the entry does not exist — and delete it from there -/
def removeProg (fixed inpFirst : Bool) (s : DirFS V) (n trash : DName) : List (DSys V) :=
  if fixed then .rename n trash :: rmProg inpFirst (dstep s (.rename n trash)) trash
  else rmProg inpFirst s n

/-- the staging part of `_store`: populate `K_tmp` -/
def stageProg (needInp : Bool) (tmp : DName) (v : V) : List (DSys V) :=
  [.mkdir tmp, .creatOut tmp, .writeOut tmp v] ++ (if needInp then [.creatIn tmp, .writeIn tmp] else [])

/-- `_store(key, value)` into the directory `n`, staged under `tmp` -/
def storeProg (fixed inpFirst needInp : Bool) (s : DirFS V) (n tmp trash : DName) (v : V) : List (DSys V) :=
  stageProg needInp tmp v ++ removeProg fixed inpFirst (drun s (stageProg needInp tmp v)) n trash ++ [.rename tmp n]

/-- a mapping operation as a sequence of entry stores and removals (`update`, `clear`, `popkeys`, `dump`);
entries are named by the file name of their key -/
inductive DAct (V : Type)
  | store (n : String) (needInp : Bool) (v : V)
  | remove (n : String)
  deriving Repr

/-- the program of one action; staging names `temp next`, `temp (next+1)` -/
def actProg (fixed inpFirst : Bool) (s : DirFS V) (next : Nat) : DAct V → List (DSys V)
  | .store n ni v => storeProg fixed inpFirst ni s (.key n) (.temp next) (.temp (next + 1)) v
  | .remove n => removeProg fixed inpFirst s (.key n) (.temp next)

/-- the program of a sequence of actions; staging names are taken in order of first use from `next` -/
def actsProg (fixed inpFirst : Bool) : DirFS V → Nat → List (DAct V) → List (DSys V)
  | _, _, [] => []
  | s, next, a :: as =>
    actProg fixed inpFirst s next a ++ actsProg fixed inpFirst (drun s (actProg fixed inpFirst s next a)) (next + 2) as

/-- what `_lsdir` lists: every `K_*` directory; with fix F19 not the staging ones -/
def visible (hide : Bool) : DName → Bool
  | .key _ => true
  | .temp _ => !hide

/-- an entry a reader can load: complete output, and a complete input file if there is one -/
def DDir.value (d : DDir V) : Option V :=
  match d.out, d.inp with
  | some (.full v), none => some v
  | some (.full v), some (.full ()) => some v
  | _, _ => none

/-- **pointwise view of the disk**: the value a fresh reader finds under name `n` -/
def valAt (hide : Bool) (s : DirFS V) (n : DName) : Option V :=
  if visible hide n then (get? s n).bind DDir.value else none

/-- `__asdict__()` does not raise: every listed directory loads -/
def Readable (hide : Bool) (s : DirFS V) : Prop :=
  ∀ n d, get? s n = some d → visible hide n = true → d.value.isSome = true

/-- executable `__asdict__()` of a fresh handle: `none` = it raises (`KeyError`) -/
def dirRecover (hide : Bool) (s : DirFS V) : Option (List (DName × V)) :=
  (s.filter fun p => visible hide p.1).mapM fun p => p.2.value.map fun v => (p.1, v)

/-- crash states of a program: after each prefix, plus a torn variant of the next write -/
def dirCrashStates : DirFS V → List (DSys V) → List (DirFS V)
  | s, [] => [s]
  | s, x :: xs =>
    s :: (match x with
          | .writeOut n _ => [dstep s (.tornOut n)]
          | .writeIn n => [dstep s (.tornIn n)]
          | _ => []) ++ dirCrashStates (dstep s x) xs

/-- `P` holds in every state a kill during `prog` can leave (same enumeration, as a proposition) -/
def AllCrash (P : DirFS V → Prop) : DirFS V → List (DSys V) → Prop
  | s, [] => P s
  | s, x :: xs =>
    P s ∧ (match x with
           | .writeOut n _ => P (dstep s (.tornOut n))
           | .writeIn n => P (dstep s (.tornIn n))
           | _ => True) ∧ AllCrash P (dstep s x) xs

/-! ## sqlite: committed statements -/

inductive SqlStmt (K V : Type)
  | insert (k : K) (v : V)
  | delete (k : K)
  deriving Repr

def sqlExec {K V : Type} [DecidableEq K] (rows : List (K × V)) : SqlStmt K V → List (K × V)
  | .insert k v => rows ++ [(k, v)]
  | .delete k => rows.filter fun r => r.1 ≠ k

/-- a kill leaves the database after some prefix of the committed statements -/
def sqlCrashStates {K V : Type} [DecidableEq K] : List (K × V) → List (SqlStmt K V) → List (List (K × V))
  | rows, [] => [rows]
  | rows, x :: xs => rows :: sqlCrashStates (sqlExec rows x) xs

end Klepto.Crash
