import Klepto.Model.AMap
/-!
# M4 — signatures, argument binding, `_keygen`, keymaps

Everything is generic in the type `Val` of Python objects *up to the equality the key will be
compared with* (`==`/`hash` for raw keys, `repr` for encoded keys): parameter names, argument
values, type objects, `NULL` and the sentinel are all `Val`s, exactly as in the code, where a key is
a tuple of arbitrary objects.  (The harness interns the objects of a generated call accordingly.)

* `Func`     — what `inspect.getfullargspec` (+ `functools.partial` attributes) says about a callable
* `bind`     — **specification**: CPython's argument binding, written from the language reference
* `kSignature`, `keygen` — **code**: `klepto._inspect.signature(markup=False, variadic=False, safe=True)`
               and `_keygen`, line by line
* `encodeFlat`, `encrypt` — **code**: `klepto.keymaps.keymap.encode/encrypt` (before the encoder)
-/
namespace Klepto.Keys
open Klepto.AMap

structure Param (Val : Type) where
  name : Val
  dflt : Option Val
  deriving Repr, DecidableEq

structure Func (Val : Type) where
  pos : List (Param Val)        -- `args` of getfullargspec (incl. `self` for methods), defaults are a suffix
  varargs : Bool
  kwonly : List (Param Val)
  varkw : Bool
  pArgs : List Val := []        -- functools.partial: fixed positionals
  pKwds : List (Val × Val) := []   -- functools.partial: fixed keywords
  bound : Bool := false         -- the (inner) callable is a bound method: `self` is supplied
  /-- the first `nposonly` entries of `pos` are positional-only (`def f(a, b, /, c)`): `getfullargspec`
  lists them among `args` without saying so, which is all `klepto` looks at -/
  nposonly : Nat := 0
  deriving Repr

structure PCall (Val : Type) where
  args : List Val
  kwds : List (Val × Val)       -- in call order
  /-- `_keygen`'s heuristic fired: `func` is a plain function and `args[0]` is an instance whose
  attribute `func.__name__` is a method bound to it -/
  selfLike : Bool := false
  deriving Repr

/-- ignore specification entries: positional index or name (`'*'`, `'**'` are names) -/
inductive Ign (Val : Type)
  | idx (i : Nat)
  | name (n : Val)
  | neg (i : Nat)               -- the negative integer `-(i+1)`: an `int`, so not a name; `enumerate` never yields it, so not a position
  deriving Repr, DecidableEq

structure Consts (Val : Type) where
  null : Val
  star : Val
  dstar : Val

variable {Val : Type} [DecidableEq Val]

def names (l : List (Param Val)) : List Val := l.map (·.name)

def defaultsOf (l : List (Param Val)) : List (Val × Val) :=
  l.filterMap (fun p => p.dflt.map (fun d => (p.name, d)))

/-! ## specification: CPython binding -/

structure Binding (Val : Type) where
  named : List (Val × Val)      -- every positional-or-keyword and keyword-only parameter
  extraPos : List Val           -- goes to *args
  extraKw : List (Val × Val)    -- goes to **kwargs
  deriving Repr, DecidableEq

/-- bind positional-or-keyword parameters against the remaining positional arguments -/
def bindPos (kwds : List (Val × Val)) : List (Param Val) → List Val → Option (List (Val × Val))
  | [], _ => some []
  | p :: ps, a :: as =>
    match get? kwds p.name with
    | some _ => none                                  -- multiple values for argument
    | none => (bindPos kwds ps as).map ((p.name, a) :: ·)
  | p :: ps, [] =>
    match get? kwds p.name with
    | some v => (bindPos kwds ps []).map ((p.name, v) :: ·)
    | none => match p.dflt with
      | some dv => (bindPos kwds ps []).map ((p.name, dv) :: ·)
      | none => none                                  -- missing required argument

def bindKwOnly (kwds : List (Val × Val)) : List (Param Val) → Option (List (Val × Val))
  | [] => some []
  | p :: ps =>
    match get? kwds p.name with
    | some v => (bindKwOnly kwds ps).map ((p.name, v) :: ·)
    | none => match p.dflt with
      | some dv => (bindKwOnly kwds ps).map ((p.name, dv) :: ·)
      | none => none

/-- a keyword that names no parameter -/
def isExtra (f : Func Val) (m : Val) : Bool :=
  !(names f.pos).contains m && !(names f.kwonly).contains m

/-- binding of a plain call `f(*args, **kwds)` (no partial, not bound) -/
def bindPlain (f : Func Val) (args : List Val) (kwds : List (Val × Val)) : Option (Binding Val) :=
  if args.length > f.pos.length ∧ ¬ f.varargs then none else
  let extraKw := kwds.filter (fun p => isExtra f p.1)
  if extraKw ≠ [] ∧ ¬ f.varkw then none else
  match bindPos kwds f.pos args, bindKwOnly kwds f.kwonly with
  | some a, some b => some { named := a ++ b, extraPos := args.drop f.pos.length, extraKw := extraKw }
  | _, _ => none

/-- **SPEC**: `partial(f, *pa, **pk)(*a, **k) = f(*pa, *a, **{**pk, **k})`; a bound method
receives its instance as the first positional argument (its value is irrelevant for binding) -/
def bind (self : Val) (f : Func Val) (c : PCall Val) : Option (Binding Val) :=
  let args := (if f.bound then [self] else []) ++ f.pArgs ++ c.args
  let kwds := update f.pKwds c.kwds
  bindPlain f args kwds

/-! ### positional-only parameters (PEP 570)

A positional-only parameter takes a positional argument or its default; a keyword of the same name
never reaches it (it is an ordinary extra keyword: `**kwargs` or a TypeError). -/

def bindPosOnly : List (Param Val) → List Val → Option (List (Val × Val) × List Val)
  | [], as => some ([], as)
  | p :: ps, a :: as => (bindPosOnly ps as).map (fun r => ((p.name, a) :: r.1, r.2))
  | p :: ps, [] => match p.dflt with
    | some dv => (bindPosOnly ps []).map (fun r => ((p.name, dv) :: r.1, r.2))
    | none => none

def bindPlainPO (f : Func Val) (args : List Val) (kwds : List (Val × Val)) : Option (Binding Val) :=
  match bindPosOnly (f.pos.take f.nposonly) args with
  | none => none
  | some (named0, rest) =>
    (bindPlain { f with pos := f.pos.drop f.nposonly, nposonly := 0 } rest kwds).map
      (fun b => { b with named := named0 ++ b.named })

/-- **SPEC**, general form: `bind` for signatures that may have positional-only parameters -/
def bindPO (self : Val) (f : Func Val) (c : PCall Val) : Option (Binding Val) :=
  let args := (if f.bound then [self] else []) ++ f.pArgs ++ c.args
  let kwds := update f.pKwds c.kwds
  bindPlainPO f args kwds

/-! ## code: `signature(func, markup=False, variadic=False, safe=True)` -/

/-- `none` = the `safe` failure `(None, None)` (a partial that always fails) -/
def kSignature (f : Func Val) : Option (List Val × List (Val × Val)) :=
  let argNames := names f.pos
  let fixed := (if f.bound then argNames.drop 1 else argNames).zip f.pArgs   -- (a bound method's instance is not among the parameters the partial fills)                       -- dict(zip(arg_names[:len(p_args)], p_args))
  if fixed.any (fun p => has f.pKwds p.1) then none else
  let defaults := update (update (defaultsOf f.pos) (defaultsOf f.kwonly)) f.pKwds
  let explicit := argNames.filter (fun n => !(has fixed n))
  let explicit := if f.bound then explicit.drop 1 else explicit
  some (explicit, defaults)

/-! ## code: `_keygen(func, ignored, *args, **kwds)` -/

def ignIdx (ign : List (Ign Val)) : List Nat := ign.filterMap fun | .idx i => some i | .name _ => none | .neg _ => none
def ignNames (ign : List (Ign Val)) : List Val := ign.filterMap fun | .idx _ => none | .name n => some n | .neg _ => none

/-- `enumerate` -/
def enum {α : Type} (l : List α) : List (Nat × α) := (List.range l.length).zip l

/-- `[user_kwds.pop(k) for k in kwds if k not in explicitly_named]` -/
def popExtra (m : List (Val × Val)) (kwds : List (Val × Val)) (explicit : List Val) : List (Val × Val) :=
  kwds.foldl (fun acc p => if explicit.contains p.1 then acc else erase acc p.1) m

/-- what `_keygen` derives from the signature and the ignore specification before it looks at the
argument *values* (it depends on the call only through `selfLike`) -/
structure IgnPlan (Val : Type) where
  explicit : List Val           -- explicitly named parameters (after a possible `self` removal)
  selfRemoved : Bool
  selfName : Option Val
  idx : List Nat                -- positional indices to NULL (cross-populated)
  nms : List Val                -- names to NULL (cross-populated)
  star : Bool
  dstar : Bool
  keep : List Val := []         -- keyword-only parameter names: parameters, not extra keywords (`'**'` leaves them alone)

def ignPlan (k : Consts Val) (explicit0 : List Val) (ign : List (Ign Val)) (selfLike : Bool) (kwonly : List Val := []) : IgnPlan Val :=
  let idx0 := ignIdx ign
  let nms0 := ignNames ign
  -- "if ignore self, remove self instead of NULL it"
  let selfRemoved := selfLike && (match explicit0.head? with
    | some n => nms0.contains n
    | none => false)
  let explicit := if selfRemoved then explicit0.drop 1 else explicit0
  let nms1 := nms0.filter (fun n => n ≠ k.star ∧ n ≠ k.dstar)
  -- cross-populate names and indices for the explicitly named parameters
  let en := enum explicit
  let idxX := (en.filter (fun p => nms1.contains p.2)).map (·.1)
  let nmsX := (en.filter (fun p => idx0.contains p.1)).map (·.2)
  { explicit := explicit, selfRemoved := selfRemoved, selfName := explicit0.head?,
    idx := idx0 ++ idxX, nms := nms1 ++ nmsX, star := nms0.contains k.star, dstar := nms0.contains k.dstar, keep := kwonly }

/-- NULL out the ignored positionals (index `i` onwards); `'*'` clips the extra positionals -/
def maskFrom (k : Consts Val) (p : IgnPlan Val) : Nat → List Val → List Val
  | _, [] => []
  | i, a :: as =>
    if p.star && decide (p.explicit.length ≤ i) then []
    else (if p.idx.contains i then k.null else a) :: maskFrom k p (i + 1) as

def maskArgs (k : Consts Val) (p : IgnPlan Val) (args : List Val) : List Val := maskFrom k p 0 args

def keygenWith (k : Consts Val) (p : IgnPlan Val) (defaults : List (Val × Val)) (c : PCall Val) :
    List Val × List (Val × Val) :=
  let userKwds0 := update defaults c.kwds
  let userArgs0 := if p.selfRemoved then c.args.drop 1 else c.args
  let userKwds1 := if p.selfRemoved then (match p.selfName with
    | some n => erase userKwds0 n
    | none => userKwds0) else userKwds0
  let userArgs2 := maskArgs k p userArgs0
  -- NULL out the ignored kwds (only names already present, or explicitly named)
  let keys0 := keys userKwds1 ++ p.explicit
  let userKwds2 := (p.nms.filter (fun n => keys0.contains n)).foldl (fun acc n => put acc n k.null) userKwds1
  let userKwds3 := if p.dstar then popExtra userKwds2 c.kwds (p.explicit ++ p.keep) else userKwds2
  -- transfer all from user_args to user_kwds, except for any varargs
  let userKwds4 := update userKwds3 (p.explicit.zip userArgs2)
  (userArgs2.drop p.explicit.length, userKwds4)

def keygen (k : Consts Val) (f : Func Val) (ign : List (Ign Val)) (c : PCall Val) :
    List Val × List (Val × Val) :=
  match kSignature f with
  | none => (c.args, c.kwds)                   -- `safe` and signature failed: unmolested
  | some (explicit0, defaults) => keygenWith k (ignPlan k explicit0 ign c.selfLike (names f.kwonly)) defaults c

/-! ## code: `keymap.encode` / `keymap.encrypt` (the structured key handed to the encoder) -/

structure KM (Val : Type) where
  typed : Bool
  flat : Bool
  mark : Option Val              -- sentinel (`none` = NOSENTINEL)

inductive FlatKey (Val : Type)
  | tup (l : List Val)
  | scalar (v : Val)             -- the 1-tuple fast-type unwrapping
  deriving Repr, DecidableEq

/-- `sorted(list(kwds.items()))`: names are distinct, so the order is the order of the names -/
def sortedItems (le : Val → Val → Bool) (kwds : List (Val × Val)) : List (Val × Val) :=
  isort (fun a b => le a.1 b.1) kwds

def flatten (items : List (Val × Val)) : List Val := items.flatMap (fun p => [p.1, p.2])

def markL (km : KM Val) : List Val := match km.mark with | some m => [m] | none => []

def encodeFlat (km : KM Val) (le : Val → Val → Bool) (tyOf : Val → Val) (fast : Val → Bool)
    (args : List Val) (kwds : List (Val × Val)) : FlatKey Val :=
  let items := sortedItems le kwds
  let key := if kwds.isEmpty then args else args ++ markL km ++ flatten items
  if km.typed then
    let key := key ++ markL km ++ args.map tyOf
    .tup (if kwds.isEmpty then key else key ++ markL km ++ items.map (fun p => tyOf p.2))
  else match key with
    | [x] => if fast (tyOf x) then .scalar x else .tup key
    | _ => .tup key

structure NonFlatKey (Val : Type) where
  args : List Val
  kwds : List (Val × Val)                      -- a dict: insertion order is visible to `str`/`repr`
  types : Option (List Val × List Val)
  deriving Repr, DecidableEq

def encrypt (km : KM Val) (le : Val → Val → Bool) (tyOf : Val → Val)
    (args : List Val) (kwds : List (Val × Val)) : NonFlatKey Val :=
  { args := args, kwds := kwds,
    types := if km.typed then some (args.map tyOf, (sortedItems le kwds).map (fun p => tyOf p.2)) else none }

/-! ## chained keymaps: `inner + outer` (`keymaps.py:222-229`, `__chain__` in `encode`/`encrypt`)

`k = inner + outer` is a copy of `outer` that remembers `inner`: `k(*args, **kwds)` builds the
structured key with the OUTER keymap's settings, hands it — as one positional argument — to the inner
keymap (structured again with the INNER keymap's settings, then the inner encoder), and finally
applies the outer encoder.  `x` below is that one argument (the outer structured key as an object),
`xty` its type and `fastx` whether that type is one of the inner keymap's fast types. -/
def chainInner (km : KM Val) (le : Val → Val → Bool) (xty : Val) (fastx : Bool) (x : Val) :
    FlatKey Val ⊕ NonFlatKey Val :=
  if km.flat then .inl (encodeFlat km le (fun _ => xty) (fun _ => fastx) [x] [])
  else .inr (encrypt km le (fun _ => xty) [x] [])

end Klepto.Keys
