/-!
# M1 — `AMap`: Python `dict` as an insertion-ordered association list

`List (K × V)`; the invariant `keys.Nodup` is a separate theorem (`Lemmas/AMap.lean`),
not a subtype.  Import-free and executable.
-/
namespace Klepto
namespace AMap
variable {K : Type} {V : Type} [DecidableEq K]

/-- `d.get(k)` -/
def get? : List (K × V) → K → Option V
  | [], _ => none
  | (k', v) :: m, k => if k' = k then some v else get? m k

/-- `k in d` -/
def has (m : List (K × V)) (k : K) : Bool := (get? m k).isSome

/-- `list(d)` -/
def keys (m : List (K × V)) : List K := m.map (·.1)

/-- `d[k] = v`: replace in place, else append (insertion order kept) -/
def put : List (K × V) → K → V → List (K × V)
  | [], k, v => [(k, v)]
  | (k', v') :: m, k, v => if k' = k then (k', v) :: m else (k', v') :: put m k v

/-- `del d[k]` / `d.pop(k, None)` (first = only occurrence under `Nodup` keys) -/
def erase : List (K × V) → K → List (K × V)
  | [], _ => []
  | (k', v') :: m, k => if k' = k then m else (k', v') :: erase m k

/-- `d.update(other)` -/
def update (m : List (K × V)) (o : List (K × V)) : List (K × V) :=
  o.foldl (fun acc p => put acc p.1 p.2) m

/-- restriction of `m` to the keys listed in `ks` (in the order of `ks`, duplicates kept) -/
def restrict (m : List (K × V)) (ks : List K) : List (K × V) :=
  ks.filterMap (fun k => (get? m k).map (fun v => (k, v)))

end AMap

/-- insertion sort (structural, so that concrete instances reduce in the kernel) -/
def insertBy {α : Type} (le : α → α → Bool) (x : α) : List α → List α
  | [] => [x]
  | y :: ys => if le x y then x :: y :: ys else y :: insertBy le x ys

def isort {α : Type} (le : α → α → Bool) : List α → List α
  | [] => []
  | x :: xs => insertBy le x (isort le xs)

end Klepto
