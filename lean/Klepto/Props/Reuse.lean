import Klepto.Lemmas.WF
/-!
# F47 in the model: what one decorator object applied to two functions breaks

The theorems of C01 and C05 have two hypotheses that a single cache per decorated function makes
true: every resident entry holds the value of THE function for its key (`Consistent F`, C01), and the
wrapper's bookkeeping covers what is resident (`WF`, C05).  `memo = lru_cache(maxsize=…); f = memo(f0);
g = memo(g0)` gives `g`'s wrapper a state whose memory is the memory `f` filled while its queue,
reference counts and use counts are its own, empty ones.  The witnesses below are that state: they are
the reason the finding is listed and not a counterexample to any theorem - the hypotheses fail first.
-/
namespace Klepto.C01
open Klepto AMap

def lru3 : Cfg := { algo := .lru, safe := false, maxsize := 3, purge := false }
/-- `f(1)` (the function `f0` returns 10) has been called; this is the memory `g`'s wrapper sees -/
def afterF : St Nat Nat := (call lru3 (St.init Cache.empty) { key := .ok 1, fn := .ok 10, victim := none }).1

/-- `g(1)` - the function `g0` would return 20 - is answered from the shared memory with `f0`'s 10, no
evaluation: the call does not return its own function's value -/
theorem C01_reused_decorator_witness :
    (call lru3 { afterF with queue := [], rc := [] } { key := .ok 1, fn := .ok 20, victim := none }).2 = .ret 10 0 := by decide

end Klepto.C01

namespace Klepto.C05
open Klepto AMap

def mru2 : Cfg := { algo := .mru, safe := false, maxsize := 2, purge := false }
/-- the memory holds two entries of the other function; this wrapper's own queue is empty -/
def sharedFull : St Nat Nat := { (St.init { mem := [(1, 10), (2, 20)], arch := none, swap := none }) with queue := [] }

/-- `lru` evicts by its own queue, which knows only its own key: the entry just computed is the victim
and the other function's entries stay - this function is never served from memory -/
theorem C05_reused_decorator_evicts_own_entry :
    (call { mru2 with algo := .lru } sharedFull { key := .ok 3, fn := .ok 30, victim := none }).1.c.mem = [(1, 10), (2, 20)] := by decide

/-- `mru` pops its empty queue: the overflowing call raises `IndexError` -/
theorem C05_reused_decorator_indexerror :
    (call mru2 sharedFull { key := .ok 3, fn := .ok 30, victim := none }).2 = .raised .indexError 1 := by decide

end Klepto.C05
