import Klepto.Lemmas.WF
/-!
# C05 — Capacity: a bounded cache never grows past its bound

Theorems about model M3 (`Klepto/Model/Wrapper.lean`).  `WF` is the bookkeeping invariant proved
inductive in `Lemmas/WF.lean`.  The only outcome excluded from the per-call bound is `mru`'s
`IndexError` (finding F2: overflow with an empty recency queue); the only configuration excluded
from the history-level bound is `mru` with `purge` (finding F27: stale queue entry after a purge).
Both are pinned by the counter-examples at the end of the file, which are replayed on the real code
by the harness (`corpus/`).
-/
namespace Klepto.C05
open Klepto AMap
set_option linter.unusedSectionVars false
variable {K V : Type} [DecidableEq K]

/-! ## helper lemmas (local) -/

theorem lfu_fold_le (vs : List (K × Nat)) (s : St K V) :
    (vs.foldl (fun s p => { evictOne s p.1 with uc := erase s.uc p.1 }) s).c.mem.length ≤ s.c.mem.length := by
  induction vs generalizing s with
  | nil => simp
  | cons p vs ih =>
    simp only [List.foldl_cons]
    refine Nat.le_trans (ih _) ?_
    simp [length_erase_le]

theorem lfu_fold_lt (p : K × Nat) (vs : List (K × Nat)) (s : St K V) (h : has s.c.mem p.1 = true) :
    ((p :: vs).foldl (fun s p => { evictOne s p.1 with uc := erase s.uc p.1 }) s).c.mem.length + 1
      ≤ s.c.mem.length := by
  simp only [List.foldl_cons]
  refine Nat.le_trans (Nat.succ_le_succ (lfu_fold_le vs _)) ?_
  have h2 := length_erase_lt s.c.mem p.1 h
  show (evictOne s p.1).c.mem.length + 1 ≤ s.c.mem.length
  simp only [evictOne_mem]
  omega

theorem nsmallest_subset (n : Nat) (uc : List (K × Nat)) : ∀ p ∈ nsmallest n uc, p ∈ uc := by
  intro p hp
  have := List.mem_of_mem_take hp
  exact (List.mem_mergeSort).mp this

theorem nsmallest_ne_nil (n : Nat) (uc : List (K × Nat)) (hn : 0 < n) (hu : uc ≠ []) :
    nsmallest n uc ≠ [] := by
  unfold nsmallest
  intro h
  have hl : ((uc.mergeSort fun a b => decide (a.2 ≤ b.2)).take n).length = 0 := by simp [h]
  rw [List.length_take, List.length_mergeSort] at hl
  have : 0 < uc.length := List.length_pos_iff.mpr hu
  omega

/-- The `# purge cache` block: whenever it fires and does not raise, memory shrinks by at least
one entry — for purge and for each of the four eviction policies. -/
theorem overflow_shrinks (cfg : Cfg) (s s' : St K V) (victim : Option K)
    (hW : WF cfg s)
    (hu : cfg.algo = .lfu → s.uc ≠ [])
    (hv : cfg.algo = .rr → ∃ k, victim = some k ∧ has s.c.mem k = true)
    (halg : cfg.algo ≠ .inf ∧ cfg.algo ≠ .no)
    (hover : s.c.mem.length > cfg.maxsize)
    (h : overflow cfg s victim = some s') : s'.c.mem.length + 1 ≤ s.c.mem.length := by
  unfold overflow at h
  simp only [hover, if_true] at h
  split at h
  · cases h; simp [Cache.clearMem]; omega
  · split at h
    · rename_i halgo
      cases h
      have hne := nsmallest_ne_nil (max 2 (cfg.maxsize / 10)) s.uc (by omega) (hu halgo)
      cases hvs : nsmallest (max 2 (cfg.maxsize / 10)) s.uc with
      | nil => exact absurd hvs hne
      | cons p vs =>
        have hp : p ∈ s.uc := nsmallest_subset _ _ p (by rw [hvs]; simp)
        have : has s.c.mem p.1 = true := hW.ucRes p.1 (by simp only [keys]; exact List.mem_map_of_mem hp)
        exact lfu_fold_lt p vs s this
    · split at h
      · cases h
      · rename_i k q rc hloop
        cases h
        have hk : k ∈ s.queue := (lruLoop_mem _ _ _ _ _ hloop).1
        have := length_erase_lt s.c.mem k (hW.queueRes k hk)
        simp; omega
    · split at h
      · cases h
      · rename_i k hk
        cases h
        have hk' : k ∈ s.queue := List.mem_of_getLast? hk
        have := length_erase_lt s.c.mem k (hW.queueRes k hk')
        simp; omega
    · rename_i halgo
      obtain ⟨k, hk, hres⟩ := hv halgo
      subst hk
      simp at h; cases h
      have := length_erase_lt s.c.mem k hres
      simp; omega
    · rename_i h1 h2 h3 h4
      rcases halg with ⟨hi, hn⟩
      cases hcfg : cfg.algo <;> simp_all

/-- `finish` (the tail of a LOAD or a MISS): if the entry count grew by one to reach `s2`, the
result is within `max maxsize (count before)`. -/
theorem finish_bound (cfg : Cfg) (s2 : St K V) (k : K) (v : V) (n : Nat) (victim : Option K) (before : Nat)
    (halg : cfg.algo ≠ .inf ∧ cfg.algo ≠ .no) (hW : WF cfg s2)
    (hlen : s2.c.mem.length ≤ before + 1)
    (hu : cfg.algo = .lfu → s2.uc ≠ [])
    (hv : cfg.algo = .rr → ∃ kv, victim = some kv ∧ has s2.c.mem kv = true)
    (hne : (finish cfg s2 k v n victim).2.isIndexError = false) :
    (finish cfg s2 k v n victim).1.c.mem.length ≤ max cfg.maxsize before := by
  unfold finish at hne ⊢
  simp only [halg.1, if_false] at hne ⊢
  split
  · rename_i ho; simp [ho, Out.isIndexError] at hne
  · rename_i s3 ho
    simp only [post_c]
    by_cases hover : s2.c.mem.length > cfg.maxsize
    · have := overflow_shrinks cfg s2 s3 victim hW hu hv halg hover ho
      omega
    · unfold overflow at ho
      simp only [hover, if_false] at ho
      cases ho
      omega

/-! ## the property -/

theorem victimOK_spec (cfg : Cfg) (s : St K V) (ci : CallIn K V) (h : victimOK cfg s ci = true) :
    cfg.algo = .rr → ∃ kv, ci.victim = some kv ∧ (has s.c.mem kv = true ∨ ci.key = .ok kv) := by
  intro ha
  unfold victimOK at h
  simp only [ha] at h
  cases hvi : ci.victim with
  | none => simp [hvi] at h
  | some kv =>
    refine ⟨kv, rfl, ?_⟩
    simp only [hvi, Bool.or_eq_true] at h
    rcases h with h | h
    · exact Or.inl h
    · cases hk : ci.key with
      | ok k => simp [hk] at h; exact Or.inr (by rw [h])
      | genError e => simp [hk] at h
      | unhashable e => simp [hk] at h

/-- **C05, one call.**  After every call the number of resident entries is at most
`max maxsize (number resident before)` — lfu/lru/mru/rr, std and safe, purge on or off, archived
or not, hit/load/miss/raise/key-failure; the only excluded outcome is `IndexError` (mru, F2). -/
theorem C05_step (cfg : Cfg) (s : St K V) (ci : CallIn K V)
    (halg : cfg.algo ≠ .inf ∧ cfg.algo ≠ .no) (hW : WF cfg s)
    (hvok : victimOK cfg s ci = true)
    (hne : (call cfg s ci).2.isIndexError = false) :
    (call cfg s ci).1.c.mem.length ≤ max cfg.maxsize s.c.mem.length := by
  have hv := victimOK_spec cfg s ci hvok
  unfold call at hne ⊢
  simp only [halg.2, if_false] at hne ⊢
  unfold callCached at hne ⊢
  cases hkey : ci.key with
  | genError e => simp only [keyFail]; split <;> simp [evalDirect_c] <;> omega
  | unhashable e => simp only [keyFail]; split <;> simp [evalDirect_c] <;> omega
  | ok k =>
    simp only [hkey] at hne
    simp only
    cases hm : get? s.c.mem k with
    | some v =>
      simp only [hitStep, post_c]
      split <;> simp <;> omega
    | none =>
      simp only [hm] at hne
      simp only
      have hkabs : has s.c.mem k = false := (has_eq_false_iff _ _).mpr hm
      have hg := preload_grow s.c k hW.memNodup
      cases hl : get? (s.c.preload k).mem k with
      | some v =>
        simp only [hl] at hne
        simp only
        -- LOAD: preload inserted exactly `k`
        have hpm : (s.c.preload k).mem = put s.c.mem k v := by
          have h1 := preload_mem s.c k
          have h2 := preload_get_self s.c k
          rw [hl] at h2
          cases ha : s.c.arch with
          | none => simp [ha, hm] at h2
          | some a =>
            simp only [ha] at h1 h2
            cases hak : get? a k with
            | none => simp [hak, hm] at h2
            | some w => simp only [hak] at h1 h2; cases h2; exact h1
        have h0 : WF cfg ({ s with c := s.c.preload k } : St K V) := wf_of_mem_grow _ hW hg.1 hg.2
        have hres : has (s.c.preload k).mem k = true := (has_eq_true_iff _ _).mpr ⟨v, hl⟩
        have h1 := wf_useKey (cfg := cfg) k h0 hres
        unfold loadStep at hne ⊢
        refine finish_bound cfg _ k v 0 ci.victim s.c.mem.length halg (wf_stats _ _ _ h1) ?_ ?_ ?_ hne
        · simp [hpm, length_put, hkabs]
        · intro hlfu; simp only [useKey, hlfu]; exact put_ne_nil _ _ _
        · intro hrr
          obtain ⟨kv, h1, h2⟩ := hv hrr
          refine ⟨kv, h1, ?_⟩
          simp only [useKey_c, hpm, has_put]
          rcases h2 with h2 | h2
          · simp [h2]
          · rw [hkey] at h2; cases h2; simp
      | none =>
        simp only [hl] at hne
        simp only
        cases hf : ci.fn with
        | error e => simp; omega
        | ok v =>
          simp only [hf] at hne
          simp only
          -- MISS: preload changed nothing, the new entry is appended
          have hpm : (s.c.preload k).mem = s.c.mem := by
            have h1 := preload_mem s.c k
            have h2 := preload_get_self s.c k
            rw [hl] at h2
            cases ha : s.c.arch with
            | none => simp [ha] at h1; exact h1
            | some a =>
              simp only [ha] at h1 h2
              cases hak : get? a k with
              | none => simp only [hak] at h1; exact h1
              | some w => simp [hak] at h2
          have hres : has (put (s.c.preload k).mem k v) k = true := by rw [has_put]; simp
          have h0 : WF cfg ({ s with c := { s.c.preload k with mem := put (s.c.preload k).mem k v } } : St K V) :=
            wf_of_mem_grow _ hW (nodup_keys_put _ _ _ hg.1)
              (fun j hj => by show has (put (s.c.preload k).mem k v) j = true; rw [has_put]; simp [hg.2 j hj])
          have h1 := wf_useKey (cfg := cfg) k h0 hres
          unfold missStep at hne ⊢
          refine finish_bound cfg _ k v 1 ci.victim s.c.mem.length halg (wf_stats _ _ _ h1) ?_ ?_ ?_ hne
          · simp [hpm, length_put, hkabs]
          · intro hlfu; simp only [useKey, hlfu]; exact put_ne_nil _ _ _
          · intro hrr
            obtain ⟨kv, h1, h2⟩ := hv hrr
            refine ⟨kv, h1, ?_⟩
            simp only [useKey_c, hpm, has_put]
            rcases h2 with h2 | h2
            · simp [h2]
            · rw [hkey] at h2; cases h2; simp

/-! ## histories -/

/-- what the harness guarantees about a call: `random.choice` picked a key that was resident after
the insertion (rr), and the call did not end in mru's `IndexError` (F2) -/
def okCall (cfg : Cfg) (s : St K V) (ci : CallIn K V) : Bool :=
  victimOK cfg s ci && !(call cfg s ci).2.isIndexError

/-- operations that may legitimately over-fill the cache (`load`) are excluded from the
"starts within its bound, stays within its bound" statement, exactly as in the property text -/
def okOp (cfg : Cfg) (s : St K V) : Op K V → Bool
  | .call ci => okCall cfg s ci
  | .load _ => false
  | .loadAll => false
  | _ => true

def okRun (cfg : Cfg) : St K V → List (Op K V) → Bool
  | _, [] => true
  | s, op :: ops => okOp cfg s op && okRun cfg (step cfg s op).1 ops

theorem step_mem_le (cfg : Cfg) (s : St K V) (op : Op K V) (halg : cfg.algo ≠ .inf ∧ cfg.algo ≠ .no)
    (hW : WF cfg s) (hok : okOp cfg s op = true) :
    (step cfg s op).1.c.mem.length ≤ max cfg.maxsize s.c.mem.length := by
  cases op with
  | call ci =>
    simp only [okOp, okCall, Bool.and_eq_true, Bool.not_eq_true'] at hok
    exact C05_step cfg s ci halg hW hok.1 hok.2
  | load ks => simp [okOp] at hok
  | loadAll => simp [okOp] at hok
  | lookup key =>
    simp only [step]
    split
    · split <;> simp <;> omega
    · simp; omega
    · simp; omega
  | clear keep =>
    simp only [step, halg.2, if_false]
    split <;> simp
  | dump ks => simp [step]; omega
  | dumpAll => simp [step]; omega
  | archivedOn =>
    simp only [step]
    split
    · rename_i c' hc; simp [archivedOn_mem _ _ hc]; omega
    · simp; omega
  | archivedOff =>
    simp only [step]
    split
    · rename_i c' hc; simp [archivedOff_mem _ _ hc]; omega
    · simp; omega
  | archivedQ => simp [step]; omega
  | setArchive a =>
    simp only [step]
    split <;> simp <;> omega
  | extPut k v => simp [step]; omega
  | extDel k => simp [step]; omega
  | info => simp [step]; omega

/-- **C05, histories.**  A bounded cache that starts within its bound never exceeds `maxsize`,
at any point of any history of calls interleaved with dump / clear / archive toggles / archive
replacement / external archive writes / lookups (bulk `load` may over-fill by design). -/
theorem C05_bound (cfg : Cfg) (ops : List (Op K V)) (s : St K V)
    (halg : cfg.algo ≠ .inf ∧ cfg.algo ≠ .no) (hmp : MruNoPurge cfg)
    (hW : WF cfg s) (h0 : s.c.mem.length ≤ cfg.maxsize) (hok : okRun cfg s ops = true) :
    (run cfg s ops).1.c.mem.length ≤ cfg.maxsize := by
  induction ops generalizing s with
  | nil => simpa [run] using h0
  | cons op ops ih =>
    simp only [okRun, Bool.and_eq_true] at hok
    simp only [run]
    refine ih _ (wf_step op hW hmp) ?_ hok.2
    have := step_mem_le cfg s op halg hW hok.1
    omega

/-- every prefix of an admissible history is admissible, so `C05_bound` speaks about every
intermediate state -/
theorem okRun_take (cfg : Cfg) (ops : List (Op K V)) (s : St K V) (n : Nat) (h : okRun cfg s ops = true) :
    okRun cfg s (ops.take n) = true := by
  induction ops generalizing s n with
  | nil => simp [okRun]
  | cons op ops ih =>
    cases n with
    | zero => simp [okRun]
    | succ n =>
      simp only [okRun, Bool.and_eq_true, List.take_succ_cons] at h ⊢
      exact ⟨h.1, ih _ n h.2⟩

/-- **maxsize = 0** (`no_cache`): nothing stays resident after a completed keyed call -/
theorem C05_zero (cfg : Cfg) (s : St K V) (ci : CallIn K V) (k : K) (v : V) (n : Nat)
    (ha : cfg.algo = .no) (hk : ci.key = .ok k) (hr : (call cfg s ci).2 = .ret v n) :
    (call cfg s ci).1.c.mem = [] := by
  unfold call at hr ⊢
  simp only [ha, if_true] at hr ⊢
  unfold callNo at hr ⊢
  simp only [hk] at hr ⊢
  split
  · rfl
  · rename_i hnone
    simp only [hnone] at hr
    split
    · rename_i e he; simp [he] at hr
    · rfl

/-- **maxsize = None** (`inf_cache`): a call never removes an entry -/
theorem C05_inf (cfg : Cfg) (s : St K V) (ci : CallIn K V) (j : K)
    (ha : cfg.algo = .inf) (hW : WF cfg s) (hj : has s.c.mem j = true) :
    has (call cfg s ci).1.c.mem j = true := by
  have hg := fun k => preload_grow s.c k hW.memNodup
  unfold call
  simp only [ha, reduceCtorEq, if_false]
  unfold callCached
  cases hkey : ci.key with
  | genError e => simp only [keyFail]; split <;> simp [evalDirect_c, hj]
  | unhashable e => simp only [keyFail]; split <;> simp [evalDirect_c, hj]
  | ok k =>
    simp only
    cases hm : get? s.c.mem k with
    | some v =>
      simp only [hitStep, post_c]
      split <;> simp [hj]
    | none =>
      simp only
      cases hl : get? (s.c.preload k).mem k with
      | some v =>
        simp only [loadStep, finish, ha, if_true, useKey_c]
        exact (hg k).2 j hj
      | none =>
        simp only
        cases hf : ci.fn with
        | error e => exact hj
        | ok v =>
          simp only [missStep, finish, ha, if_true, useKey_c]
          rw [has_put]; simp [(hg k).2 j hj]

/-- **purge**: on an archived cache with `purge`, an overflow empties the in-memory cache -/
theorem C05_purge (cfg : Cfg) (s s' : St K V) (victim : Option K)
    (hp : cfg.purge = true) (harch : s.c.archived = true) (hover : s.c.mem.length > cfg.maxsize)
    (h : overflow cfg s victim = some s') : s'.c.mem = [] := by
  unfold overflow at h
  simp only [hover, if_true, hp, harch, Bool.and_self] at h
  cases h; rfl

/-! ## non-vacuity and counter-witnesses (concrete histories, `decide`d by the kernel) -/

section Examples

def callOp (k v : Nat) (victim : Option Nat := none) : Op Nat Nat :=
  .call { key := .ok k, fn := .ok v, victim := victim }

def archivedCache : Cache Nat Nat := { mem := [], arch := some [], swap := none }

def lru2 : Cfg := { algo := .lru, safe := false, maxsize := 2, purge := false }
/-- fill, overflow (evicts 1 to the archive), hit, reload the victim (evicts again), dump, clear -/
def lruHist : List (Op Nat Nat) :=
  [callOp 1 10, callOp 2 20, callOp 3 30, callOp 2 20, callOp 1 10, .dumpAll, .clear true, callOp 4 40]

/-- the hypotheses of `C05_bound` are satisfiable by a history that evicts and reloads -/
example : okRun lru2 (St.init archivedCache) lruHist = true ∧
    (run lru2 (St.init archivedCache) lruHist).1.c.arch = some [(1, 10), (3, 30), (2, 20)] := by
  decide

def rr1 : Cfg := { algo := .rr, safe := true, maxsize := 1, purge := false }
example : okRun rr1 (St.init archivedCache) [callOp 1 10 (some 1), callOp 2 20 (some 1), callOp 3 30 (some 3)] = true := by
  decide

def mru1 : Cfg := { algo := .mru, safe := false, maxsize := 1, purge := false }
def f2Init : St Nat Nat := St.init { mem := [], arch := some [(5, 50), (6, 60)], swap := none }
/-- **F2** (excluded by `isIndexError = false`): `mru_cache`, two entries bulk-loaded, then a new key:
`IndexError`, and the cache has grown past `max maxsize before` -/
example : (run mru1 f2Init [.loadAll, callOp 7 70]).2 = [.unit, .raised .indexError 1] ∧
    (run mru1 f2Init [.loadAll, callOp 7 70]).1.c.mem.length = 3 := by
  decide

def mru1p : Cfg := { algo := .mru, safe := false, maxsize := 1, purge := true }
def f27Ops : List (Op Nat Nat) :=
  [callOp 1 10, callOp 2 20, .extPut 5 50, .extPut 6 60, .load [5, 6], .archivedOff, callOp 7 70]
/-- **F27** (excluded by `MruNoPurge`): after a purge the recency queue holds the non-resident key 2;
entries are loaded, archiving is switched off, and the next overflow evicts nothing: 3 > max 1 2 -/
example : (run mru1p (St.init archivedCache) f27Ops).2.getLast? = some (.ret 70 1) ∧
    (run mru1p (St.init archivedCache) f27Ops.dropLast).1.c.mem.length = 2 ∧
    (run mru1p (St.init archivedCache) f27Ops).1.c.mem.length = 3 := by
  decide

end Examples

end Klepto.C05
