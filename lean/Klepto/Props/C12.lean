import Klepto.Model.Round
/-!
# C12 — Rounding tolerance merges nearby calls but never alters what the function sees

Model M5.  `rnd` is `round(·, tol)` on floats: abstract in the theorems (any total function `g`),
`pyRound` — an exact integer-arithmetic model of CPython's `round` on binary64 — in the driver,
where it is compared bit for bit with CPython on every run.
-/
namespace Klepto.C12
open Klepto.Round
variable {F : Type}

/-- a rounding function that never raises (no `OverflowError` on the floats at hand) -/
def total (g : F → F) : F → Except RErr F := fun x => .ok (g x)

/-! ## deep rounding = "every float, at any depth, rounded; everything else identical" -/

mutual
theorem deep_spec (g : F → F) : ∀ (v : PV F), WellBehaved v = true → deepRound (total g) v = .ok (mapFloats g v)
  | .flt x, _ => by simp [deepRound, mapFloats, total, bind, Except.bind, pure, Except.pure]
  | .leaf id, _ => by simp [deepRound, mapFloats, pure, Except.pure]
  | .dict sk kvs, h => by
    simp only [WellBehaved] at h
    simp [deepRound, mapFloats, deep_spec_kvs g kvs h, bind, Except.bind, pure, Except.pure]
  | .seq ty rb xs, h => by
    simp only [WellBehaved, Bool.and_eq_true] at h
    simp [deepRound, mapFloats, deep_spec_list g xs h.2, h.1, bind, Except.bind, pure, Except.pure]
theorem deep_spec_list (g : F → F) : ∀ (xs : List (PV F)), WellBehavedList xs = true →
    deepRoundList (total g) xs = .ok (mapFloatsList g xs)
  | [], _ => by simp [deepRoundList, mapFloatsList, pure, Except.pure]
  | x :: xs, h => by
    simp only [WellBehavedList, Bool.and_eq_true] at h
    simp [deepRoundList, mapFloatsList, deep_spec g x h.1, deep_spec_list g xs h.2, bind, Except.bind, pure, Except.pure]
theorem deep_spec_kvs (g : F → F) : ∀ (kvs : List (Nat × PV F)), WellBehavedKvs kvs = true →
    deepRoundKvs (total g) kvs = .ok (mapFloatsKvs g kvs)
  | [], _ => by simp [deepRoundKvs, mapFloatsKvs, pure, Except.pure]
  | (k, v) :: kvs, h => by
    simp only [WellBehavedKvs, Bool.and_eq_true] at h
    simp [deepRoundKvs, mapFloatsKvs, deep_spec g v h.1, deep_spec_kvs g kvs h.2, bind, Except.bind, pure, Except.pure]
end

/-- the shape of a value: everything except the floats' values -/
def shape : PV F → PV Unit
  | .flt _ => .flt ()
  | .leaf id => .leaf id
  | .dict sk kvs => .dict sk (shapeKvs kvs)
  | .seq ty rb xs => .seq ty rb (shapeList xs)
where
  shapeList : List (PV F) → List (PV Unit)
    | [] => []
    | x :: xs => shape x :: shapeList xs
  shapeKvs : List (Nat × PV F) → List (Nat × PV Unit)
    | [] => []
    | (k, v) :: kvs => (k, shape v) :: shapeKvs kvs

mutual
/-- **integers, strings and all non-float data are never changed**: rounding preserves the whole
shape — container types, keys, order, every non-float leaf -/
theorem shape_mapFloats (g : F → F) : ∀ (v : PV F), shape (mapFloats g v) = shape v
  | .flt _ => by simp [mapFloats, shape]
  | .leaf _ => by simp [mapFloats, shape]
  | .dict sk kvs => by simp [mapFloats, shape, shapeKvs_mapFloats g kvs]
  | .seq ty rb xs => by simp [mapFloats, shape, shapeList_mapFloats g xs]
theorem shapeList_mapFloats (g : F → F) : ∀ (xs : List (PV F)), shape.shapeList (mapFloatsList g xs) = shape.shapeList xs
  | [] => by simp [mapFloatsList, shape.shapeList]
  | x :: xs => by simp [mapFloatsList, shape.shapeList, shape_mapFloats g x, shapeList_mapFloats g xs]
theorem shapeKvs_mapFloats (g : F → F) : ∀ (kvs : List (Nat × PV F)), shape.shapeKvs (mapFloatsKvs g kvs) = shape.shapeKvs kvs
  | [] => by simp [mapFloatsKvs, shape.shapeKvs]
  | (k, v) :: kvs => by simp [mapFloatsKvs, shape.shapeKvs, shape_mapFloats g v, shapeKvs_mapFloats g kvs]
end

/-! ## the decorators' `rounded_args` -/

/-- **tol = None disables rounding** (simple and deep) -/
theorem C12_tol_none (deep : Bool) (args : List (PV F)) (kwds : List (Nat × PV F)) :
    roundArgs deep none args kwds = .ok (args, kwds) := rfl

/-- top-level rounding of one value -/
def top (g : F → F) : PV F → PV F
  | .flt x => .flt (g x)
  | v => v

theorem simpleRound1_spec (g : F → F) (v : PV F) : simpleRound1 (total g) v = .ok (top g v) := by
  cases v <;> simp [simpleRound1, top, total, bind, Except.bind, pure, Except.pure]

theorem mapM_simple (g : F → F) (l : List (PV F)) : l.mapM (simpleRound1 (total g)) = .ok (l.map (top g)) := by
  induction l with
  | nil => rfl
  | cons x xs ih => simp [List.mapM_cons, simpleRound1_spec, ih, bind, Except.bind, pure, Except.pure]

theorem mapM_ok {α β : Type} (f : α → β) (l : List α) : l.mapM (fun a => (Except.ok (f a) : Except RErr β)) = .ok (l.map f) := by
  induction l with
  | nil => rfl
  | cons x xs ih => simp [List.mapM_cons, ih, bind, Except.bind, pure, Except.pure]

theorem mapM_simple_kw (g : F → F) (l : List (Nat × PV F)) :
    l.mapM (fun p => do return (p.1, ← simpleRound1 (total g) p.2)) = .ok (l.map (fun p => (p.1, top g p.2))) := by
  have : (fun (p : Nat × PV F) => (do return (p.1, ← simpleRound1 (total g) p.2) : Except RErr (Nat × PV F))) =
      (fun p => Except.ok (p.1, top g p.2)) := by
    funext p; simp [simpleRound1_spec, bind, Except.bind, pure, Except.pure]
  rw [this]; exact mapM_ok _ l

/-- **deep = False**: exactly the top-level floats of the positional and keyword arguments are
rounded; containers are passed through untouched; it never fails -/
theorem C12_simple (g : F → F) (args : List (PV F)) (kwds : List (Nat × PV F)) :
    roundArgs false (some (total g)) args kwds = .ok (args.map (top g), kwds.map (fun p => (p.1, top g p.2))) := by
  have h2 := mapM_simple_kw g kwds
  simp only [roundArgs, Bool.false_eq_true, if_false, mapM_simple, bind, Except.bind, pure, Except.pure] at h2 ⊢
  rw [h2]

/-- **deep = True**: every float at any depth inside lists, tuples, sets and dicts is rounded,
nothing else changes, and the call does not fail — for arguments whose iterables can be rebuilt
from their elements -/
theorem C12_deep_partial (g : F → F) (args : List (PV F)) (kwds : List (Nat × PV F))
    (ha : WellBehavedList args = true) (hk : WellBehavedKvs kwds = true) :
    roundArgs true (some (total g)) args kwds = .ok (mapFloatsList g args, mapFloatsKvs g kwds) := by
  simp [roundArgs, deep_spec_list g args ha, deep_spec_kvs g kwds hk, bind, Except.bind, pure, Except.pure]

/-- **calls whose arguments round to the same values share an entry, calls that round differently
do not**: the key is `K ∘ round`; with an information-preserving `K` (C10) keys coincide exactly
when the rounded arguments do -/
theorem C12_merge_iff {Key A : Type} (K : A → Key) (hK : Function.Injective K) (round : A → A) (a b : A) :
    K (round a) = K (round b) ↔ round a = round b :=
  ⟨fun h => hK h, fun h => by rw [h]⟩

/-! ## witnesses -/
section Examples
/-- a float two levels down inside a list inside a dict is rounded; the string and the int stay -/
example : deepRound (total (fun (x : Nat) => x / 10 * 10))
      (.dict true [(1, .seq 7 true [.flt 1234, .leaf 5, .seq 8 true [.flt 56]])]) =
    .ok (.dict true [(1, .seq 7 true [.flt 1230, .leaf 5, .seq 8 true [.flt 50]])]) := by rfl
/-- **F16b** (excluded by `WellBehaved`): an iterable that cannot be rebuilt from its elements —
`range` — makes `deep_round` raise `TypeError` although the call is valid -/
example : deepRound (total (fun (x : Nat) => x)) (.seq 9 false [.leaf 0, .leaf 1]) = .error .typeError := by rfl
/-- `round` on specials: zeros keep their sign, inf and nan pass through -/
example : pyRound 2 (.zero true) = .ok (.zero true) ∧ pyRound 2 .nan = .ok .nan ∧ pyRound 0 (.inf false) = .ok (.inf false) := ⟨rfl, rfl, rfl⟩
/-- `round(2.5, 0) = 2.0`, `round(0.5, 0) = 0.0` (half to even), `round(2.675, 2) = 2.67` (the binary
value is just below the tie) -/
example : (pyRound 0 (.fin false 5 (-1))).toOption = some (.fin false 4503599627370496 (-51)) ∧
          (pyRound 0 (.fin false 1 (-1))).toOption = some (.zero false) ∧
          (pyRound 2 (.fin false 6023564501608038 (-51))).toOption = some (.fin false 6012305502539612 (-51)) := by
  decide +kernel
end Examples

end Klepto.C12
