import Klepto.Lemmas.Equivariant
import Klepto.Props.C20
/-!
# C20, continued — what a serialisation round trip does to a wrapper, with object identity

`Props/C20.lean` models the restored copy as the same *value*.  Here the round trip is modelled as
what it is for Python objects: every object that is pickled **by value** comes back as a *new* object
(a new identity), one new object per old one (the pickler's memo); objects pickled **by reference**
(module-level singletons such as klepto's `NULL` and `SENTINEL`, classes, functions) come back as the
very same object.  A key is a tuple of leaves:

* `atom n`  — compared by value (int, str, float, bytes, None, …),
* `glob g`  — a by-reference singleton, compared by identity,
* `inst a`  — an instance with the default `__eq__`/`__hash__` (identity), living at address `a`.

`reloc ρ` is the effect of one round trip with address map `ρ`.  The pickler guarantees that `ρ` is a
function and injective.  The main theorem is `C20_pickle_lockstep`: for EVERY history of every
operation of the wrapper, the copy — fed the same calls, whose keys it computes from its own objects —
produces the same outputs one for one and ends in the relocated state of the original: same entries,
same recency queue, same use counts, same statistics.  It is an instance of `run_rename`
(`Lemmas/Equivariant.lean`): M1–M3 use keys only through `=`.

The hypotheses are exactly what a defect in `__reduce__` breaks: `C20_fresh_singleton_breaks` (a
singleton that comes back as a fresh object — the restored entries are no longer found) and
`C20_merged_objects_break` (two objects restored as one — entries collide).
-/
namespace Klepto.C20
open Klepto AMap
set_option linter.unusedSectionVars false

inductive Leaf
  | atom (n : Nat)
  | glob (g : Nat)
  | inst (addr : Nat)
  deriving DecidableEq, Repr

abbrev PKey := List Leaf

/-- one round trip: by-value instances move to new addresses, everything else is itself -/
def Leaf.reloc (ρ : Nat → Nat) : Leaf → Leaf
  | .atom n => .atom n
  | .glob g => .glob g
  | .inst a => .inst (ρ a)

def relocKey (ρ : Nat → Nat) (k : PKey) : PKey := k.map (Leaf.reloc ρ)

theorem Leaf.reloc_inj {ρ : Nat → Nat} (hρ : ∀ a b, ρ a = ρ b → a = b) : Inj (Leaf.reloc ρ) := by
  intro x y h
  cases x <;> cases y <;> simp_all [Leaf.reloc]
  exact hρ _ _ h

theorem relocKey_inj {ρ : Nat → Nat} (hρ : ∀ a b, ρ a = ρ b → a = b) : Inj (relocKey ρ) := by
  intro x y h
  induction x generalizing y with
  | nil => cases y <;> simp_all [relocKey]
  | cons a x ih =>
    cases y with
    | nil => simp [relocKey] at h
    | cons b y =>
      simp only [relocKey, List.map_cons, List.cons.injEq] at h
      rw [Leaf.reloc_inj hρ _ _ h.1, ih y h.2]

/-- the restored copy: every key relocated (values: `ψ`, e.g. the identity for results compared by value) -/
def unpickled {V : Type} (ρ : Nat → Nat) (ψ : V → V) (s : St PKey V) : St PKey V := s.rename (relocKey ρ) ψ

/-- **lock-step through a real round trip**: whatever the history before (any `s`) and whatever the
continuation (`ops`: calls, lookups, clear, load/dump, archive toggles, external archive writes, info),
the copy's outputs are the original's, one for one, and its final state is the relocated final state -/
theorem C20_pickle_lockstep {V : Type} (ρ : Nat → Nat) (hρ : ∀ a b, ρ a = ρ b → a = b) (ψ : V → V)
    (cfg : Cfg) (s : St PKey V) (ops : List (Op PKey V)) :
    run cfg (unpickled ρ ψ s) (ops.map (Op.rename (relocKey ρ) ψ)) =
      (unpickled ρ ψ (run cfg s ops).1, (run cfg s ops).2.map (Out.rename ψ)) :=
  run_rename (relocKey_inj hρ) cfg s ops

theorem Out.rename_id {V : Type} (o : Out V) : Out.rename (fun v : V => v) o = o := by
  cases o <;> rfl

/-- results compared by value (`ψ = id`): literally the same outputs — same results, same
evaluation counts, same exceptions, same `info()` -/
theorem C20_pickle_same_outputs {V : Type} (ρ : Nat → Nat) (hρ : ∀ a b, ρ a = ρ b → a = b)
    (cfg : Cfg) (s : St PKey V) (ops : List (Op PKey V)) :
    (run cfg (unpickled ρ (fun v => v) s) (ops.map (Op.rename (relocKey ρ) (fun v => v)))).2 = (run cfg s ops).2 := by
  rw [C20_pickle_lockstep ρ hρ]
  simp only
  conv => rhs; rw [← List.map_id (run cfg s ops).2]
  exact List.map_congr_left (fun o _ => Out.rename_id o)

/-- … and the same statistics, the same number of resident entries, the same queue length -/
theorem C20_pickle_same_account {V : Type} (ρ : Nat → Nat) (hρ : ∀ a b, ρ a = ρ b → a = b) (ψ : V → V)
    (cfg : Cfg) (s : St PKey V) (ops : List (Op PKey V)) :
    let c := (run cfg (unpickled ρ ψ s) (ops.map (Op.rename (relocKey ρ) ψ))).1
    let o := (run cfg s ops).1
    (c.hit, c.miss, c.load) = (o.hit, o.miss, o.load) ∧ c.c.mem.length = o.c.mem.length ∧
    c.queue.length = o.queue.length ∧ keys c.c.mem = (keys o.c.mem).map (relocKey ρ) := by
  rw [C20_pickle_lockstep ρ hρ]
  simp [unpickled, St.rename, Cache.rename, mapKV, keys, List.map_map, Function.comp_def]

/-- keys made of values and by-reference singletons only are *fixed* by every round trip — and, read
with `ρ` = "the addresses of another interpreter", are the same key in every session (C17) -/
def valueOnly : PKey → Bool
  | [] => true
  | .inst _ :: _ => false
  | _ :: k => valueOnly k

theorem relocKey_valueOnly (ρ : Nat → Nat) (k : PKey) (h : valueOnly k = true) : relocKey ρ k = k := by
  induction k with
  | nil => rfl
  | cons a k ih =>
    cases a <;> simp_all [valueOnly, relocKey, Leaf.reloc]

section Witnesses
def lru2' : Cfg := { algo := .lru, safe := false, maxsize := 2, purge := false }
/-- key of `f(1)` under `ignore=...`: the tuple `('x', NULL, 'y', 1)` — `glob 0` is NULL -/
def kNull : PKey := [.atom 7, .glob 0, .atom 8, .atom 1]
def sN : St PKey Nat := { (St.init { mem := [(kNull, 10)], arch := none, swap := none }) with queue := [kNull], rc := [(kNull, 1)] }

/-- the hypotheses are met by a non-trivial state and relocation: an instance-keyed entry moves, the
`NULL`-keyed one stays where every later call will look for it -/
example : relocKey (· + 100) [.inst 5, .glob 0, .atom 1] = [.inst 105, .glob 0, .atom 1] ∧
    (∀ a b : Nat, a + 100 = b + 100 → a = b) ∧ valueOnly kNull = true := by
  refine ⟨by decide, fun a b h => by omega, by decide⟩

/-- a defect the hypothesis excludes, 1: a singleton restored as a FRESH object (`_Null()` rebuilt by
value).  The copy holds the entry under a key no later call computes: `lookup` raises where the
original answers. -/
def freshNull : Leaf → Leaf
  | .glob 0 => .inst 999
  | l => l

theorem C20_fresh_singleton_breaks :
    (step lru2' (sN.rename (List.map freshNull) id) (.lookup (.ok kNull))).2 = .raised .keyError 0 ∧
    (step lru2' sN (.lookup (.ok kNull))).2 = .ret 10 0 := by decide

/-- a defect the hypothesis excludes, 2: two distinct objects restored as ONE (a non-injective `ρ`):
two entries collapse onto one key, the copy answers a call with the other call's result -/
def sTwo : St PKey Nat := St.init { mem := [([.inst 1], 10), ([.inst 2], 20)], arch := none, swap := none }

theorem C20_merged_objects_break :
    (step lru2' (unpickled (fun _ => 7) id sTwo) (.lookup (.ok (relocKey (fun _ => 7) [.inst 2])))).2 = .ret 10 0 ∧
    (step lru2' sTwo (.lookup (.ok [.inst 2]))).2 = .ret 20 0 := by decide
end Witnesses

end Klepto.C20
