import Klepto.Props.C12
import Klepto.Props.C09Tol
import Klepto.Props.C01Bridge
/-!
# C12 end to end: "calls whose arguments round to the same values share an entry, calls that round differently do not"

`C12_merge_iff` is stated for an abstract injective key function.  Here the key function is the real
pipeline `keymap(*_keygen(f, (), *rounded_args(*args, **kwds)))` (`keyOf ∘ roundCall g`), `g` being
the rounding of one value (`round(x, tol)` on floats, identity elsewhere).
-/
namespace Klepto.C12
open Klepto Klepto.AMap Klepto.Keys Klepto.C01 Klepto.C09

variable {Val : Type} [DecidableEq Val]

/-- the rounded calls bind the same values ⇒ one entry (C09 on the rounded calls) -/
theorem C12_round_same_share (g : Val → Val) (k : Consts Val) (self : Val) (f : Func Val)
    (km : KM Val) (le : Val → Val → Bool) (tyOf : Val → Val) (fast : Val → Bool)
    (hpl : Plain f) (hwf : (names f.pos ++ names f.kwonly).Nodup) (hle : TotalOrder le)
    (c₁ c₂ : PCall Val) (b : Binding Val)
    (h₁ : ValidCall self f (roundCall g c₁) b) (h₂ : ValidCall self f (roundCall g c₂) b) :
    keyOf k f km le tyOf fast (roundCall g c₁) = keyOf k f km le tyOf fast (roundCall g c₂) :=
  C09.C09_flat k self f _ _ b km le tyOf fast hpl hwf hle h₁.2 h₂.2 h₁.1 h₂.1

/-- the rounded calls bind different values to some parameter ⇒ different entries (C10 on the rounded calls) -/
theorem C12_round_differently_apart (g : Val → Val) (k : Consts Val) (self : Val) (f : Func Val)
    (km : KM Val) (le : Val → Val → Bool) (tyOf : Val → Val) (fast : Val → Bool)
    (hpl : Plain f) (hwf : (names f.pos ++ names f.kwonly).Nodup) (hva : f.varargs = false)
    (c₁ c₂ : PCall Val) (b₁ b₂ : Binding Val)
    (h₁ : ValidCall self f (roundCall g c₁) b₁) (h₂ : ValidCall self f (roundCall g c₂) b₂)
    (n : Val) (hne : get? (b₁.named ++ b₁.extraKw) n ≠ get? (b₂.named ++ b₂.extraKw) n) :
    keyOf k f km le tyOf fast (roundCall g c₁) ≠ keyOf k f km le tyOf fast (roundCall g c₂) :=
  C10.C10_calls k self f _ _ b₁ b₂ km le tyOf fast hpl hwf hva h₁.2 h₂.2 h₁.1 h₂.1 n hne

/-- in terms of the ORIGINAL calls: if rounding fixes the defaults, two calls whose bindings become equal
under rounding share an entry -/
theorem C12_round_to_same_values_share (g : Val → Val) (k : Consts Val) (self : Val) (f : Func Val)
    (km : KM Val) (le : Val → Val → Bool) (tyOf : Val → Val) (fast : Val → Bool)
    (hpl : Plain f) (hwf : (names f.pos ++ names f.kwonly).Nodup) (hle : TotalOrder le)
    (hfp : FixesDefaults g f.pos) (hfk : FixesDefaults g f.kwonly)
    (c₁ c₂ : PCall Val) (b₁ b₂ : Binding Val) (h₁ : ValidCall self f c₁ b₁) (h₂ : ValidCall self f c₂ b₂)
    (hround : mapBinding g b₁ = mapBinding g b₂) :
    keyOf k f km le tyOf fast (roundCall g c₁) = keyOf k f km le tyOf fast (roundCall g c₂) := by
  have e₁ := bind_roundCall g self f c₁ b₁ hpl hfp hfk h₁.1
  have e₂ := bind_roundCall g self f c₂ b₂ hpl hfp hfk h₂.1
  rw [hround] at e₁
  have hk₁ : (keys (roundCall g c₁).kwds).Nodup := by simpa [roundCall, keys_mapVals] using h₁.2
  have hk₂ : (keys (roundCall g c₂).kwds).Nodup := by simpa [roundCall, keys_mapVals] using h₂.2
  exact C09.C09_flat k self f _ _ _ km le tyOf fast hpl hwf hle hk₁ hk₂ e₁ e₂

end Klepto.C12
