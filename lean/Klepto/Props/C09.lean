import Klepto.Lemmas.Sorted
/-!
# C09 — Key canonicalisation: equivalent calls map to one key

Model M4.  `bind` is the specification (CPython's argument binding); `keygen` is `_keygen`;
`encodeFlat` / `encrypt` are `keymap.encode` / `keymap.encrypt` before the encoder.  The encoder
(`str`, `repr`, pickle, a named digest) is a function of the structured key, so equal structured
keys give equal encoded keys for every keymap type (`C09_encoded`).
-/
namespace Klepto.C09
open Klepto.Keys Klepto.AMap
set_option linter.unusedSectionVars false
variable {Val : Type} [DecidableEq Val]

theorem isEmpty_of_get?_eq (l₁ l₂ : List (Val × Val)) (h₁ : (keys l₁).Nodup) (h₂ : (keys l₂).Nodup)
    (h : ∀ n, get? l₁ n = get? l₂ n) : l₁.isEmpty = l₂.isEmpty := by
  have hp := perm_of_get?_eq l₁ l₂ h₁ h₂ h
  have := hp.length_eq
  cases l₁ <;> cases l₂ <;> simp_all

/-- **C09, flat keymaps** (raw / string / pickle / hash; typed or not; with or without a
sentinel): two calls that CPython binds identically — positional or keyword spelling, any keyword
order, defaults spelled out or omitted — produce the *same* flat key. -/
theorem C09_flat (k : Consts Val) (self : Val) (f : Func Val) (c₁ c₂ : PCall Val) (b : Binding Val)
    (km : KM Val) (le : Val → Val → Bool) (tyOf : Val → Val) (fast : Val → Bool)
    (hpl : Plain f) (hwf : (names f.pos ++ names f.kwonly).Nodup) (hle : TotalOrder le)
    (hk₁ : (keys c₁.kwds).Nodup) (hk₂ : (keys c₂.kwds).Nodup)
    (hb₁ : bind self f c₁ = some b) (hb₂ : bind self f c₂ = some b) :
    encodeFlat km le tyOf fast (keygen k f [] c₁).1 (keygen k f [] c₁).2 =
    encodeFlat km le tyOf fast (keygen k f [] c₂).1 (keygen k f [] c₂).2 := by
  obtain ⟨ha₁, hm₁⟩ := keygen_eq_bind k self f c₁ b hpl hwf hk₁ hb₁
  obtain ⟨ha₂, hm₂⟩ := keygen_eq_bind k self f c₂ b hpl hwf hk₂ hb₂
  have hpos : (names f.pos).Nodup := (List.nodup_append.mp hwf).1
  have hn₁ : (keys (keygen k f [] c₁).2).Nodup := by rw [keygen_plain k f c₁ hpl]; exact keygenPlain_nodup f c₁ hpos
  have hn₂ : (keys (keygen k f [] c₂).2).Nodup := by rw [keygen_plain k f c₂ hpl]; exact keygenPlain_nodup f c₂ hpos
  have hmap : ∀ n, get? (keygen k f [] c₁).2 n = get? (keygen k f [] c₂).2 n := fun n => by rw [hm₁, hm₂]
  have hs := sorted_items_canonical le hle _ _ hn₁ hn₂ hmap
  have he := isEmpty_of_get?_eq _ _ hn₁ hn₂ hmap
  unfold encodeFlat
  rw [ha₁, ha₂, hs, he]

/-- every encoder is a function of the structured key -/
theorem C09_encoded {Key : Type} (enc : FlatKey Val → Key) (k₁ k₂ : FlatKey Val) (h : k₁ = k₂) :
    enc k₁ = enc k₂ := by rw [h]

/-- Python equality of two non-flat raw keys `(args, kwds[, types])`: tuples elementwise, dicts
as maps -/
def NonFlatKey.pyEq (a b : NonFlatKey Val) : Prop :=
  a.args = b.args ∧ (∀ n, get? a.kwds n = get? b.kwds n) ∧ a.types = b.types

/-- **C09, non-flat raw keys** are equal *as Python values* -/
theorem C09_nonflat_raw (k : Consts Val) (self : Val) (f : Func Val) (c₁ c₂ : PCall Val) (b : Binding Val)
    (km : KM Val) (le : Val → Val → Bool) (tyOf : Val → Val)
    (hpl : Plain f) (hwf : (names f.pos ++ names f.kwonly).Nodup) (hle : TotalOrder le)
    (hk₁ : (keys c₁.kwds).Nodup) (hk₂ : (keys c₂.kwds).Nodup)
    (hb₁ : bind self f c₁ = some b) (hb₂ : bind self f c₂ = some b) :
    NonFlatKey.pyEq (encrypt km le tyOf (keygen k f [] c₁).1 (keygen k f [] c₁).2)
                    (encrypt km le tyOf (keygen k f [] c₂).1 (keygen k f [] c₂).2) := by
  obtain ⟨ha₁, hm₁⟩ := keygen_eq_bind k self f c₁ b hpl hwf hk₁ hb₁
  obtain ⟨ha₂, hm₂⟩ := keygen_eq_bind k self f c₂ b hpl hwf hk₂ hb₂
  have hpos : (names f.pos).Nodup := (List.nodup_append.mp hwf).1
  have hn₁ : (keys (keygen k f [] c₁).2).Nodup := by rw [keygen_plain k f c₁ hpl]; exact keygenPlain_nodup f c₁ hpos
  have hn₂ : (keys (keygen k f [] c₂).2).Nodup := by rw [keygen_plain k f c₂ hpl]; exact keygenPlain_nodup f c₂ hpos
  have hmap : ∀ n, get? (keygen k f [] c₁).2 n = get? (keygen k f [] c₂).2 n := fun n => by rw [hm₁, hm₂]
  have hs := sorted_items_canonical le hle _ _ hn₁ hn₂ hmap
  refine ⟨by simp [encrypt, ha₁, ha₂], hmap, ?_⟩
  simp only [encrypt, ha₁, ha₂, hs]

/-- the full statement for *encoded* non-flat keys (`str`/`repr`/pickle of `(args, kwds)`): the
dict's insertion order would have to be the same -/
def C09_nonflat_statement (k : Consts Val) (self : Val) (f : Func Val) : Prop :=
  ∀ c₁ c₂ b, bind self f c₁ = some b → bind self f c₂ = some b →
    (keygen k f [] c₁).2 = (keygen k f [] c₂).2

section Examples
/-- objects: 0 = NULL, 1 = '*', 2 = '**', 10 = 'x', 11 = 'y', 20 = the value 1, 21 = the value 2 -/
def K0 : Consts Nat := { null := 0, star := 1, dstar := 2 }
def fxy : Func Nat := { pos := [⟨10, none⟩, ⟨11, some 21⟩], varargs := false, kwonly := [], varkw := false }
def km0 : KM Nat := { typed := false, flat := true, mark := none }
/-- `f(1, y=2)`, `f(x=1, y=2)`, `f(y=2, x=1)` and `f(1)` (default omitted) all bind `x=1, y=2` … -/
example : bind 99 fxy { args := [20], kwds := [(11, 21)] } = bind 99 fxy { args := [], kwds := [(11, 21), (10, 20)] } ∧
    bind 99 fxy { args := [20], kwds := [] } = bind 99 fxy { args := [], kwds := [(10, 20), (11, 21)] } := by decide
/-- … and get one flat key -/
example : (let r := keygen K0 fxy [] { args := [], kwds := [(11, 21), (10, 20)] }
           encodeFlat km0 (· ≤ ·) (fun _ => 5) (fun _ => false) r.1 r.2) =
          (let r := keygen K0 fxy [] { args := [20], kwds := [] }
           encodeFlat km0 (· ≤ ·) (fun _ => 5) (fun _ => false) r.1 r.2) := by decide
/-- **F11**: the non-flat key's dict order leaks the spelling: `f(1, y=2)` gives `{y, x}`,
`f(x=1, y=2)` gives `{x, y}` -/
example : ¬ C09_nonflat_statement K0 99 { fxy with pos := [⟨10, none⟩, ⟨11, none⟩] } := by
  intro h
  have := h { args := [20], kwds := [(11, 21)] } { args := [], kwds := [(10, 20), (11, 21)] }
    { named := [(10, 20), (11, 21)], extraPos := [], extraKw := [] } (by decide) (by decide)
  revert this; decide
end Examples

end Klepto.C09
