import Klepto.Props.C07
import Klepto.Props.C16
/-!
# C02 — Compute-once: the function runs only when no stored result is retrievable
-/
namespace Klepto.C02
open Klepto AMap Klepto.C07
set_option linter.unusedSectionVars false
variable {K V : Type} [DecidableEq K]

abbrev evalsOf : Out V → Nat := Klepto.C16.evalsOf

/-- the stored result for `k` is retrievable: resident in memory, or in the attached archive -/
def Retrievable (c : Cache K V) (k : K) : Bool := (get? (c.preload k).mem k).isSome

theorem retrievable_iff (c : Cache K V) (k : K) :
    Retrievable c k = true ↔ (get? c.mem k).isSome ∨ (c.aget k).isSome := by
  unfold Retrievable
  rw [preload_get_self]
  cases ha : c.arch with
  | none => simp [Cache.aget, ha]
  | some a =>
    simp only [Cache.aget, ha]
    cases hak : get? a k <;> cases hm : get? c.mem k <;> simp

theorem retrievable_iff_retr (c : Cache K V) (k : K) : Retrievable c k = true ↔ (retr c k).isSome := by
  rw [retrievable_iff]; unfold retr
  cases get? c.mem k <;> simp

/-- **The function is evaluated exactly when no stored result is retrievable** — all twelve
wrappers, every configuration; and never more than once. -/
theorem C02_eval_iff (cfg : Cfg) (s : St K V) (ci : CallIn K V) (k : K) (hk : ci.key = .ok k) :
    evalsOf (call cfg s ci).2 = if Retrievable s.c k then 0 else 1 := by
  unfold call Retrievable
  split
  · unfold callNo; simp only [hk]
    cases hl : get? (s.c.preload k).mem k with
    | some v => simp [evalsOf, C16.evalsOf]
    | none =>
      simp only
      cases hf : ci.fn <;> simp [evalsOf, C16.evalsOf]
  · unfold callCached; simp only [hk]
    cases hm : get? s.c.mem k with
    | some v =>
      have : (get? (s.c.preload k).mem k).isSome = true := by
        rw [preload_get_self]
        cases s.c.arch with
        | none => simp [hm]
        | some a => simp only [hm]; cases hak : get? a k <;> simp
      simp [hitStep, evalsOf, C16.evalsOf, this]
    | none =>
      simp only
      cases hl : get? (s.c.preload k).mem k with
      | some v => simp [loadStep, evalsOf, C16.finish_evals]
      | none =>
        simp only
        cases hf : ci.fn with
        | error e => simp [evalsOf, C16.evalsOf]
        | ok v => simp [missStep, evalsOf, C16.finish_evals]

/-! ## histories with a lossless archive attached -/

/-- the invariants of a caching decorator with a lossless archive attached and switched on -/
structure Inv (cfg : Cfg) (s : St K V) : Prop where
  wf : WF cfg s
  archived : s.c.archived = true
  agree : Agree s.c
  archNodup : ArchNodup s.c

/-- operations that neither clear results nor detach / replace / externally edit the archive
(those are the cases in which the property allows re-evaluation) -/
def Quiet : Op K V → Bool
  | .call _ => true | .load _ => true | .loadAll => true | .dump _ => true | .dumpAll => true
  | .lookup _ => true | .info => true | .archivedQ => true
  | _ => false

theorem agree_dump1 (c : Cache K V) (k : K) (hag : Agree c) : Agree (c.dump1 k) := by
  have hd := dump_only_resident c k
  intro i w w' hm hg
  simp only [dump1_mem] at hm
  rw [hd] at hg
  split at hg
  · rename_i h; rw [← h.1, hm] at hg; cases hg; rfl
  · exact hag i w w' hm hg

theorem retr_dump1 (c : Cache K V) (k j : K) : retr (c.dump1 k) j = retr c j := by
  have hd := dump_only_resident c k
  unfold retr
  simp only [dump1_mem]
  cases hm : get? c.mem j with
  | some x => rfl
  | none =>
    simp only; rw [hd]
    split
    · rename_i h; rw [h.1] at hm; rw [hm] at h; simp at h
    · rfl

theorem retr_dumpKeys (c : Cache K V) (ks : List K) (j : K) : retr (c.dumpKeys ks) j = retr c j := by
  unfold Cache.dumpKeys
  induction ks generalizing c with
  | nil => rfl
  | cons k ks ih => simp only [List.foldl_cons]; rw [ih, retr_dump1]

theorem agree_dumpKeys (c : Cache K V) (ks : List K) (hag : Agree c) : Agree (c.dumpKeys ks) := by
  unfold Cache.dumpKeys
  induction ks generalizing c with
  | nil => exact hag
  | cons k ks ih => simp only [List.foldl_cons]; exact ih _ (agree_dump1 c k hag)

theorem dumpKeys_archived (c : Cache K V) (ks : List K) : (c.dumpKeys ks).archived = c.archived := by
  unfold Cache.dumpKeys
  induction ks generalizing c with
  | nil => rfl
  | cons k ks ih => simp only [List.foldl_cons]; rw [ih]; simp

theorem loadKeys_arch (c : Cache K V) (ks : List K) : (c.loadKeys ks).arch = c.arch := by
  unfold Cache.loadKeys
  induction ks generalizing c with
  | nil => rfl
  | cons k ks ih => simp only [List.foldl_cons]; rw [ih]; simp

theorem retr_dumpAll (c : Cache K V) (j : K) (hn : (keys c.mem).Nodup) : retr c.dumpAll j = retr c j := by
  unfold retr
  simp only [dumpAll_mem]
  cases hm : get? c.mem j with
  | some x => rfl
  | none =>
    simp only; rw [aget_dumpAll _ _ hn]
    cases ha : c.arch with
    | none => simp [Cache.aget, ha]
    | some a => simp [hm]

theorem agree_dumpAll (c : Cache K V) (hn : (keys c.mem).Nodup) : Agree c.dumpAll := by
  intro i w w' hm hg
  simp only [dumpAll_mem] at hm
  rw [aget_dumpAll _ _ hn] at hg
  cases ha : c.arch with
  | none => simp [ha] at hg
  | some a => simp only [ha, hm] at hg; cases hg; rfl

theorem agree_load1 (c : Cache K V) (k : K) (hag : Agree c) : Agree (c.load1 k) := by
  have hm := load1_mem c k
  have hget : ∀ i, (c.load1 k).aget i = c.aget i := fun i => by simp [Cache.aget]
  intro i x y h1 h2
  rw [hget] at h2
  cases ha : c.arch with
  | none => simp only [ha] at hm; rw [hm] at h1; exact hag i x y h1 h2
  | some a =>
    simp only [ha] at hm
    cases hak : get? a k with
    | none => simp only [hak] at hm; rw [hm] at h1; exact hag i x y h1 h2
    | some v =>
      simp only [hak] at hm
      rw [hm, get?_put] at h1
      by_cases hi : i = k
      · subst hi
        simp only [if_true] at h1
        have : c.aget i = some v := by simp [Cache.aget, ha, hak]
        rw [this] at h2; cases h1; cases h2; rfl
      · simp only [hi, if_false] at h1; exact hag i x y h1 h2

theorem retr_load1 (c : Cache K V) (k j : K) (w : V) (hag : Agree c) (h : retr c j = some w) :
    retr (c.load1 k) j = some w := by
  have hm := load1_mem c k
  have hget : ∀ i, (c.load1 k).aget i = c.aget i := fun i => by simp [Cache.aget]
  cases ha : c.arch with
  | none => simp only [ha] at hm; unfold retr; rw [hm, hget]; exact h
  | some a =>
    simp only [ha] at hm
    cases hak : get? a k with
    | none => simp only [hak] at hm; unfold retr; rw [hm, hget]; exact h
    | some v =>
      simp only [hak] at hm
      have hagk : c.aget k = some v := by simp [Cache.aget, ha, hak]
      unfold retr at h ⊢
      rw [hm, hget, get?_put]
      by_cases hj : j = k
      · subst hj
        simp only [if_true]
        cases hmj : get? c.mem j with
        | some x => rw [hmj] at h; cases h; rw [hag j w v hmj hagk]
        | none => rw [hmj] at h; rw [hagk] at h; exact h
      · simp only [hj, if_false]; exact h

theorem retr_loadKeys (c : Cache K V) (ks : List K) (j : K) (w : V) (hag : Agree c) (h : retr c j = some w) :
    retr (c.loadKeys ks) j = some w ∧ Agree (c.loadKeys ks) := by
  unfold Cache.loadKeys
  induction ks generalizing c with
  | nil => exact ⟨h, hag⟩
  | cons k ks ih =>
    simp only [List.foldl_cons]
    exact ih (c.load1 k) (agree_load1 c k hag) (retr_load1 c k j w hag h)

theorem agree_loadKeys (c : Cache K V) (ks : List K) (hag : Agree c) : Agree (c.loadKeys ks) := by
  unfold Cache.loadKeys
  induction ks generalizing c with
  | nil => exact hag
  | cons k ks ih => simp only [List.foldl_cons]; exact ih (c.load1 k) (agree_load1 c k hag)

theorem retr_loadAll (c : Cache K V) (j : K) (w : V) (hag : Agree c) (han : ArchNodup c)
    (h : retr c j = some w) : retr c.loadAll j = some w := by
  unfold Cache.loadAll
  cases ha : c.arch with
  | none => simpa [ha] using h
  | some a =>
    simp only
    unfold retr at h ⊢
    simp only [Cache.aget, ha] at h ⊢
    rw [get?_update_nodup _ _ _ (han a ha)]
    cases hak : get? a j with
    | some v =>
      simp only
      cases hm : get? c.mem j with
      | some x =>
        rw [hm] at h; cases h
        have : c.aget j = some v := by simp [Cache.aget, ha, hak]
        rw [hag j w v hm this]
      | none => rw [hm, hak] at h; exact h
    | none => simp only; rw [hak] at h; exact h

theorem agree_loadAll (c : Cache K V) (hag : Agree c) (han : ArchNodup c) : Agree c.loadAll := by
  unfold Cache.loadAll
  cases ha : c.arch with
  | none => simpa [ha] using hag
  | some a =>
    intro i x y h1 h2
    simp only [Cache.aget] at h2
    simp only at h1
    rw [get?_update_nodup _ _ _ (han a ha), h2] at h1
    cases h1; rfl

/-- a quiet operation keeps the invariants and keeps every retrievable result retrievable -/
theorem inv_step_quiet (cfg : Cfg) (s : St K V) (op : Op K V)
    (hno : cfg.algo ≠ .no) (hmp : MruNoPurge cfg) (hI : Inv cfg s) (hq : Quiet op = true) :
    Inv cfg (step cfg s op).1 ∧ ∀ j w, retr s.c j = some w → retr (step cfg s op).1.c j = some w := by
  have hn := hI.wf.memNodup
  cases op with
  | call ci =>
    have hw := wf_step (.call ci) hI.wf hmp
    simp only [step, call, hno, if_false] at hw ⊢
    obtain ⟨c2, hc2, hmv, _⟩ := callCached_rel cfg s ci hn
    refine ⟨⟨hw, ?_, agree_call cfg s ci hn hI.agree, archNodup_callCached cfg s ci hI.archNodup⟩,
      fun j w h => C07_retained cfg s ci hn hI.archived hI.agree j w h⟩
    have h1 : c2.archived = s.c.archived := by
      rcases hc2 with ⟨rfl, _, _⟩ | ⟨k, v, _, hins, _, _⟩
      · rfl
      · exact hins.archived
    rw [hmv.archived, h1]; exact hI.archived
  | load ks =>
    have hw := wf_step (.load ks) hI.wf hmp
    simp only [step] at hw ⊢
    refine ⟨⟨hw, ?_, agree_loadKeys _ ks hI.agree, archNodup_of_arch_eq hI.archNodup (loadKeys_arch _ _)⟩,
      fun j w h => (retr_loadKeys s.c ks j w hI.agree h).1⟩
    have := hI.archived
    simp only [Cache.archived] at this ⊢
    rw [loadKeys_arch]; exact this
  | loadAll =>
    have hw := wf_step (.loadAll : Op K V) hI.wf hmp
    simp only [step] at hw ⊢
    exact ⟨⟨hw, by simpa [Cache.archived] using hI.archived, agree_loadAll _ hI.agree hI.archNodup,
      archNodup_of_arch_eq hI.archNodup (by simp)⟩,
      fun j w h => retr_loadAll s.c j w hI.agree hI.archNodup h⟩
  | dump ks =>
    have hw := wf_step (.dump ks) hI.wf hmp
    simp only [step] at hw ⊢
    exact ⟨⟨hw, by rw [dumpKeys_archived]; exact hI.archived, agree_dumpKeys _ ks hI.agree,
      archNodup_dumpKeys _ ks hI.archNodup⟩, fun j w h => by rw [retr_dumpKeys]; exact h⟩
  | dumpAll =>
    have hw := wf_step (.dumpAll : Op K V) hI.wf hmp
    simp only [step] at hw ⊢
    exact ⟨⟨hw, by simpa using hI.archived, agree_dumpAll _ hn,
      archNodup_dumpAll _ hI.archNodup⟩, fun j w h => by rw [retr_dumpAll _ _ hn]; exact h⟩
  | lookup key =>
    simp only [step]
    split
    · split <;> exact ⟨hI, fun _ _ h => h⟩
    · exact ⟨hI, fun _ _ h => h⟩
    · exact ⟨hI, fun _ _ h => h⟩
  | info => exact ⟨hI, fun _ _ h => h⟩
  | archivedQ => exact ⟨hI, fun _ _ h => h⟩
  | clear keep => simp [Quiet] at hq
  | archivedOn => simp [Quiet] at hq
  | archivedOff => simp [Quiet] at hq
  | setArchive a => simp [Quiet] at hq
  | extPut k v => simp [Quiet] at hq
  | extDel k => simp [Quiet] at hq

/-- no call with key `k` in the history evaluates the function -/
def NoEval (cfg : Cfg) (k : K) : St K V → List (Op K V) → Prop
  | _, [] => True
  | s, op :: ops =>
    (match op with
     | .call ci => ci.key = .ok k → evalsOf (call cfg s ci).2 = 0
     | _ => True) ∧ NoEval cfg k (step cfg s op).1 ops

/-- **Once retrievable, never evaluated again** — over any history of calls (any arguments,
any evictions and purges), `dump`/`load` (with or without keys) and introspection, while a
lossless archive stays attached. -/
theorem C02_no_reeval (cfg : Cfg) (ops : List (Op K V)) (s : St K V) (k : K) (w : V)
    (hno : cfg.algo ≠ .no) (hmp : MruNoPurge cfg) (hI : Inv cfg s)
    (hq : ∀ op ∈ ops, Quiet op = true) (hr : retr s.c k = some w) : NoEval cfg k s ops := by
  induction ops generalizing s with
  | nil => trivial
  | cons op ops ih =>
    have h1 := inv_step_quiet cfg s op hno hmp hI (hq op (by simp))
    refine ⟨?_, ih _ h1.1 (fun o ho => hq o (by simp [ho])) (h1.2 k w hr)⟩
    cases op with
    | call ci =>
      intro hk
      rw [C02_eval_iff cfg s ci k hk]
      have : Retrievable s.c k = true := (retrievable_iff_retr s.c k).mpr (by rw [hr]; rfl)
      simp [this]
    | _ => trivial

/-- **… and a successful evaluation makes the key retrievable**, so each distinct key is
evaluated successfully at most once over such a history (also when the call itself ends in
mru's `IndexError`: the entry has been stored by then). -/
theorem C02_after_eval_retrievable (cfg : Cfg) (s : St K V) (ci : CallIn K V) (k : K) (v : V)
    (hno : cfg.algo ≠ .no) (hI : Inv cfg s) (hk : ci.key = .ok k) (hf : ci.fn = .ok v)
    (he : evalsOf (call cfg s ci).2 = 1) : retr (call cfg s ci).1.c k = some v := by
  have hn := hI.wf.memNodup
  have hnr : Retrievable s.c k = false := by
    rw [C02_eval_iff cfg s ci k hk] at he
    cases h : Retrievable s.c k <;> simp [h] at he ⊢
  have hmem : get? s.c.mem k = none ∧ s.c.aget k = none := by
    have h0 : ¬ ((get? s.c.mem k).isSome = true ∨ (s.c.aget k).isSome = true) := by
      rw [← retrievable_iff]; simp [hnr]
    constructor
    · cases h : get? s.c.mem k with
      | none => rfl
      | some x => exact absurd (Or.inl (by rw [h]; rfl)) h0
    · cases h : s.c.aget k with
      | none => rfl
      | some x => exact absurd (Or.inr (by rw [h]; rfl)) h0
  simp only [call, hno, if_false]
  obtain ⟨c2, hc2, hmv, hlv⟩ := callCached_rel cfg s ci hn
  have hlv := hlv hI.archived
  have h2 : get? c2.mem k = some v := by
    rcases hc2 with ⟨rfl, _, hres⟩ | ⟨k', v', hk', hins, _, hsrc⟩
    · have := hres k v hk hf
      rw [hmem.1] at this; cases this
    · rw [hk] at hk'; cases hk'
      rcases hsrc with h | h
      · rw [hmem.2] at h; cases h
      · rw [hf] at h; cases h; exact hins.get_self
  unfold retr
  rcases hmv.mem k with h | h
  · rw [h, h2]
  · rw [h]; simp only; rw [hlv k h (by rw [h2]; rfl), h2]

/-- **A second decorator instance or later session sharing the archive** never evaluates a key
that has reached the archive: a fresh wrapper state over archive contents `a`. -/
theorem C02_second_session (cfg : Cfg) (a : List (K × V)) (ops : List (Op K V)) (k : K) (w : V)
    (hno : cfg.algo ≠ .no) (hmp : MruNoPurge cfg) (ha : (keys a).Nodup)
    (hq : ∀ op ∈ ops, Quiet op = true) (hk : get? a k = some w) :
    NoEval cfg k (St.init { mem := [], arch := some a, swap := none }) ops := by
  refine C02_no_reeval cfg ops _ k w hno hmp ⟨wf_init cfg _ (by simp [keys]), rfl, ?_, ?_⟩ hq ?_
  · intro j x y h; simp [St.init, get?] at h
  · intro a' h'; simp [St.init] at h'; subst h'; exact ha
  · simp [retr, St.init, get?, Cache.aget, hk]

/-- **Without an archive a key is re-evaluated only after it was evicted or cleared**: an
evaluation implies the key is not resident. -/
theorem C02_reeval_needs_absence (cfg : Cfg) (s : St K V) (ci : CallIn K V) (k : K)
    (hk : ci.key = .ok k) (he : evalsOf (call cfg s ci).2 = 1) : get? s.c.mem k = none := by
  rw [C02_eval_iff cfg s ci k hk] at he
  cases hm : get? s.c.mem k with
  | none => rfl
  | some x =>
    have : Retrievable s.c k = true := (retrievable_iff s.c k).mpr (Or.inl (by rw [hm]; rfl))
    simp [this] at he

/-! ## witnesses -/
section Examples
def lru1 : Cfg := { algo := .lru, safe := false, maxsize := 1, purge := false }
def mk (k v : Nat) : Op Nat Nat := .call { key := .ok k, fn := .ok v, victim := none }
def c0 : Cache Nat Nat := { mem := [], arch := some [], swap := none }
/-- evict-then-reload: five calls over two keys with `maxsize = 1` evaluate twice in total -/
example : ((run lru1 (St.init c0) [mk 1 10, mk 2 20, mk 1 10, mk 2 20, mk 1 10]).2.map evalsOf) = [1, 1, 0, 0, 0] := by
  decide
end Examples

end Klepto.C02
