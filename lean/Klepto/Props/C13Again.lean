import Klepto.Props.C13
import Klepto.Lemmas.Sched
/-!
# C13: a crash, and then another one

`C13_dir_partial` speaks about one operation that is killed, starting from any readable directory.
A directory a killed writer leaves behind is again such a starting point - staging directories
included - so the statement iterates: whatever the first killed writer left, a second writer's
operation (killed as well, at any point) leaves a readable archive in which every name reads as
it did after the first crash or as the second operation allows (`C13_dir_crash_again`).  What it
takes is that crash states keep the two side conditions of `C13_dir_partial`: distinct names and
fresh staging names (`crash_states_inv`).  Suite `fs` replays this (double-crash stratum).
-/
namespace Klepto.C13
open Klepto AMap Crash Klepto.Sched

variable {V : Type}

theorem vstep_other (d : DView V) (x : DSys V) (m : DName) (h : m ∉ sysNames x) : vstep d x m = d m := by
  cases x with
  | close => rfl
  | rename a b =>
    simp only [sysNames, List.mem_cons, List.mem_nil_iff, or_false, not_or] at h
    simp only [vstep]
    split
    · simp [h.1, h.2]
    · rfl
  | mkdir n => simp only [sysNames, List.mem_singleton] at h; simp [vstep, sysNames, h]
  | creatOut n => simp only [sysNames, List.mem_singleton] at h; simp [vstep, sysNames, h]
  | writeOut n v => simp only [sysNames, List.mem_singleton] at h; simp [vstep, sysNames, h]
  | tornOut n => simp only [sysNames, List.mem_singleton] at h; simp [vstep, sysNames, h]
  | creatIn n => simp only [sysNames, List.mem_singleton] at h; simp [vstep, sysNames, h]
  | writeIn n => simp only [sysNames, List.mem_singleton] at h; simp [vstep, sysNames, h]
  | tornIn n => simp only [sysNames, List.mem_singleton] at h; simp [vstep, sysNames, h]
  | unlinkOut n => simp only [sysNames, List.mem_singleton] at h; simp [vstep, sysNames, h]
  | unlinkIn n => simp only [sysNames, List.mem_singleton] at h; simp [vstep, sysNames, h]
  | rmdir n => simp only [sysNames, List.mem_singleton] at h; simp [vstep, sysNames, h]

theorem get?_dstep_other (s : DirFS V) (x : DSys V) (m : DName) (hn : (keys s).Nodup) (h : m ∉ sysNames x) :
    get? (dstep s x) m = get? s m := by
  rw [get?_dstep s x hn]; exact vstep_other _ x m h

/-- every staging name a call mentions is below `B` -/
def TempsBelow (B : Nat) (x : DSys V) : Prop := ∀ i, DName.temp i ∈ sysNames x → i < B

theorem fresh_dstep (B : Nat) (s : DirFS V) (x : DSys V) (hn : (keys s).Nodup) (hf : FreshFrom B s) (hx : TempsBelow B x) :
    FreshFrom B (dstep s x) := by
  intro i hi
  rw [get?_dstep_other s x _ hn (fun hm => by have := hx i hm; omega)]
  exact hf i hi

theorem tempsBelow_torn (B : Nat) (n : DName) (v : V) (h : TempsBelow B (DSys.writeOut n v)) : TempsBelow B (DSys.tornOut n : DSys V) := h
theorem tempsBelow_tornIn (B : Nat) (n : DName) (h : TempsBelow B (DSys.writeIn n : DSys V)) : TempsBelow B (DSys.tornIn n : DSys V) := h

/-- crash states keep distinct names and fresh staging names -/
theorem crash_states_inv (B : Nat) (prog : List (DSys V)) (s : DirFS V) (hn : (keys s).Nodup) (hf : FreshFrom B s)
    (hp : ∀ x ∈ prog, TempsBelow B x) :
    ∀ c ∈ dirCrashStates s prog, (keys c).Nodup ∧ FreshFrom B c := by
  induction prog generalizing s with
  | nil => intro c hc; simp only [dirCrashStates, List.mem_singleton] at hc; subst hc; exact ⟨hn, hf⟩
  | cons x xs ih =>
    intro c hc
    simp only [dirCrashStates, List.mem_cons, List.mem_append] at hc
    have hx := hp x List.mem_cons_self
    rcases hc with (rfl | hc) | hc
    · exact ⟨hn, hf⟩
    · cases x <;> simp only [List.mem_singleton, List.not_mem_nil] at hc
      · subst hc; exact ⟨nodup_dstep _ _ hn, fresh_dstep B s _ hn hf (tempsBelow_torn B _ _ hx)⟩
      · subst hc; exact ⟨nodup_dstep _ _ hn, fresh_dstep B s _ hn hf (tempsBelow_tornIn B _ hx)⟩
    · exact ih (dstep s x) (nodup_dstep _ _ hn) (fresh_dstep B s x hn hf hx) (fun y hy => hp y (List.mem_cons_of_mem _ hy)) c hc

/-- a name that is an entry or one of the two staging names of the action -/
def NameOK (next : Nat) (m : DName) : Prop := (∃ k, m = .key k) ∨ m = .temp next ∨ m = .temp (next + 1)

theorem rmProg_names (ip : Bool) (s : DirFS V) (n : DName) : ∀ x ∈ rmProg ip s n, ∀ m ∈ sysNames x, m = n := by
  intro x hx m hm
  unfold rmProg at hx
  split at hx
  · simp at hx
  · simp only [List.mem_append, List.mem_singleton] at hx
    rcases hx with hx | rfl
    · split at hx <;> simp only [List.mem_append] at hx <;> rcases hx with hx | hx <;> split at hx <;>
        simp only [List.mem_singleton, List.not_mem_nil] at hx <;> subst hx <;> simpa [sysNames] using hm
    · simpa [sysNames] using hm

theorem removeProg_names (ip : Bool) (s : DirFS V) (n t : DName) :
    ∀ x ∈ removeProg true ip s n t, ∀ m ∈ sysNames x, m = n ∨ m = t := by
  intro x hx m hm
  simp only [removeProg, if_true, List.mem_cons] at hx
  rcases hx with rfl | hx
  · simpa [sysNames] using hm
  · exact Or.inr (rmProg_names ip _ t x hx m hm)

theorem stageProg_names (ni : Bool) (t : DName) (v : V) : ∀ x ∈ stageProg ni t v, ∀ m ∈ sysNames x, m = t := by
  intro x hx m hm
  simp only [stageProg, List.mem_append, List.mem_cons, List.mem_nil_iff, or_false] at hx
  rcases hx with (rfl | rfl | rfl) | hx
  · simpa [sysNames] using hm
  · simpa [sysNames] using hm
  · simpa [sysNames] using hm
  · split at hx
    · simp only [List.mem_cons, List.mem_nil_iff, or_false] at hx
      rcases hx with rfl | rfl <;> simpa [sysNames] using hm
    · simp at hx

theorem actProg_names (ip : Bool) (s : DirFS V) (next : Nat) (a : DAct V) :
    ∀ x ∈ actProg true ip s next a, ∀ m ∈ sysNames x, NameOK next m := by
  intro x hx m hm
  cases a with
  | store n ni v =>
    simp only [actProg, storeProg, List.mem_append, List.mem_singleton] at hx
    rcases hx with (hx | hx) | rfl
    · right; left; exact stageProg_names ni _ v x hx m hm
    · rcases removeProg_names ip _ _ _ x hx m hm with h | h
      · left; exact ⟨n, h⟩
      · right; right; exact h
    · simp only [sysNames, List.mem_cons, List.mem_nil_iff, or_false] at hm
      rcases hm with rfl | rfl
      · right; left; rfl
      · left; exact ⟨n, rfl⟩
  | remove n =>
    simp only [actProg] at hx
    rcases removeProg_names ip _ _ _ x hx m hm with h | h
    · left; exact ⟨n, h⟩
    · right; left; exact h

theorem actsProg_tempsBelow (ip : Bool) (acts : List (DAct V)) (s : DirFS V) (next : Nat) :
    ∀ x ∈ actsProg true ip s next acts, TempsBelow (next + 2 * acts.length) x := by
  induction acts generalizing s next with
  | nil => intro x hx; simp [actsProg] at hx
  | cons a as ih =>
    intro x hx i hi
    simp only [actsProg, List.mem_append] at hx
    rcases hx with hx | hx
    · rcases actProg_names ip s next a x hx _ hi with ⟨k, h⟩ | h | h
      · cases h
      · cases h; simp only [List.length_cons]; omega
      · cases h; simp only [List.length_cons]; omega
    · have := ih _ (next + 2) x hx i hi
      simp only [List.length_cons]; omega

/-- **a crash, and then another one**: a second operation on what a killed writer left behind - itself killed at any
point - leaves a readable archive in which every name reads as after the first crash, or as the second operation allows. -/
theorem C13_dir_crash_again (ip : Bool) (acts₁ acts₂ : List (DAct V)) (s0 : DirFS V) (next : Nat)
    (hn : (keys s0).Nodup) (hf : FreshFrom next s0) (hr : Readable true s0)
    (c₁ : DirFS V) (h₁ : c₁ ∈ dirCrashStates s0 (actsProg true ip s0 next acts₁))
    (c₂ : DirFS V) (h₂ : c₂ ∈ dirCrashStates c₁ (actsProg true ip c₁ (next + 2 * acts₁.length) acts₂)) :
    Readable true c₂ ∧ (∀ n, allowed c₁ acts₂ n (valAt true c₂ n)) ∧ (∀ n, allowed s0 acts₁ n (valAt true c₁ n)) := by
  have hfB : FreshFrom (next + 2 * acts₁.length) s0 := freshFrom_mono (Nat.le_add_right _ _) _ hf
  obtain ⟨hn₁, hf₁⟩ := crash_states_inv (next + 2 * acts₁.length) _ s0 hn hfB (actsProg_tempsBelow ip acts₁ s0 next) c₁ h₁
  obtain ⟨hr₁, ha₁⟩ := C13_dir_partial ip acts₁ s0 next hn hf hr c₁ h₁
  obtain ⟨hr₂, ha₂⟩ := C13_dir_partial ip acts₂ c₁ _ hn₁ hf₁ hr₁ c₂ h₂
  exact ⟨hr₂, ha₂, ha₁⟩

/-- non-vacuity: `del d['a']` killed right after the rename-aside (the old entry sits in the staging directory `temp 0`),
then `d['a'] = 2` killed after staging: both memberships hold, and the fresh view has no `'a'` -/
example :
    let s0 : DirFS Nat := [(.key "a", { out := some (.full 1), inp := none })]
    let c₁ : DirFS Nat := [(.temp 0, { out := some (.full 1), inp := none })]
    let c₂ : DirFS Nat := [(.temp 0, { out := some (.full 1), inp := none }), (.temp 2, { out := some (.full 2), inp := none })]
    c₁ ∈ dirCrashStates s0 (actsProg true false s0 0 [.remove "a"]) ∧
    c₂ ∈ dirCrashStates c₁ (actsProg true false c₁ 2 [.store "a" false 2]) ∧ valAt true c₂ (.key "a") = none := by
  decide

end Klepto.C13
