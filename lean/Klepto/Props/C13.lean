import Klepto.Lemmas.FS
import Klepto.Lemmas.BackendSql
/-!
# C13 — Crash atomicity of archive writes

Model M8 (`Model/FS.lean`): the write protocols as programs of mutating system calls; a crash is any
prefix (plus a torn version of the next write); `fileRecover` / `valAt`+`Readable` / `sqlDict` are what
a fresh process reads.  Everything below quantifies over **all** prior contents, keys, values,
staging names and crash points of the modelled programs; suite `fs` ties the programs and the
recovered views to the code by killing the real writer before every gated system call.

* `file_archive` (after fix F18, `os.replace`): every crash state reads as the old or the new dict —
  for every operation, since every mutating method is one `__save__` (`C13_file_save`, `C13_file_op`).
  `C13_file_window_before_fix`: the removed `unlink(target)` left a state that reads as `{}`.
* `dir_archive` (after fixes F19: staging directories hidden, entries renamed aside before removal):
  `C13_dir`: for any sequence of entry stores and removals (`__setitem__`, `update`, `dump`, `pop`,
  `__delitem__`, `popkeys`, `popitem`, `clear`), in every crash state a fresh reader does not fail, an
  untouched entry reads as before, and a touched entry reads as before, or as one of the values
  being stored, or — **the `_partial` part** — as absent.  For removals and for keys that were
  absent before, "absent" is the old or the new state, so those operations are atomic as the
  property demands (`C13_dir_remove_atomic`, `C13_dir_new_key_atomic`).  For an overwrite it is not:
  `C13_dir_overwrite_gap` is the witness (known finding F19b: the old entry is renamed away before the
  new one is renamed in).
* sqlite: statements are committed one by one; a kill leaves a prefix (`C13_sql_set`, `C13_sql_del`).
-/
namespace Klepto.C13
open Klepto AMap Crash
set_option linter.unusedSectionVars false

/-! ## `file_archive` -/
section File
variable {C : Type}

/-- **every crash state of `__save__(memo)` reads as the previous contents or as `memo`** (the code
after F18: temp file, then one atomic `rename`); `t` is the fresh temp name -/
theorem C13_file_save (emptyD : C) (fs : FileFS C) (t : Nat) (memo : C) :
    ∀ st ∈ fileCrashStates fs (saveProg true t memo),
      fileRecover emptyD st = fileRecover emptyD fs ∨ fileRecover emptyD st = memo := by
  intro st hst
  simp only [saveProg, fileCrashStates, List.cons_append, List.nil_append, List.mem_cons,
    List.mem_append, List.mem_nil_iff, or_false, if_true] at hst
  have hput : get? (put fs.temps t (FileSt.full memo)) t = some (FileSt.full memo) := by simp [get?_put]
  have hhas : has (put fs.temps t (FileSt.empty : FileSt C)) t = true := by simp [has_put]
  rcases hst with rfl | rfl | rfl | rfl | rfl
  · exact Or.inl rfl
  · exact Or.inl rfl
  · exact Or.inl (by simp [fstep, fileRecover, hhas])
  · exact Or.inl (by simp [fstep, fileRecover, hhas])
  · right
    simp only [fstep, hhas, if_true]
    have : get? (put (put fs.temps t FileSt.empty) t (FileSt.full memo)) t = some (FileSt.full memo) := by simp [get?_put]
    simp [this, fileRecover]

/-- every mutating method of `file_archive` is `memo = __asdict__(); <dict operation>; __save__(memo)`:
killed anywhere, a fresh reader finds the contents before the operation or the contents after it -/
theorem C13_file_op {K V : Type} [DecidableEq K] (c : Backend.Codec K V) (old : List (K × V)) (op : Backend.Op K V)
    (junk : List (Nat × FileSt (List (K × V)))) (t : Nat) :
    let new := (Backend.dictStep old op).1
    ∀ st ∈ fileCrashStates { target := some (.full old), temps := junk } (saveProg true t new),
      fileRecover [] st = old ∨ fileRecover [] st = new := by
  intro new st hst
  have := C13_file_save ([] : List (K × V)) { target := some (.full old), temps := junk } t new st hst
  simpa [fileRecover] using this

/-- before fix F18 (`os.remove(target)` then `os.renames(temp, target)`): killed between the two, the
archive is gone and a fresh handle re-creates it empty — every entry lost -/
theorem C13_file_window_before_fix :
    ∃ st ∈ fileCrashStates ({ target := some (.full [(1, 10), (2, 20)]), temps := [] } : FileFS (List (Nat × Nat)))
        (saveProg false 0 [(1, 10), (2, 20), (3, 30)]),
      fileRecover [] st = [] := by
  refine ⟨{ target := none, temps := [(0, .full [(1, 10), (2, 20), (3, 30)])] }, ?_, rfl⟩
  decide

end File

/-! ## `dir_archive` -/
section Dir
variable {V : Type}

/-- a fresh reader does not fail, and reads under every name a value allowed by `A` -/
def Within (A : DName → Option V → Prop) (s : DirFS V) : Prop :=
  Readable true s ∧ ∀ n, A n (valAt true s n)

theorem within_congr (A : DName → Option V → Prop) (s s' : DirFS V) (h : VisEq s s') (hw : Within A s) : Within A s' :=
  ⟨readable_congr h hw.1, fun n => by rw [← valAt_congr h n]; exact hw.2 n⟩

/-- no staging name from `next` on is in use (names are random md5 digests in the code) -/
def FreshFrom (next : Nat) (s : DirFS V) : Prop := ∀ i, next ≤ i → get? s (.temp i) = none

/-! ### the three visible steps: rename aside, delete from the staging name, rename in -/

theorem get?_rename (s : DirFS V) (a b : DName) (d : DDir V) (hn : (keys s).Nodup) (ha : get? s a = some d)
    (hb : get? s b = none) (m : DName) :
    get? (dstep s (.rename a b)) m = if m = b then some d else if m = a then none else get? s m := by
  simp only [dstep, ha, hb]
  rw [get?_put, get?_erase _ _ _ hn]

theorem rename_absent (s : DirFS V) (a b : DName) (ha : get? s a = none) : dstep s (.rename a b) = s := by
  simp [dstep, ha]

theorem get?_unlinkOut (s : DirFS V) (n m : DName) :
    get? (dstep s (.unlinkOut n)) m = if m = n then (get? s n).map (fun d => { d with out := none }) else get? s m := by
  simp [dstep, get?_upd]

theorem get?_unlinkIn (s : DirFS V) (n m : DName) :
    get? (dstep s (.unlinkIn n)) m = if m = n then (get? s n).map (fun d => { d with inp := none }) else get? s m := by
  simp [dstep, get?_upd]

theorem get?_rmdir (s : DirFS V) (n m : DName) (hn : (keys s).Nodup) :
    get? (dstep s (.rmdir n)) m = if m = n then
        (match get? s n with | some d => if d.out.isNone && d.inp.isNone then none else some d | none => none)
      else get? s m := by
  simp only [dstep]
  cases hg : get? s n with
  | none => by_cases h : m = n <;> simp [h, hg]
  | some d =>
    by_cases hd : (d.out.isNone && d.inp.isNone) = true
    · simp only [hd, if_true]; rw [get?_erase _ _ _ hn]
    · simp only [hd]; by_cases h : m = n <;> simp [h, hg]

/-- `rmtree` of a directory removes it, whatever files it holds, and nothing else -/
theorem drun_rmProg (ip : Bool) (s : DirFS V) (n : DName) (hn : (keys s).Nodup) (m : DName) :
    get? (drun s (rmProg ip s n)) m = if m = n then none else get? s m := by
  unfold rmProg
  cases hg : get? s n with
  | none => by_cases h : m = n <;> simp [drun, h, hg]
  | some d =>
    obtain ⟨o, i⟩ := d
    have n1 := nodup_dstep s (.unlinkOut n) hn
    have n2 := nodup_dstep s (.unlinkIn n) hn
    have n3 := nodup_dstep _ (.unlinkIn n) n1
    have n4 := nodup_dstep _ (.unlinkOut n) n2
    by_cases h : m = n
    · subst h
      cases o <;> cases i <;> cases ip <;>
        simp [drun, get?_rmdir, get?_unlinkOut, get?_unlinkIn, hn, n1, n2, n3, n4, hg]
    · cases o <;> cases i <;> cases ip <;>
        simp [drun, get?_rmdir, get?_unlinkOut, get?_unlinkIn, hn, n1, n2, n3, n4, hg, h]

theorem rmProg_tempOnly (ip : Bool) (s : DirFS V) (i : Nat) : ∀ x ∈ rmProg ip s (.temp i), TempOnly x := by
  unfold rmProg
  cases get? s (.temp i) with
  | none => simp
  | some d =>
    obtain ⟨o, inp⟩ := d
    intro x hx
    cases o <;> cases inp <;> cases ip <;> simp at hx <;> (try rcases hx with h | h | h) <;>
      (try rcases hx with h | h) <;> (try subst h) <;> (try subst hx) <;> simp [TempOnly]

theorem stageProg_tempOnly (ni : Bool) (i : Nat) (v : V) : ∀ x ∈ stageProg ni (.temp i) v, TempOnly x := by
  intro x hx
  cases ni <;> simp [stageProg] at hx <;> rcases hx with h | h | h | h | h <;> simp_all [TempOnly]

/-- what `_store` has staged: a complete entry under the staging name, nothing else changed -/
theorem drun_stageProg (ni : Bool) (s : DirFS V) (i : Nat) (v : V) (hf : get? s (.temp i) = none) (m : DName) :
    get? (drun s (stageProg ni (.temp i) v)) m =
      if m = .temp i then some { out := some (.full v), inp := if ni then some (.full ()) else none } else get? s m := by
  have hh : has s (.temp i) = false := by simp [has, hf]
  cases ni <;> simp [stageProg, drun, dstep, upd, hh, get?_put] <;> (by_cases h : m = .temp i <;> simp [h])

/-! ### one action -/

/-- what `A` must allow for an action: the absent state and, for a store, the stored value -/
def ClosedFor (A : DName → Option V → Prop) : DAct V → Prop
  | .store n _ v => A (.key n) none ∧ A (.key n) (some v)
  | .remove n => A (.key n) none

theorem readable_of_subset (s s' : DirFS V)
    (h : ∀ m d, get? s' (.key m) = some d → get? s (.key m) = some d ∨ d.value.isSome = true) (hr : Readable true s) :
    Readable true s' := by
  intro n d hg hv
  cases n with
  | temp i => simp [visible] at hv
  | key m =>
    rcases h m d hg with h1 | h1
    · exact hr (.key m) d h1 hv
    · exact h1

/-- the state after renaming the entry aside: the name reads as absent, everything else as before -/
theorem within_rename_out (A : DName → Option V → Prop) (s : DirFS V) (n : String) (i : Nat)
    (hn : (keys s).Nodup) (hf : get? s (.temp i) = none) (hw : Within A s) (hA : A (.key n) none) :
    Within A (dstep s (.rename (.key n) (.temp i))) := by
  cases hg : get? s (.key n) with
  | none => rw [rename_absent s _ _ hg]; exact hw
  | some d =>
    have hget := get?_rename s (.key n) (.temp i) d hn hg hf
    refine ⟨readable_of_subset s _ (fun m e he => ?_) hw.1, fun x => ?_⟩
    · rw [hget] at he
      by_cases hm : m = n
      · subst hm; simp at he
      · left; simpa [hm] using he
    · cases x with
      | temp j => simpa [valAt, visible] using hw.2 (.temp j)
      | key m =>
        by_cases hm : m = n
        · subst hm; simp [valAt, visible, hget]; exact hA
        · have := hw.2 (.key m)
          simp only [valAt, visible, if_true] at this ⊢
          rw [hget]; simpa [hm] using this

/-- **one entry store or removal**: in every crash state a fresh reader stays within `A`; afterwards
the disk is again within `A`, with distinct names and the staging names free -/
theorem act_crash (A : DName → Option V → Prop) (ip : Bool) (s : DirFS V) (next : Nat) (act : DAct V)
    (hn : (keys s).Nodup) (hf : FreshFrom next s) (hw : Within A s) (hc : ClosedFor A act) :
    AllCrash (Within A) s (actProg true ip s next act) ∧ Within A (drun s (actProg true ip s next act)) ∧
    (keys (drun s (actProg true ip s next act))).Nodup ∧ FreshFrom next (drun s (actProg true ip s next act)) := by
  have hcong := within_congr A
  cases act with
  | remove n =>
    simp only [actProg, removeProg, if_true]
    -- rename aside, then delete from the staging name
    have hft := hf next (Nat.le_refl _)
    obtain ⟨s1, hs1⟩ : ∃ x, x = dstep s (.rename (.key n) (.temp next)) := ⟨_, rfl⟩
    have hn1 : (keys s1).Nodup := by rw [hs1]; exact nodup_dstep s _ hn
    have hw1 : Within A s1 := by rw [hs1]; exact within_rename_out A s n next hn hft hw hc
    obtain ⟨hrm, hveq⟩ := allCrash_of_tempOnly (Within A) hcong s1 (rmProg ip s1 (.temp next))
      (rmProg_tempOnly ip s1 next) hn1 hw1
    have hfinal : ∀ i, next ≤ i → get? (drun s1 (rmProg ip s1 (.temp next))) (.temp i) = none := by
      intro i hi
      rw [drun_rmProg ip s1 (.temp next) hn1 (.temp i)]
      by_cases hin : i = next
      · simp [hin]
      · have hne : (DName.temp i) ≠ .temp next := by simpa using hin
        simp only [hne, if_false]
        cases hg : get? s (.key n) with
        | none => rw [hs1, rename_absent s _ _ hg]; exact hf i hi
        | some d => rw [hs1, get?_rename s _ _ d hn hg hft]; simp [hne, hf i hi]
    have hw2 := hcong _ _ hveq.symm hw1
    have hn2 := nodup_drun s1 (rmProg ip s1 (.temp next)) hn1
    subst hs1
    exact ⟨⟨hw, trivial, hrm⟩, by simpa [drun] using hw2, by simpa [drun] using hn2,
      fun i hi => by simpa [drun] using hfinal i hi⟩
  | store n ni v =>
    obtain ⟨hAn, hAv⟩ := hc
    simp only [actProg, storeProg, removeProg, if_true]
    have hft0 := hf next (Nat.le_refl _)
    have hft1 := hf (next + 1) (Nat.le_succ _)
    -- 1. staging: invisible
    obtain ⟨hst, hveq0⟩ := allCrash_of_tempOnly (Within A) hcong s (stageProg ni (.temp next) v)
      (stageProg_tempOnly ni next v) hn hw
    obtain ⟨s0, hs0⟩ : ∃ x, x = drun s (stageProg ni (.temp next) v) := ⟨_, rfl⟩
    have hn0 : (keys s0).Nodup := by rw [hs0]; exact nodup_drun s _ hn
    have hg0 : ∀ m, get? s0 m = if m = .temp next then some { out := some (.full v), inp := if ni then some (.full ()) else none } else get? s m := by
      rw [hs0]; exact drun_stageProg ni s next v hft0
    have hw0 : Within A s0 := by rw [hs0]; exact hcong _ _ hveq0.symm hw
    have hft1' : get? s0 (.temp (next + 1)) = none := by rw [hg0]; simp [hft1]
    -- 2. rename the old entry aside, delete it from there
    obtain ⟨s1, hs1⟩ : ∃ x, x = dstep s0 (.rename (.key n) (.temp (next + 1))) := ⟨_, rfl⟩
    have hn1 : (keys s1).Nodup := by rw [hs1]; exact nodup_dstep s0 _ hn0
    have hw1 : Within A s1 := by rw [hs1]; exact within_rename_out A s0 n (next + 1) hn0 hft1' hw0 hAn
    obtain ⟨hrm, hveq1⟩ := allCrash_of_tempOnly (Within A) hcong s1 (rmProg ip s1 (.temp (next + 1)))
      (rmProg_tempOnly ip s1 (next + 1)) hn1 hw1
    obtain ⟨s2, hs2⟩ : ∃ x, x = drun s1 (rmProg ip s1 (.temp (next + 1))) := ⟨_, rfl⟩
    have hn2 : (keys s2).Nodup := by rw [hs2]; exact nodup_drun s1 _ hn1
    have hw2 : Within A s2 := by rw [hs2]; exact hcong _ _ hveq1.symm hw1
    have hg2 : ∀ m, get? s2 m = if m = .temp (next + 1) then none else get? s1 m := by
      rw [hs2]; exact drun_rmProg ip s1 (.temp (next + 1)) hn1
    -- facts about s1 and s2
    have hs1get : ∀ m, get? s1 m = if m = .temp (next + 1) then get? s0 (.key n) else if m = .key n then none else get? s0 m := by
      intro m
      cases hg : get? s0 (.key n) with
      | none =>
        rw [hs1, rename_absent s0 _ _ hg]
        by_cases h1 : m = .temp (next + 1)
        · simp [h1, hft1']
        · by_cases h2 : m = .key n
          · simp [h2, hg]
          · simp [h1, h2]
      | some d => rw [hs1, get?_rename s0 _ _ d hn0 hg hft1']
    have hkey2 : get? s2 (.key n) = none := by rw [hg2, hs1get]; simp
    have htmp2 : get? s2 (.temp next) = some { out := some (.full v), inp := if ni then some (.full ()) else none } := by
      rw [hg2, hs1get]; simp [hg0]
    -- 3. rename the staged entry in
    have hget3 := get?_rename s2 (.temp next) (.key n) _ hn2 htmp2 hkey2
    have hw3 : Within A (dstep s2 (.rename (.temp next) (.key n))) := by
      refine ⟨readable_of_subset s2 _ (fun m e he => ?_) hw2.1, fun x => ?_⟩
      · rw [hget3] at he
        by_cases hm : m = n
        · subst hm; simp at he; subst he; right; cases ni <;> rfl
        · left; simpa [hm] using he
      · cases x with
        | temp j => simpa [valAt, visible] using hw2.2 (.temp j)
        | key m =>
          by_cases hm : m = n
          · subst hm
            have : valAt true (dstep s2 (.rename (.temp next) (.key m))) (.key m) = some v := by
              simp only [valAt, visible, if_true, hget3]; cases ni <;> rfl
            rw [this]; exact hAv
          · have := hw2.2 (.key m)
            simp only [valAt, visible, if_true] at this ⊢
            rw [hget3]; simpa [hm] using this
    have hfresh3 : ∀ i, next ≤ i → get? (dstep s2 (.rename (.temp next) (.key n))) (.temp i) = none := by
      intro i hi
      rw [hget3]
      have hne0 : (DName.temp i) ≠ .key n := by simp
      by_cases h0 : i = next
      · subst h0; simp
      · have hne1 : (DName.temp i) ≠ .temp next := by simpa using h0
        simp only [hne0, hne1, if_false]
        rw [hg2, hs1get]
        by_cases h1 : i = next + 1
        · simp [h1]
        · have hne2 : (DName.temp i) ≠ .temp (next + 1) := by simpa using h1
          simp only [hne2, if_false, hne0]
          rw [hg0]; simp [hne1, hf i hi]
    have hn3 := nodup_dstep s2 (.rename (.temp next) (.key n)) hn2
    have hmid : AllCrash (Within A) s0 (DSys.rename (.key n) (.temp (next + 1)) :: rmProg ip s1 (.temp (next + 1))) := by
      refine ⟨hw0, trivial, ?_⟩; rw [← hs1]; exact hrm
    have hlast : AllCrash (Within A) s2 [DSys.rename (.temp next) (.key n)] := ⟨hw2, trivial, hw3⟩
    have hprog : drun s (stageProg ni (.temp next) v ++ (DSys.rename (.key n) (.temp (next + 1)) :: rmProg ip s1 (.temp (next + 1))) ++
        [DSys.rename (.temp next) (.key n)]) = dstep s2 (.rename (.temp next) (.key n)) := by
      rw [drun_append, drun_append, ← hs0]
      simp only [drun, List.foldl_cons, List.foldl_nil, ← hs1]
      rw [show List.foldl dstep s1 (rmProg ip s1 (.temp (next + 1))) = s2 from hs2.symm]
    have hall : AllCrash (Within A) s (stageProg ni (.temp next) v ++ (DSys.rename (.key n) (.temp (next + 1)) :: rmProg ip s1 (.temp (next + 1))) ++
        [DSys.rename (.temp next) (.key n)]) := by
      apply allCrash_append _ _ _ _ (allCrash_append _ _ _ _ hst (by rw [← hs0]; exact hmid))
      rw [drun_append, ← hs0]
      simp only [drun, List.foldl_cons, ← hs1]
      rw [show List.foldl dstep s1 (rmProg ip s1 (.temp (next + 1))) = s2 from hs2.symm]
      exact hlast
    rw [hs1, hs0] at hall hprog
    exact ⟨hall, by rw [hprog]; exact hw3, by rw [hprog]; exact hn3, fun i hi => by rw [hprog]; exact hfresh3 i hi⟩

/-! ### what a completed action leaves: the disk model (M8) implements the mapping model (M7) -/

/-- **a completed `_store(n, v)` reads as `contents[n] = v`**: afterwards the entry `n` holds `v` and every
other entry is as before — the view-level meaning of M7's `dirStore` (`View.put`) -/
theorem store_final (ip : Bool) (s : DirFS V) (next : Nat) (n : String) (ni : Bool) (v : V)
    (hn : (keys s).Nodup) (hf : FreshFrom next s) (m : String) :
    valAt true (drun s (actProg true ip s next (.store n ni v))) (.key m) =
      if m = n then some v else valAt true s (.key m) := by
  simp only [actProg, storeProg, removeProg, if_true]
  have hft0 := hf next (Nat.le_refl _)
  have hft1 := hf (next + 1) (Nat.le_succ _)
  obtain ⟨s0, hs0⟩ : ∃ x, x = drun s (stageProg ni (.temp next) v) := ⟨_, rfl⟩
  have hn0 : (keys s0).Nodup := by rw [hs0]; exact nodup_drun s _ hn
  have hg0 : ∀ x, get? s0 x = if x = .temp next then some { out := some (.full v), inp := if ni then some (.full ()) else none } else get? s x := by
    rw [hs0]; exact drun_stageProg ni s next v hft0
  have hft1' : get? s0 (.temp (next + 1)) = none := by rw [hg0]; simp [hft1]
  obtain ⟨s1, hs1⟩ : ∃ x, x = dstep s0 (.rename (.key n) (.temp (next + 1))) := ⟨_, rfl⟩
  have hn1 : (keys s1).Nodup := by rw [hs1]; exact nodup_dstep s0 _ hn0
  obtain ⟨s2, hs2⟩ : ∃ x, x = drun s1 (rmProg ip s1 (.temp (next + 1))) := ⟨_, rfl⟩
  have hn2 : (keys s2).Nodup := by rw [hs2]; exact nodup_drun s1 _ hn1
  have hg2 : ∀ x, get? s2 x = if x = .temp (next + 1) then none else get? s1 x := by
    rw [hs2]; exact drun_rmProg ip s1 (.temp (next + 1)) hn1
  have hs1get : ∀ x, get? s1 x = if x = .temp (next + 1) then get? s0 (.key n) else if x = .key n then none else get? s0 x := by
    intro x
    cases hg : get? s0 (.key n) with
    | none =>
      rw [hs1, rename_absent s0 _ _ hg]
      by_cases h1 : x = .temp (next + 1)
      · simp [h1, hft1']
      · by_cases h2 : x = .key n
        · simp [h2, hg]
        · simp [h1, h2]
    | some d => rw [hs1, get?_rename s0 _ _ d hn0 hg hft1']
  have hkey2 : get? s2 (.key n) = none := by rw [hg2, hs1get]; simp
  have htmp2 : get? s2 (.temp next) = some { out := some (.full v), inp := if ni then some (.full ()) else none } := by
    rw [hg2, hs1get]; simp [hg0]
  have hget3 := get?_rename s2 (.temp next) (.key n) _ hn2 htmp2 hkey2
  have hprog : drun s (stageProg ni (.temp next) v ++ (DSys.rename (.key n) (.temp (next + 1)) :: rmProg ip s1 (.temp (next + 1))) ++
      [DSys.rename (.temp next) (.key n)]) = dstep s2 (.rename (.temp next) (.key n)) := by
    rw [drun_append, drun_append, ← hs0]
    simp only [drun, List.foldl_cons, List.foldl_nil, ← hs1]
    rw [show List.foldl dstep s1 (rmProg ip s1 (.temp (next + 1))) = s2 from hs2.symm]
  rw [hs1, hs0] at hprog
  rw [hprog]
  simp only [valAt, visible, if_true, hget3]
  by_cases hm : m = n
  · subst hm; simp; cases ni <;> rfl
  · simp only [hm, if_false]
    have : (DName.key m) ≠ .key n := by simpa using hm
    simp only [this, if_false]
    rw [hg2, hs1get]; simp [this, hg0]

/-- **a completed `_rmdir(n)` reads as `del contents[n]`** (M7's `dirRm`: `View.del`) -/
theorem remove_final (ip : Bool) (s : DirFS V) (next : Nat) (n : String)
    (hn : (keys s).Nodup) (hf : FreshFrom next s) (m : String) :
    valAt true (drun s (actProg true ip s next (.remove n))) (.key m) =
      if m = n then none else valAt true s (.key m) := by
  simp only [actProg, removeProg, if_true]
  have hft := hf next (Nat.le_refl _)
  obtain ⟨s1, hs1⟩ : ∃ x, x = dstep s (.rename (.key n) (.temp next)) := ⟨_, rfl⟩
  have hn1 : (keys s1).Nodup := by rw [hs1]; exact nodup_dstep s _ hn
  have hfin := drun_rmProg ip s1 (.temp next) hn1 (.key m)
  have hs1get : get? s1 (.key m) = if m = n then none else get? s (.key m) := by
    cases hg : get? s (.key n) with
    | none =>
      rw [hs1, rename_absent s _ _ hg]
      by_cases hm : m = n
      · subst hm; simp [hg]
      · simp [hm]
    | some d =>
      rw [hs1, get?_rename s _ _ d hn hg hft]
      by_cases hm : m = n
      · subst hm; simp
      · have : (DName.key m) ≠ .key n := by simpa using hm
        simp [hm, this]
  have : drun s (DSys.rename (.key n) (.temp next) :: rmProg ip s1 (.temp next)) = drun s1 (rmProg ip s1 (.temp next)) := by
    simp [drun, hs1]
  rw [hs1] at this
  rw [this, ← hs1]
  simp only [valAt, visible, if_true, hfin]
  simp only [reduceCtorEq, if_false, hs1get]
  by_cases hm : m = n <;> simp [hm]

/-! ### sequences of actions: `update`, `dump`, `clear`, `popkeys` -/

theorem freshFrom_mono {a b : Nat} (h : a ≤ b) (s : DirFS V) (hf : FreshFrom a s) : FreshFrom b s :=
  fun i hi => hf i (Nat.le_trans h hi)

theorem acts_crash (A : DName → Option V → Prop) (ip : Bool) (acts : List (DAct V)) (s : DirFS V) (next : Nat)
    (hn : (keys s).Nodup) (hf : FreshFrom next s) (hw : Within A s) (hc : ∀ a ∈ acts, ClosedFor A a) :
    AllCrash (Within A) s (actsProg true ip s next acts) := by
  induction acts generalizing s next with
  | nil => exact hw
  | cons a as ih =>
    obtain ⟨h1, h2, h3, h4⟩ := act_crash A ip s next a hn hf hw (hc a (by simp))
    simp only [actsProg]
    exact allCrash_append _ _ _ _ h1
      (ih _ (next + 2) h3 (freshFrom_mono (Nat.le_add_right _ _) _ h4) h2 (fun b hb => hc b (List.mem_cons_of_mem _ hb)))

/-- the names an operation touches, and the values it stores under a name -/
def touches (acts : List (DAct V)) (n : String) : Prop :=
  ∃ a ∈ acts, (∃ ni v, a = .store n ni v) ∨ a = .remove n

def storesVal (acts : List (DAct V)) (n : String) (v : V) : Prop := ∃ ni, DAct.store n ni v ∈ acts

/-- the allowed readings: as before the operation; or, for a touched name, one of the values being
stored — or absent -/
def allowed (s0 : DirFS V) (acts : List (DAct V)) (n : DName) (o : Option V) : Prop :=
  o = valAt true s0 n ∨ ∃ m, n = .key m ∧ touches acts m ∧ (o = none ∨ ∃ v, storesVal acts m v ∧ o = some v)

/-- **C13 for `dir_archive`, every operation, every crash point** (`_partial`: a touched name may
also read as absent — exact for removals and for names that were absent, see below) -/
theorem C13_dir_partial (ip : Bool) (acts : List (DAct V)) (s0 : DirFS V) (next : Nat)
    (hn : (keys s0).Nodup) (hf : FreshFrom next s0) (hr : Readable true s0) :
    ∀ c ∈ dirCrashStates s0 (actsProg true ip s0 next acts),
      Readable true c ∧ ∀ n, allowed s0 acts n (valAt true c n) := by
  have := acts_crash (allowed s0 acts) ip acts s0 next hn hf ⟨hr, fun n => Or.inl rfl⟩ (by
    intro a ha
    cases a with
    | store n ni v =>
      exact ⟨Or.inr ⟨n, rfl, ⟨_, ha, Or.inl ⟨ni, v, rfl⟩⟩, Or.inl rfl⟩,
             Or.inr ⟨n, rfl, ⟨_, ha, Or.inl ⟨ni, v, rfl⟩⟩, Or.inr ⟨v, ⟨ni, ha⟩, rfl⟩⟩⟩
    | remove n => exact Or.inr ⟨n, rfl, ⟨_, ha, Or.inr rfl⟩, Or.inl rfl⟩)
  exact (allCrash_iff _ _ _).mp this

/-- untouched entries read exactly as before, and nothing that was never stored appears -/
theorem C13_dir_untouched (ip : Bool) (acts : List (DAct V)) (s0 : DirFS V) (next : Nat)
    (hn : (keys s0).Nodup) (hf : FreshFrom next s0) (hr : Readable true s0)
    (c : DirFS V) (hc : c ∈ dirCrashStates s0 (actsProg true ip s0 next acts)) (n : DName)
    (hu : ∀ m, n = .key m → ¬ touches acts m) : valAt true c n = valAt true s0 n := by
  rcases (C13_dir_partial ip acts s0 next hn hf hr c hc).2 n with h | ⟨m, hm, ht, _⟩
  · exact h
  · exact absurd ht (hu m hm)

/-- removals (`__delitem__`, `pop`, `popkeys`, `popitem`, `clear`) are atomic entry by entry: each
touched name reads as before or as absent (= its new state) -/
theorem C13_dir_remove_atomic (ip : Bool) (ns : List String) (s0 : DirFS V) (next : Nat)
    (hn : (keys s0).Nodup) (hf : FreshFrom next s0) (hr : Readable true s0)
    (c : DirFS V) (hc : c ∈ dirCrashStates s0 (actsProg true ip s0 next (ns.map DAct.remove))) (n : DName) :
    valAt true c n = valAt true s0 n ∨ valAt true c n = none := by
  rcases (C13_dir_partial ip _ s0 next hn hf hr c hc).2 n with h | ⟨m, _, _, h | ⟨v, ⟨ni, hv⟩, _⟩⟩
  · exact Or.inl h
  · exact Or.inr h
  · simp at hv

/-- storing under names that were absent (`__setitem__` of a new key, `update`/`dump` of new keys) is
atomic: each such name reads as absent (its old state) or as the value stored -/
theorem C13_dir_new_key_atomic (ip : Bool) (acts : List (DAct V)) (s0 : DirFS V) (next : Nat)
    (hn : (keys s0).Nodup) (hf : FreshFrom next s0) (hr : Readable true s0)
    (c : DirFS V) (hc : c ∈ dirCrashStates s0 (actsProg true ip s0 next acts)) (m : String)
    (hnew : valAt true s0 (.key m) = none) :
    valAt true c (.key m) = valAt true s0 (.key m) ∨ ∃ v, storesVal acts m v ∧ valAt true c (.key m) = some v := by
  rcases (C13_dir_partial ip acts s0 next hn hf hr c hc).2 (.key m) with h | ⟨m', hm', _, h | ⟨v, hv, h⟩⟩
  · exact Or.inl h
  · exact Or.inl (by rw [h, hnew])
  · cases hm'; exact Or.inr ⟨v, hv, h⟩

/-- the full statement for overwrites — every touched name reads old or new — is false of the code:
between the two renames the entry is absent (known finding F19b, replayed by suite `fs`) -/
theorem C13_dir_overwrite_gap :
    ∃ c ∈ dirCrashStates ([(.key "a", { out := some (.full 1), inp := none })] : DirFS Nat)
        (actsProg true false [(.key "a", { out := some (.full 1), inp := none })] 0 [.store "a" false 2]),
      valAt true c (.key "a") = none := by
  refine ⟨[(.temp 0, { out := some (.full 2), inp := none }), (.temp 1, { out := some (.full 1), inp := none })], ?_, by decide⟩
  decide

/-- before fix F19 a crash while staging left a listed directory a reader could not load -/
theorem C13_dir_phantom_before_fix :
    ∃ c ∈ dirCrashStates ([] : DirFS Nat) (storeProg false false false [] (.key "a") (.temp 0) (.temp 1) 5),
      ¬ Readable false c := by
  refine ⟨[(.temp 0, { out := none, inp := none })], by decide, ?_⟩
  intro h
  have := h (.temp 0) { out := none, inp := none } (by decide) (by decide)
  simp [DDir.value] at this

/-- non-vacuity: a populated archive meets the hypotheses of `C13_dir_partial` -/
example : (keys ([(.key "a", { out := some (.full 1), inp := none }), (.key "7", { out := some (.full 2), inp := some (.full ()) })] : DirFS Nat)).Nodup ∧
    FreshFrom 0 ([(.key "a", { out := some (.full 1), inp := none }), (.key "7", { out := some (.full 2), inp := some (.full ()) })] : DirFS Nat) ∧
    Readable true ([(.key "a", { out := some (.full 1), inp := none }), (.key "7", { out := some (.full 2), inp := some (.full ()) })] : DirFS Nat) := by
  refine ⟨by decide, fun i _ => by simp [get?], ?_⟩
  intro n d hg _
  simp only [get?] at hg
  split at hg
  · cases hg; rfl
  · split at hg
    · cases hg; rfl
    · cases hg

end Dir

/-! ## sqlite -/
section Sql
variable {K V : Type} [DecidableEq K]
open Backend

/-- `__setitem__` / `update` / `dump`: one committed insert per pair; killed anywhere, a fresh reader
sees some prefix of the inserts applied: every key has its old value or a value being stored, and a
key not named keeps its value -/
theorem C13_sql_set (rows : List (K × V)) (kvs : List (K × V)) :
    ∀ st ∈ sqlCrashStates rows (kvs.map fun p => SqlStmt.insert p.1 p.2),
      ∃ done, done <+: kvs ∧ sqlGet st = View.putAll (sqlGet rows) done := by
  induction kvs generalizing rows with
  | nil => intro st hst; simp [sqlCrashStates] at hst; subst hst; exact ⟨[], List.prefix_refl _, rfl⟩
  | cons p kvs ih =>
    intro st hst
    simp only [List.map_cons, sqlCrashStates, List.mem_cons] at hst
    rcases hst with rfl | hst
    · exact ⟨[], List.nil_prefix, rfl⟩
    · obtain ⟨done, hd, hv⟩ := ih _ st hst
      refine ⟨p :: done, List.prefix_cons_inj p |>.mpr hd, ?_⟩
      rw [hv]
      simp only [sqlExec, View.putAll, List.foldl_cons]
      rw [view_sqlInsertOk]

/-- `pop` / `__delitem__` / `popkeys` / `clear`: one committed delete per key; a kill leaves a prefix
of the deletes applied -/
theorem C13_sql_del (rows : List (K × V)) (ks : List K) :
    ∀ st ∈ sqlCrashStates rows (ks.map fun k => (SqlStmt.delete k : SqlStmt K V)),
      ∃ done, done <+: ks ∧ sqlGet st = done.foldl View.del (sqlGet rows) := by
  induction ks generalizing rows with
  | nil => intro st hst; simp [sqlCrashStates] at hst; subst hst; exact ⟨[], List.prefix_refl _, rfl⟩
  | cons k ks ih =>
    intro st hst
    simp only [List.map_cons, sqlCrashStates, List.mem_cons] at hst
    rcases hst with rfl | hst
    · exact ⟨[], List.nil_prefix, rfl⟩
    · obtain ⟨done, hd, hv⟩ := ih _ st hst
      refine ⟨k :: done, List.prefix_cons_inj k |>.mpr hd, ?_⟩
      rw [hv]
      simp only [sqlExec, List.foldl_cons]
      have : (rows.filter fun r => decide (r.1 ≠ k)) = sqlDelete rows k := rfl
      rw [this, view_sqlDelete]

end Sql
end Klepto.C13
