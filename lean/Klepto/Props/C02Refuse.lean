import Klepto.Props.Refuse
import Klepto.Props.C02
/-!
# C02 / C16 when the archive refuses a write-back (model M3F)

Whether - and how often - the function is evaluated does not depend on what the archive refuses: the
evaluation happens before the `# purge cache` block (`callF_evals`).  So C02's one-step statement holds of M3F
as it stands (`C02_refused_eval_iff`: all twelve wrappers, every archive), and so does C16's "never more than
once".
-/
namespace Klepto.C02
open Klepto AMap
set_option linter.unusedSectionVars false
variable {K V : Type} [DecidableEq K]

theorem finishF_evals (r : Refuse V) (cfg : Cfg) (s : St K V) (k : K) (v : V) (n : Nat) (vi : Option K) :
    evalsOf (finishF r cfg s k v n vi).2 = n := by
  unfold finishF; split
  · rfl
  · split <;> rfl

/-- the number of evaluations of a call is M3's, whatever the archive refuses (all twelve wrappers) -/
theorem callF_evals (r : Refuse V) (cfg : Cfg) (s : St K V) (ci : CallIn K V) :
    evalsOf (callF r cfg s ci).2 = evalsOf (call cfg s ci).2 := by
  unfold callF call
  split
  · unfold callNoF callNo
    cases ci.key with
    | genError e => rfl
    | unhashable e =>
      simp only
      cases cfg.safe with
      | false => rfl
      | true =>
        simp only [if_true]
        cases ci.fn with
        | error e => rfl
        | ok v => simp only; split <;> rfl
    | ok k =>
      simp only
      cases get? (s.c.preload k).mem k with
      | some v => rfl
      | none =>
        simp only
        cases ci.fn with
        | error e => rfl
        | ok v => simp only; split <;> rfl
  · unfold callCachedF callCached
    cases ci.key with
    | genError e => rfl
    | unhashable e => rfl
    | ok k =>
      simp only
      cases get? s.c.mem k with
      | some v => rfl
      | none =>
        simp only
        cases get? (s.c.preload k).mem k with
        | some v => simp only [loadStepF, loadStep, finishF_evals, C16.finish_evals, evalsOf]
        | none =>
          simp only
          cases ci.fn with
          | error e => rfl
          | ok v => simp only [missStepF, missStep, finishF_evals, C16.finish_evals, evalsOf]

/-- **the function is evaluated exactly when no stored result is retrievable - over every archive, whatever it
refuses** -/
theorem C02_refused_eval_iff (r : Refuse V) (cfg : Cfg) (s : St K V) (ci : CallIn K V) (k : K) (hk : ci.key = .ok k) :
    evalsOf (callF r cfg s ci).2 = if Retrievable s.c k then 0 else 1 := by
  rw [callF_evals]; exact C02_eval_iff cfg s ci k hk

end Klepto.C02

namespace Klepto.C16
open Klepto AMap
variable {K V : Type} [DecidableEq K]
/-- ... and never more than once, and an exception of the function leaves everything as it was (the archive is
not even asked to store anything) -/
theorem C16_refused_single_evaluation (r : Refuse V) (cfg : Cfg) (s : St K V) (ci : CallIn K V) :
    evalsOf (callF r cfg s ci).2 ≤ 1 := by
  have h := C02.callF_evals r cfg s ci
  have h2 := C16_single_evaluation cfg s ci
  simp only [C02.evalsOf] at h
  rw [h]; exact h2

/-- **the function raises: the same exception, one evaluation, and the state exactly as if the call had not been
made** - over every archive, whatever it refuses (all twelve wrappers; the archive is not even asked to store) -/
theorem C16_refused_function_raises (r : Refuse V) (cfg : Cfg) (s : St K V) (ci : CallIn K V) (k : K) (e : Exc)
    (hk : ci.key = .ok k) (hm : get? s.c.mem k = none) (hl : get? (s.c.preload k).mem k = none)
    (hf : ci.fn = .error e) : callF r cfg s ci = (s, .raised e 1) := by
  unfold callF
  split
  · unfold callNoF; simp only [hk, hl, hf]
  · unfold callCachedF; simp only [hk, hm, hl, hf]

end Klepto.C16
