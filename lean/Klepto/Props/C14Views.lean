import Klepto.Props.C14
/-!
# C14, the single-file clause, for the *views*

`C14_file_reader` is about ONE read of the archive file.  `file_archive.items()` and `values()` are
`collections.abc` views over the archive: iterating one reads the file once for the keys and then once
more per key.  A view taken while another process saves is therefore assembled from reads at several
moments.  Each read is the complete earlier or later dictionary (`C14_file_reader`); the ASSEMBLY need
be neither - finding F55, reproduced on the code by suite `sched`, scenario `f-upd-list`.
-/
namespace Klepto.C14
open Klepto AMap Crash Sched

/-- what an items-view yields when its key listing is read on disk state `sk` and the value of the
`i`-th key on disk state `sv i` -/
def itemsView (emptyD : List (String × Nat)) (sk : FileFS (List (String × Nat)))
    (sv : Nat → FileFS (List (String × Nat))) : List (String × Option Nat) :=
  (List.range (keys (fileRecover emptyD sk)).length).map fun i =>
    let k := (keys (fileRecover emptyD sk)).getD i ""
    (k, get? (fileRecover emptyD (sv i)) k)

def oldD : List (String × Nat) := [("a", 1), ("b", 1)]
def newD : List (String × Nat) := [("a", 2), ("b", 2)]
def fs0 : FileFS (List (String × Nat)) := { target := some (.full oldD), temps := [] }
/-- the disk after the first `k` system calls of the writer's save -/
def at_ (k : Nat) : FileFS (List (String × Nat)) := ((saveProg true 7 newD).take k).foldl fstep fs0

/-- every single read is the whole earlier or the whole later dictionary … -/
example : ∀ k ∈ [0, 1, 2, 3], fileRecover [] (at_ k) = oldD ∨ fileRecover [] (at_ k) = newD := by decide

/-- … but a view whose key listing and first value are read before the writer's rename and whose
second value is read after it is `{a ↦ 1, b ↦ 2}`: neither dictionary -/
theorem C14_file_items_torn_witness :
    itemsView [] (at_ 2) (fun i => if i = 0 then at_ 2 else at_ 3) = [("a", some 1), ("b", some 2)] ∧
    itemsView [] (at_ 2) (fun _ => at_ 2) = [("a", some 1), ("b", some 1)] ∧
    itemsView [] (at_ 3) (fun _ => at_ 3) = [("a", some 2), ("b", some 2)] := by decide

end Klepto.C14
