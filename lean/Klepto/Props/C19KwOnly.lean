import Klepto.Props.C19
/-!
# C19 for plain functions WITH keyword-only parameters

Since the repair of F17a `validate` treats keyword-only names as parameters: they are legal keywords
without `**kw`, and one without a default must be supplied.  This file extends `C19_plain_partial`
to every plain signature `def f(a, b=…, *args, k, m=…, **kw)`.
-/
namespace Klepto.C19
open Klepto Klepto.AMap Klepto.Keys

variable {Val : Type} [DecidableEq Val]

theorem mem_keys_update (m o : List (Val × Val)) (x : Val) : x ∈ keys (update m o) ↔ x ∈ keys m ∨ x ∈ keys o := by
  unfold update
  induction o generalizing m with
  | nil => simp [keys]
  | cons p o ih =>
    simp only [List.foldl_cons]
    rw [ih (put m p.1 p.2), keys_put]
    simp only [keys, List.map_cons, List.mem_cons]
    constructor
    · rintro ((h | h) | h)
      · exact Or.inr (Or.inl h)
      · exact Or.inl h
      · exact Or.inr (Or.inr h)
    · rintro (h | h | h)
      · exact Or.inl (Or.inr h)
      · exact Or.inl (Or.inl h)
      · exact Or.inr h

theorem keys_defaultsOf_sub (ps : List (Param Val)) (x : Val) (h : x ∈ keys (defaultsOf ps)) : x ∈ names ps :=
  keys_defaultsOf_subset ps x h

/-- `bindKwOnly` succeeds iff every keyword-only parameter has a keyword or a default -/
theorem bindKwOnly_isSome_iff (kw : List (Val × Val)) :
    ∀ (ps : List (Param Val)),
      (bindKwOnly kw ps).isSome = true ↔ ∀ p ∈ ps, (get? kw p.name).isSome = true ∨ p.dflt.isSome = true := by
  intro ps
  induction ps with
  | nil => simp [bindKwOnly]
  | cons p ps ih =>
    simp only [bindKwOnly, List.mem_cons, forall_eq_or_imp]
    cases hk : get? kw p.name with
    | some v =>
      simp only [Option.isSome_some, true_or, true_and]
      rw [← ih]; cases bindKwOnly kw ps <;> simp
    | none =>
      cases hd : p.dflt with
      | none => simp
      | some dv =>
        simp only [Option.isSome_none, Bool.false_eq_true, Option.isSome_some, or_true, true_and]
        rw [← ih]; cases bindKwOnly kw ps <;> simp

/-- **C19 (plain functions, keyword-only parameters included)**: `validate` succeeds exactly when CPython's binding succeeds. -/
theorem C19_plain_kwonly (self : Val) (f : Func Val) (c : PCall Val)
    (hpl : Plain f) (hnd : (names f.pos ++ names f.kwonly).Nodup) (hk : (keys c.kwds).Nodup) :
    validate f c = true ↔ (bind self f c).isSome = true := by
  obtain ⟨h1, h2, h3⟩ := hpl
  have hndp : (names f.pos).Nodup := (List.nodup_append.mp hnd).1
  have hndk : (names f.kwonly).Nodup := (List.nodup_append.mp hnd).2.1
  have hdisj : ∀ n, n ∈ names f.pos → n ∉ names f.kwonly := fun n hp hq => (List.nodup_append.mp hnd).2.2 n hp n hq rfl
  -- the defaults dictionary of the signature
  let D := update (defaultsOf f.pos) (defaultsOf f.kwonly)
  have hDpos : ∀ n, n ∈ names f.pos → (n ∈ keys D ↔ n ∈ keys (defaultsOf f.pos)) := by
    intro n hn
    rw [mem_keys_update]
    constructor
    · rintro (h | h)
      · exact h
      · exact absurd (keys_defaultsOf_sub _ _ h) (hdisj n hn)
    · exact Or.inl
  have hDkw : ∀ n, n ∈ names f.kwonly → (n ∈ keys D ↔ n ∈ keys (defaultsOf f.kwonly)) := by
    intro n hn
    rw [mem_keys_update]
    constructor
    · rintro (h | h)
      · exact absurd hn (hdisj n (keys_defaultsOf_sub _ _ h))
      · exact h
    · exact Or.inr
  have hsig : sigMarked f = some ((names f.pos).map (fun n => (n, false)), D, []) := by
    simp [sigMarked, h1, h2, h3, update, has, get?, keys, filter_true, D]
  have hnamed : ((names f.pos).map (fun n => (n, false))).map (·.1) = names f.pos := by
    simp [List.map_map, Function.comp_def]
  have hbad : (((names f.pos).map (fun n => (n, false))).filter (·.2)).map (·.1) = [] := by
    induction names f.pos with
    | nil => rfl
    | cons a l ih => simpa [List.filter_cons] using ih
  have hlen : (names f.pos).length = f.pos.length := by simp [names]
  -- required positional names: the keyword-only defaults in `D` do not matter for them
  have hreq : diff (names f.pos) (keys D) = diff (names f.pos) (keys (defaultsOf f.pos)) := by
    apply List.filter_congr
    intro n hn
    have := hDpos n hn
    by_cases hm : n ∈ keys D
    · simp [hm, this.mp hm]
    · have hm' : n ∉ keys (defaultsOf f.pos) := fun h => hm (this.mpr h)
      simp [hm, hm']
  have hval : validate f c = true ↔
      (¬ (c.args.length > f.pos.length ∧ f.varargs = false)) ∧
      (¬ ((diff (keys c.kwds) (names f.pos ++ names f.kwonly)) ≠ [] ∧ f.varkw = false)) ∧
      ((inter (keys ((names f.pos).zip c.args)) (keys c.kwds)).isEmpty = true ∧
       (diff (names f.pos) (keys (defaultsOf f.pos))).all
         (fun n => (keys c.kwds).contains n || (keys ((names f.pos).zip c.args)).contains n) = true) ∧
      ((names f.kwonly).all (fun n => (keys D).contains n || (keys c.kwds).contains n) = true) := by
    have e1 : (vchecks f c ((names f.pos).map (fun n => (n, false))) D []).pVarkw = true := by
      simp [vchecks, h2, keys, diff]
    have e2 : (vchecks f c ((names f.pos).map (fun n => (n, false))) D []).pVarargs = true := by
      simp [vchecks, h1]
    have e5 : (vchecks f c ((names f.pos).map (fun n => (n, false))) D []).badArgs = true := by
      simp only [vchecks, hbad]; rfl
    have e6 : (vchecks f c ((names f.pos).map (fun n => (n, false))) D []).badKwds = true := rfl
    have e3 : (vchecks f c ((names f.pos).map (fun n => (n, false))) D []).varargs = true ↔
        ¬ (c.args.length > f.pos.length ∧ f.varargs = false) := by
      simp only [vchecks, hnamed, hlen, Bool.or_eq_true, List.isEmpty_iff, List.drop_eq_nil_iff]
      cases f.varargs <;> simp <;> omega
    have e4 : (vchecks f c ((names f.pos).map (fun n => (n, false))) D []).varkw = true ↔
        ¬ ((diff (keys c.kwds) (names f.pos ++ names f.kwonly)) ≠ [] ∧ f.varkw = false) := by
      simp only [vchecks, hnamed, Bool.or_eq_true, List.isEmpty_iff]
      cases f.varkw <;> simp
    have e7 : (vchecks f c ((names f.pos).map (fun n => (n, false))) D []).dup =
        (inter (keys ((names f.pos).zip c.args)) (keys c.kwds)).isEmpty := by
      simp only [vchecks, hnamed]
    have e8 : (vchecks f c ((names f.pos).map (fun n => (n, false))) D []).required =
        (diff (names f.pos) (keys (defaultsOf f.pos))).all
         (fun n => (keys c.kwds).contains n || (keys ((names f.pos).zip c.args)).contains n) := by
      simp only [vchecks, hnamed, hreq]
    have e9 : (vchecks f c ((names f.pos).map (fun n => (n, false))) D []).boundSelf = true := by
      simp [vchecks, h3]
    have e10 : (vchecks f c ((names f.pos).map (fun n => (n, false))) D []).kwonlyReq =
        (names f.kwonly).all (fun n => (keys D).contains n || (keys c.kwds).contains n) := by
      simp only [vchecks]
    simp only [validate, hsig, VChecks.all, Bool.and_eq_true, e1, e2, e5, e6, e9, true_and, and_true]
    rw [e3, e4, e7, e8, e10]
    constructor
    · rintro ⟨⟨⟨⟨a, b⟩, d⟩, e⟩, g⟩; exact ⟨a, b, ⟨d, e⟩, g⟩
    · rintro ⟨a, b, ⟨d, e⟩, g⟩; exact ⟨⟨⟨⟨a, b⟩, d⟩, e⟩, g⟩
  -- the specification side
  have hextra : c.kwds.filter (fun p => isExtra f p.1) ≠ [] ↔ diff (keys c.kwds) (names f.pos ++ names f.kwonly) ≠ [] := by
    have hfm : ∀ (l : List (Val × Val)), (l.filter (fun p => isExtra f p.1)).map (·.1) = diff (keys l) (names f.pos ++ names f.kwonly) := by
      intro l
      induction l with
      | nil => rfl
      | cons q l ih =>
        simp only [diff, keys, List.map_cons, List.filter_cons] at ih ⊢
        have hq : isExtra f q.1 = !(names f.pos ++ names f.kwonly).contains q.1 := by
          simp [isExtra, List.contains_append]
        rw [hq]
        cases (names f.pos ++ names f.kwonly).contains q.1 <;> simp [ih]
    rw [← hfm]
    cases c.kwds.filter (fun p => isExtra f p.1) <;> simp
  have hbind : (bind self f c).isSome = true ↔
      (¬ (c.args.length > f.pos.length ∧ f.varargs = false)) ∧
      (¬ ((diff (keys c.kwds) (names f.pos ++ names f.kwonly)) ≠ [] ∧ f.varkw = false)) ∧
      (bindPos c.kwds f.pos c.args).isSome = true ∧ (bindKwOnly c.kwds f.kwonly).isSome = true := by
    unfold Keys.bind
    simp only [h1, h2, h3, Bool.false_eq_true, if_false, List.nil_append, update_nil_left c.kwds hk]
    unfold bindPlain
    by_cases ha : c.args.length > f.pos.length ∧ ¬ f.varargs = true
    · have : c.args.length > f.pos.length ∧ f.varargs = false := ⟨ha.1, by simpa using ha.2⟩
      simp [ha, this]
    · have ha2 : ¬ (c.args.length > f.pos.length ∧ f.varargs = false) := by
        intro h; exact ha ⟨h.1, by simp [h.2]⟩
      simp only [ha, if_false, ha2, not_false_eq_true, true_and]
      by_cases hx : c.kwds.filter (fun p => isExtra f p.1) ≠ [] ∧ ¬ f.varkw = true
      · have : diff (keys c.kwds) (names f.pos ++ names f.kwonly) ≠ [] ∧ f.varkw = false := ⟨hextra.mp hx.1, by simpa using hx.2⟩
        simp [hx, this]
      · have hx2 : ¬ (diff (keys c.kwds) (names f.pos ++ names f.kwonly) ≠ [] ∧ f.varkw = false) := by
          intro h; exact hx ⟨hextra.mpr h.1, by simp [h.2]⟩
        simp only [hx, if_false, hx2, not_false_eq_true, true_and]
        cases bindPos c.kwds f.pos c.args <;> cases bindKwOnly c.kwds f.kwonly <;> simp
  -- keyword-only: the code's check is the specification's
  have hkwo : ((names f.kwonly).all (fun n => (keys D).contains n || (keys c.kwds).contains n) = true) ↔
      (bindKwOnly c.kwds f.kwonly).isSome = true := by
    rw [bindKwOnly_isSome_iff]
    simp only [List.all_eq_true, Bool.or_eq_true, List.contains_eq_mem, decide_eq_true_eq, names, List.mem_map,
      forall_exists_index, and_imp, forall_apply_eq_imp_iff₂]
    constructor
    · intro h p hp
      have hn : p.name ∈ names f.kwonly := List.mem_map_of_mem hp
      rcases h p hp with hd | hkw
      · right; exact (mem_keys_defaultsOf f.kwonly hndk p hp).mp ((hDkw p.name hn).mp hd)
      · left
        cases hg : get? c.kwds p.name with
        | some v => rfl
        | none => exact absurd hkw ((get?_none_iff_not_mem c.kwds p.name).mp hg)
    · intro h p hp
      have hn : p.name ∈ names f.kwonly := List.mem_map_of_mem hp
      rcases h p hp with hkw | hd
      · right
        cases hg : get? c.kwds p.name with
        | some v => exact mem_keys_of_get? c.kwds p.name v hg
        | none => rw [hg] at hkw; simp at hkw
      · left; exact (hDkw p.name hn).mpr ((mem_keys_defaultsOf f.kwonly hndk p hp).mpr hd)
  rw [hval, hbind, checks_iff c.kwds f.pos c.args hndp, ← bindPos_isSome_iff, hkwo]

/-- non-vacuity: `def f(a, b=5, *args, k, m=7, **kw)` -/
example : Plain ({ pos := [⟨10, none⟩, ⟨11, some 25⟩], varargs := true, kwonly := [⟨12, none⟩, ⟨13, some 27⟩], varkw := true } : Func Nat) ∧
    (names ([⟨10, none⟩, ⟨11, some 25⟩] : List (Param Nat)) ++ names ([⟨12, none⟩, ⟨13, some 27⟩] : List (Param Nat))).Nodup := by
  unfold Plain; decide

end Klepto.C19
