import Klepto.Props.C02
/-!
# C07 at the level of whole histories

`Props/C07.lean` states the property for one call.  Its second sentence - "at every moment each result
ever computed and not explicitly cleared is retrievable from memory or the archive" - is a statement
about histories; it follows by induction from the one-step theorems and the invariants of
`Props/C02.lean` (`Inv`: well-formed bookkeeping, a lossless archive attached and switched on, memory
and archive agree, no duplicate archive keys).  Histories are *quiet*: calls (any arguments, any
evictions and purges), `dump`/`load` with or without keys, lookups, `info` - everything except the
operations after which the property itself allows a loss (`clear`, detaching or replacing the
archive, editing it from outside).
-/
namespace Klepto.C07
open Klepto AMap C02
set_option linter.unusedSectionVars false
variable {K V : Type} [DecidableEq K]

theorem run_append (cfg : Cfg) (s : St K V) (a b : List (Op K V)) :
    (run cfg s (a ++ b)).1 = (run cfg (run cfg s a).1 b).1 := by
  induction a generalizing s with
  | nil => rfl
  | cons op a ih => simp only [List.cons_append, run]; exact ih _

/-- the invariants hold all along a quiet history, and what was retrievable stays retrievable -/
theorem inv_run (cfg : Cfg) (ops : List (Op K V)) (s : St K V)
    (hno : cfg.algo ≠ .no) (hmp : MruNoPurge cfg) (hI : Inv cfg s) (hq : ∀ op ∈ ops, Quiet op = true) :
    Inv cfg (run cfg s ops).1 ∧ ∀ j w, retr s.c j = some w → retr (run cfg s ops).1.c j = some w := by
  induction ops generalizing s with
  | nil => exact ⟨hI, fun _ _ h => h⟩
  | cons op ops ih =>
    have h1 := inv_step_quiet cfg s op hno hmp hI (hq op (by simp))
    have h2 := ih (step cfg s op).1 h1.1 (fun o ho => hq o (by simp [ho]))
    simp only [run]
    exact ⟨h2.1, fun j w h => h2.2 j w (h1.2 j w h)⟩

/-- **nothing retrievable is ever lost** over a quiet history -/
theorem C07_history (cfg : Cfg) (ops : List (Op K V)) (s : St K V)
    (hno : cfg.algo ≠ .no) (hmp : MruNoPurge cfg) (hI : Inv cfg s) (hq : ∀ op ∈ ops, Quiet op = true)
    (j : K) (w : V) (h : retr s.c j = some w) : retr (run cfg s ops).1.c j = some w :=
  (inv_run cfg ops s hno hmp hI hq).2 j w h

/-- **every result ever returned is still there at the end**: take any quiet history, any call in
it that returned `v` for key `k` (a hit, a load or a fresh evaluation - whatever evictions and purges
came before and come after): at the end `k` is retrievable, from memory or from the archive, with
the value `v` -/
theorem C07_every_result_kept (cfg : Cfg) (pre post : List (Op K V)) (s : St K V) (ci : CallIn K V)
    (k : K) (v : V) (n : Nat)
    (hno : cfg.algo ≠ .no) (hmp : MruNoPurge cfg) (hI : Inv cfg s)
    (hq1 : ∀ op ∈ pre, Quiet op = true) (hq2 : ∀ op ∈ post, Quiet op = true)
    (hk : ci.key = .ok k) (ho : (call cfg (run cfg s pre).1 ci).2 = .ret v n) :
    retr (run cfg s (pre ++ .call ci :: post)).1.c k = some v := by
  rw [run_append]
  have h1 := inv_run cfg pre s hno hmp hI hq1
  generalize (run cfg s pre).1 = s1 at h1 ho
  have hI1 := h1.1
  simp only [run]
  have hstep : step cfg s1 (.call ci) = call cfg s1 ci := rfl
  have hcall : call cfg s1 ci = callCached cfg s1 ci := by simp [call, hno]
  have hI2 := (inv_step_quiet cfg s1 (.call ci) hno hmp hI1 rfl).1
  have hres : retr (step cfg s1 (.call ci)).1.c k = some v := by
    rw [hstep, hcall]
    exact C07_result_retained cfg s1 ci k v n hI1.wf.memNodup hI1.archived hI1.agree hk (by rw [← hcall]; exact ho)
  exact C07_history cfg post _ hno hmp hI2 hq2 k v hres

/-- a new session over any archive without duplicate keys meets the invariants: the theorems above
apply to every history that starts from `D(cache=archive)(f)` -/
theorem inv_new_session (cfg : Cfg) (a : List (K × V)) (ha : (keys a).Nodup) :
    Inv cfg (St.init { mem := [], arch := some a, swap := none }) := by
  refine ⟨wf_init cfg _ (by simp [keys]), rfl, ?_, ?_⟩
  · intro j x y h; simp [St.init, get?] at h
  · intro a' h'; simp [St.init] at h'; subst h'; exact ha

section Examples
def lru1' : Cfg := { algo := .lru, safe := false, maxsize := 1, purge := false }
def mk' (k v : Nat) : Op Nat Nat := .call { key := .ok k, fn := .ok v, victim := none }
def c0' : Cache Nat Nat := { mem := [], arch := some [], swap := none }
/-- the hypotheses are met by the empty archived cache, and the conclusion is not vacuous: after three
evictions the first result is (only) in the archive -/
example : retr (run lru1' (St.init c0') [mk' 1 10, mk' 2 20, mk' 3 30, .dumpAll, mk' 4 40]).1.c 1 = some 10 := by decide
example : get? (run lru1' (St.init c0') [mk' 1 10, mk' 2 20, mk' 3 30, .dumpAll, mk' 4 40]).1.c.mem 1 = none := by decide
end Examples

end Klepto.C07
