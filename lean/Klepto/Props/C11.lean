import Klepto.Props.C10
/-!
# C11 — Ignored arguments never influence the key; all others still do

`_keygen` = `kSignature` → `ignPlan` (what to NULL, from the signature and the ignore
specification only) → `keygenWith` (the value-dependent part).  The theorems are about
`keygenWith` for an arbitrary plan, hence for every callable kind and every ignore specification.
-/
namespace Klepto.C11
open Klepto.Keys Klepto.AMap
set_option linter.unusedSectionVars false
variable {Val : Type} [DecidableEq Val]

/-! ## dicts with the same key sequence -/

/-- same keys in the same order; values agree outside `S` -/
def Sim (S : Val → Prop) (m₁ m₂ : List (Val × Val)) : Prop :=
  keys m₁ = keys m₂ ∧ ∀ n, ¬ S n → get? m₁ n = get? m₂ n

theorem sim_refl (S : Val → Prop) (m : List (Val × Val)) : Sim S m m := ⟨rfl, fun _ _ => rfl⟩

theorem has_congr (m₁ m₂ : List (Val × Val)) (n : Val) (h : keys m₁ = keys m₂) : has m₁ n = has m₂ n := by
  have e1 := has_iff_mem_keys m₁ n; have e2 := has_iff_mem_keys m₂ n
  rw [h] at e1
  cases h1 : has m₁ n <;> cases h2 : has m₂ n <;> simp_all

theorem keys_put_congr (m₁ m₂ : List (Val × Val)) (n : Val) (v₁ v₂ : Val) (h : keys m₁ = keys m₂) :
    keys (put m₁ n v₁) = keys (put m₂ n v₂) := by
  rw [keys_put_eq, keys_put_eq, has_congr m₁ m₂ n h, h]

theorem sim_put (S : Val → Prop) (m₁ m₂ : List (Val × Val)) (n v₁ v₂ : Val) (h : Sim S m₁ m₂)
    (hv : ¬ S n → v₁ = v₂) : Sim S (put m₁ n v₁) (put m₂ n v₂) := by
  refine ⟨keys_put_congr _ _ _ _ _ h.1, fun j hj => ?_⟩
  rw [get?_put, get?_put]
  by_cases hjn : j = n
  · subst hjn; simp [hv hj]
  · simp [hjn, h.2 j hj]

/-- the items of two keyword dicts: same names in the same order, values agree outside `S` -/
def SimItems (S : Val → Prop) : List (Val × Val) → List (Val × Val) → Prop
  | [], [] => True
  | p :: ps, q :: qs => p.1 = q.1 ∧ (¬ S p.1 → p.2 = q.2) ∧ SimItems S ps qs
  | _, _ => False

theorem simItems_refl (S : Val → Prop) (l : List (Val × Val)) : SimItems S l l := by
  induction l with
  | nil => trivial
  | cons p l ih => exact ⟨rfl, fun _ => rfl, ih⟩

theorem simItems_keys (S : Val → Prop) (o₁ o₂ : List (Val × Val)) (h : SimItems S o₁ o₂) : keys o₁ = keys o₂ := by
  induction o₁ generalizing o₂ with
  | nil => cases o₂ with
    | nil => rfl
    | cons q o₂ => exact absurd h id
  | cons p o₁ ih => cases o₂ with
    | nil => exact absurd h id
    | cons q o₂ => simp only [keys, List.map_cons]; rw [h.1]; congr 1; exact ih o₂ h.2.2

theorem sim_update (S : Val → Prop) (m₁ m₂ o₁ o₂ : List (Val × Val)) (h : Sim S m₁ m₂)
    (ho : SimItems S o₁ o₂) : Sim S (update m₁ o₁) (update m₂ o₂) := by
  unfold update
  induction o₁ generalizing m₁ m₂ o₂ with
  | nil => cases o₂ with
    | nil => exact h
    | cons q o₂ => exact absurd ho id
  | cons p o₁ ih => cases o₂ with
    | nil => exact absurd ho id
    | cons q o₂ =>
      simp only [List.foldl_cons]
      refine ih _ _ o₂ ?_ ho.2.2
      rw [← ho.1]
      exact sim_put S m₁ m₂ p.1 p.2 q.2 h ho.2.1

theorem sim_erase (S : Val → Prop) (m₁ m₂ : List (Val × Val)) (n : Val) (h : Sim S m₁ m₂)
    (h₁ : (keys m₁).Nodup) (h₂ : (keys m₂).Nodup) : Sim S (erase m₁ n) (erase m₂ n) := by
  refine ⟨by rw [keys_erase_eq, keys_erase_eq, h.1], fun j hj => ?_⟩
  rw [get?_erase _ _ _ h₁, get?_erase _ _ _ h₂]
  by_cases hjn : j = n <;> simp [hjn, h.2 j hj]

/-- two dicts with the same key sequence and the same values everywhere are equal -/
theorem eq_of_keys_get (m₁ m₂ : List (Val × Val)) (hk : keys m₁ = keys m₂) (h₁ : (keys m₁).Nodup)
    (hv : ∀ n, get? m₁ n = get? m₂ n) : m₁ = m₂ := by
  induction m₁ generalizing m₂ with
  | nil => cases m₂ with
    | nil => rfl
    | cons q m₂ => simp [keys] at hk
  | cons p m₁ ih =>
    cases m₂ with
    | nil => simp [keys] at hk
    | cons q m₂ =>
      obtain ⟨a, b⟩ := p; obtain ⟨c, d⟩ := q
      simp only [keys, List.map_cons, List.cons.injEq] at hk
      obtain ⟨hac, hk'⟩ := hk
      subst hac
      have hb : b = d := by have := hv a; simpa [get?] using this
      subst hb
      simp only [keys, List.map_cons, List.nodup_cons] at h₁
      congr 1
      refine ih m₂ hk' h₁.2 (fun n => ?_)
      have := hv n
      by_cases han : a = n
      · subst han
        have hn2 : a ∉ keys m₂ := by unfold keys; rw [← hk']; exact h₁.1
        rw [get?_eq_none_of_not_mem m₁ a h₁.1, get?_eq_none_of_not_mem m₂ a hn2]
      · simpa [get?, han] using this

/-! ## the masked positionals -/

/-- the positional arguments agree wherever they are not NULLed or clipped -/
def AgreeFrom (p : IgnPlan Val) : Nat → List Val → List Val → Prop
  | _, [], [] => True
  | i, a :: as, b :: bs =>
    ((p.star && decide (p.explicit.length ≤ i)) = true ∨ p.idx.contains i = true ∨ a = b) ∧ AgreeFrom p (i + 1) as bs
  | _, _, _ => False

theorem maskFrom_congr (k : Consts Val) (p : IgnPlan Val) (i : Nat) (a₁ a₂ : List Val)
    (h : AgreeFrom p i a₁ a₂) : maskFrom k p i a₁ = maskFrom k p i a₂ := by
  induction a₁ generalizing i a₂ with
  | nil => cases a₂ with
    | nil => rfl
    | cons b bs => exact absurd h id
  | cons a as ih => cases a₂ with
    | nil => exact absurd h id
    | cons b bs =>
      simp only [maskFrom]
      obtain ⟨h1, h2⟩ := h
      by_cases hs : (p.star && decide (p.explicit.length ≤ i)) = true
      · simp [hs]
      · simp only [hs, Bool.false_eq_true, if_false]
        rw [ih (i + 1) bs h2]
        rcases h1 with h1 | h1 | h1
        · exact absurd h1 hs
        · have : i ∈ p.idx := by simpa using h1
          simp [this]
        · rw [h1]

/-! ## the property -/

/-- the names whose keyword values the plan hides: NULLed names, the removed instance, and — under
`'**'` — every keyword that is not a parameter (neither explicitly named nor keyword-only) -/
def Hidden (p : IgnPlan Val) (n : Val) : Prop :=
  n ∈ p.nms ∨ (p.selfRemoved = true ∧ p.selfName = some n) ∨ (p.dstar = true ∧ n ∉ p.explicit ++ p.keep)

theorem popExtra_sim (S : Val → Prop) (m₁ m₂ : List (Val × Val)) (kw₁ kw₂ : List (Val × Val)) (ex : List Val)
    (h : Sim S m₁ m₂) (hk : keys kw₁ = keys kw₂) (h₁ : (keys m₁).Nodup) (h₂ : (keys m₂).Nodup) :
    Sim S (popExtra m₁ kw₁ ex) (popExtra m₂ kw₂ ex) ∧ (keys (popExtra m₁ kw₁ ex)).Nodup ∧ (keys (popExtra m₂ kw₂ ex)).Nodup := by
  unfold popExtra
  induction kw₁ generalizing m₁ m₂ kw₂ with
  | nil => cases kw₂ with
    | nil => exact ⟨h, h₁, h₂⟩
    | cons q kw₂ => simp [keys] at hk
  | cons p kw₁ ih => cases kw₂ with
    | nil => simp [keys] at hk
    | cons q kw₂ =>
      simp only [keys, List.map_cons, List.cons.injEq] at hk
      simp only [List.foldl_cons]
      rw [← hk.1]
      by_cases he : ex.contains p.1 = true
      · simp only [he, if_true]; exact ih m₁ m₂ kw₂ h hk.2 h₁ h₂
      · simp only [he, Bool.false_eq_true, if_false]
        exact ih _ _ kw₂ (sim_erase S m₁ m₂ p.1 h h₁ h₂) hk.2 (nodup_keys_erase _ _ h₁) (nodup_keys_erase _ _ h₂)

theorem get?_popExtra_none (m kw : List (Val × Val)) (ex : List Val) (n : Val) (hm : (keys m).Nodup)
    (hn : n ∈ keys kw) (hx : n ∉ ex) : get? (popExtra m kw ex) n = none := by
  unfold popExtra
  induction kw generalizing m with
  | nil => simp [keys] at hn
  | cons p kw ih =>
    simp only [List.foldl_cons]
    simp only [keys, List.map_cons, List.mem_cons] at hn
    by_cases hp : n = p.1
    · subst hp
      have he : ex.contains p.1 = false := by simpa using hx
      simp only [he, Bool.false_eq_true, if_false]
      -- once erased it stays absent
      have herased : get? (erase m p.1) p.1 = none := by rw [get?_erase _ _ _ hm]; simp
      have hstay : ∀ (kw' : List (Val × Val)) (m' : List (Val × Val)), (keys m').Nodup → get? m' p.1 = none →
          get? (kw'.foldl (fun acc q => if ex.contains q.1 then acc else erase acc q.1) m') p.1 = none := by
        intro kw'
        induction kw' with
        | nil => intro m' _ h; exact h
        | cons q kw' ih' =>
          intro m' hn' h
          simp only [List.foldl_cons]
          split
          · exact ih' m' hn' h
          · refine ih' _ (nodup_keys_erase _ _ hn') ?_
            rw [get?_erase _ _ _ hn']; split <;> simp [h]
      exact hstay kw _ (nodup_keys_erase _ _ hm) herased
    · rcases hn with hn | hn
      · exact absurd hn hp
      · split
        · exact ih m hm hn
        · exact ih _ (nodup_keys_erase _ _ hm) hn

theorem get?_popExtra (m kw : List (Val × Val)) (ex : List Val) (n : Val) (hm : (keys m).Nodup) :
    get? (popExtra m kw ex) n = if n ∈ keys kw ∧ n ∉ ex then none else get? m n := by
  by_cases hc : n ∈ keys kw ∧ n ∉ ex
  · rw [if_pos hc]; exact get?_popExtra_none m kw ex n hm hc.1 hc.2
  · rw [if_neg hc]
    unfold popExtra
    induction kw generalizing m with
    | nil => rfl
    | cons q kw ih =>
      simp only [List.foldl_cons]
      have hc' : ¬ (n ∈ keys kw ∧ n ∉ ex) := by
        intro h; exact hc ⟨by simp [keys] at h ⊢; exact Or.inr h.1, h.2⟩
      split
      · exact ih m hm hc'
      · rename_i hq
        rw [ih _ (nodup_keys_erase _ _ hm) hc', get?_erase _ _ _ hm]
        have hne : n ≠ q.1 := by
          intro h; subst h
          exact hc ⟨by simp [keys], by simpa using hq⟩
        simp [hne]

theorem get?_update_notin (m o : List (Val × Val)) (n : Val) (h : n ∉ keys o) : get? (update m o) n = get? m n := by
  unfold update
  induction o generalizing m with
  | nil => rfl
  | cons q o ih =>
    simp only [List.foldl_cons]
    simp only [keys, List.map_cons, List.mem_cons, not_or] at h
    rw [ih _ (by simpa [keys] using h.2), get?_put]
    simp [h.1]

/-- NULLing a list of names keeps `Sim` and makes the NULLed names agree -/
theorem nullFold_sim (k : Consts Val) (S : Val → Prop) (ns : List Val) (m₁ m₂ : List (Val × Val)) (h : Sim S m₁ m₂) :
    Sim S (ns.foldl (fun acc n => put acc n k.null) m₁) (ns.foldl (fun acc n => put acc n k.null) m₂) := by
  induction ns generalizing m₁ m₂ with
  | nil => exact h
  | cons n ns ih => simp only [List.foldl_cons]; exact ih _ _ (sim_put S m₁ m₂ n k.null k.null h (fun _ => rfl))

theorem nullFold_get (k : Consts Val) (ns : List Val) (m : List (Val × Val)) (j : Val) :
    get? (ns.foldl (fun acc n => put acc n k.null) m) j = if j ∈ ns then some k.null else get? m j := by
  induction ns generalizing m with
  | nil => simp
  | cons n ns ih =>
    simp only [List.foldl_cons, ih, get?_put, List.mem_cons]
    by_cases h1 : j ∈ ns
    · simp [h1]
    · by_cases h2 : j = n <;> simp [h1, h2]

theorem nullFold_nodup (k : Consts Val) (ns : List Val) (m : List (Val × Val)) (h : (keys m).Nodup) :
    (keys (ns.foldl (fun acc n => put acc n k.null) m)).Nodup := by
  induction ns generalizing m with
  | nil => exact h
  | cons n ns ih => simp only [List.foldl_cons]; exact ih _ (nodup_keys_put _ _ _ h)

/-- **C11 — ignored arguments never influence the key.**  For *any* plan (any callable, any ignore
specification): two calls of the same shape whose positional arguments agree wherever they are not
NULLed / clipped, and whose keyword arguments agree on every name that is not hidden, produce the
*same* `_keygen` result — hence the same key under every keymap, and one cache entry. -/
theorem C11_ignored_irrelevant (k : Consts Val) (p : IgnPlan Val) (d : List (Val × Val)) (c₁ c₂ : PCall Val)
    (hd : (keys d).Nodup)
    (hargs : AgreeFrom p 0 (if p.selfRemoved then c₁.args.drop 1 else c₁.args)
                           (if p.selfRemoved then c₂.args.drop 1 else c₂.args))
    (hkw : SimItems (Hidden p) c₁.kwds c₂.kwds) :
    keygenWith k p d c₁ = keygenWith k p d c₂ := by
  unfold keygenWith
  have hmask := maskFrom_congr k p 0 _ _ hargs
  simp only [maskArgs]
  rw [hmask]
  -- the keyword side
  have hkk : keys c₁.kwds = keys c₂.kwds := simItems_keys _ _ _ hkw
  have s0 : Sim (Hidden p) (update d c₁.kwds) (update d c₂.kwds) := sim_update _ d d _ _ (sim_refl _ d) hkw
  have n0₁ : (keys (update d c₁.kwds)).Nodup := nodup_keys_update _ _ hd
  have n0₂ : (keys (update d c₂.kwds)).Nodup := nodup_keys_update _ _ hd
  -- after the removal of the instance
  have s1 : Sim (Hidden p) (if p.selfRemoved then (match p.selfName with
        | some n => erase (update d c₁.kwds) n | none => update d c₁.kwds) else update d c₁.kwds)
      (if p.selfRemoved then (match p.selfName with
        | some n => erase (update d c₂.kwds) n | none => update d c₂.kwds) else update d c₂.kwds) ∧
      (keys (if p.selfRemoved then (match p.selfName with
        | some n => erase (update d c₁.kwds) n | none => update d c₁.kwds) else update d c₁.kwds)).Nodup ∧
      (keys (if p.selfRemoved then (match p.selfName with
        | some n => erase (update d c₂.kwds) n | none => update d c₂.kwds) else update d c₂.kwds)).Nodup := by
    cases p.selfRemoved
    · exact ⟨s0, n0₁, n0₂⟩
    · cases p.selfName with
      | none => exact ⟨s0, n0₁, n0₂⟩
      | some n => exact ⟨sim_erase _ _ _ n s0 n0₁ n0₂, nodup_keys_erase _ _ n0₁, nodup_keys_erase _ _ n0₂⟩
  generalize hu₁ : (if p.selfRemoved then (match p.selfName with
        | some n => erase (update d c₁.kwds) n | none => update d c₁.kwds) else update d c₁.kwds) = u₁ at s1
  generalize hu₂ : (if p.selfRemoved then (match p.selfName with
        | some n => erase (update d c₂.kwds) n | none => update d c₂.kwds) else update d c₂.kwds) = u₂ at s1
  obtain ⟨s1, n1₁, n1₂⟩ := s1
  have hfil : p.nms.filter (fun n => (keys u₁ ++ p.explicit).contains n) = p.nms.filter (fun n => (keys u₂ ++ p.explicit).contains n) := by
    rw [s1.1]
  rw [hfil]
  have s2 := nullFold_sim k (Hidden p) (p.nms.filter (fun n => (keys u₂ ++ p.explicit).contains n)) u₁ u₂ s1
  have n2₁ := nullFold_nodup k (p.nms.filter (fun n => (keys u₂ ++ p.explicit).contains n)) u₁ n1₁
  have n2₂ := nullFold_nodup k (p.nms.filter (fun n => (keys u₂ ++ p.explicit).contains n)) u₂ n1₂
  generalize hw₁ : (p.nms.filter (fun n => (keys u₂ ++ p.explicit).contains n)).foldl (fun acc n => put acc n k.null) u₁ = w₁ at s2 n2₁
  generalize hw₂ : (p.nms.filter (fun n => (keys u₂ ++ p.explicit).contains n)).foldl (fun acc n => put acc n k.null) u₂ = w₂ at s2 n2₂
  -- full agreement after NULLing and popping
  have hfull : (if p.dstar then popExtra w₁ c₁.kwds (p.explicit ++ p.keep) else w₁) = (if p.dstar then popExtra w₂ c₂.kwds (p.explicit ++ p.keep) else w₂) := by
    have hsim : Sim (Hidden p) (if p.dstar then popExtra w₁ c₁.kwds (p.explicit ++ p.keep) else w₁) (if p.dstar then popExtra w₂ c₂.kwds (p.explicit ++ p.keep) else w₂) ∧
        (keys (if p.dstar then popExtra w₁ c₁.kwds (p.explicit ++ p.keep) else w₁)).Nodup := by
      cases p.dstar
      · exact ⟨s2, n2₁⟩
      · have := popExtra_sim (Hidden p) w₁ w₂ c₁.kwds c₂.kwds (p.explicit ++ p.keep) s2 hkk n2₁ n2₂
        exact ⟨this.1, this.2.1⟩
    refine eq_of_keys_get _ _ hsim.1.1 hsim.2 (fun n => ?_)
    by_cases hh : Hidden p n
    · -- a hidden name carries the same (NULL / absent / default) value on both sides
      have hkeysu : keys u₁ = keys u₂ := s1.1
      have hw : ∀ (u w : List (Val × Val)), (p.nms.filter (fun n => (keys u₂ ++ p.explicit).contains n)).foldl (fun acc n => put acc n k.null) u = w →
          get? w n = if n ∈ p.nms.filter (fun n => (keys u₂ ++ p.explicit).contains n) then some k.null else get? u n := by
        intro u w h; rw [← h]; exact nullFold_get k _ u n
      have e₁ := hw u₁ w₁ hw₁
      have e₂ := hw u₂ w₂ hw₂
      -- values before NULLing agree unless the name is a keyword of the call
      have hu : n ∉ p.nms.filter (fun n => (keys u₂ ++ p.explicit).contains n) →
          ¬ (p.dstar = true ∧ n ∈ keys c₂.kwds ∧ n ∉ p.explicit ++ p.keep) → get? u₁ n = get? u₂ n := by
        intro hnf hnp
        rcases hh with h1 | h1 | h1
        · -- a NULLed name that is not present: absent on both sides
          have hnot : n ∉ keys u₂ := by
            intro hm; apply hnf
            simp only [List.mem_filter, List.contains_eq_mem, List.mem_append, decide_eq_true_eq]
            exact ⟨h1, Or.inl hm⟩
          rw [get?_eq_none_of_not_mem u₁ n (by rw [hkeysu]; exact hnot), get?_eq_none_of_not_mem u₂ n hnot]
        · -- the removed instance
          rw [← hu₁, ← hu₂]
          simp only [h1.1, if_true, h1.2]
          rw [get?_erase _ _ _ n0₁, get?_erase _ _ _ n0₂]; simp
        · -- an extra keyword under `**` that the call does not pass: the default on both sides
          have hnk : n ∉ keys c₂.kwds := fun hm => hnp ⟨h1.1, hm, h1.2⟩
          have hb : ∀ (kw : List (Val × Val)), n ∉ keys kw →
              get? (if p.selfRemoved then (match p.selfName with
                | some m => erase (update d kw) m | none => update d kw) else update d kw) n =
              (if p.selfRemoved = true ∧ p.selfName = some n then none else get? d n) := by
            intro kw hkw
            have hnd : (keys (update d kw)).Nodup := nodup_keys_update _ _ hd
            cases hsr : p.selfRemoved
            · simp [get?_update_notin _ _ _ hkw]
            · cases hsn : p.selfName with
              | none => simp [get?_update_notin _ _ _ hkw]
              | some m =>
                simp only [if_true, get?_erase _ _ _ hnd, get?_update_notin _ _ _ hkw]
                by_cases hm : n = m
                · subst hm; simp
                · have : ¬ m = n := fun h => hm h.symm
                  simp [hm, this]
          rw [← hu₁, ← hu₂, hb c₁.kwds (by rw [hkk]; exact hnk), hb c₂.kwds hnk]
      cases hds : p.dstar
      · simp only [Bool.false_eq_true, if_false]
        rw [e₁, e₂]
        by_cases hf : n ∈ p.nms.filter (fun n => (keys u₂ ++ p.explicit).contains n)
        · rw [if_pos hf, if_pos hf]
        · rw [if_neg hf, if_neg hf]; exact hu hf (by simp [hds])
      · simp only [if_true]
        rw [get?_popExtra _ _ _ _ n2₁, get?_popExtra _ _ _ _ n2₂, hkk]
        by_cases hp : n ∈ keys c₂.kwds ∧ n ∉ p.explicit ++ p.keep
        · simp [hp]
        · simp only [hp, if_false]
          rw [e₁, e₂]
          by_cases hf : n ∈ p.nms.filter (fun n => (keys u₂ ++ p.explicit).contains n)
          · rw [if_pos hf, if_pos hf]
          · rw [if_neg hf, if_neg hf]; exact hu hf (fun h => hp ⟨h.2.1, h.2.2⟩)
    · exact hsim.1.2 n hh
  rw [hfull]

/-- the same statement for `_keygen` itself: the plan depends on the call only through `selfLike` -/
theorem C11_keygen (k : Consts Val) (f : Func Val) (ign : List (Ign Val)) (c₁ c₂ : PCall Val)
    (e : List Val) (d : List (Val × Val)) (hs : kSignature f = some (e, d)) (hd : (keys d).Nodup)
    (hsl : c₁.selfLike = c₂.selfLike)
    (hargs : AgreeFrom (ignPlan k e ign c₁.selfLike (names f.kwonly)) 0
      (if (ignPlan k e ign c₁.selfLike (names f.kwonly)).selfRemoved then c₁.args.drop 1 else c₁.args)
      (if (ignPlan k e ign c₁.selfLike (names f.kwonly)).selfRemoved then c₂.args.drop 1 else c₂.args))
    (hkw : SimItems (Hidden (ignPlan k e ign c₁.selfLike (names f.kwonly))) c₁.kwds c₂.kwds) :
    keygen k f ign c₁ = keygen k f ign c₂ := by
  simp only [keygen, hs, ← hsl]
  exact C11_ignored_irrelevant k _ d c₁ c₂ hd hargs hkw

/-! ## all other arguments still discriminate -/

theorem maskFrom_keeps (k : Consts Val) (p : IgnPlan Val) (hs : p.star = false) (i j : Nat) (l : List Val)
    (hi : p.idx.contains (i + j) = false) : (maskFrom k p i l)[j]? = l[j]? := by
  induction l generalizing i j with
  | nil => simp [maskFrom]
  | cons a as ih =>
    simp only [maskFrom, hs, Bool.false_and, Bool.false_eq_true, if_false]
    cases j with
    | zero =>
      have : i ∉ p.idx := by simpa using hi
      simp [this]
    | succ j =>
      simp only [List.getElem?_cons_succ]
      exact ih (i + 1) j (by rw [← hi]; congr 1; omega)

theorem maskFrom_length (k : Consts Val) (p : IgnPlan Val) (hs : p.star = false) (i : Nat) (l : List Val) :
    (maskFrom k p i l).length = l.length := by
  induction l generalizing i with
  | nil => rfl
  | cons a as ih => simp [maskFrom, hs, ih]

/-- **an extra positional that is not selected stays in the key** (no `'*'`, index not listed) -/
theorem C11_extra_positional_kept (k : Consts Val) (p : IgnPlan Val) (d : List (Val × Val)) (c : PCall Val)
    (hs : p.star = false) (hsr : p.selfRemoved = false) (j : Nat)
    (hi : p.idx.contains (p.explicit.length + j) = false) :
    (keygenWith k p d c).1[j]? = c.args[p.explicit.length + j]? := by
  simp only [keygenWith, hsr, Bool.false_eq_true, if_false, maskArgs, List.getElem?_drop]
  have := maskFrom_keeps k p hs 0 (p.explicit.length + j) c.args (by simpa using hi)
  exact this

theorem get?_update_zip (m : List (Val × Val)) (ex a : List Val) (hn : ex.Nodup) (i : Nat) (n v : Val)
    (hn_i : ex[i]? = some n) (ha : a[i]? = some v) : get? (update m (ex.zip a)) n = some v := by
  unfold update
  induction ex generalizing m a i with
  | nil => simp at hn_i
  | cons e ex ih =>
    cases a with
    | nil => simp at ha
    | cons b bs =>
      simp only [List.zip_cons_cons, List.foldl_cons]
      have hnd := List.nodup_cons.mp hn
      cases i with
      | zero =>
        simp only [List.getElem?_cons_zero, Option.some.injEq] at hn_i ha
        subst hn_i; subst ha
        -- later puts use other names
        have : get? (put m e b) e = some b := by rw [get?_put]; simp
        have hkeep : ∀ (o : List (Val × Val)) (m' : List (Val × Val)), e ∉ keys o → get? m' e = some b →
            get? (o.foldl (fun acc p => put acc p.1 p.2) m') e = some b := by
          intro o m' ho hm'
          have := get?_update_notin m' o e ho
          unfold update at this
          rw [this]; exact hm'
        refine hkeep _ _ ?_ this
        intro hmem
        simp only [keys, List.mem_map] at hmem
        obtain ⟨q, hq, hq1⟩ := hmem
        have := (List.of_mem_zip hq).1
        rw [hq1] at this
        exact hnd.1 this
      | succ i =>
        simp only [List.getElem?_cons_succ] at hn_i ha
        exact ih _ bs hnd.2 i hn_i ha

/-- **a named parameter passed positionally and not selected stays in the key with its value** -/
theorem C11_named_kept (k : Consts Val) (p : IgnPlan Val) (d : List (Val × Val)) (c : PCall Val)
    (hs : p.star = false) (hsr : p.selfRemoved = false) (hne : p.explicit.Nodup) (i : Nat) (n v : Val)
    (hn : p.explicit[i]? = some n) (ha : c.args[i]? = some v) (hi : p.idx.contains i = false) :
    get? (keygenWith k p d c).2 n = some v := by
  simp only [keygenWith, hsr, Bool.false_eq_true, if_false, maskArgs]
  refine get?_update_zip _ _ _ hne i n v hn ?_
  rw [maskFrom_keeps k p hs 0 i c.args (by simpa using hi)]
  exact ha

section Examples
def K0 : Consts Nat := { null := 0, star := 1, dstar := 2 }
/-- `def f(x, y, *args, **kw)`; objects: 10 = 'x', 11 = 'y', 12 = 'z' -/
def f0 : Func Nat := { pos := [⟨10, none⟩, ⟨11, none⟩], varargs := true, kwonly := [], varkw := true }
/-- `ignore=('y', '*')`: `f(1, 5, 7, 8)` and `f(1, 6, 9)` share a key, `f(2, 5)` does not -/
example : keygen K0 f0 [.name 11, .name 1] { args := [20, 25, 27, 28], kwds := [] } =
          keygen K0 f0 [.name 11, .name 1] { args := [20, 26, 29], kwds := [] } ∧
          keygen K0 f0 [.name 11, .name 1] { args := [20, 25], kwds := [] } ≠
          keygen K0 f0 [.name 11, .name 1] { args := [21, 25], kwds := [] } := by decide
/-- **F14, repaired**: `def g(x, *, k)` with `ignore='**'`: the keyword-only `k` is a parameter, not an *extra*
keyword; it stays in the key, so `g(1, k=5)` and `g(1, k=6)` are told apart (13 = 'k') - before the repair `'**'`
dropped it and the two calls collided -/
def g0 : Func Nat := { pos := [⟨10, none⟩], varargs := false, kwonly := [⟨13, none⟩], varkw := false }
example : keygen K0 g0 [.name 2] { args := [20], kwds := [(13, 25)] } ≠
          keygen K0 g0 [.name 2] { args := [20], kwds := [(13, 26)] } := by decide
end Examples

end Klepto.C11
