import Klepto.Lemmas.CallRel
/-!
# C06 — Eviction follows the advertised policy (LRU / MRU / LFU / RR)

The statements are about the `# purge cache` block (`overflow`) in a well-formed state — i.e. for
every state reachable by any history (`wf_run`) — plus the frame properties of a whole call.
The recency bookkeeping of `lru_cache` (a use log with duplicates + reference counts + periodic
compaction) is related to the history-level notion "order of last use" through `dkl`
(distinct keys in order of their last occurrence).
-/
namespace Klepto.C06
open Klepto AMap
set_option linter.unusedSectionVars false
variable {K V : Type} [DecidableEq K]

/-! ## a hit never removes anything -/

/-- **hit**: memory, archive and parked archive are untouched (all algorithms) -/
theorem C06_hit_frame (cfg : Cfg) (s : St K V) (ci : CallIn K V) (k : K) (v : V)
    (hk : ci.key = .ok k) (hm : get? s.c.mem k = some v) :
    (callCached cfg s ci).1.c = s.c ∧ (callCached cfg s ci).2 = .ret v 0 := by
  unfold callCached
  simp only [hk, hm, hitStep, post_c]
  split <;> simp

/-- **no overflow, no eviction**: the purge block is the identity while `len(cache) ≤ maxsize` -/
theorem C06_no_overflow (cfg : Cfg) (s : St K V) (vi : Option K) (h : s.c.mem.length ≤ cfg.maxsize) :
    overflow cfg s vi = some s := by
  unfold overflow
  have : ¬ s.c.mem.length > cfg.maxsize := by omega
  simp [this]

/-- **only victims disappear**: whatever a call does, an entry that stays resident keeps its
value, and an entry that disappears was resident (nothing else is touched) -/
theorem C06_frame (cfg : Cfg) (s : St K V) (ci : CallIn K V) (hn : (keys s.c.mem).Nodup) (j : K) (w : V)
    (h : get? (callCached cfg s ci).1.c.mem j = some w) :
    get? s.c.mem j = some w ∨ ci.key = .ok j := by
  obtain ⟨c2, hc2, hmv, _⟩ := callCached_rel cfg s ci hn
  rcases hmv.mem j with h1 | h1
  · rw [h1] at h
    rcases hc2 with ⟨rfl, _, _⟩ | ⟨k, v, hk, hins, _, _⟩
    · exact Or.inl h
    · by_cases hj : j = k
      · subst hj; exact Or.inr hk
      · rw [hins.get_other j hj] at h; exact Or.inl h
  · rw [h1] at h; cases h

/-! ## LRU -/

/-- a use appends the key to the log; in recency order it moves to the most-recent end -/
theorem lru_use_recency (q : List K) (k : K) : dkl (q ++ [k]) = (dkl q).filter (· ≠ k) ++ [k] :=
  dkl_append q k

/-- compaction does not change the recency order -/
theorem lru_compaction_recency (q : List K) : dkl (compactQ q) = dkl q := by
  rw [compactQ_eq_dkl, dkl_of_nodup _ (nodup_dkl q)]

/-- **LRU**: in any well-formed state, an overflow without purge removes exactly the key `v` at
the head of the recency order; every other tracked key `x` has a use that is more recent than
every use of `v` (`x` occurs in the part of the log after `v`'s last occurrence, `v` does not);
memory loses `v` and nothing else; the recency order of the remaining log is the old one without
its head. -/
theorem C06_lru (cfg : Cfg) (s : St K V) (vi : Option K)
    (hW : WF cfg s) (ha : cfg.algo = .lru) (hp : (s.c.archived && cfg.purge) = false)
    (hover : s.c.mem.length > cfg.maxsize) (hq : s.queue ≠ []) :
    ∃ v s', overflow cfg s vi = some s' ∧
      dkl s.queue = v :: dkl s'.queue ∧
      v ∉ s'.queue ∧ (∀ x ∈ s.queue, x ≠ v → x ∈ s'.queue) ∧
      s'.c.mem = erase s.c.mem v ∧ has s.c.mem v = true := by
  obtain ⟨pre, v, post, rc', he, hqq, hv, hpre, _, hd, _⟩ := lruLoop_spec s.queue s.rc (hW.rcInv ha) hq
  refine ⟨v, { evictOne s v with queue := post, rc := erase rc' v }, ?_, hd, hv, ?_, by simp, ?_⟩
  · unfold overflow
    simp only [hover, if_true, hp, Bool.false_eq_true, if_false, ha, he]
  · intro x hx hne
    rw [hqq] at hx
    rcases List.mem_append.mp hx with h | h
    · rcases hpre x h with h | h
      · exact h
      · exact absurd h hne
    · rcases List.mem_cons.mp h with h | h
      · exact absurd h hne
      · exact h
  · exact hW.queueRes v (by rw [hqq]; simp)

/-! ## MRU -/

/-- every completed mru call leaves its key at the most-recent end of the queue -/
theorem mru_post_last (cfg : Cfg) (s : St K V) (k : K) (ha : cfg.algo = .mru) :
    (post cfg s k).queue.getLast? = some k := by
  simp [post, ha]

/-- **MRU**: an overflow without purge removes exactly the last key of the recency queue — the key
of the most recent completed call before this one (`mru_post_last`) — and nothing else. -/
theorem C06_mru (cfg : Cfg) (s : St K V) (vi : Option K) (v : K)
    (hW : WF cfg s) (ha : cfg.algo = .mru) (hp : (s.c.archived && cfg.purge) = false)
    (hover : s.c.mem.length > cfg.maxsize) (hl : s.queue.getLast? = some v) :
    ∃ s', overflow cfg s vi = some s' ∧ s'.c.mem = erase s.c.mem v ∧ has s.c.mem v = true ∧
      s'.queue = s.queue.dropLast ∧ v ∉ s'.queue := by
  refine ⟨{ evictOne s v with queue := s.queue.dropLast }, ?_, by simp, ?_, rfl, ?_⟩
  · unfold overflow
    simp only [hover, if_true, hp, Bool.false_eq_true, if_false, ha, hl]
  · exact hW.queueRes v (List.mem_of_getLast? hl)
  · have hnd := hW.mruNodup ha
    obtain ⟨ys, hys⟩ := List.getLast?_eq_some_iff.mp hl
    show v ∉ s.queue.dropLast
    rw [hys] at hnd ⊢
    simp only [List.dropLast_concat]
    intro hmem
    exact (List.nodup_append.mp hnd).2.2 v hmem v (by simp) rfl

/-! ## LFU -/

theorem nsmallest_le_rest (n : Nat) (uc : List (K × Nat)) :
    ∀ a ∈ nsmallest n uc, ∀ b ∈ (uc.mergeSort (fun a b => a.2 ≤ b.2)).drop n, a.2 ≤ b.2 := by
  intro a ha b hb
  have hs : ((uc.mergeSort (fun a b => decide (a.2 ≤ b.2)))).Pairwise (fun a b => decide (a.2 ≤ b.2) = true) :=
    List.pairwise_mergeSort (le := fun a b => decide (a.2 ≤ b.2))
      (fun a b c h1 h2 => by simp at h1 h2 ⊢; omega) (fun a b => by simp; omega) uc
  have hsplit := List.take_append_drop n (uc.mergeSort (fun a b => decide (a.2 ≤ b.2)))
  rw [← hsplit] at hs
  have := (List.pairwise_append.mp hs).2.2 a ha b hb
  simpa using this

/-- the victims are among the tracked entries, at most `n` of them -/
theorem nsmallest_sub (n : Nat) (uc : List (K × Nat)) :
    (∀ p ∈ nsmallest n uc, p ∈ uc) ∧ (nsmallest n uc).length = min n uc.length := by
  constructor
  · intro p hp; exact (List.mem_mergeSort).mp (List.mem_of_mem_take hp)
  · simp [nsmallest, List.length_take, List.length_mergeSort]

/-- every tracked entry is a victim or among the rest of the sorted list -/
theorem nsmallest_or_rest (n : Nat) (uc : List (K × Nat)) (p : K × Nat) (hp : p ∈ uc) :
    p ∈ nsmallest n uc ∨ p ∈ (uc.mergeSort (fun a b => a.2 ≤ b.2)).drop n := by
  have : p ∈ uc.mergeSort (fun a b => decide (a.2 ≤ b.2)) := List.mem_mergeSort.mpr hp
  rw [← List.take_append_drop n (uc.mergeSort _)] at this
  exact List.mem_append.mp this

/-- memory after evicting a list of victims -/
theorem lfu_fold_mem (vs : List (K × Nat)) (s : St K V) (hn : (keys s.c.mem).Nodup) (j : K) :
    get? (vs.foldl (fun s p => { evictOne s p.1 with uc := erase s.uc p.1 }) s).c.mem j =
      if j ∈ vs.map (·.1) then none else get? s.c.mem j := by
  induction vs generalizing s with
  | nil => simp
  | cons p vs ih =>
    simp only [List.foldl_cons, List.map_cons, List.mem_cons]
    rw [ih _ (by simpa using nodup_keys_erase _ _ hn)]
    simp only [evictOne_mem, get?_erase _ _ _ hn]
    by_cases h1 : j ∈ vs.map (·.1)
    · simp [h1]
    · by_cases h2 : j = p.1 <;> simp [h1, h2]

/-- **LFU**: an overflow without purge removes exactly the `min n tracked` least-used tracked
entries (`n = max 2 (maxsize / 10)`): every removed entry's use count (since it entered the cache)
is no greater than that of every tracked entry that is kept; nothing else disappears. -/
theorem C06_lfu (cfg : Cfg) (s : St K V) (vi : Option K)
    (hW : WF cfg s) (ha : cfg.algo = .lfu) (hp : (s.c.archived && cfg.purge) = false)
    (hover : s.c.mem.length > cfg.maxsize) :
    ∃ s', overflow cfg s vi = some s' ∧
      let vs := nsmallest (max 2 (cfg.maxsize / 10)) s.uc
      (∀ j, get? s'.c.mem j = if j ∈ vs.map (·.1) then none else get? s.c.mem j) ∧
      vs.length = min (max 2 (cfg.maxsize / 10)) s.uc.length ∧
      (∀ v ∈ vs, v ∈ s.uc ∧ has s.c.mem v.1 = true) ∧
      (∀ v ∈ vs, ∀ r ∈ s.uc, r ∉ vs → v.2 ≤ r.2) := by
  refine ⟨(nsmallest (max 2 (cfg.maxsize / 10)) s.uc).foldl
      (fun s p => { evictOne s p.1 with uc := erase s.uc p.1 }) s, ?_, ?_⟩
  · unfold overflow
    simp only [hover, if_true, hp, Bool.false_eq_true, if_false, ha]
  · refine ⟨fun j => lfu_fold_mem _ s hW.memNodup j, (nsmallest_sub _ _).2, ?_, ?_⟩
    · intro v hv
      have := (nsmallest_sub _ s.uc).1 v hv
      exact ⟨this, hW.ucRes v.1 (List.mem_map_of_mem this)⟩
    · intro v hv r hr hnot
      rcases nsmallest_or_rest (max 2 (cfg.maxsize / 10)) s.uc r hr with h | h
      · exact absurd h hnot
      · exact nsmallest_le_rest _ _ v hv r h

/-- the use count is the number of uses since the entry entered the cache: it starts at 1 and
every later use adds one (eviction erases it, so a re-entry starts again at 1) -/
theorem lfu_use_counts (cfg : Cfg) (s : St K V) (k : K) (ha : cfg.algo = .lfu) :
    ucget (useKey cfg s k).uc k = ucget s.uc k + 1 ∧ ∀ j, j ≠ k → ucget (useKey cfg s k).uc j = ucget s.uc j := by
  simp only [useKey, ha]
  exact ⟨by rw [ucget_put]; simp, fun j hj => by rw [ucget_put]; simp [hj]⟩

/-! ## RR -/

/-- **RR**: an overflow without purge removes exactly one resident entry — the one
`random.choice` picked — and nothing else. -/
theorem C06_rr (cfg : Cfg) (s : St K V) (v : K)
    (hW : WF cfg s) (ha : cfg.algo = .rr) (hp : (s.c.archived && cfg.purge) = false)
    (hover : s.c.mem.length > cfg.maxsize) (hv : has s.c.mem v = true) :
    ∃ s', overflow cfg s (some v) = some s' ∧ s'.c.mem.length + 1 = s.c.mem.length ∧
      ∀ j, get? s'.c.mem j = if j = v then none else get? s.c.mem j := by
  refine ⟨evictOne s v, ?_, ?_, fun j => ?_⟩
  · unfold overflow
    simp only [hover, if_true, hp, Bool.false_eq_true, if_false, ha]
  · simp only [evictOne_mem]; exact length_erase_lt _ _ hv
  · simp only [evictOne_mem]; exact get?_erase _ _ _ hW.memNodup

/-! ## witnesses -/
section Examples
def lru2 : Cfg := { algo := .lru, safe := false, maxsize := 2, purge := false }
def mru2 : Cfg := { algo := .mru, safe := false, maxsize := 2, purge := false }
def mk (k v : Nat) : Op Nat Nat := .call { key := .ok k, fn := .ok v, victim := none }
def c0 : Cache Nat Nat := { mem := [], arch := none, swap := none }
/-- 1, 2, hit 1, then 3 overflows: LRU evicts 2 (1 was used more recently) … -/
example : (run lru2 (St.init c0) [mk 1 10, mk 2 20, mk 1 10, mk 3 30]).1.c.mem = [(1, 10), (3, 30)] := by decide
/-- … and MRU evicts 1 (the key of the previous call) -/
example : (run mru2 (St.init c0) [mk 1 10, mk 2 20, mk 1 10, mk 3 30]).1.c.mem = [(2, 20), (3, 30)] := by decide
/-- the compaction path: `maxsize = 1`, more than ten recorded uses of the resident key, then an
overflow still evicts the least recently used key -/
example : (run lru2 (St.init c0) ([mk 1 10, mk 2 20] ++ List.replicate 25 (mk 1 10) ++ [mk 3 30])).1.c.mem
    = [(1, 10), (3, 30)] := by decide
end Examples

end Klepto.C06
