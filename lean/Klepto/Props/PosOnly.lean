import Klepto.Props.C09
import Klepto.Props.C10
import Klepto.Props.C19
/-!
# Positional-only parameters (PEP 570): where C09/C10/C19 stand

`bindPO` is CPython's binding for every signature; `bind` (used by the C09/C10/C11/C19 theorems) is
its special case without positional-only parameters (`bindPO_eq_bind`).  The property theorems are
restated here over `bindPO` under exactly that guard, and the guard is shown to be necessary:
`klepto` reads `inspect.getfullargspec`, which lists positional-only parameters among `args`
without marking them, so a keyword that merely shares the name of such a parameter is taken for the
parameter — the witnesses below are replayed against the implementation (finding F38).
-/
namespace Klepto.PosOnly
open Klepto Klepto.AMap Klepto.Keys

variable {Val : Type} [DecidableEq Val]

theorem bindPosOnly_nil (args : List Val) : bindPosOnly ([] : List (Param Val)) args = some ([], args) := by
  cases args <;> rfl

theorem bindPlainPO_eq (f : Func Val) (h : f.nposonly = 0) (args : List Val) (kwds : List (Val × Val)) :
    bindPlainPO f args kwds = bindPlain f args kwds := by
  obtain ⟨pos, va, ko, vk, pa, pk, bd, npo⟩ := f
  simp only at h
  subst h
  unfold bindPlainPO
  simp only [List.take_zero, List.drop_zero, bindPosOnly_nil]
  cases hb : bindPlain { pos := pos, varargs := va, kwonly := ko, varkw := vk, pArgs := pa, pKwds := pk, bound := bd, nposonly := 0 } args kwds with
  | none => rfl
  | some b => cases b; simp

/-- without positional-only parameters the general specification is the one the theorems use -/
theorem bindPO_eq_bind (self : Val) (f : Func Val) (c : PCall Val) (h : f.nposonly = 0) :
    bindPO self f c = bind self f c := by
  unfold bindPO Keys.bind
  exact bindPlainPO_eq f h _ _

/-! ## the properties over the general specification, for signatures without positional-only parameters -/

end Klepto.PosOnly

namespace Klepto.C09
open Klepto Klepto.AMap Klepto.Keys Klepto.PosOnly
variable {Val : Type} [DecidableEq Val]

/-- **C09 over the general specification**: identically bound calls of a function without
positional-only parameters get one flat key -/
theorem C09_flat_general (k : Consts Val) (self : Val) (f : Func Val) (c₁ c₂ : PCall Val) (b : Binding Val)
    (km : KM Val) (le : Val → Val → Bool) (tyOf : Val → Val) (fast : Val → Bool)
    (hpo : f.nposonly = 0)
    (hpl : Plain f) (hwf : (names f.pos ++ names f.kwonly).Nodup) (hle : TotalOrder le)
    (hk₁ : (keys c₁.kwds).Nodup) (hk₂ : (keys c₂.kwds).Nodup)
    (hb₁ : bindPO self f c₁ = some b) (hb₂ : bindPO self f c₂ = some b) :
    encodeFlat km le tyOf fast (keygen k f [] c₁).1 (keygen k f [] c₁).2 =
    encodeFlat km le tyOf fast (keygen k f [] c₂).1 (keygen k f [] c₂).2 := by
  rw [bindPO_eq_bind self f c₁ hpo] at hb₁
  rw [bindPO_eq_bind self f c₂ hpo] at hb₂
  exact C09_flat k self f c₁ c₂ b km le tyOf fast hpl hwf hle hk₁ hk₂ hb₁ hb₂

end Klepto.C09

namespace Klepto.C10
open Klepto Klepto.AMap Klepto.Keys Klepto.PosOnly
variable {Val : Type} [DecidableEq Val]

/-- **C10 over the general specification** -/
theorem C10_calls_general (k : Consts Val) (self : Val) (f : Func Val) (c₁ c₂ : PCall Val) (b₁ b₂ : Binding Val)
    (km : KM Val) (le : Val → Val → Bool) (tyOf : Val → Val) (fast : Val → Bool)
    (hpo : f.nposonly = 0)
    (hpl : Plain f) (hwf : (names f.pos ++ names f.kwonly).Nodup) (hva : f.varargs = false)
    (hk₁ : (keys c₁.kwds).Nodup) (hk₂ : (keys c₂.kwds).Nodup)
    (hb₁ : bindPO self f c₁ = some b₁) (hb₂ : bindPO self f c₂ = some b₂)
    (n : Val) (hne : get? (b₁.named ++ b₁.extraKw) n ≠ get? (b₂.named ++ b₂.extraKw) n) :
    encodeFlat km le tyOf fast (keygen k f [] c₁).1 (keygen k f [] c₁).2 ≠
    encodeFlat km le tyOf fast (keygen k f [] c₂).1 (keygen k f [] c₂).2 := by
  rw [bindPO_eq_bind self f c₁ hpo] at hb₁
  rw [bindPO_eq_bind self f c₂ hpo] at hb₂
  exact C10_calls k self f c₁ c₂ b₁ b₂ km le tyOf fast hpl hwf hva hk₁ hk₂ hb₁ hb₂ n hne

end Klepto.C10

namespace Klepto.C19
open Klepto Klepto.AMap Klepto.Keys Klepto.PosOnly
variable {Val : Type} [DecidableEq Val]

/-- **C19 over the general specification** -/
theorem C19_plain_general (self : Val) (f : Func Val) (c : PCall Val)
    (hpo : f.nposonly = 0)
    (hpl : Plain f) (hko : f.kwonly = []) (hnd : (names f.pos).Nodup) (hk : (keys c.kwds).Nodup) :
    validate f c = true ↔ (bindPO self f c).isSome = true := by
  rw [bindPO_eq_bind self f c hpo]
  exact C19_plain_partial self f c hpl hko hnd hk

end Klepto.C19

namespace Klepto.PosOnly
open Klepto Klepto.AMap Klepto.Keys

/-! ## the guard is necessary: witnesses -/

def K0 : Consts Nat := { null := 0, star := 1, dstar := 2 }
/-- `def p(x, /, **kw)` with names x = 10 -/
def p : Func Nat := { pos := [⟨10, none⟩], varargs := false, kwonly := [], varkw := true, nposonly := 1 }
def km0 : KM Nat := { typed := false, flat := true, mark := none }

end Klepto.PosOnly
namespace Klepto.C10
open Klepto Klepto.AMap Klepto.Keys Klepto.PosOnly
/-- `p(1, x=5)` and `p(1, x=6)` bind different values (`kw = {'x': 5}` vs `{'x': 6}`) but `_keygen` files
the positional 1 under `x`, overwriting the keyword: both calls get the key of `p(1)` — C10 fails, and
with it C01 (the second call is answered with the first one's result) -/
theorem C10_posonly_collision :
    bindPO 0 p { args := [21], kwds := [(10, 25)] } ≠ bindPO 0 p { args := [21], kwds := [(10, 26)] } ∧
    (bindPO 0 p { args := [21], kwds := [(10, 25)] }).isSome = true ∧
    keygen K0 p [] { args := [21], kwds := [(10, 25)] } = keygen K0 p [] { args := [21], kwds := [(10, 26)] } := by
  decide

end Klepto.C10
namespace Klepto.C19
open Klepto Klepto.AMap Klepto.Keys Klepto.PosOnly
/-- the same call is rejected by `validate` ("multiple values for keyword argument") although CPython accepts it — C19 -/
theorem C19_posonly_rejects_valid :
    (bindPO 0 p { args := [21], kwds := [(10, 25)] }).isSome = true ∧
    validate p { args := [21], kwds := [(10, 25)] } = false := by
  decide

def qpo : Func Nat := { pos := [⟨10, none⟩], varargs := false, kwonly := [], varkw := false, nposonly := 1 }
/-- and a call that passes a positional-only parameter by keyword is accepted by `validate` although
CPython rejects it (`def q(x, /)`, `q(x=1)`) -/
theorem C19_posonly_accepts_invalid :
    bindPO 0 qpo { args := [], kwds := [(10, 21)] } = none ∧
    validate qpo { args := [], kwds := [(10, 21)] } = true := by
  decide

end Klepto.C19
namespace Klepto.PosOnly
open Klepto Klepto.AMap Klepto.Keys
/-- non-vacuity: without the `/` the very same calls are told apart and judged correctly -/
example : keygen K0 { p with nposonly := 0 } [] { args := [21], kwds := [(10, 25)] } ≠
          keygen K0 { p with nposonly := 0 } [] { args := [21], kwds := [(10, 26)] } ∨
          bind 0 { p with nposonly := 0 } { args := [21], kwds := [(10, 25)] } = none := by decide

end Klepto.PosOnly
