import Klepto.Lemmas.CallRel
/-!
# C07 — Nothing is lost on eviction: leaving memory means being in the archive

All statements are about one call of model M3 in an arbitrary well-formed state, for all five
caching algorithms × purge × safe at once (`callCached`), and separately for `no_cache`.
`aget` = lookup in the attached archive, `retr` = lookup in memory, else in the archive.
-/
namespace Klepto.C07
open Klepto AMap
set_option linter.unusedSectionVars false
variable {K V : Type} [DecidableEq K]

/-- retrievable value: memory first, then the attached archive -/
def retr (c : Cache K V) (j : K) : Option V :=
  match get? c.mem j with
  | some v => some v
  | none => c.aget j

/-- memory and archive never hold different values for one key (true of every state reached by
calls of a deterministic function; an external writer could break it, so it is a hypothesis) -/
def Agree (c : Cache K V) : Prop := ∀ j w w', get? c.mem j = some w → c.aget j = some w' → w = w'

theorem agree_ins {c c2 : Cache K V} {k : K} {v : V} (h : Ins c c2 k v) (ha : Agree c) : Agree c2 := by
  intro j w w' hm hg
  rw [h.aget] at hg
  by_cases hj : j = k
  · subst hj
    rw [h.get_self] at hm; cases hm
    rcases h.agree with h1 | h1 <;> rw [h1] at hg <;> cases hg; rfl
  · rw [h.get_other j hj] at hm; exact ha j w w' hm hg

theorem agree_move {c c' : Cache K V} (h : MoveRel c c') (ha : Agree c) : Agree c' := by
  intro j w w' hm hg
  rcases h.mem j with h1 | h1
  · rw [h1] at hm
    rcases h.arch j with h2 | ⟨_, h2⟩
    · rw [h2] at hg; exact ha j w w' hm hg
    · rw [h2, hm] at hg; cases hg; rfl
  · rw [h1] at hm; cases hm

/-- **Leaving memory means being in the archive** (lfu / lru / mru / rr / inf, std and safe, purge
or per-entry eviction, single or multiple victims): with an archive attached, every entry resident
before a call and not resident after it is in the archive with the same value. -/
theorem C07_leaving_is_archived (cfg : Cfg) (s : St K V) (ci : CallIn K V)
    (hn : (keys s.c.mem).Nodup) (ha : s.c.archived = true) (j : K) (w : V)
    (hb : get? s.c.mem j = some w) (hl : get? (callCached cfg s ci).1.c.mem j = none) :
    (callCached cfg s ci).1.c.aget j = some w := by
  obtain ⟨c2, hc2, _, hlv⟩ := callCached_rel cfg s ci hn
  have hlv := hlv ha
  rcases hc2 with ⟨rfl, _, _⟩ | ⟨k, v, _, hins, _, _⟩
  · rw [hlv j hl (by rw [hb]; rfl), hb]
  · have hjk : j ≠ k := by intro h; subst h; rw [hins.absent] at hb; cases hb
    have h2 : get? c2.mem j = some w := by rw [hins.get_other j hjk]; exact hb
    rw [hlv j hl (by rw [h2]; rfl), h2]

/-- **Cache traffic never changes or removes an archived entry.** -/
theorem C07_archive_stable (cfg : Cfg) (s : St K V) (ci : CallIn K V)
    (hn : (keys s.c.mem).Nodup) (hag : Agree s.c) (j : K) (w : V) (hb : s.c.aget j = some w) :
    (callCached cfg s ci).1.c.aget j = some w := by
  obtain ⟨c2, hc2, hmv, _⟩ := callCached_rel cfg s ci hn
  have h2 : Agree c2 ∧ c2.aget j = some w := by
    rcases hc2 with ⟨rfl, _, _⟩ | ⟨k, v, _, hins, _, _⟩
    · exact ⟨hag, hb⟩
    · exact ⟨agree_ins hins hag, by rw [hins.aget]; exact hb⟩
  rcases hmv.arch j with h | ⟨hs, h⟩
  · rw [h]; exact h2.2
  · cases hm : get? c2.mem j with
    | none => rw [hm] at hs; cases hs
    | some x => rw [h, hm, h2.1 j x w hm h2.2]

/-- `Agree` is an invariant of calls -/
theorem agree_call (cfg : Cfg) (s : St K V) (ci : CallIn K V)
    (hn : (keys s.c.mem).Nodup) (hag : Agree s.c) : Agree (callCached cfg s ci).1.c := by
  obtain ⟨c2, hc2, hmv, _⟩ := callCached_rel cfg s ci hn
  rcases hc2 with ⟨rfl, _, _⟩ | ⟨k, v, _, hins, _, _⟩
  · exact agree_move hmv hag
  · exact agree_move hmv (agree_ins hins hag)

/-- **Every result stays retrievable**: whatever was retrievable (from memory or the archive)
before a call is retrievable with the same value after it. -/
theorem C07_retained (cfg : Cfg) (s : St K V) (ci : CallIn K V)
    (hn : (keys s.c.mem).Nodup) (ha : s.c.archived = true) (hag : Agree s.c) (j : K) (w : V)
    (hb : retr s.c j = some w) : retr (callCached cfg s ci).1.c j = some w := by
  have hag' := agree_call cfg s ci hn hag
  unfold retr at hb ⊢
  cases hm : get? s.c.mem j with
  | some x =>
    rw [hm] at hb; cases hb
    cases hm' : get? (callCached cfg s ci).1.c.mem j with
    | none => exact C07_leaving_is_archived cfg s ci hn ha j w hm hm'
    | some y =>
      -- still resident: same value, because memory entries never change
      obtain ⟨c2, hc2, hmv, _⟩ := callCached_rel cfg s ci hn
      have h2 : get? c2.mem j = some w := by
        rcases hc2 with ⟨rfl, _, _⟩ | ⟨k, v, _, hins, _, _⟩
        · exact hm
        · have hjk : j ≠ k := by intro h; subst h; rw [hins.absent] at hm; cases hm
          rw [hins.get_other j hjk]; exact hm
      rcases hmv.mem j with h | h
      · rw [h, h2] at hm'; cases hm'; rfl
      · rw [h] at hm'; cases hm'
  | none =>
    rw [hm] at hb
    have hst := C07_archive_stable cfg s ci hn hag j w hb
    cases hm' : get? (callCached cfg s ci).1.c.mem j with
    | none => exact hst
    | some y => rw [hag' j y w hm' hst]

/-- **A freshly returned result is retrievable right after the call** (it may already have been
evicted to the archive — e.g. `lru` over bulk-loaded entries evicts the new key itself). -/
theorem C07_result_retained (cfg : Cfg) (s : St K V) (ci : CallIn K V) (k : K) (v : V) (n : Nat)
    (hn : (keys s.c.mem).Nodup) (ha : s.c.archived = true) (hag : Agree s.c)
    (hk : ci.key = .ok k) (ho : (callCached cfg s ci).2 = .ret v n) :
    retr (callCached cfg s ci).1.c k = some v := by
  obtain ⟨c2, hc2, hmv, hlv⟩ := callCached_rel cfg s ci hn
  have hlv := hlv ha
  have h2 : get? c2.mem k = some v := by
    rcases hc2 with ⟨rfl, hr, _⟩ | ⟨k', v', hk', hins, hr, _⟩
    · exact hr k v n hk ho
    · rw [hk] at hk'; cases hk'
      rw [hr v n ho]; exact hins.get_self
  unfold retr
  rcases hmv.mem k with h | h
  · rw [h, h2]
  · rw [h]; simp only; rw [hlv k h (by rw [h2]; rfl), h2]

/-- `dump(k…)` writes exactly the listed keys that are resident; other archive entries are left
alone -/
theorem dump_only_resident (c : Cache K V) (k j : K) :
    (c.dump1 k).aget j = if j = k ∧ c.archived = true ∧ (get? c.mem k).isSome then get? c.mem k else c.aget j := by
  rw [aget_dump1]
  cases ha : c.arch with
  | none => simp [Cache.archived, ha]
  | some a =>
    cases hv : get? c.mem k with
    | none => simp
    | some v => by_cases hj : j = k <;> simp [hj, Cache.archived, ha]

/-! ## `no_cache` -/

/-- `no_cache`: a computed result goes to the archive before memory is cleared; what was
archived stays archived.  Resident entries that are *not* archived are lost when a call is answered
from memory or the archive (finding F26) — hence the hypothesis `hres`. -/
theorem C07_no_cache (cfg : Cfg) (s : St K V) (ci : CallIn K V)
    (hn : (keys s.c.mem).Nodup) (ha : s.c.archived = true)
    (hres : ∀ j w, get? s.c.mem j = some w → s.c.aget j = some w) (j : K) (w : V)
    (hb : retr s.c j = some w) : retr (callNo cfg s ci).1.c j = some w := by
  have hbase : s.c.aget j = some w := by
    unfold retr at hb
    cases hm : get? s.c.mem j with
    | some x => rw [hm] at hb; cases hb; exact hres j w hm
    | none => rw [hm] at hb; exact hb
  unfold callNo
  cases hkey : ci.key with
  | genError e => simp only [keyFail]; split <;> simp only [evalDirect_c] <;> first | exact hb | (split <;> exact hb)
  | unhashable e =>
    simp only
    split
    · cases hf : ci.fn with
      | error e' => exact hb
      | ok v =>
        simp only [ha, if_true]
        show retr s.c.dumpAll.clearMem j = some w
        unfold retr
        simp only [clearMem_mem, get?, aget_clearMem]
        rw [aget_dumpAll _ _ hn]
        obtain ⟨a, haa⟩ := (archived_iff s.c).mp ha
        simp only [haa]
        cases hm : get? s.c.mem j with
        | none => simpa [Cache.aget, haa] using hbase
        | some x => simp only; rw [← hbase]; exact (hres j x hm).symm ▸ rfl
    · exact hb
  | ok k =>
    simp only
    cases hl : get? (s.c.preload k).mem k with
    | some v => simp [retr, get?, hbase]
    | none =>
      simp only
      cases hf : ci.fn with
      | error e => exact hb
      | ok v =>
        have harch : ({ s.c.preload k with mem := put (s.c.preload k).mem k v } : Cache K V).archived = true := by
          simpa [Cache.archived] using ha
        simp only [harch, if_true]
        obtain ⟨a, haa⟩ := (archived_iff s.c).mp ha
        obtain ⟨hpm, hnone⟩ := preload_of_notfound s.c k hl
        have hnd : (keys (put (s.c.preload k).mem k v)).Nodup := by
          rw [hpm]; exact nodup_keys_put _ _ _ hn
        have hjk : j ≠ k := by intro hj; subst hj; rw [hnone] at hbase; cases hbase
        show retr ({ s.c.preload k with mem := put (s.c.preload k).mem k v } : Cache K V).dumpAll.clearMem j = some w
        unfold retr
        simp only [clearMem_mem, get?, aget_clearMem]
        rw [aget_dumpAll _ _ hnd]
        simp only [preload_arch, haa, hpm, get?_put, hjk, if_false]
        cases hm : get? s.c.mem j with
        | none => simpa [Cache.aget, haa] using hbase
        | some x => simp only; rw [← hbase]; exact (hres j x hm).symm ▸ rfl

/-! ## witnesses -/
section Examples
def lru2 : Cfg := { algo := .lru, safe := false, maxsize := 2, purge := false }
def mk (k v : Nat) : Op Nat Nat := .call { key := .ok k, fn := .ok v, victim := none }
def c0 : Cache Nat Nat := { mem := [], arch := some [], swap := none }
/-- the victim of an eviction was itself loaded from the archive earlier -/
example : (run lru2 (St.init c0) [mk 1 10, mk 2 20, mk 3 30, mk 1 10, mk 4 40]).1.c =
    { mem := [(1, 10), (4, 40)], arch := some [(1, 10), (2, 20), (3, 30)], swap := none } := by decide
/-- **F26**: `no_cache` handed a cache with two un-archived resident entries: the call for key 1 is
answered from memory and the entry for key 2 is gone from memory *and* archive -/
example :
    let cfg : Cfg := { algo := .no, safe := false, maxsize := 0, purge := true }
    let s : St Nat Nat := St.init { mem := [(1, 10), (2, 20)], arch := some [], swap := none }
    (call cfg s { key := .ok 1, fn := .ok 10, victim := none }).1.c = { mem := [], arch := some [], swap := none } := by
  decide
end Examples

end Klepto.C07
