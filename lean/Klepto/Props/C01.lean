import Klepto.Props.C07
/-!
# C01 — Memoization transparency: a cached call returns what the function returns

`F : K → Except Exc V` is the deterministic function seen through the key map: well defined
exactly when the keymap is information-preserving (`RespectsKey`, discharged for the real keymaps
by C10).  `Consistent F s`: every value stored anywhere (memory, attached archive, parked archive)
is what `F` returns for its key.  The theorem: `Consistent` is an invariant of every admissible
operation, and under it every call returns `F k` — from memory, from the archive, or computed.
-/
namespace Klepto.C01
open Klepto AMap
set_option linter.unusedSectionVars false
variable {K V : Type} [DecidableEq K]

/-- lookup in the parked (`archived(False)`) archive -/
def sget (c : Cache K V) (j : K) : Option V :=
  match c.swap with
  | some a => get? a j
  | none => none

def ConsistentMap (F : K → Except Exc V) (m : List (K × V)) : Prop := ∀ j v, get? m j = some v → F j = .ok v

structure Consistent (F : K → Except Exc V) (c : Cache K V) : Prop where
  mem : ConsistentMap F c.mem
  arch : ∀ j v, c.aget j = some v → F j = .ok v
  swap : ∀ j v, sget c j = some v → F j = .ok v

/-- operations of a session of the same deterministic function: calls evaluate `F`; external
archive writes and replacement archives hold `F`-values only (another session of the same function) -/
def Admissible (F : K → Except Exc V) : Op K V → Prop
  | .call ci => ∀ k, ci.key = .ok k → ci.fn = F k
  | .extPut k v => F k = .ok v
  | .setArchive (some a) => ConsistentMap F a
  | _ => True

/-- the outcome the undecorated function has -/
def expected (r : Except Exc V) (o : Out V) : Prop :=
  match r with
  | .ok v => ∃ n, o = .ret v n
  | .error e => ∃ n, o = .raised e n

theorem consistent_put {F : K → Except Exc V} {m : List (K × V)} (h : ConsistentMap F m) (k : K) (v : V)
    (hv : F k = .ok v) : ConsistentMap F (put m k v) := by
  intro j w hj
  rw [get?_put] at hj
  by_cases hjk : j = k
  · subst hjk; simp at hj; subst hj; exact hv
  · simp only [hjk, if_false] at hj; exact h j w hj

theorem consistent_update {F : K → Except Exc V} {m o : List (K × V)} (h : ConsistentMap F m)
    (ho : ∀ p ∈ o, F p.1 = .ok p.2) : ConsistentMap F (update m o) := by
  unfold update
  induction o generalizing m with
  | nil => exact h
  | cons p o ih =>
    simp only [List.foldl_cons]
    exact ih (consistent_put h p.1 p.2 (ho p (by simp))) (fun q hq => ho q (by simp [hq]))

theorem mem_of_get? (m : List (K × V)) : ∀ p ∈ m, ∃ w, get? m p.1 = some w := by
  intro p hp
  have : p.1 ∈ keys m := List.mem_map_of_mem hp
  exact (has_eq_true_iff m p.1).mp ((has_iff_mem_keys m p.1).mpr this)

/-- values of a map with distinct keys are the looked-up ones -/
theorem get?_of_mem_nodup (m : List (K × V)) (h : (keys m).Nodup) : ∀ p ∈ m, get? m p.1 = some p.2 := by
  induction m with
  | nil => simp
  | cons q m ih =>
    obtain ⟨k, v⟩ := q
    simp only [keys, List.map_cons, List.nodup_cons] at h
    intro p hp
    rcases List.mem_cons.mp hp with rfl | hp
    · simp [get?]
    · have hne : k ≠ p.1 := by
        intro hk; apply h.1; rw [hk]; exact List.mem_map_of_mem hp
      simp only [get?, hne, if_false]
      exact ih h.2 p hp

/-- `Consistent` across an insertion followed by moves -/
theorem consistent_ins {F : K → Except Exc V} {c c2 : Cache K V} {k : K} {v : V}
    (h : Consistent F c) (hins : Ins c c2 k v) (hv : F k = .ok v) : Consistent F c2 :=
  ⟨by rw [hins.mem]; exact consistent_put h.mem k v hv,
   fun j w hj => h.arch j w (by rw [← hins.aget]; exact hj),
   fun j w hj => h.swap j w (by simpa [sget, hins.swap] using hj)⟩

theorem consistent_move {F : K → Except Exc V} {c c' : Cache K V} (h : Consistent F c) (hm : MoveRel c c') :
    Consistent F c' := by
  refine ⟨fun j w hj => ?_, fun j w hj => ?_, fun j w hj => h.swap j w (by simpa [sget, hm.swap] using hj)⟩
  · rcases hm.mem j with h1 | h1
    · rw [h1] at hj; exact h.mem j w hj
    · rw [h1] at hj; cases hj
  · rcases hm.arch j with h1 | ⟨_, h1⟩
    · rw [h1] at hj; exact h.arch j w hj
    · rw [h1] at hj; exact h.mem j w hj

/-- **C01, one call (caching decorators).**  In a consistent state, a call whose key was produced
returns exactly what the function returns for those arguments — value or exception — whether it is
answered from memory, loaded from the archive, or computed; the state stays consistent.
The only excluded outcome is `mru`'s `IndexError` (F2). -/
theorem C01_call (F : K → Except Exc V) (cfg : Cfg) (s : St K V) (ci : CallIn K V) (k : K)
    (hn : (keys s.c.mem).Nodup) (hc : Consistent F s.c) (hk : ci.key = .ok k) (hf : ci.fn = F k)
    (hne : (callCached cfg s ci).2.isIndexError = false) :
    expected (F k) (callCached cfg s ci).2 ∧ Consistent F (callCached cfg s ci).1.c := by
  constructor
  · unfold callCached at hne ⊢
    simp only [hk] at hne ⊢
    cases hm : get? s.c.mem k with
    | some v =>
      simp only [hitStep]
      rw [hc.mem k v hm]; exact ⟨0, rfl⟩
    | none =>
      simp only [hm] at hne ⊢
      cases hl : get? (s.c.preload k).mem k with
      | some v =>
        simp only [hl, loadStep] at hne ⊢
        obtain ⟨_, hag⟩ := ins_of_load s.c k v hm hl
        rw [hc.arch k v hag]
        rcases finish_out cfg _ k v 0 ci.victim with h | h
        · exact ⟨0, h⟩
        · rw [h] at hne; simp [Out.isIndexError] at hne
      | none =>
        simp only [hl] at hne ⊢
        rw [← hf]
        cases hfn : ci.fn with
        | error e => exact ⟨1, rfl⟩
        | ok v =>
          simp only [hfn, missStep] at hne ⊢
          rcases finish_out cfg _ k v 1 ci.victim with h | h
          · exact ⟨1, h⟩
          · rw [h] at hne; simp [Out.isIndexError] at hne
  · obtain ⟨c2, hc2, hmv, _⟩ := callCached_rel cfg s ci hn
    rcases hc2 with ⟨rfl, _, _⟩ | ⟨k', v, hk', hins, _, hsrc⟩
    · exact consistent_move hc hmv
    · rw [hk] at hk'; cases hk'
      refine consistent_move (consistent_ins hc hins ?_) hmv
      rcases hsrc with h | h
      · exact hc.arch k v h
      · rw [← hf, h]

/-- **`no_cache`**: same statement -/
theorem C01_call_no (F : K → Except Exc V) (cfg : Cfg) (s : St K V) (ci : CallIn K V) (k : K)
    (hn : (keys s.c.mem).Nodup) (hc : Consistent F s.c) (hk : ci.key = .ok k) (hf : ci.fn = F k) :
    expected (F k) (callNo cfg s ci).2 ∧ Consistent F (callNo cfg s ci).1.c := by
  unfold callNo
  simp only [hk]
  have hclear : ∀ (c : Cache K V), (∀ j v, c.aget j = some v → F j = .ok v) → c.swap = s.c.swap →
      Consistent F c.clearMem := fun c ha hs =>
    ⟨fun j v h => by simp [get?] at h, fun j v h => ha j v (by simpa using h),
     fun j v h => hc.swap j v (by simpa [sget, Cache.clearMem, hs] using h)⟩
  cases hl : get? (s.c.preload k).mem k with
  | some v =>
    simp only
    have hv : F k = .ok v := by
      have h2 := preload_get_self s.c k
      rw [hl] at h2
      cases ha : s.c.arch with
      | none => simp only [ha] at h2; exact hc.mem k v h2.symm
      | some a =>
        simp only [ha] at h2
        cases hak : get? a k with
        | none => simp only [hak] at h2; exact hc.mem k v h2.symm
        | some w => simp only [hak] at h2; cases h2; exact hc.arch k v (by simp [Cache.aget, ha, hak])
    exact ⟨by rw [hv]; exact ⟨0, rfl⟩, hclear _ (fun j w h => hc.arch j w (by simpa using h)) (by simp)⟩
  | none =>
    simp only
    rw [← hf]
    cases hfn : ci.fn with
    | error e => exact ⟨⟨1, rfl⟩, hc⟩
    | ok v =>
      simp only
      refine ⟨⟨1, rfl⟩, ?_⟩
      obtain ⟨hpm, _⟩ := preload_of_notfound s.c k hl
      have hv : F k = .ok v := by rw [← hf, hfn]
      split
      · refine hclear _ (fun j w h => ?_) (by simp)
        have hnd : (keys (put (s.c.preload k).mem k v)).Nodup := by
          rw [hpm]; exact nodup_keys_put _ _ _ hn
        rw [aget_dumpAll _ _ hnd] at h
        simp only [preload_arch] at h
        cases ha : s.c.arch with
        | none => simp [ha] at h
        | some a =>
          simp only [ha, hpm] at h
          cases hg : get? (put s.c.mem k v) j with
          | some x =>
            simp only [hg] at h; cases h
            exact consistent_put hc.mem k v hv j w hg
          | none =>
            simp only [hg] at h
            exact hc.arch j w (by simpa [Cache.aget, ha] using h)
      · exact hclear _ (fun j w h => hc.arch j w (by simpa [Cache.aget] using h)) (by simp)

/-- safe decorators on a key failure return the function's own outcome -/
theorem C01_safe_keyfail (cfg : Cfg) (s : St K V) (ci : CallIn K V) (e : Exc)
    (hs : cfg.safe = true) (hk : ci.key = .genError e ∨ ci.key = .unhashable e) :
    expected ci.fn (call cfg s ci).2 := by
  unfold call
  rcases hk with hk | hk <;> split <;>
    simp only [callNo, callCached, hk, keyFail, hs, if_true, evalDirect] <;>
    cases hf : ci.fn <;> exact ⟨1, rfl⟩

section Examples
/-- `F` for the witnesses: key `k` ↦ `10·k`, key 5 raises -/
def F0 : Nat → Except Exc Nat := fun k => if k = 5 then .error (.user 5) else .ok (10 * k)
def lru2 : Cfg := { algo := .lru, safe := false, maxsize := 2, purge := false }
def mk (k : Nat) : Op Nat Nat := .call { key := .ok k, fn := F0 k, victim := none }
def c0 : Cache Nat Nat := { mem := [], arch := some [], swap := none }
/-- evict → reload: every call returns `F0 k`, also the reload of the evicted key 1 -/
example : (run lru2 (St.init c0) [mk 1, mk 2, mk 3, mk 1, mk 5, mk 2]).2 =
    [.ret 10 1, .ret 20 1, .ret 30 1, .ret 10 0, .raised (.user 5) 1, .ret 20 0] := by decide
end Examples

end Klepto.C01
