import Klepto.Props.C19
/-!
# C19 for bound methods and callable instances

`C19_plain_partial` covers plain functions.  A bound method `obj.m` of `def m(self, a, b=…, *args, **kw)`
and a callable instance (`signature()` continues with its bound `__call__`) are the same function with the
instance already supplied: `validate` drops the instance parameter from the names, and - since the repair
of F43 - rejects a keyword that names it.  The theorem is obtained by reduction to the plain case.
-/
namespace Klepto.C19
open Klepto Klepto.AMap Klepto.Keys

variable {Val : Type} [DecidableEq Val]

/-- the underlying plain function: the same parameters without the instance -/
def unbind (f : Func Val) : Func Val := { f with pos := f.pos.drop 1, bound := false }

/-- a bound method / callable instance, not wrapped in a partial, whose instance parameter `p0` has no default -/
structure BoundShape (f : Func Val) (p0 : Param Val) (ps : List (Param Val)) : Prop where
  pos : f.pos = p0 :: ps
  nodflt : p0.dflt = none
  bound : f.bound = true
  pa : f.pArgs = []
  pk : f.pKwds = []
  po : f.nposonly = 0

theorem validate_bound (f : Func Val) (p0 : Param Val) (ps : List (Param Val)) (c : PCall Val) (h : BoundShape f p0 ps) :
    validate f c = (validate (unbind f) c && !(keys c.kwds).contains p0.name) := by
  obtain ⟨hpos, hnd, hb, hpa, hpk, hpo⟩ := h
  have hd : defaultsOf (p0 :: ps) = defaultsOf ps := by simp [defaultsOf, hnd]
  unfold validate sigMarked unbind
  simp only [hpos, hb, hpa, hpk, names, List.map_cons, List.drop_succ_cons, List.drop_zero, List.zip_nil_right,
    List.any_nil, Bool.false_eq_true, if_false, if_true, hd, update, List.foldl_nil, has, get?, Option.isSome_none,
    Bool.not_false]
  simp only [filter_true, List.map_cons, List.drop_succ_cons, List.drop_zero]
  unfold vchecks VChecks.all
  simp only [hpos, hb, hpa, hpk, hpo, names, List.map_cons, List.drop_succ_cons, List.drop_zero, hd, if_true,
    Bool.false_eq_true, if_false, List.head?_cons, keys, List.map_nil, List.contains_nil, Bool.or_false,
    Bool.true_and, Bool.false_and, Bool.not_false, Bool.and_true, beq_self_eq_true]
  ac_rfl

theorem filter_isExtra_bound (f : Func Val) (p0 : Param Val) (ps : List (Param Val)) (hpos : f.pos = p0 :: ps)
    (kw : List (Val × Val)) (hno : get? kw p0.name = none) :
    kw.filter (fun p => isExtra f p.1) = kw.filter (fun p => isExtra (unbind f) p.1) := by
  have hmem : p0.name ∉ keys kw := (get?_none_iff_not_mem kw p0.name).mp hno
  apply List.filter_congr
  intro q hq
  have hne : q.1 ≠ p0.name := by
    intro he; apply hmem; rw [← he]; exact List.mem_map_of_mem (f := (·.1)) hq
  simp only [isExtra, unbind, hpos, names, List.map_cons, List.drop_succ_cons, List.drop_zero, List.contains_cons]
  have : (q.1 == p0.name) = false := by simpa using hne
  simp [this]

/-- the specification side: supplying the instance positionally = binding the rest, provided no keyword names the instance parameter -/
theorem bind_bound (self : Val) (f : Func Val) (p0 : Param Val) (ps : List (Param Val)) (c : PCall Val)
    (h : BoundShape f p0 ps) (hk : (keys c.kwds).Nodup) :
    (bind self f c).isSome = true ↔
      ((bind self (unbind f) c).isSome = true ∧ (keys c.kwds).contains p0.name = false) := by
  obtain ⟨hpos, hnd, hb, hpa, hpk, hpo⟩ := h
  unfold Keys.bind
  simp only [hb, hpa, hpk, if_true, List.nil_append, List.append_nil, List.singleton_append, update_nil_left c.kwds hk]
  have hu : (unbind f).bound = false ∧ (unbind f).pArgs = [] ∧ (unbind f).pKwds = [] := by simp [unbind, hpa, hpk]
  simp only [hu.1, hu.2.1, hu.2.2, Bool.false_eq_true, if_false, List.nil_append, update_nil_left c.kwds hk]
  cases hg : get? c.kwds p0.name with
  | some v =>
    -- the instance parameter is named by a keyword: CPython refuses (multiple values)
    have hc : (keys c.kwds).contains p0.name = true := by
      have : p0.name ∈ keys c.kwds := by
        by_cases hm : p0.name ∈ keys c.kwds
        · exact hm
        · rw [← get?_none_iff_not_mem] at hm
          rw [hm] at hg; cases hg
      simpa using this
    have : (bindPlain f (self :: c.args) c.kwds) = none := by
      unfold bindPlain
      simp only [hpos, bindPos, hg]
      split
      · rfl
      · split <;> rfl
    have hm : p0.name ∈ keys c.kwds := by simpa using hc
    simp only [this, Option.isSome_none, Bool.false_eq_true, false_iff, not_and]
    intro _; simp [hm]
  | none =>
    have hc : (keys c.kwds).contains p0.name = false := by
      have : p0.name ∉ keys c.kwds := (get?_none_iff_not_mem c.kwds p0.name).mp hg
      simpa using this
    simp only [hc, and_true]
    unfold bindPlain
    rw [filter_isExtra_bound f p0 ps hpos c.kwds hg]
    simp only [hpos, unbind, List.length_cons, List.drop_succ_cons, List.drop_zero, bindPos, hg]
    have hlen : (c.args.length + 1 > ps.length + 1 ∧ ¬ f.varargs = true) ↔ (c.args.length > ps.length ∧ ¬ f.varargs = true) := by
      constructor <;> (rintro ⟨a, b⟩; exact ⟨by omega, b⟩)
    by_cases h1 : c.args.length > ps.length ∧ ¬ f.varargs = true
    · simp [h1, hlen.mpr h1]
    · have h1' : ¬ (c.args.length + 1 > ps.length + 1 ∧ ¬ f.varargs = true) := fun hh => h1 (hlen.mp hh)
      simp only [h1, h1', if_false]
      split
      · rfl
      · cases bindPos c.kwds ps c.args <;> cases bindKwOnly c.kwds f.kwonly <;> simp

/-- **C19 for bound methods and callable instances** (no keyword-only, no positional-only parameters, not
wrapped in a partial): `validate` succeeds exactly when CPython's binding succeeds. -/
theorem C19_bound (self : Val) (f : Func Val) (p0 : Param Val) (ps : List (Param Val)) (c : PCall Val)
    (h : BoundShape f p0 ps) (hko : f.kwonly = []) (hnd : (names f.pos).Nodup) (hk : (keys c.kwds).Nodup) :
    validate f c = true ↔ (bind self f c).isSome = true := by
  rw [validate_bound f p0 ps c h, bind_bound self f p0 ps c h hk]
  have hpl : Plain (unbind f) := ⟨by simp [unbind, h.pa], by simp [unbind, h.pk], by simp [unbind]⟩
  have hko' : (unbind f).kwonly = [] := by simp [unbind, hko]
  have hnd' : (names (unbind f).pos).Nodup := by
    have : names (unbind f).pos = (names f.pos).drop 1 := by simp [unbind, names, List.map_drop]
    rw [this]
    exact List.Nodup.sublist (List.drop_sublist 1 _) hnd
  have := C19_plain_partial self (unbind f) c hpl hko' hnd' hk
  rw [← this]
  cases validate (unbind f) c <;> cases (keys c.kwds).contains p0.name <;> simp

/-- non-vacuity: `obj.m` for `def m(self, a, b=5, *args, **kw)` (names self = 9, a = 10, b = 11) -/
example : BoundShape ({ pos := [⟨9, none⟩, ⟨10, none⟩, ⟨11, some 25⟩], varargs := true, kwonly := [], varkw := true, bound := true } : Func Nat)
    ⟨9, none⟩ [⟨10, none⟩, ⟨11, some 25⟩] := ⟨rfl, rfl, rfl, rfl, rfl, rfl⟩

end Klepto.C19
