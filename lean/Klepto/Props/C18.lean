import Klepto.Props.C07
/-!
# C18 — Introspection coherence: key(), lookup() and __cache__() agree with calls

In the model the three key sites (`wrapper`, `key`, `lookup`) are one function by construction, so
the statements below are thin; the property is about 36 duplicated source sites and is decided
mainly by the correspondence suite (`f.key(args)` must equal the dictionary key that appears in
`f.__cache__()`/the archive after the call, for every decorator copy).
-/
namespace Klepto.C18
open Klepto AMap
set_option linter.unusedSectionVars false
variable {K V : Type} [DecidableEq K]

/-- **lookup** returns the resident value or raises `KeyError`; it evaluates nothing and the
state — contents, archive, eviction order, statistics — is literally unchanged. -/
theorem C18_lookup (cfg : Cfg) (s : St K V) (k : K) :
    step cfg s (.lookup (.ok k)) =
      (s, match get? s.c.mem k with | some v => .ret v 0 | none => .raised .keyError 0) := by
  simp only [step]; split <;> simp_all

/-- a key-pipeline failure inside `lookup`/`key` propagates (there is no `try` there, also in
`safe.py`) and changes nothing -/
theorem C18_lookup_keyfail (cfg : Cfg) (s : St K V) (e : Exc) :
    step cfg s (.lookup (.genError e)) = (s, .raised e 0) ∧
    step cfg s (.lookup (.unhashable e)) = (s, .raised e 0) := ⟨rfl, rfl⟩

/-- interleaving any number of lookups into a history changes no later output and no state -/
theorem C18_lookups_invisible (cfg : Cfg) (s : St K V) (key : KeyIn K) (ops : List (Op K V)) :
    (run cfg s (.lookup key :: ops)).1 = (run cfg s ops).1 ∧
    (run cfg s (.lookup key :: ops)).2.tail = (run cfg s ops).2 := by
  have : (step cfg s (.lookup key)).1 = s := by
    simp only [step]; split
    · split <;> rfl
    · rfl
    · rfl
  simp only [run, this, List.tail_cons, and_self]

/-- **key(args) is the slot of the call**: right after a call with key `k` returned `v`,
`lookup` with the same key returns `v` or raises `KeyError` (the entry may already have been
evicted) — never another value. -/
theorem C18_key_is_slot (cfg : Cfg) (s : St K V) (ci : CallIn K V) (k : K) (v : V) (n : Nat)
    (hn : (keys s.c.mem).Nodup) (hk : ci.key = .ok k) (ho : (callCached cfg s ci).2 = .ret v n) :
    get? (callCached cfg s ci).1.c.mem k = some v ∨ get? (callCached cfg s ci).1.c.mem k = none := by
  obtain ⟨c2, hc2, hmv, _⟩ := callCached_rel cfg s ci hn
  have h2 : get? c2.mem k = some v := by
    rcases hc2 with ⟨rfl, hr, _⟩ | ⟨k', v', hk', hins, hr, _⟩
    · exact hr k v n hk ho
    · rw [hk] at hk'; cases hk'; rw [hr v n ho]; exact hins.get_self
  rcases hmv.mem k with h | h
  · left; rw [h, h2]
  · right; exact h

/-- for `inf_cache` the slot is always filled -/
theorem C18_key_is_slot_inf (cfg : Cfg) (s : St K V) (ci : CallIn K V) (k : K) (v : V) (n : Nat)
    (ha : cfg.algo = .inf) (hk : ci.key = .ok k) (ho : (callCached cfg s ci).2 = .ret v n) :
    get? (callCached cfg s ci).1.c.mem k = some v := by
  unfold callCached at ho ⊢
  simp only [hk] at ho ⊢
  cases hm : get? s.c.mem k with
  | some w =>
    simp only [hm, hitStep] at ho ⊢
    cases ho
    simp only [post_c]; split <;> simp [hm]
  | none =>
    simp only [hm] at ho ⊢
    cases hl : get? (s.c.preload k).mem k with
    | some w =>
      simp only [hl, loadStep, finish, ha, if_true] at ho ⊢
      cases ho; simpa using hl
    | none =>
      simp only [hl] at ho ⊢
      cases hf : ci.fn with
      | error e => simp [hf] at ho
      | ok w =>
        simp only [hf, missStep, finish, ha, if_true] at ho ⊢
        cases ho; simp [get?_put]

section Examples
def lru2 : Cfg := { algo := .lru, safe := true, maxsize := 2, purge := false }
def c0 : Cache Nat Nat := { mem := [(1, 10), (2, 20)], arch := none, swap := none }
example : step lru2 (St.init c0) (.lookup (.ok 2)) = (St.init c0, .ret 20 0) := by decide
example : step lru2 (St.init c0) (.lookup (.ok 3)) = (St.init c0, .raised .keyError 0) := by decide
end Examples

end Klepto.C18
