import Klepto.Props.C03
import Klepto.Props.C02
/-!
# C04 — Persistence: a fresh handle or process sees exactly what was written

The model is *storage-centric*: the contents of a persistent archive live in a store indexed by
location; a handle is a location plus settings and holds no contents of its own (every method of
`file_archive`, `dir_archive`, sqlite `sqltable_archive` goes to storage — `__asdict__`, `_lookup`,
`_select_key_items`).  In such a model "a fresh handle sees what was written" is true by construction
(`C04_fresh_handle`, `C04_new_process`) — the theorems are **thin**; what they record is the modelling
assumption that suite `persist` then checks against the code on every run: the same write histories
read through the writing handle, a fresh handle, `copy()`, a handle rebuilt from `state`, an
unpickled handle, and a fresh / unpickled handle in a new process with another working directory
must all equal the contents of model M7 (`Sys.step`) and a dict of snapshots.

The parts with content:
* `C04_snapshot_stable` — a stored value stays what it was until an operation names its key (frame
  of `DictSpec`), so what a later reader sees is the value as stored;
* the import-based reader (`serialized=False`): `importRead` is the CPython import system's
  source/`.pyc` decision; `C04_import_reader_fresh` (never writing byte-code, the code after fix F9,
  every read returns the last write) and the stale-read witness for the pre-fix behaviour;
* `C04_unpickle_same_store` — `__reduce__`/`__setstate__` restore the full `__state__`, whatever the
  working directory of the unpickling process;
* `C04_redecorate` — a cached function re-created on the archive is served from it (C02).
-/
namespace Klepto.C04
open Klepto AMap Backend
set_option linter.unusedSectionVars false
variable {K V : Type} [DecidableEq K]

/-! ## handles hold no contents -/

/-- a handle on a persistent archive: where it is, and how it encodes -/
structure PHandle where
  loc : String
  settings : Nat            -- opaque: serialized / protocol / compression …; only equality matters
  deriving DecidableEq, Repr

/-- the persistent storage of one machine -/
abbrev Store (K V : Type) := List (String × BSt K V)

/-- a mapping operation through a handle: reads and rewrites the store at the handle's location -/
def hstep (c : Codec K V) (st : Store K V) (h : PHandle) (op : Backend.Op K V) : Store K V × Backend.Out K V :=
  match get? st h.loc with
  | none => (st, .refused)
  | some b => let r := b.step c op; (put st h.loc r.1, r.2)

/-- `dict(handle.items())` -/
def hview (c : Codec K V) (st : Store K V) (h : PHandle) : Option (List (K × V)) :=
  (get? st h.loc).bind (·.asDict c)

def hrun (c : Codec K V) (st : Store K V) (h : PHandle) : List (Backend.Op K V) → Store K V
  | [] => st
  | op :: ops => hrun c (hstep c st h op).1 h ops

/-- **a fresh handle sees what the writing handle sees** (thin: the contents are in the store) -/
theorem C04_fresh_handle (c : Codec K V) (st : Store K V) (w f : PHandle) (ops : List (Backend.Op K V))
    (hloc : f.loc = w.loc) : hview c (hrun c st w ops) f = hview c (hrun c st w ops) w := by
  simp [hview, hloc]

/-- a process is a set of handles and nothing else that outlives it; the store does.  **A new
process started after the writer exited** opens a handle on the location and reads the store the
writer left (thin) -/
theorem C04_new_process (c : Codec K V) (st : Store K V) (w r : PHandle) (ops : List (Backend.Op K V))
    (hloc : r.loc = w.loc) :
    let left := hrun c st w ops          -- what the writer process leaves behind
    hview c left r = hview c left w := by
  simp [hview, hloc]

/-- operations through a handle never touch another location -/
theorem C04_other_location (c : Codec K V) (st : Store K V) (h : PHandle) (op : Backend.Op K V) (l : String) (hl : l ≠ h.loc) :
    get? (hstep c st h op).1 l = get? st l := by
  unfold hstep
  cases get? st h.loc with
  | none => rfl
  | some b => simp [get?_put, hl]

/-! ## … and what it sees is what a dict would hold (C03 through the store) -/

def bstRun (c : Codec K V) (b : BSt K V) : List (Backend.Op K V) → BSt K V
  | [] => b
  | op :: ops => bstRun c (b.step c op).1 ops

theorem hrun_at (c : Codec K V) (st : Store K V) (w : PHandle) (b : BSt K V) (ops : List (Backend.Op K V))
    (hb : get? st w.loc = some b) : get? (hrun c st w ops) w.loc = some (bstRun c b ops) := by
  induction ops generalizing st b with
  | nil => exact hb
  | cons op ops ih =>
    simp only [hrun, bstRun]
    apply ih
    simp [hstep, hb, get?_put]

theorem bstRun_file (c : Codec K V) (m : List (K × V)) (ops : List (Backend.Op K V)) :
    bstRun c (.file m) ops = .file (C03.runWith (fileStep c) m ops).1 := by
  induction ops generalizing m with
  | nil => rfl
  | cons op ops ih => simp only [bstRun, BSt.step, C03.runWith]; exact ih _

theorem bstRun_sql (c : Codec K V) (rows : SqlSt K V) (ops : List (Backend.Op K V)) :
    bstRun c (.sql rows) ops = .sql (C03.runWith (sqlStep c) rows ops).1 := by
  induction ops generalizing rows with
  | nil => rfl
  | cons op ops ih => simp only [bstRun, BSt.step, C03.runWith]; exact ih _

theorem bstRun_dir (c : Codec K V) (s : DirSt K V) (ops : List (Backend.Op K V)) :
    bstRun c (.dir s) ops = .dir (C03.runWith (dirStep c) s ops).1 := by
  induction ops generalizing s with
  | nil => rfl
  | cons op ops ih => simp only [bstRun, BSt.step, C03.runWith]; exact ih _

/-- **`file_archive`: a fresh handle (same process, another process, after the writer exited) reads a
dict `l` whose contents are exactly those a Python dict would hold after the same operations** — the
write history through `w` is a dict history (`DictRun`) from the initial contents to `get? l` -/
theorem C04_file_fresh_sees_dict (c : Codec K V) (st : Store K V) (w f : PHandle) (m : List (K × V))
    (ops : List (Backend.Op K V)) (hloc : f.loc = w.loc) (hm : get? st w.loc = some (.file m))
    (hinv : C03.FileInv c m) (ha : ∀ op ∈ ops, ∀ p ∈ C03.stores op, C03.Enc c p) :
    ∃ l, hview c (hrun c st w ops) f = some l ∧
      DictRun (get? m) (C03.runWith (fileStep c) m ops).2 (get? l) := by
  refine ⟨(C03.runWith (fileStep c) m ops).1, ?_, C03.file_run c m ops hinv ha⟩
  simp [hview, hloc, hrun_at c st w _ ops hm, bstRun_file, BSt.asDict]

/-- the same for the sqlite table (no invariant needed) -/
theorem C04_sql_fresh_sees_dict (c : Codec K V) (st : Store K V) (w f : PHandle) (rows : SqlSt K V)
    (ops : List (Backend.Op K V)) (hloc : f.loc = w.loc) (hm : get? st w.loc = some (.sql rows))
    (ha : ∀ op ∈ ops, ∀ p ∈ C03.stores op, C03.Enc c p)
    (hr : ∀ x ∈ (C03.runWith (sqlStep c) rows ops).2, x.2 ≠ .refused) :
    ∃ l, hview c (hrun c st w ops) f = some l ∧
      DictRun (sqlGet rows) (C03.runWith (sqlStep c) rows ops).2 (get? l) := by
  refine ⟨sqlDict (C03.runWith (sqlStep c) rows ops).1, ?_, ?_⟩
  · simp [hview, hloc, hrun_at c st w _ ops hm, bstRun_sql, BSt.asDict]
  · rw [view_sqlDict]; exact C03.sql_run c rows ops ha hr

/-- … and for `dir_archive` on a key universe with distinct file names -/
theorem C04_dir_fresh_sees_dict (c : Codec K V) (U : K → Prop) (hc : DirCodecOK c U) (st : Store K V) (w f : PHandle)
    (s : DirSt K V) (ops : List (Backend.Op K V)) (hloc : f.loc = w.loc) (hm : get? st w.loc = some (.dir s))
    (hinv : DirInv c U s) (hk : ∀ op ∈ ops, ∀ k ∈ C03.opKeys op, U k)
    (hv : ∀ op ∈ ops, ∀ p ∈ C03.stores op, c.cv p.2 = some p.2)
    (hr : ∀ x ∈ (C03.runWith (dirStep c) s ops).2, x.2 ≠ .refused) :
    ∃ l, hview c (hrun c st w ops) f = some l ∧
      DictRun (get? (toDict c s)) (C03.runWith (dirStep c) s ops).2 (get? l) := by
  have hinv' : DirInv c U (C03.runWith (dirStep c) s ops).1 := by
    clear hm
    induction ops generalizing s with
    | nil => exact hinv
    | cons op ops ih =>
      simp only [C03.runWith]
      have h1 := C03.dir_step c U hc s op hinv (hk op (by simp)) (hv op (by simp)) (hr (op, (dirStep c s op).2) (by simp [C03.runWith]))
      exact ih _ h1.2 (fun o ho => hk o (List.mem_cons_of_mem _ ho)) (fun o ho => hv o (List.mem_cons_of_mem _ ho))
        (fun x hx => hr x (by simp only [C03.runWith, List.mem_cons]; exact Or.inr hx))
  refine ⟨toDict c (C03.runWith (dirStep c) s ops).1, ?_, C03.dir_run c U hc s ops hinv hk hv hr⟩
  simp [hview, hloc, hrun_at c st w _ ops hm, bstRun_dir, BSt.asDict, dirItems_eq hc _ hinv']

/-! ## a stored value stays as stored until its key is named -/

/-- the operations that can remove or change a key they do not name -/
def global : Backend.Op K V → Bool
  | .clear | .popitem _ => true
  | _ => false

theorem popSeq_frame (x : V) (d : View K V) (ks : List K) (k : K) (hk : k ∉ ks) : (View.popSeq x d ks).1 k = d k := by
  induction ks generalizing d with
  | nil => rfl
  | cons a ks ih =>
    simp only [List.mem_cons, not_or] at hk
    simp only [View.popSeq]
    rw [ih _ hk.2]; simp [View.del, hk.1]

theorem popAll_frame (d : View K V) (ks : List K) (k : K) (hk : k ∉ ks) (r) (hr : View.popAll d ks = some r) : r.1 k = d k := by
  induction ks generalizing d r with
  | nil => simp [View.popAll] at hr; subst hr; rfl
  | cons a ks ih =>
    simp only [List.mem_cons, not_or] at hk
    simp only [View.popAll] at hr
    cases hg : d a with
    | none => simp [hg] at hr
    | some v =>
      simp only [hg] at hr
      cases hp : View.popAll (d.del a) ks with
      | none => simp [hp] at hr
      | some r' =>
        simp only [hp, Option.map_some, Option.some.injEq] at hr
        subst hr
        rw [ih _ hk.2 r' hp]; simp [View.del, hk.1]

theorem putAll_frame (d : View K V) (kvs : List (K × V)) (k : K) (hk : k ∉ keys kvs) : View.putAll d kvs k = d k := by
  unfold View.putAll
  induction kvs generalizing d with
  | nil => rfl
  | cons p kvs ih =>
    simp only [keys, List.map_cons, List.mem_cons, not_or] at hk
    simp only [List.foldl_cons]
    rw [ih _ hk.2]; simp [View.put, hk.1]

/-- **snapshot stability**: in any dict history step, a key the operation does not name keeps its
value (or its absence).  With `C03`'s refinement theorems this holds of every archive class: what a
later reader finds under `k` is the value of the last operation that named `k`. -/
theorem C04_snapshot_stable (d d' : View K V) (op : Backend.Op K V) (o : Backend.Out K V) (h : DictSpec d op o d')
    (k : K) (hk : k ∉ C03.opKeys op) (hg : global op = false) : d' k = d k := by
  cases h with
  | setitem a v => simp only [C03.opKeys, List.mem_singleton] at hk; simp [View.put, hk]
  | delitem_hit a v _ => simp only [C03.opKeys, List.mem_singleton] at hk; simp [View.del, hk]
  | pop_hit a v x _ => simp only [C03.opKeys, List.mem_singleton] at hk; simp [View.del, hk]
  | popitem _ _ _ _ => simp [global] at hg
  | popkeys_default ks x => exact popSeq_frame x d ks k (by simpa [C03.opKeys] using hk)
  | popkeys_all ks _ l hp => exact popAll_frame d ks k (by simpa [C03.opKeys] using hk) _ hp
  | setdefault_miss a x _ => simp only [C03.opKeys, List.mem_singleton] at hk; simp [View.put, hk]
  | update kvs => exact putAll_frame d kvs k (by simpa [C03.opKeys] using hk)
  | clear => simp [global] at hg
  | _ => rfl

/-! ## the import-based reader (`serialized=False`) -/

/-- the archive's source file as the import system sees it -/
structure Src (C : Type) where
  mtimeSec : Nat
  size : Nat
  content : C

/-- `import memo` as CPython does it: a cached `.pyc` is used when its recorded (mtime-second, size)
match the source; otherwise the source is compiled, and — if byte-code writing is on — cached -/
def importRead {C : Type} (writeBytecode : Bool) (src : Src C) (pyc : Option (Nat × Nat × C)) : C × Option (Nat × Nat × C) :=
  match pyc with
  | some (mt, sz, c) =>
    if mt = src.mtimeSec ∧ sz = src.size then (c, pyc)
    else (src.content, if writeBytecode then some (src.mtimeSec, src.size, src.content) else pyc)
  | none => (src.content, if writeBytecode then some (src.mtimeSec, src.size, src.content) else none)

/-- a history of writes (each replaces the source file) and reads -/
inductive IOp (C : Type)
  | write (s : Src C)
  | read

/-- run a history; returns the results of the reads together with the source they should equal -/
def importRun {C : Type} (wb : Bool) : Src C → Option (Nat × Nat × C) → List (IOp C) → List (C × C)
  | _, _, [] => []
  | _, pyc, .write s :: ops => importRun wb s pyc ops
  | src, pyc, .read :: ops =>
    let r := importRead wb src pyc
    (r.1, src.content) :: importRun wb src r.2 ops

/-- **the reader of the current code** (byte-code writing switched off around the import, fix F9):
no `.pyc` ever appears, and every read returns the last write — for every history, whatever the
timing and sizes of the writes -/
theorem C04_import_reader_fresh {C : Type} (src : Src C) (ops : List (IOp C)) :
    ∀ p ∈ importRun false src none ops, p.1 = p.2 := by
  induction ops generalizing src with
  | nil => simp [importRun]
  | cons op ops ih =>
    cases op with
    | write s => exact ih s
    | read =>
      simp only [importRun, importRead, List.mem_cons]
      rintro p (rfl | hp)
      · rfl
      · exact ih src p hp

/-- what the fix removed (finding F9, replayed by suite `persist` with byte-code caching on): two
writes of equal size within one second, a read in between caches the first — the second read is stale -/
example : importRun true (⟨100, 7, "k=0"⟩ : Src String) none [.read, .write ⟨100, 7, "k=1"⟩, .read]
    = [("k=0", "k=0"), ("k=0", "k=1")] := by decide

/-- with byte-code caching, reads are fresh as long as consecutive writes differ in (second, size) -/
theorem C04_import_reader_partial {C : Type} (src : Src C) (mt sz : Nat) (c : C)
    (hd : ¬ (mt = src.mtimeSec ∧ sz = src.size)) : (importRead true src (some (mt, sz, c))).1 = src.content := by
  simp [importRead, hd]

/-! ## rebuilding a handle: `__reduce__`, `state`, `copy()` -/

/-- `__state__` of a file/dir archive: the location as an absolute path plus the settings -/
structure AState where
  id : String               -- absolute path (`mkdir` / `os.path.abspath` at construction)
  settings : Nat
  deriving DecidableEq, Repr

/-- `__init__(name, settings)` run in working directory `cwd`: a relative name is resolved there -/
def construct (cwd : String) (name : String) (settings : Nat) (absolute : Bool) : AState :=
  { id := if absolute then name else cwd ++ "/" ++ name, settings := settings }

/-- `__reduce__` of `dir_archive`: `(cls, (basename(id), settings…), {'__state__': state})`; unpickling
calls the constructor with the *base name* in the current directory and then restores `__state__` -/
def unpickleDir (cwd : String) (base : String) (s : AState) : AState :=
  let fresh := construct cwd base s.settings false
  { fresh with id := s.id, settings := s.settings }          -- `__dict__.update(state)`

/-- **an unpickled handle addresses the same store with the same settings**, in any working directory -/
theorem C04_unpickle_same_store (cwd base : String) (s : AState) : unpickleDir cwd base s = s := rfl

/-- it is the restored `__state__` that makes this true: the constructor arguments alone name a
different directory as soon as the working directory differs (the stray empty directory suite
`persist` reports as a note) -/
example : construct "/other" "archdir" 0 false ≠ ({ id := "/work/archdir", settings := 0 } : AState) := by decide

/-- `copy()` with no name and a handle rebuilt from `state` are constructed from `state['id']`, an
absolute path: same location, same settings -/
theorem C04_rebuild_from_state (cwd : String) (s : AState) : construct cwd s.id s.settings true = s := rfl

/-! ## a decorated function re-created on the archive is served from it -/

/-- C02's second-session theorem, restated for C04: a fresh wrapper (new function object, new
process) whose cache is attached to an archive holding `k ↦ w` never evaluates the function for `k`,
over any quiet history -/
theorem C04_redecorate (cfg : Cfg) (a : List (K × V)) (ops : List (Klepto.Op K V)) (k : K) (w : V)
    (hno : cfg.algo ≠ .no) (hmp : MruNoPurge cfg) (ha : (keys a).Nodup)
    (hq : ∀ op ∈ ops, C02.Quiet op = true) (hk : get? a k = some w) :
    C02.NoEval cfg k (St.init { mem := [], arch := some a, swap := none }) ops :=
  C02.C02_second_session cfg a ops k w hno hmp ha hq hk

end Klepto.C04
