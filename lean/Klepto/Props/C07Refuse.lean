import Klepto.Props.Refuse
import Klepto.Props.C02
/-!
# C07 (and the limit of C05) when the archive refuses a write-back

C07 says "every entry that leaves the in-memory cache through eviction or purge is present in the archive with
the same value **before it is dropped**".  The theorems of `Props/C07.lean` are about M3, where a write-back
cannot fail.  Here they are proved of M3F (`Model/WrapperFail.lean`): for every archive - whatever it refuses,
all-or-nothing or item-by-item bulk writes - for all five caching algorithms, purge or not, `safe` or not, and
whether the call returns, raises `IndexError` (F2) or raises the archive's exception out of the eviction.
-/
namespace Klepto.C07
open Klepto AMap
set_option linter.unusedSectionVars false
variable {K V : Type} [DecidableEq K]

/-- **leaving memory means being in the archive - also when the archive refuses**: an entry resident before
the call and not resident after it is in the archive with the same value; in particular the victim of a
refused write-back has NOT left memory -/
theorem C07_refused_leaving_is_archived (r : Refuse V) (cfg : Cfg) (s : St K V) (ci : CallIn K V)
    (hn : (keys s.c.mem).Nodup) (ha : s.c.archived = true) (j : K) (w : V)
    (hb : get? s.c.mem j = some w) (hl : get? (callCachedF r cfg s ci).1.c.mem j = none) :
    (callCachedF r cfg s ci).1.c.aget j = some w := by
  obtain ⟨c2, hc2, _, hlv⟩ := callCachedF_rel r cfg s ci hn
  have hlv := hlv ha
  rcases hc2 with rfl | ⟨k, v, _, hins⟩
  · rw [hlv j hl (by rw [hb]; rfl), hb]
  · have hjk : j ≠ k := by intro h; subst h; rw [hins.absent] at hb; cases hb
    have h2 : get? c2.mem j = some w := by rw [hins.get_other j hjk]; exact hb
    rw [hlv j hl (by rw [h2]; rfl), h2]

/-- **no archived entry changes or disappears**, refused write-backs and half-done bulk writes included -/
theorem C07_refused_archive_stable (r : Refuse V) (cfg : Cfg) (s : St K V) (ci : CallIn K V)
    (hn : (keys s.c.mem).Nodup) (hag : Agree s.c) (j : K) (w : V) (hb : s.c.aget j = some w) :
    (callCachedF r cfg s ci).1.c.aget j = some w := by
  obtain ⟨c2, hc2, hmv, _⟩ := callCachedF_rel r cfg s ci hn
  have h2 : Agree c2 ∧ c2.aget j = some w := by
    rcases hc2 with rfl | ⟨k, v, _, hins⟩
    · exact ⟨hag, hb⟩
    · exact ⟨agree_ins hins hag, by rw [hins.aget]; exact hb⟩
  rcases hmv.arch j with h | ⟨hs, h⟩
  · rw [h]; exact h2.2
  · cases hm : get? c2.mem j with
    | none => rw [hm] at hs; cases hs
    | some x => rw [h, hm, h2.1 j x w hm h2.2]

theorem agree_callF (r : Refuse V) (cfg : Cfg) (s : St K V) (ci : CallIn K V)
    (hn : (keys s.c.mem).Nodup) (hag : Agree s.c) : Agree (callCachedF r cfg s ci).1.c := by
  obtain ⟨c2, hc2, hmv, _⟩ := callCachedF_rel r cfg s ci hn
  rcases hc2 with rfl | ⟨k, v, _, hins⟩
  · exact agree_move hmv hag
  · exact agree_move hmv (agree_ins hins hag)

/-- **everything retrievable stays retrievable** through a call, refused or not -/
theorem C07_refused_retained (r : Refuse V) (cfg : Cfg) (s : St K V) (ci : CallIn K V)
    (hn : (keys s.c.mem).Nodup) (ha : s.c.archived = true) (hag : Agree s.c) (j : K) (w : V)
    (hb : retr s.c j = some w) : retr (callCachedF r cfg s ci).1.c j = some w := by
  have hag' := agree_callF r cfg s ci hn hag
  unfold retr at hb ⊢
  cases hm : get? s.c.mem j with
  | some x =>
    rw [hm] at hb; cases hb
    cases hm' : get? (callCachedF r cfg s ci).1.c.mem j with
    | none => exact C07_refused_leaving_is_archived r cfg s ci hn ha j w hm hm'
    | some y =>
      obtain ⟨c2, hc2, hmv, _⟩ := callCachedF_rel r cfg s ci hn
      have h2 : get? c2.mem j = some w := by
        rcases hc2 with rfl | ⟨k, v, _, hins⟩
        · exact hm
        · have hjk : j ≠ k := by intro h; subst h; rw [hins.absent] at hm; cases hm
          rw [hins.get_other j hjk]; exact hm
      rcases hmv.mem j with h | h
      · rw [h, h2] at hm'; cases hm'; rfl
      · rw [h] at hm'; cases hm'
  | none =>
    rw [hm] at hb
    have hst := C07_refused_archive_stable r cfg s ci hn hag j w hb
    cases hm' : get? (callCachedF r cfg s ci).1.c.mem j with
    | none => exact hst
    | some y => rw [hag' j y w hm' hst]

/-- the state invariant the one-step theorems need; preserved by every call -/
structure Sound (c : Cache K V) : Prop where
  nodup : (keys c.mem).Nodup
  archived : c.archived = true
  agree : Agree c

theorem sound_callF (r : Refuse V) (cfg : Cfg) (s : St K V) (ci : CallIn K V) (h : Sound s.c) :
    Sound (callCachedF r cfg s ci).1.c := by
  obtain ⟨c2, hc2, hmv, _⟩ := callCachedF_rel r cfg s ci h.nodup
  refine ⟨?_, ?_, agree_callF r cfg s ci h.nodup h.agree⟩
  · rcases hc2 with rfl | ⟨k, v, _, hins⟩
    · exact hmv.nodup h.nodup
    · exact hmv.nodup (hins.nodup h.nodup)
  · rcases hc2 with rfl | ⟨k, v, _, hins⟩
    · rw [hmv.archived]; exact h.archived
    · rw [hmv.archived, hins.archived]; exact h.archived

/-- **whole histories of calls over an archive that refuses values**: whatever was retrievable at any moment
is retrievable, with the same value, at every later moment - however many write-backs were refused on the way,
and whichever calls ended in an exception -/
theorem C07_refused_history (r : Refuse V) (cfg : Cfg) (hno : cfg.algo ≠ .no) (cis : List (CallIn K V))
    (s : St K V) (h : Sound s.c) :
    Sound (runF r cfg s (cis.map .call)).1.c ∧
      ∀ j w, retr s.c j = some w → retr (runF r cfg s (cis.map .call)).1.c j = some w := by
  induction cis generalizing s with
  | nil => exact ⟨h, fun _ _ hb => hb⟩
  | cons ci cis ih =>
    have hstep : stepF r cfg s (.call ci) = callCachedF r cfg s ci := by simp [stepF, callF, hno]
    simp only [List.map_cons, runF, hstep]
    have h1 := sound_callF r cfg s ci h
    have h2 := ih (callCachedF r cfg s ci).1 h1
    exact ⟨h2.1, fun j w hb => h2.2 j w (C07_refused_retained r cfg s ci h.nodup h.archived h.agree j w hb)⟩

section Examples
/-- an archive that refuses the value `99`, written item by item -/
def r99 : Refuse Nat := { bad := fun v => v == 99, bulkAtomic := false, exc := .typeError }
def lruF : Cfg := { algo := .lru, safe := false, maxsize := 1, purge := false }
def mkF (k v : Nat) : CallIn Nat Nat := { key := .ok k, fn := .ok v, victim := none }
def cF : Cache Nat Nat := { mem := [], arch := some [], swap := none }
/-- the hypotheses are met, and the refused branch is reached: `f(2)` has to evict the entry of `f(1)`, whose
value the archive refuses - the call raises, and the victim is still resident -/
example : Sound cF := ⟨by decide, rfl, fun j w w' h => by simp [cF, get?] at h⟩
example : (runF r99 lruF (St.init cF) [.call (mkF 1 99), .call (mkF 2 20)]).2
    = [.ret 99 1, .raised .typeError 1] := by decide
example : get? (runF r99 lruF (St.init cF) [.call (mkF 1 99), .call (mkF 2 20)]).1.c.mem 1 = some 99 := by decide
end Examples

end Klepto.C07

namespace Klepto.C05
open Klepto AMap C07
/-- **the bound of C05 does not survive a refused write-back** (finding F57): the entry of the call is stored
before the `# purge cache` block runs and the victim cannot leave, so a cache within its bound ends above it -/
theorem C05_refused_overfull :
    (runF r99 lruF (St.init cF) [.call (mkF 1 99), .call (mkF 2 20)]).1.c.mem.length = 2 ∧ lruF.maxsize = 1 := by
  decide

/-- ... and that is the ONLY way: a call that does not raise the archive's exception is M3's call, for which
`C05_step` holds -/
theorem C05_refused_only {K V : Type} [DecidableEq K]
    (r : Refuse V) (cfg : Cfg) (s : St K V) (ci : CallIn K V)
    (h : ¬ ∃ n, (callCachedF r cfg s ci).2 = .raised r.exc n) :
    callCachedF r cfg s ci = callCached cfg s ci := by
  rcases callCachedF_eq_or_refused r cfg s ci with h' | h'
  · exact h'
  · exact absurd h' h
end Klepto.C05

/-! ## whole histories over the wider alphabet: calls, `f.dump()`, `f.dump(k…)`, `f.load(k…)`, lookups, `info()` -/
namespace Klepto.C07
open Klepto AMap C02
set_option linter.unusedSectionVars false
variable {K V : Type} [DecidableEq K]

/-- what a (possibly refused) `f.dump(k…)` leaves is what `dump` of a prefix of the keys leaves -/
theorem dumpKeysF_prefix (r : Refuse V) (c : Cache K V) (ks : List K) :
    ∃ ks', (match c.dumpKeysF r ks with | .ok c' => c' | .error c' => c') = c.dumpKeys ks' := by
  induction ks generalizing c with
  | nil => exact ⟨[], rfl⟩
  | cons k ks ih =>
    simp only [Cache.dumpKeysF]
    cases hd : c.dump1F r k with
    | none => exact ⟨[], rfl⟩
    | some c' =>
      simp only
      obtain ⟨ks', h⟩ := ih c'
      refine ⟨k :: ks', ?_⟩
      rw [h, dump1F_some r _ _ _ hd]; rfl

theorem dumpKeys_mem (c : Cache K V) (ks : List K) : (c.dumpKeys ks).mem = c.mem := by
  induction ks generalizing c with
  | nil => rfl
  | cons k ks ih => simp only [Cache.dumpKeys, List.foldl_cons]; exact (ih _).trans (dump1_mem c k)

theorem sound_dumpKeys (c : Cache K V) (ks : List K) (h : Sound c) : Sound (c.dumpKeys ks) :=
  ⟨by rw [dumpKeys_mem]; exact h.nodup, by rw [dumpKeys_archived]; exact h.archived, agree_dumpKeys _ ks h.agree⟩

/-- what a (possibly refused) `f.dump()` leaves: `Sound`, and nothing retrievable lost -/
theorem dumpAllF_sound (r : Refuse V) (c : Cache K V) (h : Sound c) :
    Sound (match c.dumpAllF r with | .ok c' => c' | .error c' => c') ∧
    ∀ j w, retr c j = some w → retr (match c.dumpAllF r with | .ok c' => c' | .error c' => c') j = some w := by
  cases hd : c.dumpAllF r with
  | ok c' =>
    have : c' = c.dumpAll := by
      unfold Cache.dumpAllF at hd
      split at hd
      · split at hd
        · cases hd
        · cases hd; rfl
      · cases hd; rfl
    subst this
    exact ⟨⟨by simpa using h.nodup, by simpa using h.archived, agree_dumpAll _ h.nodup⟩,
      fun j w hb => by rw [retr_dumpAll _ _ h.nodup]; exact hb⟩
  | error c' =>
    simp only
    obtain ⟨hm, he⟩ := moveRel_dumpAllF_error r c c' h.nodup hd
    refine ⟨⟨by rw [he]; exact h.nodup, by rw [hm.archived]; exact h.archived, agree_move hm h.agree⟩, fun j w hb => ?_⟩
    unfold retr at hb ⊢
    rw [he]
    cases hg : get? c.mem j with
    | some x => rw [hg] at hb; exact hb
    | none =>
      rw [hg] at hb
      simp only
      rcases hm.arch j with ha | ⟨hs, _⟩
      · rw [ha]; exact hb
      · rw [hg] at hs; cases hs

/-- the operations of a history over a refusing archive that the theorem covers -/
def QuietF : Op K V → Bool
  | .call _ => true | .load _ => true | .dump _ => true | .dumpAll => true
  | .lookup _ => true | .info => true | .archivedQ => true
  | _ => false

theorem sound_stepF (r : Refuse V) (cfg : Cfg) (hno : cfg.algo ≠ .no) (s : St K V) (op : Op K V)
    (hq : QuietF op = true) (h : Sound s.c) :
    Sound (stepF r cfg s op).1.c ∧ ∀ j w, retr s.c j = some w → retr (stepF r cfg s op).1.c j = some w := by
  cases op with
  | call ci =>
    have hstep : stepF r cfg s (.call ci) = callCachedF r cfg s ci := by simp [stepF, callF, hno]
    rw [hstep]
    exact ⟨sound_callF r cfg s ci h, fun j w hb => C07_refused_retained r cfg s ci h.nodup h.archived h.agree j w hb⟩
  | load ks =>
    simp only [stepF, step]
    refine ⟨⟨?_, ?_, agree_loadKeys _ ks h.agree⟩, fun j w hb => (retr_loadKeys s.c ks j w h.agree hb).1⟩
    · exact (loadKeys_grow s.c ks h.nodup).1
    · have := h.archived
      simp only [Cache.archived] at this ⊢
      rw [loadKeys_arch]; exact this
  | dump ks =>
    obtain ⟨ks', hk⟩ := dumpKeysF_prefix r s.c ks
    simp only [stepF]
    cases hd : s.c.dumpKeysF r ks with
    | ok c' =>
      rw [hd] at hk; simp only at hk ⊢; subst hk
      exact ⟨sound_dumpKeys _ ks' h, fun j w hb => by rw [retr_dumpKeys]; exact hb⟩
    | error c' =>
      rw [hd] at hk; simp only at hk ⊢; subst hk
      exact ⟨sound_dumpKeys _ ks' h, fun j w hb => by rw [retr_dumpKeys]; exact hb⟩
  | dumpAll =>
    have := dumpAllF_sound r s.c h
    simp only [stepF]
    cases hd : s.c.dumpAllF r with
    | ok c' => rw [hd] at this; exact this
    | error c' => rw [hd] at this; exact this
  | lookup key =>
    simp only [stepF, step]
    split
    · split <;> exact ⟨h, fun _ _ hb => hb⟩
    · exact ⟨h, fun _ _ hb => hb⟩
    · exact ⟨h, fun _ _ hb => hb⟩
  | info => exact ⟨h, fun _ _ hb => hb⟩
  | archivedQ => exact ⟨h, fun _ _ hb => hb⟩
  | clear keep => simp [QuietF] at hq
  | loadAll => simp [QuietF] at hq
  | archivedOn => simp [QuietF] at hq
  | archivedOff => simp [QuietF] at hq
  | setArchive a => simp [QuietF] at hq
  | extPut k v => simp [QuietF] at hq
  | extDel k => simp [QuietF] at hq

/-- **nothing retrievable is ever lost over a history of calls, dumps, loads and lookups on an archive that
refuses values** - whichever operations ended in the archive's exception -/
theorem C07_refused_history_quiet (r : Refuse V) (cfg : Cfg) (hno : cfg.algo ≠ .no) (ops : List (Op K V))
    (s : St K V) (hq : ∀ op ∈ ops, QuietF op = true) (h : Sound s.c) :
    Sound (runF r cfg s ops).1.c ∧ ∀ j w, retr s.c j = some w → retr (runF r cfg s ops).1.c j = some w := by
  induction ops generalizing s with
  | nil => exact ⟨h, fun _ _ hb => hb⟩
  | cons op ops ih =>
    have h1 := sound_stepF r cfg hno s op (hq op (by simp)) h
    have h2 := ih (stepF r cfg s op).1 (fun o ho => hq o (by simp [ho])) h1.1
    simp only [runF]
    exact ⟨h2.1, fun j w hb => h2.2 j w (h1.2 j w hb)⟩

end Klepto.C07

namespace Klepto.C07
open Klepto AMap
/-- finding F26b in the model: `no_cache` over a refusing archive.  `f(1)` returns a value the archive refuses:
the dump raises and the entry stays in memory; `f(2)` is evaluated and stored, the dump is refused again; a second
`f(2)` finds its key in memory, returns it - and clears the memory cache without dumping: the result of `f(2)`
is now neither in memory nor in the archive (the root is F26: the found-in-memory path of `no_cache`) -/
def noF : Cfg := { algo := .no, safe := false, maxsize := 0, purge := true }
theorem C07_refused_no_cache_loses :
    (runF r99 noF (St.init cF) [.call (mkF 1 99), .call (mkF 2 20), .call (mkF 2 20)]).2
      = [.raised .typeError 1, .raised .typeError 1, .ret 20 0] ∧
    retr (runF r99 noF (St.init cF) [.call (mkF 1 99), .call (mkF 2 20)]).1.c 2 = some 20 ∧
    retr (runF r99 noF (St.init cF) [.call (mkF 1 99), .call (mkF 2 20), .call (mkF 2 20)]).1.c 2 = none := by
  decide
end Klepto.C07
