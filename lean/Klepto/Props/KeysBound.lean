import Klepto.Props.C19Bound
import Klepto.Props.C09
import Klepto.Props.C10
/-!
# C09 / C10 for bound methods and callable instances

`_keygen` sees a bound method through `signature()`, which drops the instance parameter: the key of
`obj.m(...)` is the key of the underlying function without that parameter (`keygen_bound`).  CPython's
binding of the bound method is the binding of the rest with the instance prepended (`bind_bound_eq`).
So canonicalisation (C09) and discrimination (C10) carry over from the plain case.
-/
namespace Klepto.C19
open Klepto Klepto.AMap Klepto.Keys
variable {Val : Type} [DecidableEq Val]

theorem kSignature_bound (f : Func Val) (p0 : Param Val) (ps : List (Param Val)) (h : BoundShape f p0 ps) :
    kSignature f = kSignature (unbind f) := by
  obtain ⟨hpos, hnd, hb, hpa, hpk, hpo⟩ := h
  have hd : defaultsOf (p0 :: ps) = defaultsOf ps := by simp [defaultsOf, hnd]
  unfold kSignature unbind
  simp only [hpos, hb, hpa, hpk, names, List.map_cons, List.drop_succ_cons, List.drop_zero, List.zip_nil_right,
    List.any_nil, Bool.false_eq_true, if_false, if_true, hd, has, get?, Option.isSome_none, Bool.not_false, filter_true]

theorem keygen_bound (k : Consts Val) (f : Func Val) (p0 : Param Val) (ps : List (Param Val)) (h : BoundShape f p0 ps)
    (ign : List (Ign Val)) (c : PCall Val) : keygen k f ign c = keygen k (unbind f) ign c := by
  unfold keygen
  rw [kSignature_bound f p0 ps h]
  simp [unbind]

/-- CPython's binding of a bound method: the instance, then the binding of the remaining parameters -/
theorem bind_bound_eq (self : Val) (f : Func Val) (p0 : Param Val) (ps : List (Param Val)) (c : PCall Val) (b : Binding Val)
    (h : BoundShape f p0 ps) (hk : (keys c.kwds).Nodup) (hb : bind self f c = some b) :
    ∃ b', bind self (unbind f) c = some b' ∧ b.named = (p0.name, self) :: b'.named ∧ b.extraPos = b'.extraPos ∧ b.extraKw = b'.extraKw := by
  obtain ⟨hpos, hnd, hbd, hpa, hpk, hpo⟩ := h
  unfold Keys.bind at hb ⊢
  simp only [hbd, hpa, hpk, if_true, List.append_nil, List.singleton_append, update_nil_left c.kwds hk] at hb
  have hu : (unbind f).bound = false ∧ (unbind f).pArgs = [] ∧ (unbind f).pKwds = [] := by simp [unbind, hpa, hpk]
  simp only [hu.1, hu.2.1, hu.2.2, Bool.false_eq_true, if_false, List.nil_append, update_nil_left c.kwds hk]
  cases hg : get? c.kwds p0.name with
  | some v =>
    exfalso
    unfold bindPlain at hb
    simp only [hpos, bindPos, hg] at hb
    split at hb
    · cases hb
    · split at hb <;> cases hb
  | none =>
    unfold bindPlain at hb ⊢
    rw [filter_isExtra_bound f p0 ps hpos c.kwds hg] at hb
    simp only [hpos, unbind, List.length_cons, List.drop_succ_cons, List.drop_zero, bindPos, hg] at hb ⊢
    have hlen : (c.args.length + 1 > ps.length + 1 ∧ ¬ f.varargs = true) ↔ (c.args.length > ps.length ∧ ¬ f.varargs = true) := by
      constructor <;> (rintro ⟨a, b⟩; exact ⟨by omega, b⟩)
    by_cases h1 : c.args.length > ps.length ∧ ¬ f.varargs = true
    · simp [hlen.mpr h1] at hb
    · have h1' : ¬ (c.args.length + 1 > ps.length + 1 ∧ ¬ f.varargs = true) := fun hh => h1 (hlen.mp hh)
      simp only [h1, h1', if_false] at hb ⊢
      split at hb
      · cases hb
      · rename_i hx
        simp only [hx, if_false]
        cases hp : bindPos c.kwds ps c.args with
        | none => simp [hp] at hb
        | some a =>
          cases hq : bindKwOnly c.kwds f.kwonly with
          | none => simp [hp, hq] at hb
          | some q =>
            simp only [hp, hq, Option.map_some, Option.some.injEq] at hb
            refine ⟨_, rfl, ?_, ?_, ?_⟩ <;> (rw [← hb]) <;> simp

end Klepto.C19

namespace Klepto.C09
open Klepto Klepto.AMap Klepto.Keys Klepto.C19
variable {Val : Type} [DecidableEq Val]

/-- **C09 for bound methods / callable instances** (flat keymaps) -/
theorem C09_flat_bound (k : Consts Val) (self : Val) (f : Func Val) (p0 : Param Val) (ps : List (Param Val))
    (c₁ c₂ : PCall Val) (b : Binding Val)
    (km : KM Val) (le : Val → Val → Bool) (tyOf : Val → Val) (fast : Val → Bool)
    (h : BoundShape f p0 ps) (hwf : (names f.pos ++ names f.kwonly).Nodup) (hle : TotalOrder le)
    (hk₁ : (keys c₁.kwds).Nodup) (hk₂ : (keys c₂.kwds).Nodup)
    (hb₁ : bind self f c₁ = some b) (hb₂ : bind self f c₂ = some b) :
    encodeFlat km le tyOf fast (keygen k f [] c₁).1 (keygen k f [] c₁).2 =
    encodeFlat km le tyOf fast (keygen k f [] c₂).1 (keygen k f [] c₂).2 := by
  obtain ⟨b₁, e₁, n₁, p₁, x₁⟩ := bind_bound_eq self f p0 ps c₁ b h hk₁ hb₁
  obtain ⟨b₂, e₂, n₂, p₂, x₂⟩ := bind_bound_eq self f p0 ps c₂ b h hk₂ hb₂
  have hbb : b₁ = b₂ := by
    cases b₁; cases b₂
    simp only [Binding.mk.injEq]
    simp only at n₁ n₂ p₁ p₂ x₁ x₂
    refine ⟨?_, ?_, ?_⟩
    · have := n₁.symm.trans n₂; simpa using this
    · exact p₁.symm.trans p₂
    · exact x₁.symm.trans x₂
  subst hbb
  have hpl : Plain (unbind f) := ⟨by simp [unbind, h.pa], by simp [unbind, h.pk], by simp [unbind]⟩
  have hwf' : (names (unbind f).pos ++ names (unbind f).kwonly).Nodup := by
    have : names (unbind f).pos ++ names (unbind f).kwonly = (names f.pos ++ names f.kwonly).drop 1 := by
      simp [unbind, names, h.pos]
    rw [this]
    exact List.Nodup.sublist (List.drop_sublist 1 _) hwf
  rw [keygen_bound k f p0 ps h, keygen_bound k f p0 ps h]
  exact C09_flat k self (unbind f) c₁ c₂ b₁ km le tyOf fast hpl hwf' hle hk₁ hk₂ e₁ e₂

end Klepto.C09

namespace Klepto.C10
open Klepto Klepto.AMap Klepto.Keys Klepto.C19
variable {Val : Type} [DecidableEq Val]

/-- **C10 for bound methods / callable instances** (flat keymaps, no `*args`) -/
theorem C10_calls_bound (k : Consts Val) (self : Val) (f : Func Val) (p0 : Param Val) (ps : List (Param Val))
    (c₁ c₂ : PCall Val) (b₁ b₂ : Binding Val)
    (km : KM Val) (le : Val → Val → Bool) (tyOf : Val → Val) (fast : Val → Bool)
    (h : BoundShape f p0 ps) (hwf : (names f.pos ++ names f.kwonly).Nodup) (hva : f.varargs = false)
    (hk₁ : (keys c₁.kwds).Nodup) (hk₂ : (keys c₂.kwds).Nodup)
    (hb₁ : bind self f c₁ = some b₁) (hb₂ : bind self f c₂ = some b₂)
    (n : Val) (hne : get? (b₁.named ++ b₁.extraKw) n ≠ get? (b₂.named ++ b₂.extraKw) n) :
    encodeFlat km le tyOf fast (keygen k f [] c₁).1 (keygen k f [] c₁).2 ≠
    encodeFlat km le tyOf fast (keygen k f [] c₂).1 (keygen k f [] c₂).2 := by
  obtain ⟨b₁', e₁, n₁, _, x₁⟩ := bind_bound_eq self f p0 ps c₁ b₁ h hk₁ hb₁
  obtain ⟨b₂', e₂, n₂, _, x₂⟩ := bind_bound_eq self f p0 ps c₂ b₂ h hk₂ hb₂
  have hpl : Plain (unbind f) := ⟨by simp [unbind, h.pa], by simp [unbind, h.pk], by simp [unbind]⟩
  have hwf' : (names (unbind f).pos ++ names (unbind f).kwonly).Nodup := by
    have : names (unbind f).pos ++ names (unbind f).kwonly = (names f.pos ++ names f.kwonly).drop 1 := by
      simp [unbind, names, h.pos]
    rw [this]
    exact List.Nodup.sublist (List.drop_sublist 1 _) hwf
  have hva' : (unbind f).varargs = false := by simp [unbind, hva]
  -- the instance itself is bound to the same object in both calls, so the difference lies elsewhere
  have hne' : get? (b₁'.named ++ b₁'.extraKw) n ≠ get? (b₂'.named ++ b₂'.extraKw) n := by
    rw [n₁, x₁, n₂, x₂] at hne
    simp only [List.cons_append, get?] at hne
    split at hne
    · exact absurd rfl hne
    · exact hne
  rw [keygen_bound k f p0 ps h, keygen_bound k f p0 ps h]
  exact C10_calls k self (unbind f) c₁ c₂ b₁' b₂' km le tyOf fast hpl hwf' hva' hk₁ hk₂ e₁ e₂ n hne'

end Klepto.C10
