import Klepto.Model.Validate
import Klepto.Lemmas.Keygen
/-!
# C19 — validate/isvalid agree with Python's own argument binding

`bind` (M4) is the specification — CPython's binding; `validate` (M6) is the code.  The equivalence
is proved on the fragment where it holds (plain functions without keyword-only parameters);
outside it the code and the specification disagree (findings F17, F30), pinned by the
counter-examples at the end and replayed on the implementation.
-/
namespace Klepto.C19
open Klepto.Keys Klepto.AMap
set_option linter.unusedSectionVars false
variable {Val : Type} [DecidableEq Val]

/-- `validate` never calls the function: it is a function of the signature description and the
call alone (the model has no access to the function body) -/
theorem validate_no_call (f : Func Val) (c : PCall Val) : ∃ b : Bool, validate f c = b := ⟨_, rfl⟩

/-! ## the specification side -/

/-- `bindPos` succeeds iff no positionally bound parameter is also given by keyword and every
remaining parameter has a keyword or a default -/
theorem bindPos_isSome_iff (kw : List (Val × Val)) :
    ∀ (ps : List (Param Val)) (args : List Val),
      (bindPos kw ps args).isSome = true ↔
        (∀ p ∈ ps.take args.length, get? kw p.name = none) ∧
        (∀ p ∈ ps.drop args.length, (get? kw p.name).isSome = true ∨ p.dflt.isSome = true) := by
  intro ps
  induction ps with
  | nil => intro args; simp [bindPos]
  | cons p ps ih =>
    intro args
    cases args with
    | nil =>
      simp only [bindPos, List.length_nil, List.take_zero, List.drop_zero, List.not_mem_nil, false_imp_iff,
        implies_true, true_and, List.mem_cons, forall_eq_or_imp]
      have h0 := ih []
      simp only [List.length_nil, List.take_zero, List.drop_zero, List.not_mem_nil, false_imp_iff, implies_true, true_and] at h0
      cases hk : get? kw p.name with
      | some v =>
        simp only [Option.isSome_some, true_or, true_and]
        rw [← h0]; cases bindPos kw ps [] <;> simp
      | none =>
        cases hd : p.dflt with
        | none => simp
        | some dv =>
          simp only [Option.isSome_none, Bool.false_eq_true, Option.isSome_some, or_true, true_and]
          rw [← h0]; cases bindPos kw ps [] <;> simp
    | cons a as =>
      simp only [bindPos, List.length_cons, List.take_succ_cons, List.drop_succ_cons, List.mem_cons, forall_eq_or_imp]
      have h0 := ih as
      cases hk : get? kw p.name with
      | some v => simp
      | none =>
        simp only [true_and]
        rw [← h0]; cases bindPos kw ps as <;> simp

/-! ## the code side -/

theorem keys_zip_take (l : List Val) (a : List Val) : keys (l.zip a) = l.take a.length := by
  induction l generalizing a with
  | nil => simp [keys]
  | cons x l ih =>
    cases a with
    | nil => simp [keys]
    | cons b bs => simp only [List.zip_cons_cons, keys, List.map_cons, List.length_cons, List.take_succ_cons]; congr 1; exact ih bs

theorem get?_none_iff_not_mem (m : List (Val × Val)) (n : Val) : get? m n = none ↔ n ∉ keys m := by
  constructor
  · intro h hm
    have := (has_iff_mem_keys m n).mpr hm
    rw [has_eq_true_iff] at this
    obtain ⟨v, hv⟩ := this; rw [h] at hv; cases hv
  · exact get?_eq_none_of_not_mem m n

theorem mem_keys_defaultsOf (ps : List (Param Val)) (hnd : (names ps).Nodup) (p : Param Val) (hp : p ∈ ps) :
    p.name ∈ keys (defaultsOf ps) ↔ p.dflt.isSome = true := by
  induction ps with
  | nil => simp at hp
  | cons q ps ih =>
    simp only [names, List.map_cons, List.nodup_cons] at hnd
    rcases List.mem_cons.mp hp with rfl | hp'
    · cases hd : p.dflt with
      | none =>
        simp only [defaultsOf, List.filterMap_cons, hd, Option.map_none, Option.isSome_none, Bool.false_eq_true, iff_false]
        intro hm
        exact hnd.1 (keys_defaultsOf_subset ps p.name hm)
      | some dv => simp [defaultsOf, hd, keys]
    · have hne : p.name ≠ q.name := by
        intro h; apply hnd.1; rw [← h]; exact List.mem_map_of_mem hp'
      have := ih hnd.2 hp'
      cases hd : q.dflt with
      | none => simpa [defaultsOf, hd] using this
      | some dv =>
        simp only [defaultsOf, List.filterMap_cons, hd, Option.map_some, keys, List.map_cons, List.mem_cons, hne, false_or]
        simpa [defaultsOf, keys] using this

/-- the two value-dependent checks of `validate`, as propositions -/
theorem checks_iff (kw : List (Val × Val)) (ps : List (Param Val)) (args : List Val) (hnd : (names ps).Nodup) :
    ((inter (keys ((names ps).zip args)) (keys kw)).isEmpty = true ∧
     (diff (names ps) (keys (defaultsOf ps))).all
       (fun n => (keys kw).contains n || (keys ((names ps).zip args)).contains n) = true) ↔
    ((∀ p ∈ ps.take args.length, get? kw p.name = none) ∧
     (∀ p ∈ ps.drop args.length, (get? kw p.name).isSome = true ∨ p.dflt.isSome = true)) := by
  rw [keys_zip_take]
  have htake : (names ps).take args.length = names (ps.take args.length) := by simp [names, List.map_take]
  rw [htake]
  constructor
  · rintro ⟨h1, h2⟩
    constructor
    · intro p hp
      rw [get?_none_iff_not_mem]
      intro hm
      have : p.name ∈ inter (names (ps.take args.length)) (keys kw) := by
        simp only [inter, List.mem_filter, List.contains_eq_mem, decide_eq_true_eq]
        exact ⟨List.mem_map_of_mem hp, hm⟩
      rw [List.isEmpty_iff] at h1; rw [h1] at this; cases this
    · intro p hp
      by_cases hd : p.dflt.isSome = true
      · exact Or.inr hd
      · left
        have hps : p ∈ ps := List.mem_of_mem_drop hp
        have hreq : p.name ∈ diff (names ps) (keys (defaultsOf ps)) := by
          simp only [diff, List.mem_filter, List.contains_eq_mem, Bool.not_eq_true', decide_eq_false_iff_not]
          exact ⟨List.mem_map_of_mem hps, fun hm => hd ((mem_keys_defaultsOf ps hnd p hps).mp hm)⟩
        have := List.all_eq_true.mp h2 p.name hreq
        simp only [Bool.or_eq_true, List.contains_eq_mem, decide_eq_true_eq] at this
        rcases this with h | h
        · have := (has_iff_mem_keys kw p.name).mpr h
          simpa [has] using this
        · -- the name cannot be among the positionally bound ones: names are distinct
          exfalso
          simp only [names, List.mem_map] at h
          obtain ⟨q, hq, hqn⟩ := h
          have hsplit : ps = ps.take args.length ++ ps.drop args.length := (List.take_append_drop _ _).symm
          rw [hsplit, names, List.map_append] at hnd
          exact (List.nodup_append.mp hnd).2.2 q.name (List.mem_map_of_mem hq) p.name (List.mem_map_of_mem hp) hqn
  · rintro ⟨h1, h2⟩
    constructor
    · rw [List.isEmpty_iff]
      apply List.eq_nil_iff_forall_not_mem.mpr
      intro x hx
      simp only [inter, List.mem_filter, List.contains_eq_mem, decide_eq_true_eq, names, List.mem_map] at hx
      obtain ⟨⟨q, hq, rfl⟩, hk⟩ := hx
      exact (get?_none_iff_not_mem kw q.name).mp (h1 q hq) hk
    · apply List.all_eq_true.mpr
      intro x hx
      simp only [diff, List.mem_filter, List.contains_eq_mem, Bool.not_eq_true', decide_eq_false_iff_not, names, List.mem_map] at hx
      obtain ⟨⟨q, hq, rfl⟩, hnd'⟩ := hx
      simp only [Bool.or_eq_true, List.contains_eq_mem, decide_eq_true_eq]
      have hsplit := List.take_append_drop args.length ps
      rw [← hsplit] at hq
      rcases List.mem_append.mp hq with hq | hq
      · exact Or.inr (List.mem_map_of_mem hq)
      · rcases h2 q hq with h | h
        · left
          have : has kw q.name = true := by simpa [has] using h
          exact (has_iff_mem_keys kw q.name).mp this
        · exact absurd ((mem_keys_defaultsOf ps hnd q (List.mem_of_mem_drop hq)).mpr h) hnd'

/-! ## the property, on the fragment where it holds -/

theorem filter_true {α : Type} (l : List α) : l.filter (fun _ => true) = l := by
  induction l with
  | nil => rfl
  | cons a l ih => simp [List.filter_cons, ih]

/-- **C19 (plain functions without keyword-only parameters)**: for every signature shape
(any number of positional-or-keyword parameters, any suffix defaulted, `*args`, `**kw`) and every
call (any arity, unknown / duplicate keywords): `validate` succeeds — `isvalid` is `True` —
exactly when CPython's binding succeeds. -/
theorem C19_plain_partial (self : Val) (f : Func Val) (c : PCall Val)
    (hpl : Plain f) (hko : f.kwonly = []) (hnd : (names f.pos).Nodup) (hk : (keys c.kwds).Nodup) :
    validate f c = true ↔ (bind self f c).isSome = true := by
  obtain ⟨h1, h2, h3⟩ := hpl
  -- the code side, simplified
  have hsig : sigMarked f = some ((names f.pos).map (fun n => (n, false)), defaultsOf f.pos, []) := by
    simp [sigMarked, h1, h2, h3, hko, defaultsOf, update, has, get?, keys, filter_true]
  have hnamed : ((names f.pos).map (fun n => (n, false))).map (·.1) = names f.pos := by
    simp [List.map_map, Function.comp_def]
  have hbad : (((names f.pos).map (fun n => (n, false))).filter (·.2)).map (·.1) = [] := by
    induction names f.pos with
    | nil => rfl
    | cons a l ih => simpa [List.filter_cons] using ih
  have hlen : (names f.pos).length = f.pos.length := by simp [names]
  have hval : validate f c = true ↔
      (¬ (c.args.length > f.pos.length ∧ f.varargs = false)) ∧
      (¬ ((diff (keys c.kwds) (names f.pos)) ≠ [] ∧ f.varkw = false)) ∧
      ((inter (keys ((names f.pos).zip c.args)) (keys c.kwds)).isEmpty = true ∧
       (diff (names f.pos) (keys (defaultsOf f.pos))).all
         (fun n => (keys c.kwds).contains n || (keys ((names f.pos).zip c.args)).contains n) = true) := by
    have e1 : (vchecks f c ((names f.pos).map (fun n => (n, false))) (defaultsOf f.pos) []).pVarkw = true := by
      simp [vchecks, h2, keys, diff]
    have e2 : (vchecks f c ((names f.pos).map (fun n => (n, false))) (defaultsOf f.pos) []).pVarargs = true := by
      simp [vchecks, h1]
    have e5 : (vchecks f c ((names f.pos).map (fun n => (n, false))) (defaultsOf f.pos) []).badArgs = true := by
      simp only [vchecks, hbad]; rfl
    have e6 : (vchecks f c ((names f.pos).map (fun n => (n, false))) (defaultsOf f.pos) []).badKwds = true := rfl
    have e3 : (vchecks f c ((names f.pos).map (fun n => (n, false))) (defaultsOf f.pos) []).varargs = true ↔
        ¬ (c.args.length > f.pos.length ∧ f.varargs = false) := by
      simp only [vchecks, hnamed, hlen, Bool.or_eq_true, List.isEmpty_iff, List.drop_eq_nil_iff]
      cases f.varargs <;> simp <;> omega
    have e4 : (vchecks f c ((names f.pos).map (fun n => (n, false))) (defaultsOf f.pos) []).varkw = true ↔
        ¬ ((diff (keys c.kwds) (names f.pos)) ≠ [] ∧ f.varkw = false) := by
      have hk0 : names f.kwonly = [] := by simp [hko, names]
      simp only [vchecks, hnamed, hk0, List.append_nil, Bool.or_eq_true, List.isEmpty_iff]
      cases f.varkw <;> simp
    have e7 : (vchecks f c ((names f.pos).map (fun n => (n, false))) (defaultsOf f.pos) []).dup =
        (inter (keys ((names f.pos).zip c.args)) (keys c.kwds)).isEmpty := by
      simp only [vchecks, hnamed]
    have e8 : (vchecks f c ((names f.pos).map (fun n => (n, false))) (defaultsOf f.pos) []).required =
        (diff (names f.pos) (keys (defaultsOf f.pos))).all
         (fun n => (keys c.kwds).contains n || (keys ((names f.pos).zip c.args)).contains n) := by
      simp only [vchecks, hnamed]
    have e9 : (vchecks f c ((names f.pos).map (fun n => (n, false))) (defaultsOf f.pos) []).boundSelf = true := by
      simp [vchecks, h3]
    have e10 : (vchecks f c ((names f.pos).map (fun n => (n, false))) (defaultsOf f.pos) []).kwonlyReq = true := by
      simp [vchecks, hko, names]
    simp only [validate, hsig, VChecks.all, Bool.and_eq_true, e1, e2, e5, e6, e9, e10, true_and, and_true]
    rw [e3, e4, e7, e8]
    constructor
    · rintro ⟨⟨⟨a, b⟩, c'⟩, d⟩; exact ⟨a, b, c', d⟩
    · rintro ⟨a, b, c', d⟩; exact ⟨⟨⟨a, b⟩, c'⟩, d⟩
  -- the specification side, simplified
  have hextra : c.kwds.filter (fun p => isExtra f p.1) ≠ [] ↔ diff (keys c.kwds) (names f.pos) ≠ [] := by
    have hfm : ∀ (l : List (Val × Val)), (l.filter (fun p => isExtra f p.1)).map (·.1) = diff (keys l) (names f.pos) := by
      intro l
      induction l with
      | nil => rfl
      | cons q l ih =>
        simp only [diff, keys, List.map_cons, List.filter_cons] at ih ⊢
        have hq : isExtra f q.1 = !(names f.pos).contains q.1 := by simp [isExtra, hko, names]
        rw [hq]
        cases (names f.pos).contains q.1 <;> simp [ih]
    rw [← hfm]
    cases c.kwds.filter (fun p => isExtra f p.1) <;> simp
  have hbind : (bind self f c).isSome = true ↔
      (¬ (c.args.length > f.pos.length ∧ f.varargs = false)) ∧
      (¬ ((diff (keys c.kwds) (names f.pos)) ≠ [] ∧ f.varkw = false)) ∧
      (bindPos c.kwds f.pos c.args).isSome = true := by
    unfold Keys.bind
    simp only [h1, h2, h3, Bool.false_eq_true, if_false, List.nil_append, update_nil_left c.kwds hk]
    unfold bindPlain
    simp only [hko, bindKwOnly]
    by_cases ha : c.args.length > f.pos.length ∧ ¬ f.varargs = true
    · have : c.args.length > f.pos.length ∧ f.varargs = false := ⟨ha.1, by simpa using ha.2⟩
      simp [ha, this]
    · have ha2 : ¬ (c.args.length > f.pos.length ∧ f.varargs = false) := by
        intro h; exact ha ⟨h.1, by simp [h.2]⟩
      simp only [ha, if_false, ha2, not_false_eq_true, true_and]
      by_cases hx : c.kwds.filter (fun p => isExtra f p.1) ≠ [] ∧ ¬ f.varkw = true
      · have : diff (keys c.kwds) (names f.pos) ≠ [] ∧ f.varkw = false := ⟨hextra.mp hx.1, by simpa using hx.2⟩
        simp [hx, this]
      · have hx2 : ¬ (diff (keys c.kwds) (names f.pos) ≠ [] ∧ f.varkw = false) := by
          intro h; exact hx ⟨hextra.mpr h.1, by simp [h.2]⟩
        simp only [hx, if_false, hx2, not_false_eq_true, true_and]
        cases bindPos c.kwds f.pos c.args <;> simp
  rw [hval, hbind, checks_iff c.kwds f.pos c.args hnd, ← bindPos_isSome_iff]

/-! ## where the code and the specification part ways (findings, replayed on the implementation) -/
section Examples
/-- objects: 10 = 'a', 11 = 'b', 12 = 'c'; values 20, 21, 22 -/
def q : Func Nat := { pos := [⟨10, none⟩], varargs := false, kwonly := [⟨12, none⟩], varkw := false }
/-- **F17a, repaired** `def q(a, *, c)`: `isvalid(q, 1)` is `False` - the required keyword-only `c` is missing
(before the repair `validate` did not know keyword-only parameters and said `True`) … -/
example : validate q { args := [20], kwds := [] } = false ∧ bind 0 q { args := [20], kwds := [] } = none := by decide
/-- … and `isvalid(q, 1, c=1)` is `True` (it used to be rejected as an unexpected keyword) -/
example : validate q { args := [20], kwds := [(12, 21)] } = true ∧
    (bind 0 q { args := [20], kwds := [(12, 21)] }).isSome = true := by decide
/-- **F17b, repaired** `def r(a, b=5)`; `partial(r, 1, 2)()` is a valid call and `isvalid` says so (the fixed positionals
are counted against all named parameters, not only the required ones) -/
def r : Func Nat := { pos := [⟨10, none⟩, ⟨11, some 25⟩], varargs := false, kwonly := [], varkw := false, pArgs := [20, 21] }
example : validate r { args := [], kwds := [] } = true ∧ (bind 0 r { args := [], kwds := [] }).isSome = true := by decide
/-- … while a third fixed positional still needs `*args` -/
example : validate { r with pArgs := [20, 21, 22] } { args := [], kwds := [] } = false ∧
    bind 0 { r with pArgs := [20, 21, 22] } { args := [], kwds := [] } = none := by decide
/-- **F30, repaired**: a partial over a *bound method* `m(self, x, **kw)`: `partial(inst.m, 1)(x=2)` binds `x`
twice; the fixed positional is matched against `x` (not against `self`, as it was before the repair), so `validate`
now rejects the call as CPython does - and still accepts the valid `partial(inst.m, 1)(q=2)` -/
def m : Func Nat := { pos := [⟨9, none⟩, ⟨10, none⟩], varargs := false, kwonly := [], varkw := true, pArgs := [20], bound := true }
example : validate m { args := [], kwds := [(10, 21)] } = false ∧ bind 0 m { args := [], kwds := [(10, 21)] } = none := by decide
example : validate m { args := [], kwds := [(13, 21)] } = true ∧ (bind 0 m { args := [], kwds := [(13, 21)] }).isSome = true := by decide
/-- non-vacuity of `C19_plain_partial`: a plain `def f(a, b=5, *args, **kw)` -/
def f0 : Func Nat := { pos := [⟨10, none⟩, ⟨11, some 25⟩], varargs := true, kwonly := [], varkw := true }
example : Plain f0 ∧ f0.kwonly = [] ∧ (names f0.pos).Nodup := by unfold Plain; decide
end Examples

end Klepto.C19
