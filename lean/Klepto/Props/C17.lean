import Klepto.Props.C09
import Klepto.Props.C02
/-!
# C17 — Keys are stable across interpreter sessions

In the model a key is a function of (signature, ignore specification, keymap configuration, call)
— there is simply no other input.  To make that statement non-vacuous the per-process inputs a
Python process *could* leak into a key are made explicit: the hash seed (only the builtin `hash`
reads it) and an opaque process state (addresses, interned strings, import order: nothing reads it).
The theorems are thin — true by construction of the model — and the property is decided mainly by
suite `session` (fresh interpreters, different `PYTHONHASHSEED`, permuted keyword order, then a
writer session followed by a reader session over file / dir / sqlite archives).
-/
namespace Klepto.C17
open Klepto.Keys Klepto.AMap
variable {Val : Type} [DecidableEq Val]

/-- the encoder applied to the structured key -/
inductive Enc
  | raw                      -- `keymap`: the tuple itself
  | str                      -- `stringmap`: `str(key)`
  | pickle                   -- `picklemap`: `repr(key)` / `dumps(key)`
  | digest (alg : String)    -- `hashmap(algorithm=alg)`: digest of `repr(key)`
  | builtinHash              -- `hashmap()` with Python's `hash`: randomised per process

structure Proc where
  hashSeed : Nat             -- PYTHONHASHSEED
  state : Nat                -- everything else that differs between interpreters

/-- what a session computes for a call: `K` is the encoded key type, the encoders are parameters -/
def sessionKey {K : Type} (reprOf : FlatKey Val → K) (digestOf : String → FlatKey Val → K)
    (pyHash : Nat → FlatKey Val → K) (enc : Enc) (p : Proc) (key : FlatKey Val) : K :=
  match enc with
  | .raw => reprOf key
  | .str => reprOf key
  | .pickle => reprOf key
  | .digest a => digestOf a key
  | .builtinHash => pyHash p.hashSeed key

/-- **noninterference**: for the raw, string, pickle and named-algorithm hash keymaps the key of a
call is the same in every process — whatever the hash seed and the process state -/
theorem C17_noninterference {K : Type} (reprOf : FlatKey Val → K) (digestOf : String → FlatKey Val → K)
    (pyHash : Nat → FlatKey Val → K) (enc : Enc) (h : enc ≠ .builtinHash) (p₁ p₂ : Proc) (key : FlatKey Val) :
    sessionKey reprOf digestOf pyHash enc p₁ key = sessionKey reprOf digestOf pyHash enc p₂ key := by
  cases enc <;> first | rfl | exact absurd rfl h

/-- … and independent of keyword-argument order (flat keymaps): `C09_flat` -/
theorem C17_kw_order (k : Consts Val) (self : Val) (f : Func Val) (c₁ c₂ : PCall Val) (b : Binding Val)
    (km : KM Val) (le : Val → Val → Bool) (tyOf : Val → Val) (fast : Val → Bool)
    (hpl : Plain f) (hwf : (names f.pos ++ names f.kwonly).Nodup) (hle : TotalOrder le)
    (hk₁ : (keys c₁.kwds).Nodup) (hk₂ : (keys c₂.kwds).Nodup)
    (hb₁ : bind self f c₁ = some b) (hb₂ : bind self f c₂ = some b) :
    encodeFlat km le tyOf fast (keygen k f [] c₁).1 (keygen k f [] c₁).2 =
    encodeFlat km le tyOf fast (keygen k f [] c₂).1 (keygen k f [] c₂).2 :=
  C09.C09_flat k self f c₁ c₂ b km le tyOf fast hpl hwf hle hk₁ hk₂ hb₁ hb₂

/-- the builtin `hash` is outside the property: it does depend on the seed -/
example : ∃ (pyHash : Nat → FlatKey Nat → Nat) (p₁ p₂ : Proc),
    sessionKey (fun _ => 0) (fun _ _ => 0) pyHash .builtinHash p₁ (.tup [1]) ≠
    sessionKey (fun _ => 0) (fun _ _ => 0) pyHash .builtinHash p₂ (.tup [1]) :=
  ⟨fun s _ => s, ⟨0, 0⟩, ⟨1, 0⟩, by decide⟩

/-- **results archived in one session are loads, not misses, in a later one**: a later session is
a fresh wrapper state over the archive the first one left behind (`C02_second_session`); with
stable keys every archived key is found -/
theorem C17_second_session {K V : Type} [DecidableEq K] (cfg : Cfg) (a : List (K × V)) (ops : List (Op K V)) (k : K) (w : V)
    (hno : cfg.algo ≠ .no) (hmp : MruNoPurge cfg) (ha : (AMap.keys a).Nodup)
    (hq : ∀ op ∈ ops, C02.Quiet op = true) (hk : AMap.get? a k = some w) :
    C02.NoEval cfg k (St.init { mem := [], arch := some a, swap := none }) ops :=
  C02.C02_second_session cfg a ops k w hno hmp ha hq hk

end Klepto.C17
