import Klepto.Props.C09
/-!
# C10 — Key discrimination: different calls never share a key

Structured keys (before the encoder); the lift through an *injective* encoder is `C10_encoded`
(`repr`/`str` on the value universe, pickle, a collision-free digest: assumptions of DESIGN §7).
-/
namespace Klepto.C10
open Klepto.Keys Klepto.AMap
set_option linter.unusedSectionVars false
variable {Val : Type} [DecidableEq Val]

theorem flatten_length (l : List (Val × Val)) : (flatten l).length = 2 * l.length := by
  induction l with
  | nil => rfl
  | cons p l ih => simp [flatten, List.flatMap_cons] at ih ⊢; omega

theorem flatten_inj (l₁ l₂ : List (Val × Val)) (h : flatten l₁ = flatten l₂) : l₁ = l₂ := by
  induction l₁ generalizing l₂ with
  | nil =>
    cases l₂ with
    | nil => rfl
    | cons q l₂ => simp [flatten, List.flatMap_cons] at h
  | cons p l₁ ih =>
    cases l₂ with
    | nil => simp [flatten, List.flatMap_cons] at h
    | cons q l₂ =>
      obtain ⟨a, b⟩ := p; obtain ⟨c, d⟩ := q
      simp only [flatten, List.flatMap_cons, List.cons_append, List.nil_append, List.cons.injEq] at h
      obtain ⟨h1, h2, h3⟩ := h
      rw [h1, h2, ih l₂ h3]

/-- a map with distinct keys is determined by its sorted item list -/
theorem get?_of_sortedItems_eq (le : Val → Val → Bool) (l₁ l₂ : List (Val × Val))
    (h₁ : (keys l₁).Nodup) (h₂ : (keys l₂).Nodup) (h : sortedItems le l₁ = sortedItems le l₂) :
    ∀ n, get? l₁ n = get? l₂ n := by
  have hp : l₁.Perm l₂ := by
    have e1 : (sortedItems le l₁).Perm l₁ := isort_perm _ l₁
    have e2 : (sortedItems le l₂).Perm l₂ := isort_perm _ l₂
    rw [h] at e1; exact e1.symm.trans e2
  intro n
  cases hg : get? l₁ n with
  | some v =>
    have := hp.mem_iff.mp (mem_of_get? _ _ _ hg)
    exact (get?_of_mem _ _ _ h₂ this).symm
  | none =>
    cases hg2 : get? l₂ n with
    | none => rfl
    | some v =>
      have := hp.mem_iff.mpr (mem_of_get? _ _ _ hg2)
      rw [get?_of_mem _ _ _ h₁ this] at hg; cases hg

theorem sortedItems_length (le : Val → Val → Bool) (l : List (Val × Val)) : (sortedItems le l).length = l.length :=
  (isort_perm _ l).length_eq

theorem sortedItems_isEmpty (le : Val → Val → Bool) (l : List (Val × Val)) : (sortedItems le l).isEmpty = l.isEmpty := by
  have := sortedItems_length le l
  cases l <;> cases hs : sortedItems le _ <;> simp_all

/-- the flat key of a call without extra positionals, in closed form -/
theorem encodeFlat_noargs (km : KM Val) (le : Val → Val → Bool) (tyOf : Val → Val) (fast : Val → Bool)
    (kw : List (Val × Val)) :
    encodeFlat km le tyOf fast [] kw = .tup
      (if kw.isEmpty then (if km.typed then markL km else [])
       else if km.typed then markL km ++ flatten (sortedItems le kw) ++ markL km ++ markL km ++ (sortedItems le kw).map (fun p => tyOf p.2)
       else markL km ++ flatten (sortedItems le kw)) := by
  unfold encodeFlat
  cases hk : kw.isEmpty
  · -- non-empty
    have hne : (sortedItems le kw) ≠ [] := by
      intro h; have := sortedItems_isEmpty le kw; rw [h, hk] at this; simp at this
    cases ht : km.typed
    · simp only [hk, Bool.false_eq_true, if_false, List.nil_append]
      -- not a one-element key: at least one (name, value) pair
      cases hs : sortedItems le kw with
      | nil => exact absurd hs hne
      | cons p rest =>
        cases hm : km.mark <;> simp [markL, hm, flatten, List.flatMap_cons]
    · simp [hk]
  · cases ht : km.typed
    · simp [hk]
    · simp [hk]

/-- **C10, flat keymaps, signature without `*args`**: the flat key determines the bound arguments —
untyped or typed, with or without a sentinel.  (Two calls that bind different values to some
parameter therefore never share a key.) -/
theorem C10_flat_noargs (km : KM Val) (le : Val → Val → Bool) (tyOf : Val → Val) (fast : Val → Bool)
    (kw₁ kw₂ : List (Val × Val)) (h₁ : (keys kw₁).Nodup) (h₂ : (keys kw₂).Nodup)
    (h : encodeFlat km le tyOf fast [] kw₁ = encodeFlat km le tyOf fast [] kw₂) :
    ∀ n, get? kw₁ n = get? kw₂ n := by
  rw [encodeFlat_noargs, encodeFlat_noargs] at h
  have h := FlatKey.tup.inj h
  have hl := congrArg List.length h
  have l1 := sortedItems_length le kw₁
  have l2 := sortedItems_length le kw₂
  have f1 := flatten_length (sortedItems le kw₁)
  have f2 := flatten_length (sortedItems le kw₂)
  cases he₁ : kw₁.isEmpty <;> cases he₂ : kw₂.isEmpty
  · -- both non-empty
    apply get?_of_sortedItems_eq le kw₁ kw₂ h₁ h₂
    apply flatten_inj
    cases ht : km.typed
    · simp only [he₁, he₂, ht, Bool.false_eq_true, if_false] at h
      exact List.append_cancel_left h
    · simp only [he₁, he₂, ht, Bool.false_eq_true, if_false, if_true] at h hl
      simp only [List.length_append, List.length_map] at hl
      have hlen : (markL km ++ flatten (sortedItems le kw₁)).length = (markL km ++ flatten (sortedItems le kw₂)).length := by
        simp only [List.length_append]; omega
      have := List.append_inj (by simpa [List.append_assoc] using h) hlen
      exact List.append_cancel_left this.1
  · -- first non-empty, second empty: lengths differ
    exfalso
    have hn : 0 < kw₁.length := by cases kw₁ <;> simp_all
    cases ht : km.typed <;> simp only [he₁, he₂, ht, Bool.false_eq_true, if_false, if_true] at hl <;>
      simp only [List.length_append, List.length_map, List.length_nil] at hl <;> omega
  · exfalso
    have hn : 0 < kw₂.length := by cases kw₂ <;> simp_all
    cases ht : km.typed <;> simp only [he₁, he₂, ht, Bool.false_eq_true, if_false, if_true] at hl <;>
      simp only [List.length_append, List.length_map, List.length_nil] at hl <;> omega
  · intro n
    have e1 : kw₁ = [] := by cases kw₁ <;> simp_all
    have e2 : kw₂ = [] := by cases kw₂ <;> simp_all
    rw [e1, e2]

/-- **C10 for calls**: a function without `*args`; two calls CPython accepts; if they bind
different values to some parameter (or extra keyword) their flat keys differ. -/
theorem C10_calls (k : Consts Val) (self : Val) (f : Func Val) (c₁ c₂ : PCall Val) (b₁ b₂ : Binding Val)
    (km : KM Val) (le : Val → Val → Bool) (tyOf : Val → Val) (fast : Val → Bool)
    (hpl : Plain f) (hwf : (names f.pos ++ names f.kwonly).Nodup) (hva : f.varargs = false)
    (hk₁ : (keys c₁.kwds).Nodup) (hk₂ : (keys c₂.kwds).Nodup)
    (hb₁ : bind self f c₁ = some b₁) (hb₂ : bind self f c₂ = some b₂)
    (n : Val) (hne : get? (b₁.named ++ b₁.extraKw) n ≠ get? (b₂.named ++ b₂.extraKw) n) :
    encodeFlat km le tyOf fast (keygen k f [] c₁).1 (keygen k f [] c₁).2 ≠
    encodeFlat km le tyOf fast (keygen k f [] c₂).1 (keygen k f [] c₂).2 := by
  obtain ⟨ha₁, hm₁⟩ := keygen_eq_bind k self f c₁ b₁ hpl hwf hk₁ hb₁
  obtain ⟨ha₂, hm₂⟩ := keygen_eq_bind k self f c₂ b₂ hpl hwf hk₂ hb₂
  have hpos : (names f.pos).Nodup := (List.nodup_append.mp hwf).1
  have hn₁ : (keys (keygen k f [] c₁).2).Nodup := by rw [keygen_plain k f c₁ hpl]; exact keygenPlain_nodup f c₁ hpos
  have hn₂ : (keys (keygen k f [] c₂).2).Nodup := by rw [keygen_plain k f c₂ hpl]; exact keygenPlain_nodup f c₂ hpos
  -- no `*args`: CPython accepted the calls, so there are no extra positionals
  have hnoextra : ∀ (c : PCall Val) (b : Binding Val), bind self f c = some b → b.extraPos = [] := by
    intro c b hb
    obtain ⟨h1, h2, h3⟩ := hpl
    unfold Keys.bind at hb
    simp only [h1, h2, h3, Bool.false_eq_true, if_false, List.nil_append] at hb
    unfold bindPlain at hb
    split at hb
    · cases hb
    · rename_i hlen
      simp only at hb
      split at hb
      · cases hb
      · split at hb
        · cases hb
          simp only [hva, Bool.false_eq_true, not_false_eq_true, and_true] at hlen
          exact List.drop_eq_nil_of_le (by omega)
        · cases hb
  intro heq
  rw [ha₁, ha₂, hnoextra c₁ b₁ hb₁, hnoextra c₂ b₂ hb₂] at heq
  have := C10_flat_noargs km le tyOf fast _ _ hn₁ hn₂ heq n
  rw [hm₁, hm₂] at this
  exact hne this

/-- with a sentinel the positional part is delimited too: the mark does not occur among the
arguments, so the key splits uniquely at its first occurrence -/
theorem C10_sentinel_split (m : Val) (a₁ a₂ r₁ r₂ : List Val) (h₁ : m ∉ a₁) (h₂ : m ∉ a₂)
    (h : a₁ ++ m :: r₁ = a₂ ++ m :: r₂) : a₁ = a₂ ∧ r₁ = r₂ := by
  induction a₁ generalizing a₂ with
  | nil =>
    cases a₂ with
    | nil => simpa using h
    | cons y ys =>
      simp only [List.nil_append, List.cons_append, List.cons.injEq] at h
      exact absurd (h.1 ▸ List.mem_cons_self) h₂
  | cons x xs ih =>
    cases a₂ with
    | nil =>
      simp only [List.nil_append, List.cons_append, List.cons.injEq] at h
      exact absurd (h.1 ▸ List.mem_cons_self) h₁
    | cons y ys =>
      simp only [List.cons_append, List.cons.injEq] at h
      have := ih ys (fun hh => h₁ (List.mem_cons_of_mem _ hh)) (fun hh => h₂ (List.mem_cons_of_mem _ hh)) h.2
      exact ⟨by rw [h.1, this.1], this.2⟩

/-- non-flat keys keep `(args, kwds)` apart by construction -/
theorem C10_nonflat (km : KM Val) (le : Val → Val → Bool) (tyOf : Val → Val)
    (a₁ a₂ : List Val) (kw₁ kw₂ : List (Val × Val))
    (h : encrypt km le tyOf a₁ kw₁ = encrypt km le tyOf a₂ kw₂) : a₁ = a₂ ∧ kw₁ = kw₂ := by
  simp only [encrypt, NonFlatKey.mk.injEq] at h
  exact ⟨h.1, h.2.1⟩

/-- an injective encoder preserves discrimination -/
theorem C10_encoded {Key : Type} (enc : FlatKey Val → Key) (hinj : Function.Injective enc)
    (k₁ k₂ : FlatKey Val) (h : k₁ ≠ k₂) : enc k₁ ≠ enc k₂ := fun he => h (hinj he)

/-- **chained keymaps** (`inner + outer`): the inner keymap is handed the outer structured key as one
object; its own structured key determines that object — whatever its flat/typed/sentinel settings,
and whether or not the object is of a fast type — so chaining preserves discrimination (compose with
`C10_encoded` for the two encoders) -/
theorem C10_chain_inner_injective (km : KM Val) (le : Val → Val → Bool) (xty yty : Val) (fx fy : Bool) (x y : Val)
    (h : chainInner km le xty fx x = chainInner km le yty fy y) : x = y := by
  unfold chainInner at h
  by_cases hf : km.flat = true
  · simp only [hf, if_true, Sum.inl.injEq, encodeFlat, List.isEmpty_nil, if_true, sortedItems, isort, flatten,
      List.flatMap_nil, List.map_nil, List.map_cons] at h
    by_cases ht : km.typed = true
    · simp only [ht, if_true, FlatKey.tup.injEq] at h
      cases hm : km.mark <;> simp [markL, hm] at h <;> exact h.1
    · simp only [ht] at h
      cases fx <;> cases fy <;> simp at h <;> exact h
  · have hf' : km.flat = false := by simpa using hf
    simp only [hf', Bool.false_eq_true, if_false, Sum.inr.injEq, encrypt, NonFlatKey.mk.injEq, List.cons.injEq, and_true] at h
    exact h.1

/-- … and canonicalisation (C09): calls with the same outer structured key have the same chained key -/
theorem C09_chain_congr (km : KM Val) (le : Val → Val → Bool) (xty : Val) (fx : Bool) (x y : Val) (h : x = y) :
    chainInner km le xty fx x = chainInner km le xty fx y := by rw [h]

section Examples
def K0 : Consts Nat := { null := 0, star := 1, dstar := 2 }
def fvar : Func Nat := { pos := [], varargs := true, kwonly := [], varkw := true }
def km0 : KM Nat := { typed := false, flat := true, mark := none }
/-- the excluded case (flat, `*args`, no sentinel): `f('a', 1)` and `f(a=1)` share `('a', 1)`
(10 = the string `'a'`, 20 = 1) -/
example : (let r := keygen K0 fvar [] { args := [10, 20], kwds := [] }
           encodeFlat km0 (· ≤ ·) (fun _ => 5) (fun _ => false) r.1 r.2) =
          (let r := keygen K0 fvar [] { args := [], kwds := [(10, 20)] }
           encodeFlat km0 (· ≤ ·) (fun _ => 5) (fun _ => false) r.1 r.2) := by decide
/-- with a sentinel (7) they differ -/
example : (let r := keygen K0 fvar [] { args := [10, 20], kwds := [] }
           encodeFlat { km0 with mark := some 7 } (· ≤ ·) (fun _ => 5) (fun _ => false) r.1 r.2) ≠
          (let r := keygen K0 fvar [] { args := [], kwds := [(10, 20)] }
           encodeFlat { km0 with mark := some 7 } (· ≤ ·) (fun _ => 5) (fun _ => false) r.1 r.2) := by decide
end Examples

end Klepto.C10
