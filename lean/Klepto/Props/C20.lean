import Klepto.Lemmas.Stats
/-!
# C20 — A pickled cached function resumes exactly where the original was

Model: a restored copy is a *value copy* of the wrapper state (`St`), because every piece of the
closure state (cache dict, parked archive, recency queue, reference / use counts, statistics,
configuration) is a value in M3.  An in-memory archive is copied with it; a persistent archive is a
handle to shared storage (`Shared`).  The theorems are thin — determinism of `step` — and are
labelled so; the property is decided mainly by suite `clone`, which checks that dill really restores
every component and then runs the continuation on the copy against this model.
-/
namespace Klepto.C20
open Klepto AMap
set_option linter.unusedSectionVars false
variable {K V : Type} [DecidableEq K]

/-- the restored copy -/
def clone (s : St K V) : St K V := s

/-- **lock-step**: from the round-trip on, the copy returns the same results, evicts the same
entries and reports the same statistics as the original would have (rr: given the same choices) -/
theorem C20_lockstep (cfg : Cfg) (s : St K V) (ops : List (Op K V)) :
    run cfg (clone s) ops = run cfg s ops := rfl

theorem C20_equal_state (s : St K V) :
    (clone s).c.mem = s.c.mem ∧ (clone s).stats = s.stats ∧ (clone s).c.arch = s.c.arch ∧
    (clone s).c.swap = s.c.swap ∧ (clone s).queue = s.queue ∧ (clone s).rc = s.rc ∧ (clone s).uc = s.uc :=
  ⟨rfl, rfl, rfl, rfl, rfl, rfl, rfl⟩

/-- two wrappers side by side; `shared`: both archives are handles to one persistent store -/
structure Pair (K V : Type) where
  orig : St K V
  copy : St K V
  shared : Bool

/-- an operation on the copy; with a shared store the original's handle sees the new contents -/
def Pair.stepCopy (cfg : Cfg) (p : Pair K V) (op : Op K V) : Pair K V × Out V :=
  let r := step cfg p.copy op
  ({ p with copy := r.1,
            orig := if p.shared then { p.orig with c := { p.orig.c with arch := r.1.c.arch } } else p.orig }, r.2)

/-- **independence**: whatever is done with the copy, the original's in-memory state — cache
contents, bookkeeping, statistics — is untouched; with an in-memory archive the archive too -/
theorem C20_independent (cfg : Cfg) (p : Pair K V) (op : Op K V) :
    (p.stepCopy cfg op).1.orig.c.mem = p.orig.c.mem ∧
    (p.stepCopy cfg op).1.orig.queue = p.orig.queue ∧ (p.stepCopy cfg op).1.orig.uc = p.orig.uc ∧
    (p.stepCopy cfg op).1.orig.rc = p.orig.rc ∧
    ((p.stepCopy cfg op).1.orig.hit, (p.stepCopy cfg op).1.orig.miss, (p.stepCopy cfg op).1.orig.load)
      = (p.orig.hit, p.orig.miss, p.orig.load) ∧
    (p.shared = false → (p.stepCopy cfg op).1.orig = p.orig) := by
  unfold Pair.stepCopy
  cases p.shared <;> simp

/-- **shared storage**: with a persistent archive both handles see the one store -/
theorem C20_shared_store (cfg : Cfg) (p : Pair K V) (op : Op K V) (h : p.shared = true) :
    (p.stepCopy cfg op).1.orig.c.arch = (p.stepCopy cfg op).1.copy.c.arch := by
  unfold Pair.stepCopy; simp [h]

section Examples
def lru2 : Cfg := { algo := .lru, safe := false, maxsize := 2, purge := false }
def mk (k v : Nat) : Op Nat Nat := .call { key := .ok k, fn := .ok v, victim := none }
def s0 : St Nat Nat := (run lru2 (St.init { mem := [], arch := some [], swap := none }) [mk 1 10, mk 2 20, mk 1 10]).1
/-- after the round-trip the next overflow evicts the same entry (2, not the re-used 1) -/
example : (run lru2 (clone s0) [mk 3 30]).1.c.mem = [(1, 10), (3, 30)] := by decide
end Examples

end Klepto.C20
