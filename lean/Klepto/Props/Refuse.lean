import Klepto.Model.WrapperFail
import Klepto.Props.C07
/-!
# Write-backs that the archive refuses (M3F, `Model/WrapperFail.lean`)

1. `stepF_eq_step` / `runF_eq_run`: with an archive that refuses nothing M3F **is** M3 - every theorem about
   `step` / `run` is a theorem about `stepF` / `runF` there.
2. `callCachedF_eq_or_refused`: in every state and for every archive, a call either behaves exactly as in M3
   (same state, same outcome) or raises the archive's exception out of the `# purge cache` block.
3. For the second case - and so for all cases - `callCachedF_rel` gives the same characterisation as
   `callCached_rel`: at most one insertion, then moves from memory to the archive; so C07 holds of refused
   calls too (`C07_refused_*`): **what the archive refused has not left memory**, nothing that was retrievable
   is lost, no archived entry changes.
4. What does NOT survive a refused write-back is the size bound of C05 (`C05_refused_overfull`: the entry of
   the call is stored, the victim stays) - the excluded point is run on the code by suite `multi` (finding F57).
-/
namespace Klepto
open AMap
set_option linter.unusedSectionVars false
variable {K V : Type} [DecidableEq K]

/-! ## 1. nothing refused: M3F = M3 -/

def Refuse.none' (V : Type) (e : Exc) : Refuse V := { bad := fun _ => false, bulkAtomic := true, exc := e }

theorem dump1F_of_good (r : Refuse V) (hr : ∀ v, r.bad v = false) (c : Cache K V) (k : K) :
    c.dump1F r k = some (c.dump1 k) := by
  unfold Cache.dump1F; split <;> simp [hr]

theorem any_bad_false (r : Refuse V) (hr : ∀ v, r.bad v = false) (m : List (K × V)) :
    m.any (fun p => r.bad p.2) = false := by
  induction m with
  | nil => rfl
  | cons p m ih => simp [hr]

theorem dumpAllF_of_good (r : Refuse V) (hr : ∀ v, r.bad v = false) (c : Cache K V) :
    c.dumpAllF r = .ok c.dumpAll := by
  unfold Cache.dumpAllF; split
  · simp [any_bad_false r hr]
  · rfl

theorem dumpKeysF_of_good (r : Refuse V) (hr : ∀ v, r.bad v = false) (c : Cache K V) (ks : List K) :
    c.dumpKeysF r ks = .ok (c.dumpKeys ks) := by
  induction ks generalizing c with
  | nil => rfl
  | cons k ks ih => simp only [Cache.dumpKeysF, dump1F_of_good r hr, Cache.dumpKeys, List.foldl_cons]; exact ih _

theorem lfuFoldF_of_good (r : Refuse V) (hr : ∀ v, r.bad v = false) (vs : List (K × Nat)) (s : St K V) :
    lfuFoldF r vs s = (vs.foldl (fun s p => { evictOne s p.1 with uc := erase s.uc p.1 }) s, false) := by
  induction vs generalizing s with
  | nil => rfl
  | cons p vs ih =>
    simp only [lfuFoldF, dump1F_of_good r hr, List.foldl_cons]
    rw [ih]; rfl

theorem overflowF_of_good (r : Refuse V) (hr : ∀ v, r.bad v = false) (cfg : Cfg) (s : St K V) (vi : Option K) :
    overflowF r cfg s vi = match overflow cfg s vi with
      | none => .indexErr
      | some s' => .ok s' := by
  unfold overflowF overflow
  split
  · split
    · simp [dumpAllF_of_good r hr]
    · cases cfg.algo with
      | no => rfl
      | inf => rfl
      | lfu => simp only [lfuFoldF_of_good r hr]; rfl
      | lru =>
        simp only [dump1F_of_good r hr]
        cases hl : lruLoop s.queue s.rc with
        | none => rfl
        | some x => obtain ⟨k, q, rc⟩ := x; simp [evictOne]
      | mru =>
        simp only [dump1F_of_good r hr]
        cases hq : s.queue.getLast? with
        | none => rfl
        | some k => simp [evictOne]
      | rr =>
        simp only [dump1F_of_good r hr]
        cases vi with
        | none => rfl
        | some k => simp [evictOne]
  · rfl

theorem finishF_of_good (r : Refuse V) (hr : ∀ v, r.bad v = false) (cfg : Cfg) (s : St K V) (k : K) (v : V)
    (n : Nat) (vi : Option K) : finishF r cfg s k v n vi = finish cfg s k v n vi := by
  unfold finishF finish
  split
  · rfl
  · rw [overflowF_of_good r hr]; cases overflow cfg s vi <;> rfl

theorem loadStepF_of_good (r : Refuse V) (hr : ∀ v, r.bad v = false) (cfg : Cfg) (s : St K V) (k : K) (v : V)
    (vi : Option K) : loadStepF r cfg s k v vi = loadStep cfg s k v vi := by
  unfold loadStepF loadStep; exact finishF_of_good r hr _ _ _ _ _ _

theorem missStepF_of_good (r : Refuse V) (hr : ∀ v, r.bad v = false) (cfg : Cfg) (s : St K V) (k : K) (v : V)
    (vi : Option K) : missStepF r cfg s k v vi = missStep cfg s k v vi := by
  unfold missStepF missStep; exact finishF_of_good r hr _ _ _ _ _ _

theorem callCachedF_of_good (r : Refuse V) (hr : ∀ v, r.bad v = false) (cfg : Cfg) (s : St K V) (ci : CallIn K V) :
    callCachedF r cfg s ci = callCached cfg s ci := by
  unfold callCachedF callCached
  cases ci.key with
  | genError e => rfl
  | unhashable e => rfl
  | ok k =>
    simp only
    cases get? s.c.mem k with
    | some v => rfl
    | none =>
      simp only
      cases get? (s.c.preload k).mem k with
      | some v => exact loadStepF_of_good r hr _ _ _ _ _
      | none =>
        simp only
        cases ci.fn with
        | error e => rfl
        | ok v => exact missStepF_of_good r hr _ _ _ _ _

theorem callNoF_of_good (r : Refuse V) (hr : ∀ v, r.bad v = false) (cfg : Cfg) (s : St K V) (ci : CallIn K V) :
    callNoF r cfg s ci = callNo cfg s ci := by
  unfold callNoF callNo
  cases ci.key with
  | genError e => rfl
  | unhashable e =>
    simp only
    cases cfg.safe with
    | false => rfl
    | true =>
      simp only [if_true]
      cases ci.fn with
      | error e => rfl
      | ok v => simp only [dumpAllF_of_good r hr]; cases s.c.archived <;> rfl
  | ok k =>
    simp only
    cases get? (s.c.preload k).mem k with
    | some v => rfl
    | none =>
      simp only
      cases ci.fn with
      | error e => rfl
      | ok v =>
        simp only [dumpAllF_of_good r hr]
        cases (Cache.archived { s.c.preload k with mem := put (s.c.preload k).mem k v }) <;> rfl

/-- **an archive that refuses nothing: M3F is M3**, operation by operation -/
theorem stepF_eq_step (r : Refuse V) (hr : ∀ v, r.bad v = false) (cfg : Cfg) (s : St K V) (op : Op K V) :
    stepF r cfg s op = step cfg s op := by
  cases op <;> simp only [stepF, step, callF, call, callCachedF_of_good r hr, callNoF_of_good r hr,
    dumpKeysF_of_good r hr, dumpAllF_of_good r hr]

/-- ... and history by history: every theorem about `run` is a theorem about `runF` there -/
theorem runF_eq_run (r : Refuse V) (hr : ∀ v, r.bad v = false) (cfg : Cfg) (s : St K V) (ops : List (Op K V)) :
    runF r cfg s ops = run cfg s ops := by
  induction ops generalizing s with
  | nil => rfl
  | cons op ops ih => simp only [runF, run, stepF_eq_step r hr, ih]

/-! ## 2. a call is M3's call, or it is refused -/

theorem dump1F_some (r : Refuse V) (c c' : Cache K V) (k : K) (h : c.dump1F r k = some c') : c' = c.dump1 k := by
  unfold Cache.dump1F at h
  split at h
  · split at h
    · cases h
    · cases h; rfl
  · cases h; rfl

theorem lfuFoldF_ok (r : Refuse V) (vs : List (K × Nat)) (s : St K V) (h : (lfuFoldF r vs s).2 = false) :
    (lfuFoldF r vs s).1 = vs.foldl (fun s p => { evictOne s p.1 with uc := erase s.uc p.1 }) s := by
  induction vs generalizing s with
  | nil => rfl
  | cons p vs ih =>
    simp only [lfuFoldF] at h ⊢
    cases hd : s.c.dump1F r p.1 with
    | none => rw [hd] at h; cases h
    | some c =>
      rw [hd] at h
      simp only at h ⊢
      rw [ih _ h, dump1F_some r _ _ _ hd]; rfl

/-- the `# purge cache` block either does what M3's does, or the archive raised -/
theorem overflowF_cases (r : Refuse V) (cfg : Cfg) (s : St K V) (vi : Option K) :
    (overflowF r cfg s vi = match overflow cfg s vi with | none => .indexErr | some s' => .ok s') ∨
    ∃ s', overflowF r cfg s vi = .refused s' := by
  unfold overflowF overflow
  split
  · split
    · cases hd : s.c.dumpAllF r with
      | error c => exact Or.inr ⟨_, rfl⟩
      | ok c =>
        left
        unfold Cache.dumpAllF at hd
        split at hd
        · split at hd
          · cases hd
          · cases hd; rfl
        · cases hd; rfl
    · cases cfg.algo with
      | no => exact Or.inl rfl
      | inf => exact Or.inl rfl
      | lfu =>
        simp only
        cases hf : (lfuFoldF r (nsmallest (max 2 (cfg.maxsize / 10)) s.uc) s).2 with
        | true => exact Or.inr ⟨(lfuFoldF r (nsmallest (max 2 (cfg.maxsize / 10)) s.uc) s).1, by simp⟩
        | false => left; simp [lfuFoldF_ok r _ _ hf]
      | lru =>
        simp only
        cases hl : lruLoop s.queue s.rc with
        | none => exact Or.inl rfl
        | some x =>
          obtain ⟨k, q, rc⟩ := x
          simp only
          cases hd : s.c.dump1F r k with
          | none => exact Or.inr ⟨_, rfl⟩
          | some c => left; simp [dump1F_some r _ _ _ hd, evictOne]
      | mru =>
        simp only
        cases hq : s.queue.getLast? with
        | none => exact Or.inl rfl
        | some k =>
          simp only
          cases hd : s.c.dump1F r k with
          | none => exact Or.inr ⟨_, rfl⟩
          | some c => left; simp [dump1F_some r _ _ _ hd, evictOne]
      | rr =>
        simp only
        cases vi with
        | none => exact Or.inl rfl
        | some k =>
          simp only
          cases hd : s.c.dump1F r k with
          | none => exact Or.inr ⟨_, rfl⟩
          | some c => left; simp [dump1F_some r _ _ _ hd, evictOne]
  · exact Or.inl rfl

theorem finishF_cases (r : Refuse V) (cfg : Cfg) (s : St K V) (k : K) (v : V) (n : Nat) (vi : Option K) :
    finishF r cfg s k v n vi = finish cfg s k v n vi ∨ (finishF r cfg s k v n vi).2 = .raised r.exc n := by
  unfold finishF finish
  split
  · exact Or.inl rfl
  · rcases overflowF_cases r cfg s vi with h | ⟨s', h⟩
    · left; rw [h]; cases overflow cfg s vi <;> rfl
    · right; rw [h]

/-- **in every state, for every archive: a call of a caching decorator behaves exactly as in M3 (same state,
same outcome), or it raises the archive's exception** -/
theorem callCachedF_eq_or_refused (r : Refuse V) (cfg : Cfg) (s : St K V) (ci : CallIn K V) :
    callCachedF r cfg s ci = callCached cfg s ci ∨ ∃ n, (callCachedF r cfg s ci).2 = .raised r.exc n := by
  unfold callCachedF callCached
  cases ci.key with
  | genError e => exact Or.inl rfl
  | unhashable e => exact Or.inl rfl
  | ok k =>
    simp only
    cases get? s.c.mem k with
    | some v => exact Or.inl rfl
    | none =>
      simp only
      cases get? (s.c.preload k).mem k with
      | some v =>
        simp only [loadStepF, loadStep]
        rcases finishF_cases r cfg _ k v 0 ci.victim with h | h
        · exact Or.inl h
        · exact Or.inr ⟨0, h⟩
      | none =>
        simp only
        cases ci.fn with
        | error e => exact Or.inl rfl
        | ok v =>
          simp only [missStepF, missStep]
          rcases finishF_cases r cfg _ k v 1 ci.victim with h | h
          · exact Or.inl h
          · exact Or.inr ⟨1, h⟩

/-! ## 3. refused or not: one insertion, then moves from memory to the archive -/

theorem get?_append (a b : List (K × V)) (j : K) :
    get? (a ++ b) j = match get? a j with | some v => some v | none => get? b j := by
  induction a with
  | nil => rfl
  | cons p a ih =>
    simp only [List.cons_append, get?]
    split
    · rfl
    · exact ih

theorem get?_goodPrefix (r : Refuse V) (m : List (K × V)) (j : K) (v : V)
    (h : get? (Cache.goodPrefix r m) j = some v) : get? m j = some v := by
  have hm : m = Cache.goodPrefix r m ++ m.dropWhile (fun p => !r.bad p.2) := by
    unfold Cache.goodPrefix; exact (List.takeWhile_append_dropWhile).symm
  rw [hm, get?_append, h]

theorem nodup_goodPrefix (r : Refuse V) (m : List (K × V)) (hn : (keys m).Nodup) :
    (keys (Cache.goodPrefix r m)).Nodup := by
  unfold keys Cache.goodPrefix at *
  exact List.Nodup.sublist (List.Sublist.map _ (List.takeWhile_sublist _)) hn

/-- what a refused `cache.dump()` leaves: memory as it was, some resident entries copied to the archive -/
theorem moveRel_dumpAllF_error (r : Refuse V) (c c' : Cache K V) (hn : (keys c.mem).Nodup)
    (h : c.dumpAllF r = .error c') : MoveRel c c' ∧ c'.mem = c.mem := by
  unfold Cache.dumpAllF at h
  split at h
  · rename_i a ha
    split at h
    · cases h
      split
      · exact ⟨MoveRel.refl _, rfl⟩
      · refine ⟨⟨fun j => Or.inl rfl, fun j => ?_, rfl, by simp [Cache.archived, ha], id⟩, rfl⟩
        simp only [Cache.aget, ha]
        rw [get?_update_nodup _ _ _ (nodup_goodPrefix r c.mem hn)]
        cases hp : get? (Cache.goodPrefix r c.mem) j with
        | none => exact Or.inl rfl
        | some v =>
          have := get?_goodPrefix r c.mem j v hp
          exact Or.inr ⟨by rw [this]; rfl, by rw [this]⟩
    · cases h
  · cases h

theorem leaves_of_mem_eq {c c' : Cache K V} (h : c'.mem = c.mem) : Leaves c c' := by
  intro j hn hs; rw [h] at hn; rw [hn] at hs; cases hs

theorem rel_lfuFoldF (r : Refuse V) (vs : List (K × Nat)) (s : St K V) (hn : (keys s.c.mem).Nodup) :
    MoveRel s.c (lfuFoldF r vs s).1.c ∧ (s.c.archived = true → Leaves s.c (lfuFoldF r vs s).1.c) := by
  induction vs generalizing s with
  | nil => exact ⟨MoveRel.refl _, fun _ => Leaves.refl _⟩
  | cons p vs ih =>
    simp only [lfuFoldF]
    cases hd : s.c.dump1F r p.1 with
    | none => exact ⟨MoveRel.refl _, fun _ => Leaves.refl _⟩
    | some c =>
      simp only
      have hc := dump1F_some r _ _ _ hd
      subst hc
      have m1 := moveRel_evictOne s.c p.1 hn
      have ih' := ih ({ s with c := (s.c.dump1 p.1).delMem p.1, uc := erase s.uc p.1 } : St K V) (m1.nodup hn)
      refine ⟨m1.trans ih'.1, fun ha => ?_⟩
      exact Leaves.trans m1 ih'.1 (leaves_evictOne s.c p.1 hn ha) (ih'.2 (by rw [m1.archived]; exact ha))

/-- whatever the `# purge cache` block leaves behind - completed or refused part-way - entries only moved from
memory to the archive, and what left memory is archived -/
theorem rel_overflowF (r : Refuse V) (cfg : Cfg) (s s' : St K V) (vi : Option K) (hn : (keys s.c.mem).Nodup)
    (h : overflowF r cfg s vi = .ok s' ∨ overflowF r cfg s vi = .refused s') :
    MoveRel s.c s'.c ∧ (s.c.archived = true → Leaves s.c s'.c) := by
  rcases overflowF_cases r cfg s vi with hc | ⟨s'', hc⟩
  · -- as in M3
    rw [hc] at h
    cases ho : overflow cfg s vi with
    | none => rw [ho] at h; rcases h with h | h <;> cases h
    | some t =>
      rw [ho] at h
      rcases h with h | h
      · cases h; exact ⟨moveRel_overflow cfg s s' vi hn ho, fun ha => leaves_overflow cfg s s' vi hn ha ho⟩
      · cases h
  · -- refused
    rw [hc] at h
    rcases h with h | h
    · cases h
    · cases h
      unfold overflowF at hc
      split at hc
      · split at hc
        · cases hd : s.c.dumpAllF r with
          | ok c => rw [hd] at hc; cases hc
          | error c =>
            rw [hd] at hc; cases hc
            obtain ⟨hm, he⟩ := moveRel_dumpAllF_error r s.c c hn hd
            exact ⟨hm, fun _ => leaves_of_mem_eq he⟩
        · cases hA : cfg.algo with
          | no => rw [hA] at hc; cases hc
          | inf => rw [hA] at hc; cases hc
          | lfu =>
            rw [hA] at hc; simp only at hc
            split at hc
            · cases hc; exact rel_lfuFoldF r _ s hn
            · cases hc
          | lru =>
            rw [hA] at hc; simp only at hc
            split at hc
            · cases hc
            · split at hc
              · cases hc
              · cases hc; exact ⟨MoveRel.refl _, fun _ => Leaves.refl _⟩
          | mru =>
            rw [hA] at hc; simp only at hc
            split at hc
            · cases hc
            · split at hc
              · cases hc
              · cases hc; exact ⟨MoveRel.refl _, fun _ => Leaves.refl _⟩
          | rr =>
            rw [hA] at hc; simp only at hc
            split at hc
            · split at hc
              · cases hc
              · cases hc; exact ⟨MoveRel.refl _, fun _ => Leaves.refl _⟩
            · cases hc
      · cases hc

theorem rel_finishF (r : Refuse V) (cfg : Cfg) (s2 : St K V) (k : K) (v : V) (n : Nat) (vi : Option K)
    (hn : (keys s2.c.mem).Nodup) :
    MoveRel s2.c (finishF r cfg s2 k v n vi).1.c ∧ (s2.c.archived = true → Leaves s2.c (finishF r cfg s2 k v n vi).1.c) := by
  unfold finishF
  split
  · exact ⟨MoveRel.refl _, fun _ => Leaves.refl _⟩
  · cases ho : overflowF r cfg s2 vi with
    | indexErr => exact ⟨MoveRel.refl _, fun _ => Leaves.refl _⟩
    | refused s3 => simpa using rel_overflowF r cfg s2 s3 vi hn (Or.inr ho)
    | ok s3 => simpa [post_c] using rel_overflowF r cfg s2 s3 vi hn (Or.inl ho)

/-- the characterisation `callCached_rel` gives of M3's call holds of M3F's call, refused or not -/
theorem callCachedF_rel (r : Refuse V) (cfg : Cfg) (s : St K V) (ci : CallIn K V) (hn : (keys s.c.mem).Nodup) :
    ∃ c2, (c2 = s.c ∨ ∃ k v, ci.key = .ok k ∧ Ins s.c c2 k v) ∧
      MoveRel c2 (callCachedF r cfg s ci).1.c ∧
      (s.c.archived = true → Leaves c2 (callCachedF r cfg s ci).1.c) := by
  unfold callCachedF
  cases hkey : ci.key with
  | genError e =>
    refine ⟨s.c, Or.inl rfl, ?_, fun _ => ?_⟩ <;>
      (simp only [keyFail]; split <;> simp only [evalDirect_c] <;> first | exact MoveRel.refl _ | exact Leaves.refl _)
  | unhashable e =>
    refine ⟨s.c, Or.inl rfl, ?_, fun _ => ?_⟩ <;>
      (simp only [keyFail]; split <;> simp only [evalDirect_c] <;> first | exact MoveRel.refl _ | exact Leaves.refl _)
  | ok k =>
    simp only
    cases hm : get? s.c.mem k with
    | some v =>
      refine ⟨s.c, Or.inl rfl, ?_, fun _ => ?_⟩ <;>
        (simp only [hitStep, post_c]; split <;> simp only [useKey_c] <;> first | exact MoveRel.refl _ | exact Leaves.refl _)
    | none =>
      simp only
      cases hl : get? (s.c.preload k).mem k with
      | some v =>
        simp only
        obtain ⟨hins, _⟩ := ins_of_load s.c k v hm hl
        have h := rel_finishF r cfg ({ useKey cfg { s with c := s.c.preload k } k with
            load := (useKey cfg { s with c := s.c.preload k } k).load + 1 }) k v 0 ci.victim
            (by simpa using hins.nodup hn)
        refine ⟨s.c.preload k, Or.inr ⟨k, v, rfl, hins⟩, ?_, fun ha => ?_⟩
        · simpa [loadStepF] using h.1
        · simpa [loadStepF] using h.2 (by simpa [hins.archived] using ha)
      | none =>
        simp only
        cases hf : ci.fn with
        | error e => exact ⟨s.c, Or.inl rfl, MoveRel.refl _, fun _ => Leaves.refl _⟩
        | ok v =>
          simp only
          have hins := ins_of_miss s.c k v hm hl
          have h := rel_finishF r cfg ({ useKey cfg { s with c := { s.c.preload k with
                mem := put (s.c.preload k).mem k v } } k with
              miss := (useKey cfg { s with c := { s.c.preload k with
                mem := put (s.c.preload k).mem k v } } k).miss + 1 }) k v 1 ci.victim
              (by simpa using hins.nodup hn)
          refine ⟨_, Or.inr ⟨k, v, rfl, hins⟩, ?_, fun ha => ?_⟩
          · simpa [missStepF] using h.1
          · simpa [missStepF] using h.2 (by simpa [Cache.archived] using ha)

end Klepto
