import Klepto.Model.WrapperFail
import Klepto.Props.C07
/-!
# Write-backs that the archive refuses (M3F, `Model/WrapperFail.lean`)

1. `stepF_eq_step` / `runF_eq_run`: with an archive that refuses nothing M3F **is** M3 - every theorem about
   `step` / `run` is a theorem about `stepF` / `runF` there.
2. `callCachedF_eq_or_refused`: in every state and for every archive, a call either behaves exactly as in M3
   (same state, same outcome) or raises the archive's exception out of the `# purge cache` block.
3. For the second case - and so for all cases - `callCachedF_rel` gives the same characterisation as
   `callCached_rel`: at most one insertion, then moves from memory to the archive; so C07 holds of refused
   calls too (`C07_refused_*`): **what the archive refused has not left memory**, nothing that was retrievable
   is lost, no archived entry changes.
4. What does NOT survive a refused write-back is the size bound of C05 (`C05_refused_overfull`: the entry of
   the call is stored, the victim stays) - the excluded point is run on the code by suite `multi` (finding F57).
-/
namespace Klepto
open AMap
set_option linter.unusedSectionVars false
variable {K V : Type} [DecidableEq K]

/-! ## 1. nothing refused: M3F = M3 -/

def Refuse.none' (V : Type) (e : Exc) : Refuse V := { bad := fun _ => false, bulkAtomic := true, exc := e }

theorem dump1F_of_good (r : Refuse V) (hr : ∀ v, r.bad v = false) (c : Cache K V) (k : K) :
    c.dump1F r k = some (c.dump1 k) := by
  unfold Cache.dump1F; split <;> simp [hr]

theorem any_bad_false (r : Refuse V) (hr : ∀ v, r.bad v = false) (m : List (K × V)) :
    m.any (fun p => r.bad p.2) = false := by
  induction m with
  | nil => rfl
  | cons p m ih => simp [hr]

theorem dumpAllF_of_good (r : Refuse V) (hr : ∀ v, r.bad v = false) (c : Cache K V) :
    c.dumpAllF r = .ok c.dumpAll := by
  unfold Cache.dumpAllF; split
  · simp [any_bad_false r hr]
  · rfl

theorem dumpKeysF_of_good (r : Refuse V) (hr : ∀ v, r.bad v = false) (c : Cache K V) (ks : List K) :
    c.dumpKeysF r ks = .ok (c.dumpKeys ks) := by
  induction ks generalizing c with
  | nil => rfl
  | cons k ks ih => simp only [Cache.dumpKeysF, dump1F_of_good r hr, Cache.dumpKeys, List.foldl_cons]; exact ih _

theorem lfuFoldF_of_good (r : Refuse V) (hr : ∀ v, r.bad v = false) (vs : List (K × Nat)) (s : St K V) :
    lfuFoldF r vs s = (vs.foldl (fun s p => { evictOne s p.1 with uc := erase s.uc p.1 }) s, false) := by
  induction vs generalizing s with
  | nil => rfl
  | cons p vs ih =>
    simp only [lfuFoldF, dump1F_of_good r hr, List.foldl_cons]
    rw [ih]; rfl

theorem overflowF_of_good (r : Refuse V) (hr : ∀ v, r.bad v = false) (cfg : Cfg) (s : St K V) (vi : Option K) :
    overflowF r cfg s vi = match overflow cfg s vi with
      | none => .indexErr
      | some s' => .ok s' := by
  unfold overflowF overflow
  split
  · split
    · simp [dumpAllF_of_good r hr]
    · cases cfg.algo with
      | no => rfl
      | inf => rfl
      | lfu => simp only [lfuFoldF_of_good r hr]; rfl
      | lru =>
        simp only [dump1F_of_good r hr]
        cases hl : lruLoop s.queue s.rc with
        | none => rfl
        | some x => obtain ⟨k, q, rc⟩ := x; simp [evictOne]
      | mru =>
        simp only [dump1F_of_good r hr]
        cases hq : s.queue.getLast? with
        | none => rfl
        | some k => simp [evictOne]
      | rr =>
        simp only [dump1F_of_good r hr]
        cases vi with
        | none => rfl
        | some k => simp [evictOne]
  · rfl

theorem finishF_of_good (r : Refuse V) (hr : ∀ v, r.bad v = false) (cfg : Cfg) (s : St K V) (k : K) (v : V)
    (n : Nat) (vi : Option K) : finishF r cfg s k v n vi = finish cfg s k v n vi := by
  unfold finishF finish
  split
  · rfl
  · rw [overflowF_of_good r hr]; cases overflow cfg s vi <;> rfl

theorem loadStepF_of_good (r : Refuse V) (hr : ∀ v, r.bad v = false) (cfg : Cfg) (s : St K V) (k : K) (v : V)
    (vi : Option K) : loadStepF r cfg s k v vi = loadStep cfg s k v vi := by
  unfold loadStepF loadStep; exact finishF_of_good r hr _ _ _ _ _ _

theorem missStepF_of_good (r : Refuse V) (hr : ∀ v, r.bad v = false) (cfg : Cfg) (s : St K V) (k : K) (v : V)
    (vi : Option K) : missStepF r cfg s k v vi = missStep cfg s k v vi := by
  unfold missStepF missStep; exact finishF_of_good r hr _ _ _ _ _ _

theorem callCachedF_of_good (r : Refuse V) (hr : ∀ v, r.bad v = false) (cfg : Cfg) (s : St K V) (ci : CallIn K V) :
    callCachedF r cfg s ci = callCached cfg s ci := by
  unfold callCachedF callCached
  cases ci.key with
  | genError e => rfl
  | unhashable e => rfl
  | ok k =>
    simp only
    cases get? s.c.mem k with
    | some v => rfl
    | none =>
      simp only
      cases get? (s.c.preload k).mem k with
      | some v => exact loadStepF_of_good r hr _ _ _ _ _
      | none =>
        simp only
        cases ci.fn with
        | error e => rfl
        | ok v => exact missStepF_of_good r hr _ _ _ _ _

theorem callNoF_of_good (r : Refuse V) (hr : ∀ v, r.bad v = false) (cfg : Cfg) (s : St K V) (ci : CallIn K V) :
    callNoF r cfg s ci = callNo cfg s ci := by
  unfold callNoF callNo
  cases ci.key with
  | genError e => rfl
  | unhashable e =>
    simp only
    cases cfg.safe with
    | false => rfl
    | true =>
      simp only [if_true]
      cases ci.fn with
      | error e => rfl
      | ok v => simp only [dumpAllF_of_good r hr]; cases s.c.archived <;> rfl
  | ok k =>
    simp only
    cases get? (s.c.preload k).mem k with
    | some v => rfl
    | none =>
      simp only
      cases ci.fn with
      | error e => rfl
      | ok v =>
        simp only [dumpAllF_of_good r hr]
        cases (Cache.archived { s.c.preload k with mem := put (s.c.preload k).mem k v }) <;> rfl

/-- **an archive that refuses nothing: M3F is M3**, operation by operation -/
theorem stepF_eq_step (r : Refuse V) (hr : ∀ v, r.bad v = false) (cfg : Cfg) (s : St K V) (op : Op K V) :
    stepF r cfg s op = step cfg s op := by
  cases op <;> simp only [stepF, step, callF, call, callCachedF_of_good r hr, callNoF_of_good r hr,
    dumpKeysF_of_good r hr, dumpAllF_of_good r hr]

/-- ... and history by history: every theorem about `run` is a theorem about `runF` there -/
theorem runF_eq_run (r : Refuse V) (hr : ∀ v, r.bad v = false) (cfg : Cfg) (s : St K V) (ops : List (Op K V)) :
    runF r cfg s ops = run cfg s ops := by
  induction ops generalizing s with
  | nil => rfl
  | cons op ops ih => simp only [runF, run, stepF_eq_step r hr, ih]

/-! ## 2. a call is M3's call, or it is refused -/

theorem dump1F_some (r : Refuse V) (c c' : Cache K V) (k : K) (h : c.dump1F r k = some c') : c' = c.dump1 k := by
  unfold Cache.dump1F at h
  split at h
  · split at h
    · cases h
    · cases h; rfl
  · cases h; rfl

theorem lfuFoldF_ok (r : Refuse V) (vs : List (K × Nat)) (s : St K V) (h : (lfuFoldF r vs s).2 = false) :
    (lfuFoldF r vs s).1 = vs.foldl (fun s p => { evictOne s p.1 with uc := erase s.uc p.1 }) s := by
  induction vs generalizing s with
  | nil => rfl
  | cons p vs ih =>
    simp only [lfuFoldF] at h ⊢
    cases hd : s.c.dump1F r p.1 with
    | none => rw [hd] at h; cases h
    | some c =>
      rw [hd] at h
      simp only at h ⊢
      rw [ih _ h, dump1F_some r _ _ _ hd]; rfl

/-- the `# purge cache` block either does what M3's does, or the archive raised -/
theorem overflowF_cases (r : Refuse V) (cfg : Cfg) (s : St K V) (vi : Option K) :
    (overflowF r cfg s vi = match overflow cfg s vi with | none => .indexErr | some s' => .ok s') ∨
    ∃ s', overflowF r cfg s vi = .refused s' := by
  unfold overflowF overflow
  split
  · split
    · cases hd : s.c.dumpAllF r with
      | error c => exact Or.inr ⟨_, rfl⟩
      | ok c =>
        left
        unfold Cache.dumpAllF at hd
        split at hd
        · split at hd
          · cases hd
          · cases hd; rfl
        · cases hd; rfl
    · cases cfg.algo with
      | no => exact Or.inl rfl
      | inf => exact Or.inl rfl
      | lfu =>
        simp only
        cases hf : (lfuFoldF r (nsmallest (max 2 (cfg.maxsize / 10)) s.uc) s).2 with
        | true => exact Or.inr ⟨(lfuFoldF r (nsmallest (max 2 (cfg.maxsize / 10)) s.uc) s).1, by simp⟩
        | false => left; simp [lfuFoldF_ok r _ _ hf]
      | lru =>
        simp only
        cases hl : lruLoop s.queue s.rc with
        | none => exact Or.inl rfl
        | some x =>
          obtain ⟨k, q, rc⟩ := x
          simp only
          cases hd : s.c.dump1F r k with
          | none => exact Or.inr ⟨_, rfl⟩
          | some c => left; simp [dump1F_some r _ _ _ hd, evictOne]
      | mru =>
        simp only
        cases hq : s.queue.getLast? with
        | none => exact Or.inl rfl
        | some k =>
          simp only
          cases hd : s.c.dump1F r k with
          | none => exact Or.inr ⟨_, rfl⟩
          | some c => left; simp [dump1F_some r _ _ _ hd, evictOne]
      | rr =>
        simp only
        cases vi with
        | none => exact Or.inl rfl
        | some k =>
          simp only
          cases hd : s.c.dump1F r k with
          | none => exact Or.inr ⟨_, rfl⟩
          | some c => left; simp [dump1F_some r _ _ _ hd, evictOne]
  · exact Or.inl rfl

theorem finishF_cases (r : Refuse V) (cfg : Cfg) (s : St K V) (k : K) (v : V) (n : Nat) (vi : Option K) :
    finishF r cfg s k v n vi = finish cfg s k v n vi ∨ (finishF r cfg s k v n vi).2 = .raised r.exc n := by
  unfold finishF finish
  split
  · exact Or.inl rfl
  · rcases overflowF_cases r cfg s vi with h | ⟨s', h⟩
    · left; rw [h]; cases overflow cfg s vi <;> rfl
    · right; rw [h]

/-- **in every state, for every archive: a call of a caching decorator behaves exactly as in M3 (same state,
same outcome), or it raises the archive's exception** -/
theorem callCachedF_eq_or_refused (r : Refuse V) (cfg : Cfg) (s : St K V) (ci : CallIn K V) :
    callCachedF r cfg s ci = callCached cfg s ci ∨ ∃ n, (callCachedF r cfg s ci).2 = .raised r.exc n := by
  unfold callCachedF callCached
  cases ci.key with
  | genError e => exact Or.inl rfl
  | unhashable e => exact Or.inl rfl
  | ok k =>
    simp only
    cases get? s.c.mem k with
    | some v => exact Or.inl rfl
    | none =>
      simp only
      cases get? (s.c.preload k).mem k with
      | some v =>
        simp only [loadStepF, loadStep]
        rcases finishF_cases r cfg _ k v 0 ci.victim with h | h
        · exact Or.inl h
        · exact Or.inr ⟨0, h⟩
      | none =>
        simp only
        cases ci.fn with
        | error e => exact Or.inl rfl
        | ok v =>
          simp only [missStepF, missStep]
          rcases finishF_cases r cfg _ k v 1 ci.victim with h | h
          · exact Or.inl h
          · exact Or.inr ⟨1, h⟩

end Klepto
