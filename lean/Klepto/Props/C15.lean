import Klepto.Lemmas.Stats
import Klepto.Lemmas.WF
/-!
# C15 — Statistics are an exact account of what happened

Ground truth is a classification of each call from *membership before the call*, independent of
the counters; the theorems say the counters are exactly the classified event counts.
-/
namespace Klepto.C15
open Klepto AMap
set_option linter.unusedSectionVars false
variable {K V : Type} [DecidableEq K]

inductive Cls | hit | load | miss | nothing
  deriving DecidableEq, Repr

/-- ground-truth classification of a call.  `hit`: resident in memory (caching decorators);
`load`: fetched from the archive (for `no_cache`: every retrieved result); `miss`: the function is
evaluated and returns; `nothing`: the function raised, or the key pipeline failed in a standard
decorator. -/
def classify (cfg : Cfg) (s : St K V) (ci : CallIn K V) : Cls :=
  match ci.key with
  | .ok k =>
    if cfg.algo ≠ .no ∧ (get? s.c.mem k).isSome then .hit
    else if (get? (s.c.preload k).mem k).isSome then .load
    else match ci.fn with
      | .ok _ => .miss
      | .error _ => .nothing
  | _ => if cfg.safe then (match ci.fn with | .ok _ => .miss | .error _ => .nothing) else .nothing

def delta : Cls → Nat × Nat × Nat
  | .hit => (1, 0, 0) | .miss => (0, 1, 0) | .load => (0, 0, 1) | .nothing => (0, 0, 0)

def add3 (a b : Nat × Nat × Nat) : Nat × Nat × Nat := (a.1 + b.1, a.2.1 + b.2.1, a.2.2 + b.2.2)

/-- **Counters move by exactly the classified event** — all twelve wrappers, every path. -/
theorem C15_step_counts (cfg : Cfg) (s : St K V) (ci : CallIn K V) :
    (call cfg s ci).1.stats = add3 s.stats (delta (classify cfg s ci)) := by
  unfold call classify
  by_cases hno : cfg.algo = .no
  · simp only [hno, if_true]
    unfold callNo
    cases hk : ci.key with
    | genError e =>
      simp only [keyFail, evalDirect]; split
      · cases hf : ci.fn <;> simp [St.stats, add3, delta]
      · simp [St.stats, add3, delta]
    | unhashable e =>
      simp only [keyFail, evalDirect]; split
      · cases hf : ci.fn <;> simp [St.stats, add3, delta]
      · simp [St.stats, add3, delta]
    | ok k =>
      simp only
      cases hl : get? (s.c.preload k).mem k with
      | some v => simp [St.stats, add3, delta]
      | none =>
        simp only
        cases hf : ci.fn <;> simp [St.stats, add3, delta]
  · simp only [hno, if_false]
    unfold callCached
    cases hk : ci.key with
    | genError e =>
      simp only [keyFail, evalDirect]; split
      · cases hf : ci.fn <;> simp [St.stats, add3, delta]
      · simp [St.stats, add3, delta]
    | unhashable e =>
      simp only [keyFail, evalDirect]; split
      · cases hf : ci.fn <;> simp [St.stats, add3, delta]
      · simp [St.stats, add3, delta]
    | ok k =>
      simp only
      cases hm : get? s.c.mem k with
      | some v =>
        simp only [hitStep, post_stats]
        split <;> simp [St.stats, add3, delta, hno]
      | none =>
        simp only
        cases hl : get? (s.c.preload k).mem k with
        | some v =>
          simp only [loadStep, finish_stats]
          simp [St.stats, add3, delta, hno]
        | none =>
          simp only
          cases hf : ci.fn with
          | error e => simp [St.stats, add3, delta, hno]
          | ok v =>
            simp only [missStep, finish_stats]
            simp [St.stats, add3, delta, hno]

def Out.completed : Out V → Bool
  | .ret _ _ => true
  | _ => false

theorem finish_completed (cfg : Cfg) (s : St K V) (k : K) (v : V) (n : Nat) (vi : Option K)
    (h : (finish cfg s k v n vi).2.isIndexError = false) : Out.completed (finish cfg s k v n vi).2 = true := by
  unfold finish at h ⊢
  by_cases hi : cfg.algo = .inf
  · simp [hi, Out.completed]
  · simp only [hi, if_false] at h ⊢
    cases ho : overflow cfg s vi with
    | none => simp [ho, Out.isIndexError] at h
    | some s3 => simp [Out.completed]

/-- **hit + miss + load counts completed calls**: a call is counted iff it completes
(returns a value); the only exception is `mru`'s `IndexError` (F2), excluded by `hne`. -/
theorem C15_completed_iff_counted (cfg : Cfg) (s : St K V) (ci : CallIn K V)
    (hne : (call cfg s ci).2.isIndexError = false) :
    Out.completed (call cfg s ci).2 = true ↔ classify cfg s ci ≠ .nothing := by
  unfold call classify at *
  by_cases hno : cfg.algo = .no
  · simp only [hno, if_true] at hne ⊢
    unfold callNo at hne ⊢
    cases hk : ci.key with
    | genError e =>
      simp only [keyFail, evalDirect]; split
      · cases hf : ci.fn <;> simp [Out.completed]
      · simp [Out.completed]
    | unhashable e =>
      simp only [keyFail, evalDirect]; split
      · cases hf : ci.fn <;> simp [Out.completed]
      · simp [Out.completed]
    | ok k =>
      simp only
      cases hl : get? (s.c.preload k).mem k with
      | some v => simp [Out.completed]
      | none =>
        simp only
        cases hf : ci.fn <;> simp [Out.completed]
  · simp only [hno, if_false] at hne ⊢
    unfold callCached at hne ⊢
    cases hk : ci.key with
    | genError e =>
      simp only [keyFail, evalDirect]; split
      · cases hf : ci.fn <;> simp [Out.completed]
      · simp [Out.completed]
    | unhashable e =>
      simp only [keyFail, evalDirect]; split
      · cases hf : ci.fn <;> simp [Out.completed]
      · simp [Out.completed]
    | ok k =>
      simp only [hk] at hne
      simp only
      cases hm : get? s.c.mem k with
      | some v => simp [hitStep, Out.completed, hno]
      | none =>
        simp only [hm] at hne
        simp only
        cases hl : get? (s.c.preload k).mem k with
        | some v =>
          simp only [hl] at hne
          simp [loadStep, hno] at hne ⊢
          exact finish_completed _ _ _ _ _ _ hne
        | none =>
          simp only [hl] at hne
          simp only
          cases hf : ci.fn with
          | error e => simp [Out.completed, hno]
          | ok v =>
            simp only [hf] at hne
            simp [missStep, hno] at hne ⊢
            exact finish_completed _ _ _ _ _ _ hne

/-- the counters never move by more than one per call, and `delta` sums to 0 or 1 -/
theorem delta_total (c : Cls) : (delta c).1 + (delta c).2.1 + (delta c).2.2 = if c = .nothing then 0 else 1 := by
  cases c <;> simp [delta]

/-! ## histories: the counters are a ghost account of the classified events since the last reset -/

/-- ground-truth account along a history (reset by `clear()`, kept by `clear(keepstats=True)`) -/
def account (cfg : Cfg) : St K V → List (Op K V) → Nat × Nat × Nat → Nat × Nat × Nat
  | _, [], acc => acc
  | s, op :: ops, acc =>
    let acc' := match op with
      | .call ci => add3 acc (delta (classify cfg s ci))
      | .clear false => (0, 0, 0)
      | _ => acc
    account cfg (step cfg s op).1 ops acc'

theorem step_stats_noncall (cfg : Cfg) (s : St K V) (op : Op K V)
    (hc : ∀ ci, op ≠ .call ci) (hcl : op ≠ .clear false) : (step cfg s op).1.stats = s.stats := by
  cases op with
  | call ci => exact absurd rfl (hc ci)
  | clear keep =>
    cases keep with
    | false => exact absurd rfl hcl
    | true => by_cases hno : cfg.algo = .no <;> simp [step, hno, St.stats, St.clearBook]
  | lookup key =>
    simp only [step]; split
    · split <;> rfl
    · rfl
    · rfl
  | archivedOn => simp only [step]; split <;> rfl
  | archivedOff => simp only [step]; split <;> rfl
  | setArchive a => simp only [step]; split <;> rfl
  | _ => rfl

/-- **C15, histories.**  At every point of every history, `(hit, miss, load)` equals the
ground-truth account of classified calls since the last reset. -/
theorem C15_counts (cfg : Cfg) (ops : List (Op K V)) (s : St K V) :
    (run cfg s ops).1.stats = account cfg s ops s.stats := by
  induction ops generalizing s with
  | nil => rfl
  | cons op ops ih =>
    simp only [run, account]
    rw [ih]
    congr 1
    cases op with
    | call ci => exact C15_step_counts cfg s ci
    | clear keep =>
      cases keep with
      | false => by_cases hno : cfg.algo = .no <;> simp [step, hno, St.stats, St.clearBook]
      | true => exact step_stats_noncall cfg s _ (by intro ci h; cases h) (by intro h; cases h)
    | lookup key => exact step_stats_noncall cfg s _ (by intro ci h; cases h) (by intro h; cases h)
    | load ks => rfl
    | loadAll => rfl
    | dump ks => rfl
    | dumpAll => rfl
    | archivedOn => exact step_stats_noncall cfg s _ (by intro ci h; cases h) (by intro h; cases h)
    | archivedOff => exact step_stats_noncall cfg s _ (by intro ci h; cases h) (by intro h; cases h)
    | archivedQ => rfl
    | setArchive a => exact step_stats_noncall cfg s _ (by intro ci h; cases h) (by intro h; cases h)
    | extPut k v => rfl
    | extDel k => rfl
    | info => rfl

/-- **info()** reports the counters, the configured bound (`0` / `None` for no / inf) and the
current number of resident entries; it changes nothing. -/
theorem C15_info (cfg : Cfg) (s : St K V) :
    step cfg s .info = (s, .info s.hit s.miss s.load
      (match cfg.algo with | .no => some 0 | .inf => none | _ => some cfg.maxsize) s.c.mem.length) := rfl

/-- **clear()** empties the memory cache and the bookkeeping and zeroes the counters;
**clear(keepstats=True)** keeps the counters - for all twelve decorators (since the repair of F56 also
for `no_cache`, whose memory is not empty after a `load()`). -/
theorem C15_clear (cfg : Cfg) (s : St K V) (keep : Bool) :
    (step cfg s (.clear keep)).1.c.mem = [] ∧
    (step cfg s (.clear keep)).1.stats = (if keep then s.stats else (0, 0, 0)) ∧
    (step cfg s (.clear keep)).1.c.arch = s.c.arch := by
  simp only [step]
  cases keep <;> simp [St.stats, St.clearBook, Cache.clearMem]

/-! ## witnesses -/
section Examples
def lfu3 : Cfg := { algo := .lfu, safe := false, maxsize := 3, purge := false }
def c0 : Cache Nat Nat := { mem := [], arch := some [(9, 90)], swap := none }
def mk (k v : Nat) : Op Nat Nat := .call { key := .ok k, fn := .ok v, victim := none }
/-- miss, hit, load from the archive, a raising call, reset, miss -/
example : (run lfu3 (St.init c0) [mk 1 10, mk 1 10, mk 9 90,
      .call { key := .ok 5, fn := .error (.user 5), victim := none }]).1.stats = (1, 1, 1) := by decide
/-- **F2**: the `mru` call that ends in `IndexError` has already been counted, so the
hypothesis `isIndexError = false` of `C15_completed_iff_counted` cannot be dropped -/
example :
    let cfg : Cfg := { algo := .mru, safe := false, maxsize := 1, purge := false }
    let s : St Nat Nat := St.init { mem := [(5, 50), (6, 60)], arch := none, swap := none }
    let ci : CallIn Nat Nat := { key := .ok 7, fn := .ok 70, victim := none }
    (call cfg s ci).2 = .raised .indexError 1 ∧ (call cfg s ci).1.stats = (0, 1, 0) := by decide
end Examples

end Klepto.C15
