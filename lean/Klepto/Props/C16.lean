import Klepto.Lemmas.WF
/-!
# C16 — Exceptions pass through untouched; safe caches degrade to plain evaluation

The model encodes Python's handler structure explicitly: the evaluation of the user function
happens inside the `except KeyError:` handler, so an exception it raises is *not* caught by the
sibling bare `except:` of the safe variants — hence a single evaluation.  (`Out.raised e n`:
`n` is the number of evaluations of the user function.)
-/
namespace Klepto.C16
open Klepto AMap
set_option linter.unusedSectionVars false
variable {K V : Type} [DecidableEq K]

/-- the stored result for `k` is retrievable neither from memory nor from the attached archive -/
def NotRetrievable (s : St K V) (k : K) : Prop :=
  get? s.c.mem k = none ∧ get? (s.c.preload k).mem k = none

theorem notRetrievable_iff (s : St K V) (k : K) :
    NotRetrievable s k ↔ get? s.c.mem k = none ∧ ∀ a, s.c.arch = some a → get? a k = none := by
  unfold NotRetrievable
  constructor
  · rintro ⟨h1, h2⟩
    refine ⟨h1, fun a ha => ?_⟩
    rw [preload_get_self, ha] at h2
    cases hk : get? a k with
    | none => rfl
    | some v => simp [hk] at h2
  · rintro ⟨h1, h2⟩
    refine ⟨h1, ?_⟩
    rw [preload_get_self]
    cases ha : s.c.arch with
    | none => exact h1
    | some a => simp [h2 a ha, h1]

/-- **The function raises ⇒ the call is a no-op.**  For all twelve wrappers: if the key is not
retrievable and the function raises `e`, the same `e` propagates after exactly one evaluation and
the state — memory, archive, parked archive, recency queue, reference/use counts, statistics — is
literally unchanged. -/
theorem C16_raise_is_noop (cfg : Cfg) (s : St K V) (ci : CallIn K V) (k : K) (e : Exc)
    (hk : ci.key = .ok k) (hn : NotRetrievable s k) (hf : ci.fn = .error e) :
    call cfg s ci = (s, .raised e 1) := by
  unfold call
  split
  · unfold callNo; simp only [hk, hn.2, hf]
  · unfold callCached; simp only [hk, hn.1, hn.2, hf]

/-- consequently every later operation behaves as if the call had not been made -/
theorem C16_raise_then_run (cfg : Cfg) (s : St K V) (ci : CallIn K V) (k : K) (e : Exc)
    (ops : List (Op K V))
    (hk : ci.key = .ok k) (hn : NotRetrievable s k) (hf : ci.fn = .error e) :
    run cfg s (.call ci :: ops) =
      ((run cfg s ops).1, .raised e 1 :: (run cfg s ops).2) := by
  simp only [run, step, C16_raise_is_noop cfg s ci k e hk hn hf]

/-- what a key failure is: rounding / `_keygen` / the keymap raised, or the key is unhashable -/
def KeyFails (ci : CallIn K V) (e : Exc) : Prop := ci.key = .genError e ∨ ci.key = .unhashable e

/-- **Safe caches degrade to plain evaluation**: on any key failure the function is evaluated
exactly once and its result returned (or its own exception propagated). -/
theorem C16_safe_keyfail (cfg : Cfg) (s : St K V) (ci : CallIn K V) (e : Exc)
    (hs : cfg.safe = true) (hk : KeyFails ci e) :
    (call cfg s ci).2 = match ci.fn with
      | .ok v => .ret v 1
      | .error e' => .raised e' 1 := by
  unfold call
  rcases hk with hk | hk <;> split <;>
    simp only [callNo, callCached, hk, keyFail, hs, if_true, evalDirect] <;> split <;> simp_all

/-- … nothing is stored and only a completed call is counted (as a miss).  (For `safe.no_cache`
with an unhashable key the code additionally falls through to its purge block — next theorem.) -/
theorem C16_safe_keyfail_state (cfg : Cfg) (s : St K V) (ci : CallIn K V) (e : Exc)
    (hs : cfg.safe = true) (hk : KeyFails ci e) (hno : cfg.algo ≠ .no ∨ ci.key = .genError e) :
    (call cfg s ci).1 = match ci.fn with
      | .ok _ => { s with miss := s.miss + 1 }
      | .error _ => s := by
  unfold call
  rcases hk with hk | hk
  · split <;> simp only [callNo, callCached, hk, keyFail, hs, if_true, evalDirect] <;> split <;> simp_all
  · rcases hno with hno | hno
    · simp only [hno, if_false, callCached, hk, keyFail, hs, if_true, evalDirect]; split <;> simp_all
    · rw [hk] at hno; cases hno

/-- `safe.no_cache`, unhashable key: after the direct evaluation the decorator's usual purge runs
(`dump()` if archived, then `clear()`), exactly as after any other `no_cache` call -/
theorem C16_safe_no_unhashable (cfg : Cfg) (s : St K V) (ci : CallIn K V) (e : Exc)
    (hs : cfg.safe = true) (ha : cfg.algo = .no) (hk : ci.key = .unhashable e) :
    (call cfg s ci).1 = match ci.fn with
      | .ok _ => { s with c := (if s.c.archived then s.c.dumpAll else s.c).clearMem, miss := s.miss + 1 }
      | .error _ => s := by
  unfold call
  simp only [ha, if_true, callNo, hk, hs]
  cases hf : ci.fn <;> rfl

/-- the standard wrappers propagate the key pipeline's own exception, evaluate nothing and
change nothing -/
theorem C16_std_keyfail (cfg : Cfg) (s : St K V) (ci : CallIn K V) (e : Exc)
    (hs : cfg.safe = false) (hk : KeyFails ci e) :
    call cfg s ci = (s, .raised e 0) := by
  unfold call
  rcases hk with hk | hk <;> split <;>
    simp only [callNo, callCached, hk, keyFail, hs] <;> simp

/-- a call never evaluates the function more than once -/
def evalsOf : Out V → Nat
  | .ret _ n => n
  | .raised _ n => n
  | _ => 0

theorem finish_evals (cfg : Cfg) (s : St K V) (k : K) (v : V) (n : Nat) (vi : Option K) :
    evalsOf (finish cfg s k v n vi).2 = n := by
  unfold finish; split
  · rfl
  · split <;> rfl

theorem C16_single_evaluation (cfg : Cfg) (s : St K V) (ci : CallIn K V) :
    evalsOf (call cfg s ci).2 ≤ 1 := by
  unfold call
  split
  · unfold callNo
    split
    · simp only [keyFail, evalDirect]; split
      · split <;> simp [evalsOf]
      · simp [evalsOf]
    · split
      · split <;> simp [evalsOf]
      · simp [evalsOf]
    · simp only
      split
      · simp [evalsOf]
      · split <;> simp [evalsOf]
  · unfold callCached
    split
    · simp only [keyFail, evalDirect]; split
      · split <;> simp [evalsOf]
      · simp [evalsOf]
    · simp only [keyFail, evalDirect]; split
      · split <;> simp [evalsOf]
      · simp [evalsOf]
    · split
      · simp [hitStep, evalsOf]
      · split
        · simp [loadStep, finish_evals]
        · split
          · simp [evalsOf]
          · simp [missStep, finish_evals]

/-! ## non-vacuity / witnesses -/
section Examples
def lruS : Cfg := { algo := .lru, safe := true, maxsize := 2, purge := false }
def c0 : Cache Nat Nat := { mem := [(1, 10)], arch := some [(2, 20)], swap := none }
/-- a reachable-looking state and a raising call with a key that is neither resident nor archived -/
example : NotRetrievable (St.init c0) 3 := by unfold NotRetrievable; decide
example : call lruS (St.init c0) { key := .ok 3, fn := .error (.user 3), victim := none }
    = (St.init c0, .raised (.user 3) 1) := by decide
/-- a user function raising `KeyError` (which collides with the wrappers' own control flow) -/
example : call lruS (St.init c0) { key := .ok 3, fn := .error .keyError, victim := none }
    = (St.init c0, .raised .keyError 1) := by decide
example : (call lruS (St.init c0) { key := .unhashable .typeError, fn := .ok 7, victim := none }).2
    = .ret 7 1 := by decide
end Examples

end Klepto.C16
