import Klepto.Lemmas.Sched
import Klepto.Props.C13
import Klepto.Props.C03
/-!
# C14 — Concurrent processes: no lost entries, no phantom or torn reads

Model: `Model/Sched.lean` — processes taking atomic steps on one shared disk (M8), under an arbitrary
schedule.  Writers are their system-call programs; `dir_archive` readers are state machines over the
archive's read helpers; `file_archive` processes read the whole file, writers then save what they
computed from what they read.  Suite `sched` replays every recorded schedule of real, gated processes
on this model (answers, programs, final contents).

* `C14_dir_writers_disjoint` — two writers storing under different names, **every interleaving** of
  their system calls: the disk ends as if one had run after the other, so both entries are there
  complete and every other entry is untouched (`C14_dir_both_present`).  The core is
  `vstep_comm`/`vrun_interleave`: calls that name different directories commute.
* `C14_dir_snapshot_reads` — at every point of every interleaving each of the two names reads as in
  some crash state of its own writer alone, every other name as before: a single-call reader
  (`d[k]`, `k in d`) of another key is never disturbed, and by C13 a reader of a key being *added* or
  *removed* sees it old or new.
* `C14_file_reader` — `file_archive`, one writer: a reader's single read always returns the complete
  old or the complete new dict.
* `C14_sql_writers_disjoint` — sqlite: committed inserts on different keys commute in the view.
* witnesses (`decide`d on the small-step model, replayed on the code by suite `sched`): a lookup
  during an overwrite finds nothing (F19b); `__asdict__` racing a delete raises `KeyError` (F34); an
  opener's `update({})` undoes a concurrent `file_archive` write (F20).
-/
namespace Klepto.C14
open Klepto AMap Crash Sched
set_option linter.unusedSectionVars false
variable {V : Type}

/-! ## which names a writer's program mentions -/

theorem rmProg_names (ip : Bool) (s : DirFS V) (n : DName) : ∀ x ∈ rmProg ip s n, sysNames x = [n] := by
  unfold rmProg
  cases get? s n with
  | none => simp
  | some d =>
    obtain ⟨o, inp⟩ := d
    intro x hx
    cases o <;> cases inp <;> cases ip <;> simp at hx <;> (try rcases hx with h | h | h) <;>
      (try rcases hx with h | h) <;> (try subst h) <;> (try subst hx) <;> rfl

theorem stageProg_names (ni : Bool) (t : DName) (v : V) : ∀ x ∈ stageProg ni t v, sysNames x = [t] := by
  intro x hx
  cases ni
  · simp [stageProg] at hx; rcases hx with rfl | rfl | rfl <;> rfl
  · simp [stageProg] at hx; rcases hx with rfl | rfl | rfl | rfl | rfl <;> rfl

def actName : DAct V → String
  | .store n _ _ => n
  | .remove n => n

/-- the calls of `_store(n)` / `_rmdir(n)` mention only the entry's own directory and the writer's
private staging names -/
theorem actProg_names (ip : Bool) (s : DirFS V) (next : Nat) (act : DAct V) :
    ∀ x ∈ actProg true ip s next act, ∀ a ∈ sysNames x,
      a = .temp next ∨ a = .temp (next + 1) ∨ a = .key (actName act) := by
  intro x hx a ha
  cases act with
  | remove n =>
    simp only [actProg, removeProg, if_true, List.mem_cons] at hx
    rcases hx with rfl | hx
    · simp [sysNames] at ha; rcases ha with rfl | rfl <;> simp [actName]
    · rw [rmProg_names ip _ _ x hx] at ha; simp at ha; subst ha; simp
  | store n ni v =>
    simp only [actProg, storeProg, removeProg, if_true, List.mem_append, List.mem_cons, List.mem_nil_iff, or_false] at hx
    rcases hx with (hx | rfl | hx) | rfl
    · rw [stageProg_names ni _ v x hx] at ha; simp at ha; subst ha; simp
    · simp [sysNames] at ha; rcases ha with rfl | rfl <;> simp [actName]
    · rw [rmProg_names ip _ _ x hx] at ha; simp at ha; subst ha; simp
    · simp [sysNames] at ha; rcases ha with rfl | rfl <;> simp [actName]

/-- two writers on different keys, with their own staging names: all their calls are independent -/
theorem acts_indep (ip₁ ip₂ : Bool) (s : DirFS V) (t₁ t₂ : Nat) (a₁ a₂ : DAct V)
    (hk : actName a₁ ≠ actName a₂) (ht : t₁ + 2 ≤ t₂ ∨ t₂ + 2 ≤ t₁) :
    ∀ x ∈ actProg true ip₁ s t₁ a₁, ∀ y ∈ actProg true ip₂ s t₂ a₂, Indep x y := by
  intro x hx y hy a ha b hb hab
  subst hab
  have h1 := actProg_names ip₁ s t₁ a₁ x hx a ha
  have h2 := actProg_names ip₂ s t₂ a₂ y hy a hb
  rcases h1 with rfl | rfl | rfl <;> rcases h2 with h | h | h <;> simp at h <;> (try omega) <;> (try exact hk h)

/-! ## writer ‖ writer on different keys -/

/-- **every interleaving of two writers on different keys ends in the disk that running one after
the other produces** (as a function of directory names) -/
theorem C14_dir_writers_disjoint (ip₁ ip₂ : Bool) (s : DirFS V) (t₁ t₂ : Nat) (a₁ a₂ : DAct V)
    (hn : (keys s).Nodup) (hk : actName a₁ ≠ actName a₂) (ht : t₁ + 2 ≤ t₂ ∨ t₂ + 2 ≤ t₁)
    (l : List (DSys V)) (hl : Interleave (actProg true ip₁ s t₁ a₁) (actProg true ip₂ s t₂ a₂) l) :
    get? (drun s l) = get? (drun (drun s (actProg true ip₁ s t₁ a₁)) (actProg true ip₂ s t₂ a₂)) := by
  rw [get?_drun s l hn, get?_drun _ _ (nodup_drun s _ hn), get?_drun s _ hn]
  exact vrun_interleave _ _ _ l hl (acts_indep ip₁ ip₂ s t₁ t₂ a₁ a₂ hk ht)

/-- a program does not change the names it does not mention -/
theorem vrun_frame (d : DView V) (p : List (DSys V)) (m : DName) (hm : ∀ x ∈ p, m ∉ sysNames x) : vrun d p m = d m := by
  induction p generalizing d with
  | nil => rfl
  | cons x xs ih =>
    rw [vrun_cons, ih _ (fun y hy => hm y (List.mem_cons_of_mem _ hy)), vstep_frame d x m (hm x (by simp))]

/-- a program looks only at the names it mentions: on two disks that agree there it does the same -/
theorem vrun_local (d d' : DView V) (p : List (DSys V)) (N : DName → Prop)
    (hN : ∀ x ∈ p, ∀ a ∈ sysNames x, N a) (h : ∀ a, N a → d a = d' a) : ∀ a, N a → vrun d p a = vrun d' p a := by
  induction p generalizing d d' with
  | nil => exact h
  | cons x xs ih =>
    intro a ha
    rw [vrun_cons, vrun_cons]
    apply ih _ _ (fun y hy => hN y (List.mem_cons_of_mem _ hy)) _ a ha
    intro b hb
    by_cases hbx : b ∈ sysNames x
    · exact vstep_local d d' x (fun n hn => h n (hN x (by simp) n hn)) b hbx
    · rw [vstep_frame d x b hbx, vstep_frame d' x b hbx]; exact h b hb

/-- after the interleaving, each writer's entry is what that writer alone would have left, and all
other entries are as before: **nothing is lost, nothing is corrupted** -/
theorem C14_dir_both_present (ip₁ ip₂ : Bool) (s : DirFS V) (t₁ t₂ : Nat) (a₁ a₂ : DAct V)
    (hn : (keys s).Nodup) (hk : actName a₁ ≠ actName a₂) (ht : t₁ + 2 ≤ t₂ ∨ t₂ + 2 ≤ t₁)
    (l : List (DSys V)) (hl : Interleave (actProg true ip₁ s t₁ a₁) (actProg true ip₂ s t₂ a₂) l) (m : String) :
    get? (drun s l) (.key m) =
      if m = actName a₁ then get? (drun s (actProg true ip₁ s t₁ a₁)) (.key m)
      else if m = actName a₂ then get? (drun s (actProg true ip₂ s t₂ a₂)) (.key m)
      else get? s (.key m) := by
  rw [C14_dir_writers_disjoint ip₁ ip₂ s t₁ t₂ a₁ a₂ hn hk ht l hl]
  rw [get?_drun _ _ (nodup_drun s _ hn), get?_drun s _ hn, get?_drun s _ hn]
  have hN1 := actProg_names ip₁ s t₁ a₁
  have hN2 := actProg_names ip₂ s t₂ a₂
  by_cases h1 : m = actName a₁
  · subst h1
    simp only [if_true]
    apply vrun_frame
    intro y hy hmem
    rcases hN2 y hy _ hmem with h | h | h <;> simp at h
    exact hk h
  · simp only [h1, if_false]
    by_cases h2 : m = actName a₂
    · subst h2
      simp only [if_true]
      -- the second writer looks only at its own names, which the first has not touched
      apply vrun_local _ _ _ (fun a => a = .temp t₂ ∨ a = .temp (t₂ + 1) ∨ a = .key (actName a₂))
      · intro x hx a ha; exact hN2 x hx a ha
      · intro a ha
        apply vrun_frame
        intro x hx hmem
        rcases hN1 x hx a hmem with h | h | h <;> rcases ha with h' | h' | h' <;> rw [h] at h' <;> simp at h' <;> (try omega)
        exact h1 h'.symm
      · exact Or.inr (Or.inr rfl)
    · simp only [h2, if_false]
      rw [vrun_frame, vrun_frame]
      · intro x hx hmem
        rcases hN1 x hx _ hmem with h | h | h <;> simp at h
        exact h1 h
      · intro x hx hmem
        rcases hN2 x hx _ hmem with h | h | h <;> simp at h
        exact h2 h

/-- prefixes of an interleaving are interleavings of prefixes -/
theorem interleave_take {α : Type} (p q l : List α) (hi : Interleave p q l) (k : Nat) :
    ∃ i j, Interleave (p.take i) (q.take j) (l.take k) := by
  induction hi generalizing k with
  | nil => exact ⟨0, 0, by simpa using Interleave.nil⟩
  | left x p q l _ ih =>
    cases k with
    | zero => exact ⟨0, 0, by simpa using Interleave.nil⟩
    | succ k =>
      obtain ⟨i, j, h⟩ := ih k
      exact ⟨i + 1, j, by simpa using Interleave.left x _ _ _ h⟩
  | right y p q l _ ih =>
    cases k with
    | zero => exact ⟨0, 0, by simpa using Interleave.nil⟩
    | succ k =>
      obtain ⟨i, j, h⟩ := ih k
      exact ⟨i, j + 1, by simpa using Interleave.right y _ _ _ h⟩

/-- two programs over disjoint sets of names, any interleaving: each name reads as its own program
left it, every other name as before -/
theorem interleave_views (d : DView V) (p q l : List (DSys V)) (hi : Interleave p q l) (P Q : DName → Prop)
    (hp : ∀ x ∈ p, ∀ a ∈ sysNames x, P a) (hq : ∀ x ∈ q, ∀ a ∈ sysNames x, Q a) (hd : ∀ a, P a → Q a → False) (a : DName) :
    (P a → vrun d l a = vrun d p a) ∧ (Q a → vrun d l a = vrun d q a) ∧ (¬ P a → ¬ Q a → vrun d l a = d a) := by
  have hind : ∀ x ∈ p, ∀ y ∈ q, Indep x y := fun x hx y hy m hm n hn e => hd m (hp x hx m hm) (e ▸ hq y hy n hn)
  rw [vrun_interleave d p q l hi hind]
  refine ⟨fun hP => ?_, fun hQ => ?_, fun hP hQ => ?_⟩
  · exact vrun_frame _ q a (fun y hy hm => hd a hP (hq y hy a hm))
  · exact vrun_local _ _ q Q hq (fun b hb => vrun_frame d p b (fun x hx hm => hd b (hp x hx b hm) hb)) a hQ
  · rw [vrun_frame _ q a (fun y hy hm => hQ (hq y hy a hm)), vrun_frame d p a (fun x hx hm => hP (hp x hx a hm))]

/-- **what a reader can see while two writers on different keys run**: at every point of every
interleaving, the entry of each writer reads as after some prefix of that writer's own program — a
crash state of that writer alone, so C13 applies: old or new for a new key or a removal — and every
other entry reads as before the writers started -/
theorem C14_dir_snapshot_reads (ip₁ ip₂ : Bool) (s : DirFS V) (t₁ t₂ : Nat) (a₁ a₂ : DAct V)
    (hn : (keys s).Nodup) (hk : actName a₁ ≠ actName a₂) (ht : t₁ + 2 ≤ t₂ ∨ t₂ + 2 ≤ t₁)
    (l : List (DSys V)) (hl : Interleave (actProg true ip₁ s t₁ a₁) (actProg true ip₂ s t₂ a₂) l) (k : Nat) :
    ∃ i j, ∀ m, get? (drun s (l.take k)) (.key m) =
      if m = actName a₁ then get? (drun s ((actProg true ip₁ s t₁ a₁).take i)) (.key m)
      else if m = actName a₂ then get? (drun s ((actProg true ip₂ s t₂ a₂).take j)) (.key m)
      else get? s (.key m) := by
  obtain ⟨i, j, hij⟩ := interleave_take _ _ _ hl k
  refine ⟨i, j, fun m => ?_⟩
  rw [get?_drun s _ hn, get?_drun s _ hn, get?_drun s _ hn]
  have hv := interleave_views (get? s) _ _ _ hij
    (fun a => a = .temp t₁ ∨ a = .temp (t₁ + 1) ∨ a = .key (actName a₁))
    (fun a => a = .temp t₂ ∨ a = .temp (t₂ + 1) ∨ a = .key (actName a₂))
    (fun x hx a ha => actProg_names ip₁ s t₁ a₁ x (List.mem_of_mem_take hx) a ha)
    (fun x hx a ha => actProg_names ip₂ s t₂ a₂ x (List.mem_of_mem_take hx) a ha)
    (by
      intro a h1 h2
      rcases h1 with rfl | rfl | rfl <;> rcases h2 with h | h | h <;> simp at h <;> (try omega)
      exact hk h)
    (.key m)
  by_cases h1 : m = actName a₁
  · subst h1; simp only [if_true]; exact hv.1 (Or.inr (Or.inr rfl))
  · by_cases h2 : m = actName a₂
    · subst h2; simp only [h1, if_false, if_true]; exact hv.2.1 (Or.inr (Or.inr rfl))
    · simp only [h1, h2, if_false]
      exact hv.2.2 (by simp [h1]) (by simp [h2])

/-! ## listings (`keys`, `items`, `__asdict__`, `cache.load`) while other processes only add entries -/

/-- the disk only grows: every listed entry stays, unchanged (writers that store under new names) -/
def Grows (s s' : DirFS V) : Prop := ∀ n d, get? s (.key n) = some d → get? s' (.key n) = some d

/-- every listed entry is complete, and has an input file exactly when its key needs one -/
def Complete (needInp : String → Bool) (s : DirFS V) : Prop :=
  ∀ n d, get? s (.key n) = some d → d.value.isSome = true ∧ d.inp.isSome = needInp n

def KeyOK (s : DirFS V) (k : RKey) : Prop := k.real = true ∧ (get? s (.key k.name)).isSome = true

/-- what a reader holds at any moment is backed by the disk: names it still has to visit exist,
keys it has classified are real and exist, values it has read are the values on disk -/
def Good (s : DirFS V) : RPhase V → Prop
  | .start => True
  | .classify todo ks _ => (∀ n ∈ todo, (get? s (.key n)).isSome = true) ∧ (∀ k ∈ ks, KeyOK s k)
  | .readInput n todo ks _ => (∃ d, get? s (.key n) = some d ∧ d.inp.isSome = true) ∧
      (∀ m ∈ todo, (get? s (.key m)).isSome = true) ∧ (∀ k ∈ ks, KeyOK s k)
  | .values todo acc => (∀ k ∈ todo, KeyOK s k) ∧
      (∀ p ∈ acc, p.1.real = true ∧ (get? s (.key p.1.name)).bind DDir.value = some p.2)
  | .done .keyError => False
  | .done (.keys ks) => ∀ k ∈ ks, KeyOK s k
  | .done (.dict acc) => ∀ p ∈ acc, p.1.real = true ∧ (get? s (.key p.1.name)).bind DDir.value = some p.2
  | .done _ => True

theorem keyOK_mono {s s' : DirFS V} (h : Grows s s') (k : RKey) (hk : KeyOK s k) : KeyOK s' k := by
  refine ⟨hk.1, ?_⟩
  cases hg : get? s (.key k.name) with
  | none => have := hk.2; simp [hg] at this
  | some d => simp [h _ d hg]

theorem isSome_mono {s s' : DirFS V} (h : Grows s s') (n : String) (hn : (get? s (.key n)).isSome = true) :
    (get? s' (.key n)).isSome = true := by
  cases hg : get? s (.key n) with
  | none => simp [hg] at hn
  | some d => simp [h _ d hg]

theorem val_mono {s s' : DirFS V} (h : Grows s s') (n : String) (v : V)
    (hv : (get? s (.key n)).bind DDir.value = some v) : (get? s' (.key n)).bind DDir.value = some v := by
  cases hg : get? s (.key n) with
  | none => simp [hg] at hv
  | some d => rw [h _ d hg]; rw [hg] at hv; exact hv

theorem good_mono {s s' : DirFS V} (h : Grows s s') (ph : RPhase V) (hg : Good s ph) : Good s' ph := by
  cases ph with
  | start => trivial
  | classify todo ks vals => exact ⟨fun n hn => isSome_mono h n (hg.1 n hn), fun k hk => keyOK_mono h k (hg.2 k hk)⟩
  | readInput n todo ks vals =>
    obtain ⟨⟨d, hd, hi⟩, h2, h3⟩ := hg
    exact ⟨⟨d, h _ d hd, hi⟩, fun m hm => isSome_mono h m (h2 m hm), fun k hk => keyOK_mono h k (h3 k hk)⟩
  | values todo acc =>
    exact ⟨fun k hk => keyOK_mono h k (hg.1 k hk), fun p hp => ⟨(hg.2 p hp).1, val_mono h _ _ (hg.2 p hp).2⟩⟩
  | done r =>
    cases r with
    | keyError => exact hg
    | keys ks => exact fun k hk => keyOK_mono h k (hg k hk)
    | dict acc => exact fun p hp => ⟨(hg p hp).1, val_mono h _ _ (hg p hp).2⟩
    | _ => trivial

theorem good_advance (s : DirFS V) (ph : RPhase V) (hg : Good s ph) : Good s (advance ph) := by
  cases ph with
  | classify todo ks vals =>
    cases todo with
    | nil =>
      cases vals with
      | true =>
        cases ks with
        | nil => simp [advance, Good]
        | cons k ks => simp only [advance, Good]; exact ⟨hg.2, by simp⟩
      | false => simp only [advance, Good]; exact hg.2
    | cons n todo => exact hg
  | values todo acc =>
    cases todo with
    | nil => simp only [advance, Good]; exact hg.2
    | cons k todo => exact hg
  | start => exact hg
  | readInput _ _ _ _ => exact hg
  | done _ => exact hg

theorem mem_visNames (s : DirFS V) (n : String) : n ∈ visNames s ↔ (get? s (.key n)).isSome = true := by
  have : (get? s (.key n)).isSome = true ↔ DName.key n ∈ keys s := has_iff_mem_keys s (.key n)
  rw [this]
  simp only [visNames, keys, List.mem_filterMap, List.mem_map]
  constructor
  · rintro ⟨p, hp, he⟩
    refine ⟨p, hp, ?_⟩
    cases hp1 : p.1 with
    | key m => simp [hp1] at he; rw [he]
    | temp i => simp [hp1] at he
  · rintro ⟨p, hp, he⟩
    exact ⟨p, hp, by simp [he]⟩

/-- one helper call keeps the reader backed by the disk -/
theorem good_step (needInp : String → Bool) (order : List String) (s : DirFS V) (k : RKind)
    (hk : k = .keys ∨ k = .asdict) (hc : Complete needInp s) (ph : RPhase V) (hg : Good s ph) :
    Good s (rstep needInp order s k ph) := by
  cases ph with
  | start =>
    have hall : ∀ n ∈ (order.filter (· ∈ visNames s)) ++ ((visNames s).filter (· ∉ order)), (get? s (.key n)).isSome = true := by
      intro n hn
      simp only [List.mem_append, List.mem_filter, decide_eq_true_eq] at hn
      rcases hn with ⟨_, h⟩ | ⟨h, _⟩ <;> exact (mem_visNames s n).mp h
    rcases hk with rfl | rfl <;> (simp only [rstep]; exact good_advance s _ ⟨hall, by simp⟩)
  | classify todo ks vals =>
    cases todo with
    | nil => exact hg
    | cons n todo =>
      have hn := hg.1 n (by simp)
      cases hget : get? s (.key n) with
      | none => simp [hget] at hn
      | some d =>
        simp only [rstep, hget]
        have hcd := hc n d hget
        by_cases hi : d.inp.isSome = true
        · simp only [hi, if_true]
          exact ⟨⟨d, hget, hi⟩, fun m hm => hg.1 m (List.mem_cons_of_mem _ hm), hg.2⟩
        · simp only [hi]
          apply good_advance
          refine ⟨fun m hm => hg.1 m (List.mem_cons_of_mem _ hm), ?_⟩
          intro key hkey
          simp only [List.mem_append, List.mem_singleton] at hkey
          rcases hkey with h | rfl
          · exact hg.2 key h
          · refine ⟨?_, by simp [hget]⟩
            have : needInp n = false := by rw [← hcd.2]; simpa using hi
            simp [this]
  | readInput n todo ks vals =>
    obtain ⟨⟨d, hd, hi⟩, h2, h3⟩ := hg
    simp only [rstep, hd]
    have hv := (hc n d hd).1
    -- a complete entry with an input file has a complete input file
    obtain ⟨o, inp⟩ := d
    cases inp with
    | none => simp at hi
    | some f =>
      cases f with
      | full u =>
        cases u
        simp only
        apply good_advance
        refine ⟨h2, ?_⟩
        intro key hkey
        simp only [List.mem_append, List.mem_singleton] at hkey
        rcases hkey with h | rfl
        · exact h3 key h
        · exact ⟨rfl, by simp [hd]⟩
      | empty => cases o <;> simp [DDir.value] at hv <;> (rename_i x; cases x <;> simp at hv)
      | torn => cases o <;> simp [DDir.value] at hv <;> (rename_i x; cases x <;> simp at hv)
  | values todo acc =>
    cases todo with
    | nil => exact hg
    | cons key todo =>
      have hkey := hg.1 key (by simp)
      cases hget : get? s (.key key.name) with
      | none => have := hkey.2; simp [hget] at this
      | some d =>
        have hv := (hc _ d hget).1
        cases hval : d.value with
        | none => simp [hval] at hv
        | some v =>
          simp only [rstep, hget, Option.bind_some, hval]
          apply good_advance
          refine ⟨fun k' hk' => hg.1 k' (List.mem_cons_of_mem _ hk'), ?_⟩
          intro p hp
          simp only [List.mem_append, List.mem_singleton] at hp
          rcases hp with h | rfl
          · exact hg.2 p h
          · exact ⟨hkey.1, by simp [hget, hval]⟩
  | done r => exact hg

/-- the reader's helper calls, each against the disk as it is at that moment -/
def rrun (needInp : String → Bool) (order : List String) (k : RKind) : RPhase V → List (DirFS V) → RPhase V
  | ph, [] => ph
  | ph, s :: ss => rrun needInp order k (rstep needInp order s k ph) ss

/-- a chain of disks, each growing into the next and all complete -/
def GrowingChain (needInp : String → Bool) : List (DirFS V) → Prop
  | [] => True
  | [s] => Complete needInp s
  | s :: s' :: ss => Complete needInp s ∧ Grows s s' ∧ GrowingChain needInp (s' :: ss)

/-- **a listing reader against concurrent adders never fails and never reports anything that is not
on disk**: whatever the schedule — i.e. whichever growing sequence of disks its helper calls meet —
`keys()` / `items()` / `__asdict__()` / `cache.load()` do not raise, every key they report is a real
stored key (no directory-name phantom), and every value is the value stored under that key in the
disk of the reader's last step -/
theorem C14_listing_vs_adders (needInp : String → Bool) (order : List String) (k : RKind)
    (hk : k = .keys ∨ k = .asdict) (ss : List (DirFS V)) (s_last : DirFS V)
    (hch : GrowingChain needInp (ss ++ [s_last])) :
    Good s_last (rrun needInp order k .start (ss ++ [s_last])) := by
  have aux : ∀ (ss : List (DirFS V)) (ph : RPhase V) (s0 : DirFS V), GrowingChain needInp (s0 :: (ss ++ [s_last])) → Good s0 ph →
      Good s_last (rrun needInp order k ph (s0 :: (ss ++ [s_last]))) := by
    intro ss
    induction ss with
    | nil =>
      intro ph s0 hc hg
      obtain ⟨hc0, hgr, hcl⟩ := hc
      have h1 := good_mono hgr _ (good_step needInp order s0 k hk hc0 ph hg)
      exact good_step needInp order s_last k hk (by simpa [GrowingChain] using hcl) _ h1
    | cons s1 ss ih =>
      intro ph s0 hc hg
      obtain ⟨hc0, hgr, hrest⟩ := hc
      have h1 := good_mono hgr _ (good_step needInp order s0 k hk hc0 ph hg)
      exact ih _ s1 hrest h1
  cases ss with
  | nil => exact good_step needInp order s_last k hk (by simpa [GrowingChain] using hch) .start trivial
  | cons s0 ss => exact aux ss .start s0 hch trivial

/-- non-vacuity: `__asdict__()` started on `{a}` while a writer adds `b` between its calls runs to
completion and returns `{a ↦ 1}` (it listed before `b` appeared) -/
example : rrun (fun _ => false) ["a"] .asdict (.start : RPhase Nat)
    [[(.key "a", { out := some (.full 1), inp := none })],
     [(.key "a", { out := some (.full 1), inp := none }), (.key "b", { out := some (.full 2), inp := none })],
     [(.key "a", { out := some (.full 1), inp := none }), (.key "b", { out := some (.full 2), inp := none })]]
    = .done (.dict [({ name := "a", real := true }, 1)]) := by decide

/-! ## `file_archive`: a reader sees a complete dict -/

/-- while one writer saves, the archive file reads at every moment as the complete old or the
complete new dict — a concurrent reader's single read (`__asdict__`, and every method built on it)
can return nothing else -/
theorem C14_file_reader {C : Type} (emptyD : C) (fs : FileFS C) (t : Nat) (memo : C) (k : Nat) :
    let prog := saveProg true t memo
    fileRecover emptyD ((prog.take k).foldl fstep fs) = fileRecover emptyD fs ∨
    fileRecover emptyD ((prog.take k).foldl fstep fs) = memo := by
  intro prog
  apply C13.C13_file_save emptyD fs t memo
  -- every prefix state is one of the enumerated crash states
  have : ∀ (p : List (FSys C)) (s : FileFS C) (k : Nat), (p.take k).foldl fstep s ∈ fileCrashStates s p := by
    intro p
    induction p with
    | nil => intro s k; simp [fileCrashStates]
    | cons x xs ih =>
      intro s k
      cases k with
      | zero => simp [fileCrashStates]
      | succ k =>
        simp only [List.take_succ_cons, List.foldl_cons, fileCrashStates]
        exact List.mem_cons_of_mem _ (List.mem_append_right _ (ih (fstep s x) k))
  exact this _ fs k

/-! ## sqlite: committed inserts on different keys commute -/
section Sql
variable {K W : Type} [DecidableEq K]
open Backend

theorem view_put_comm (d : View K W) (k₁ k₂ : K) (v₁ v₂ : W) (h : k₁ ≠ k₂) :
    (d.put k₁ v₁).put k₂ v₂ = (d.put k₂ v₂).put k₁ v₁ := by
  funext j
  simp only [View.put]
  by_cases h1 : j = k₁ <;> by_cases h2 : j = k₂ <;> simp [h1, h2]
  · exact absurd (h1.symm.trans h2) h
  · intro e; exact absurd e h
  · intro e; exact absurd e.symm h

theorem putAll_put_comm (d : View K W) (l : List (K × W)) (k : K) (v : W) (h : ∀ p ∈ l, p.1 ≠ k) :
    View.putAll (d.put k v) l = (View.putAll d l).put k v := by
  unfold View.putAll
  induction l generalizing d with
  | nil => rfl
  | cons p l ih =>
    simp only [List.foldl_cons]
    rw [← ih _ (fun q hq => h q (List.mem_cons_of_mem _ hq)), view_put_comm d k p.1 v p.2 (fun e => h p (by simp) e.symm)]

/-- **two sqlite writers on different keys, any interleaving of their committed inserts**: the
table reads as if one had run after the other — no row is lost -/
theorem C14_sql_writers_disjoint (rows : List (K × W)) (l₁ l₂ l : List (K × W)) (hi : Interleave l₁ l₂ l)
    (hd : ∀ p ∈ l₁, ∀ q ∈ l₂, p.1 ≠ q.1) :
    sqlGet (rows ++ l) = View.putAll (View.putAll (sqlGet rows) l₁) l₂ := by
  rw [C03.view_sql_append]
  generalize sqlGet rows = d
  revert d
  intro (d : View K W)
  induction hi generalizing d with
  | nil => rfl
  | left x p q l _ ih =>
    simp only [View.putAll, List.foldl_cons] at ih ⊢
    exact ih (fun a ha b hb => hd a (List.mem_cons_of_mem _ ha) b hb) _
  | right y p q l _ ih =>
    have := ih (fun a ha b hb => hd a ha b (List.mem_cons_of_mem _ hb)) (View.put d y.1 y.2)
    simp only [View.putAll, List.foldl_cons] at this ⊢
    rw [this]
    have hc := putAll_put_comm d p y.1 y.2 (fun a ha => hd a ha y (by simp))
    simp only [View.putAll] at hc
    rw [hc]

end Sql

/-! ## where the property fails on the current code (replayed on the implementation by suite `sched`) -/

def e1 (v : Nat) : DDir Nat := { out := some (.full v), inp := none }

/-- F19b: a lookup scheduled between the two renames of an overwrite raises `KeyError`, although
the key is stored before and after -/
theorem C14_overwrite_reader_gap :
    let s0 : DirFS Nat := [(.key "a", e1 1)]
    let w := actProg true false s0 10 (.store "a" false 2)
    ∃ sched, ((runDir (fun _ => false) { disk := s0, procs := [.writer w, .reader (.lookup "a") [] .start] } sched).procs[1]?).map
        (fun p => match p with | .reader _ _ (.done .keyError) => true | _ => false) = some true := by
  exact ⟨[0, 0, 0, 0, 1], by decide⟩

/-- F34: `__asdict__()` lists a key, a concurrent `pop` removes it, the lookup that follows raises -/
theorem C14_delete_listing_race :
    let s0 : DirFS Nat := [(.key "a", e1 1), (.key "b", e1 2)]
    let w := actProg true false s0 10 (.remove "a")
    ∃ sched, ((runDir (fun _ => false) { disk := s0, procs := [.writer w, .reader .asdict ["a", "b"] .start] } sched).procs[1]?).map
        (fun p => match p with | .reader _ _ (.done .keyError) => true | _ => false) = some true := by
  exact ⟨[1, 0, 1, 1, 1], by decide⟩

/-- F34b: the same race, other outcome: for a key that lives in an input file, `keys()` lists the
directory, the entry is removed before `_hasinput` looks into it, and the directory name is reported
as a key (`real = false`) — a key nobody stored -/
theorem C14_delete_listing_phantom :
    let s0 : DirFS Nat := [(.key "p_q", { out := some (.full 1), inp := some (.full ()) })]
    let w := actProg true false s0 10 (.remove "p_q")
    ∃ sched, ((runDir (fun _ => true) { disk := s0, procs := [.writer w, .reader .keys ["p_q"] .start] } sched).procs[1]?).map
        (fun p => match p with | .reader _ _ (.done (.keys [k])) => !k.real | _ => false) = some true := by
  exact ⟨[1, 0, 1], by decide⟩

/-- F20: `archives.file_archive(name, cached=False)` ends with `update({})`, a read-modify-write of
the whole file: an opener that read before a writer's rename and saves after it undoes the write -/
theorem C14_file_opener_loses_write :
    let old : List (Nat × Nat) := [(1, 10)]
    let st : FSysState (List (Nat × Nat)) := FSysState.mk { target := some (.full old), temps := [] }
      [FProc.mk (.write (fun m => m ++ [(2, 20)])) 0 .start none, FProc.mk (.write id) 1 .start none]
    ∃ sched, fileRecover [] (runFile [] st sched).disk = old := by
  exact ⟨[1, 0, 0, 0, 0, 1, 1, 1], by decide⟩

end Klepto.C14
