import Klepto.Props.C09
/-!
# C09 under a tolerance: rounding happens before the defaults are mixed in

The wrappers compute `key = keymap(*_keygen(f, ignore, *rounded_args(*args, **kwds)))`: the *call's*
arguments are rounded, then `_keygen` mixes in the function's defaults - unrounded.  So "a default
spelled out or omitted" keeps its promise exactly when rounding leaves the default values alone
(`C09_flat_rounded`); a default that rounding would change gives `f(1)` and `f(1, 2.5)` different
keys (`C09_tol_default_witness`, finding F39, replayed by suite `round`).
-/
namespace Klepto.C09
open Klepto Klepto.AMap Klepto.Keys

variable {Val : Type} [DecidableEq Val]

def mapVals (g : Val → Val) (m : List (Val × Val)) : List (Val × Val) := m.map (fun p => (p.1, g p.2))

/-- `rounded_args(*args, **kwds)` seen from the key: every argument value goes through `g` -/
def roundCall (g : Val → Val) (c : PCall Val) : PCall Val :=
  { c with args := c.args.map g, kwds := mapVals g c.kwds }

def mapBinding (g : Val → Val) (b : Binding Val) : Binding Val :=
  { named := mapVals g b.named, extraPos := b.extraPos.map g, extraKw := mapVals g b.extraKw }

theorem get?_mapVals (g : Val → Val) (m : List (Val × Val)) (n : Val) :
    get? (mapVals g m) n = (get? m n).map g := by
  induction m with
  | nil => rfl
  | cons p m ih =>
    obtain ⟨k, v⟩ := p
    simp only [mapVals, List.map_cons, get?] at ih ⊢
    split
    · rfl
    · exact ih

theorem keys_mapVals (g : Val → Val) (m : List (Val × Val)) : keys (mapVals g m) = keys m := by
  simp [keys, mapVals, List.map_map, Function.comp_def]

/-- rounding fixes every default of the parameter list -/
def FixesDefaults (g : Val → Val) (ps : List (Param Val)) : Prop := ∀ p ∈ ps, ∀ d, p.dflt = some d → g d = d

theorem bindPos_map (g : Val → Val) (kwds : List (Val × Val)) :
    ∀ (ps : List (Param Val)) (args : List Val), FixesDefaults g ps →
      bindPos (mapVals g kwds) ps (args.map g) = (bindPos kwds ps args).map (mapVals g) := by
  intro ps
  induction ps with
  | nil => intro args _; cases args <;> rfl
  | cons p ps ih =>
    intro args hfix
    have hfix' : FixesDefaults g ps := fun q hq d hd => hfix q (List.mem_cons_of_mem _ hq) d hd
    cases args with
    | nil =>
      simp only [List.map_nil, bindPos, get?_mapVals]
      cases hk : get? kwds p.name with
      | some v =>
        have := ih [] hfix'
        simp only [List.map_nil] at this
        simp only [Option.map_some, this]
        cases bindPos kwds ps [] <;> simp [mapVals]
      | none =>
        simp only [Option.map_none]
        cases hd : p.dflt with
        | none => rfl
        | some dv =>
          have := ih [] hfix'
          simp only [List.map_nil] at this
          simp only [this]
          have hg : g dv = dv := hfix p (List.mem_cons_self) dv hd
          cases bindPos kwds ps [] <;> simp [mapVals, hg]
    | cons a as =>
      simp only [List.map_cons, bindPos, get?_mapVals]
      cases hk : get? kwds p.name with
      | some v => rfl
      | none =>
        simp only [Option.map_none, ih as hfix']
        cases bindPos kwds ps as <;> simp [mapVals]

theorem bindKwOnly_map (g : Val → Val) (kwds : List (Val × Val)) :
    ∀ (ps : List (Param Val)), FixesDefaults g ps →
      bindKwOnly (mapVals g kwds) ps = (bindKwOnly kwds ps).map (mapVals g) := by
  intro ps
  induction ps with
  | nil => intro _; rfl
  | cons p ps ih =>
    intro hfix
    have hfix' : FixesDefaults g ps := fun q hq d hd => hfix q (List.mem_cons_of_mem _ hq) d hd
    simp only [bindKwOnly, get?_mapVals]
    cases hk : get? kwds p.name with
    | some v =>
      simp only [Option.map_some, ih hfix']
      cases bindKwOnly kwds ps <;> simp [mapVals]
    | none =>
      simp only [Option.map_none]
      cases hd : p.dflt with
      | none => rfl
      | some dv =>
        have hg : g dv = dv := hfix p (List.mem_cons_self) dv hd
        simp only [ih hfix']
        cases bindKwOnly kwds ps <;> simp [mapVals, hg]

theorem filter_mapVals (g : Val → Val) (q : Val → Bool) (m : List (Val × Val)) :
    (mapVals g m).filter (fun p => q p.1) = mapVals g (m.filter (fun p => q p.1)) := by
  induction m with
  | nil => rfl
  | cons p m ih =>
    simp only [mapVals, List.map_cons, List.filter_cons] at ih ⊢
    split <;> simp [ih]

/-- CPython's binding commutes with rounding the call's arguments, provided rounding fixes the defaults -/
theorem bindPlain_map (g : Val → Val) (f : Func Val) (args : List Val) (kwds : List (Val × Val))
    (hp : FixesDefaults g f.pos) (hk : FixesDefaults g f.kwonly) :
    bindPlain f (args.map g) (mapVals g kwds) = (bindPlain f args kwds).map (mapBinding g) := by
  unfold bindPlain
  simp only [List.length_map, filter_mapVals g (fun n => isExtra f n) kwds]
  split
  · rfl
  · have hne : (mapVals g (kwds.filter fun p => isExtra f p.1) ≠ []) ↔ ((kwds.filter fun p => isExtra f p.1) ≠ []) := by
      cases (kwds.filter fun p => isExtra f p.1) <;> simp [mapVals]
    simp only [hne]
    split
    · rfl
    · rw [bindPos_map g kwds f.pos args hp, bindKwOnly_map g kwds f.kwonly hk]
      cases bindPos kwds f.pos args <;> cases bindKwOnly kwds f.kwonly <;>
        simp [mapBinding, mapVals, List.map_drop]

theorem put_mapVals (g : Val → Val) (m : List (Val × Val)) (k v : Val) :
    put (mapVals g m) k (g v) = mapVals g (put m k v) := by
  induction m with
  | nil => rfl
  | cons p m ih =>
    obtain ⟨k', v'⟩ := p
    simp only [mapVals, List.map_cons, put] at ih ⊢
    split
    · rfl
    · simp [ih]

theorem update_mapVals (g : Val → Val) (o : List (Val × Val)) :
    ∀ m : List (Val × Val), update (mapVals g m) (mapVals g o) = mapVals g (update m o) := by
  induction o with
  | nil => intro m; rfl
  | cons p o ih =>
    intro m
    obtain ⟨k, v⟩ := p
    have := ih (put m k v)
    simp only [update, mapVals, List.map_cons, List.foldl_cons] at this ⊢
    rw [← this]
    congr 1
    exact put_mapVals g m k v

/-- binding of a plain function commutes with rounding the call -/
theorem bind_roundCall (g : Val → Val) (self : Val) (f : Func Val) (c : PCall Val) (b : Binding Val)
    (hpl : Plain f) (hfp : FixesDefaults g f.pos) (hfk : FixesDefaults g f.kwonly)
    (hb : bind self f c = some b) : bind self f (roundCall g c) = some (mapBinding g b) := by
  obtain ⟨h1, h2, h3⟩ := hpl
  unfold Keys.bind at hb ⊢
  simp only [h1, h2, h3, Bool.false_eq_true, if_false, List.nil_append, roundCall] at hb ⊢
  have hu : update ([] : List (Val × Val)) (mapVals g c.kwds) = mapVals g (update [] c.kwds) := by
    have := update_mapVals g c.kwds []
    simpa [mapVals] using this
  rw [hu, bindPlain_map g f c.args _ hfp hfk, hb]
  rfl

/-- **C09 under a tolerance** (flat keymaps): if rounding leaves the function's default values alone,
two identically bound calls get one key also when their arguments are rounded first. -/
theorem C09_flat_rounded (g : Val → Val) (k : Consts Val) (self : Val) (f : Func Val) (c₁ c₂ : PCall Val) (b : Binding Val)
    (km : KM Val) (le : Val → Val → Bool) (tyOf : Val → Val) (fast : Val → Bool)
    (hpl : Plain f) (hwf : (names f.pos ++ names f.kwonly).Nodup) (hle : TotalOrder le)
    (hk₁ : (keys c₁.kwds).Nodup) (hk₂ : (keys c₂.kwds).Nodup)
    (hfp : FixesDefaults g f.pos) (hfk : FixesDefaults g f.kwonly)
    (hb₁ : bind self f c₁ = some b) (hb₂ : bind self f c₂ = some b) :
    encodeFlat km le tyOf fast (keygen k f [] (roundCall g c₁)).1 (keygen k f [] (roundCall g c₁)).2 =
    encodeFlat km le tyOf fast (keygen k f [] (roundCall g c₂)).1 (keygen k f [] (roundCall g c₂)).2 := by
  have hk₁' : (keys (roundCall g c₁).kwds).Nodup := by simpa [roundCall, keys_mapVals] using hk₁
  have hk₂' : (keys (roundCall g c₂).kwds).Nodup := by simpa [roundCall, keys_mapVals] using hk₂
  exact C09_flat k self f _ _ (mapBinding g b) km le tyOf fast hpl hwf hle hk₁' hk₂'
    (bind_roundCall g self f c₁ b hpl hfp hfk hb₁) (bind_roundCall g self f c₂ b hpl hfp hfk hb₂)

/-! ## the guard is necessary -/

/-- rounding to 0 decimals on a toy universe: 25 (think 2.5) becomes 20, everything else stays -/
def g0 : Nat → Nat := fun v => if v = 25 then 20 else v
/-- `def f(x, y=2.5)` with names x = 10, y = 11 -/
def fdef : Func Nat := { pos := [⟨10, none⟩, ⟨11, some 25⟩], varargs := false, kwonly := [], varkw := false }

/-- `f(1)` and `f(1, 2.5)` bind the same values, but the explicit 2.5 is rounded and the default is not:
the keys differ and the second call is recomputed (finding F39) -/
theorem C09_tol_default_witness :
    bind 99 fdef { args := [1] , kwds := [] } = bind 99 fdef { args := [1, 25], kwds := [] } ∧
    keygen K0 fdef [] (roundCall g0 { args := [1], kwds := [] }) ≠
    keygen K0 fdef [] (roundCall g0 { args := [1, 25], kwds := [] }) := by
  decide

/-- non-vacuity of `C09_flat_rounded`: a rounding that fixes the default of `fdef` -/
example : FixesDefaults (fun v : Nat => if v = 33 then 30 else v) fdef.pos := by
  intro p hp d hd
  simp [fdef] at hp
  rcases hp with rfl | rfl
  · simp at hd
  · simp at hd; subst hd; decide

end Klepto.C09
