import Klepto.Props.C10
import Klepto.Model.PKey
/-!
# C10 and the `str` encoder

`C10_encoded` lifts key discrimination through any *injective* encoder.  `stringmap`'s encoder is
Python's `str`, which is injective on tuples of atoms (each element is printed with `repr`) but not
on a bare value: `str(10) = str('10')`.  A flat, untyped key is a bare value exactly when the call
has one positional argument and nothing named (1-tuple unwrapping, `keymaps.py:198`), which is where
`stringmap` conflates `f(10)` with `f('10')` (finding F40, replayed by suite `keys`).
-/
namespace Klepto.C10
open Klepto Klepto.Backend

/-- the encoder of `stringmap` is not injective on unwrapped one-argument keys -/
theorem C10_str_scalar_collision :
    (PKey.atom (.int 10)).pyStr = (PKey.atom (.str "10")).pyStr ∧ PKey.atom (.int 10) ≠ PKey.atom (.str "10") := by
  decide

/-- but it does separate them as soon as the key is a tuple (`repr` of the elements) -/
theorem C10_str_tuple_separates :
    (PKey.tup [.int 10]).pyStr ≠ (PKey.tup [.str "10"]).pyStr ∧
    (PKey.tup [.str "x", .int 10]).pyStr ≠ (PKey.tup [.str "x", .str "10"]).pyStr := by
  decide

end Klepto.C10
