import Klepto.Props.C01
import Klepto.Props.C10
/-!
# C01 end to end: from the arguments of a call to the value the wrapper returns

`C01_call` is stated over keys: `F : K → Except Exc V` is "the function seen through the key map".
This file discharges that reading for the real key pipeline.  The user's function is
`res : Binding → Except Exc V` - its outcome depends on what CPython bound, nothing else
(`ResExt`: on the values bound to names and on the extra positionals).  For a plain function
without `*args` the flat key separates bindings (`C10_calls`), so `res` factors through the key
(`C01_key_function`), and the wrapper theorem then reads: a call with arguments `c` that CPython
binds to `b` returns `res b` - from memory, from the archive, or computed (`C01_transparent`).
-/
namespace Klepto.C01
open Klepto Klepto.AMap Klepto.Keys

variable {Val V : Type} [DecidableEq Val]

/-- the flat key of a call, as the wrappers compute it (no ignore specification) -/
def keyOf (k : Consts Val) (f : Func Val) (km : KM Val) (le : Val → Val → Bool) (tyOf : Val → Val) (fast : Val → Bool)
    (c : PCall Val) : FlatKey Val :=
  encodeFlat km le tyOf fast (keygen k f [] c).1 (keygen k f [] c).2

/-- the function's outcome depends only on what was bound -/
def ResExt (res : Binding Val → Except Exc V) : Prop :=
  ∀ b₁ b₂ : Binding Val, (∀ n, get? (b₁.named ++ b₁.extraKw) n = get? (b₂.named ++ b₂.extraKw) n) →
    b₁.extraPos = b₂.extraPos → res b₁ = res b₂

/-- a call CPython accepts, with distinct keyword names -/
def ValidCall (self : Val) (f : Func Val) (c : PCall Val) (b : Binding Val) : Prop :=
  bind self f c = some b ∧ (keys c.kwds).Nodup

/-- no `*args`: an accepted call has no extra positionals -/
theorem extraPos_nil (self : Val) (f : Func Val) (c : PCall Val) (b : Binding Val)
    (hpl : Plain f) (hva : f.varargs = false) (hb : bind self f c = some b) : b.extraPos = [] := by
  obtain ⟨h1, h2, h3⟩ := hpl
  unfold Keys.bind at hb
  simp only [h1, h2, h3, Bool.false_eq_true, if_false, List.nil_append] at hb
  unfold bindPlain at hb
  split at hb
  · cases hb
  · rename_i hlen
    simp only at hb
    split at hb
    · cases hb
    · split at hb
      · cases hb
        simp only [hva, Bool.false_eq_true, not_false_eq_true, and_true] at hlen
        exact List.drop_eq_nil_of_le (by omega)
      · cases hb

/-- **equal keys, equal outcomes**: the contrapositive of C10 for a function whose outcome depends on its binding -/
theorem C01_same_key_same_result (k : Consts Val) (self : Val) (f : Func Val)
    (km : KM Val) (le : Val → Val → Bool) (tyOf : Val → Val) (fast : Val → Bool)
    (res : Binding Val → Except Exc V) (hres : ResExt res)
    (hpl : Plain f) (hwf : (names f.pos ++ names f.kwonly).Nodup) (hva : f.varargs = false)
    (c₁ c₂ : PCall Val) (b₁ b₂ : Binding Val) (h₁ : ValidCall self f c₁ b₁) (h₂ : ValidCall self f c₂ b₂)
    (hkey : keyOf k f km le tyOf fast c₁ = keyOf k f km le tyOf fast c₂) : res b₁ = res b₂ := by
  apply hres
  · intro n
    by_cases hne : get? (b₁.named ++ b₁.extraKw) n = get? (b₂.named ++ b₂.extraKw) n
    · exact hne
    · exact absurd hkey (C10.C10_calls k self f c₁ c₂ b₁ b₂ km le tyOf fast hpl hwf hva h₁.2 h₂.2 h₁.1 h₂.1 n hne)
  · rw [extraPos_nil self f c₁ b₁ hpl hva h₁.1, extraPos_nil self f c₂ b₂ hpl hva h₂.1]

/-- **the function seen through the key map exists**: `res` factors through the key of the call -/
theorem C01_key_function (k : Consts Val) (self : Val) (f : Func Val)
    (km : KM Val) (le : Val → Val → Bool) (tyOf : Val → Val) (fast : Val → Bool)
    (res : Binding Val → Except Exc V) (hres : ResExt res)
    (hpl : Plain f) (hwf : (names f.pos ++ names f.kwonly).Nodup) (hva : f.varargs = false) :
    ∃ F : FlatKey Val → Except Exc V, ∀ (c : PCall Val) (b : Binding Val), ValidCall self f c b →
      F (keyOf k f km le tyOf fast c) = res b := by
  classical
  refine ⟨fun key => if h : ∃ (c : PCall Val) (b : Binding Val), ValidCall self f c b ∧ keyOf k f km le tyOf fast c = key
                     then res (Classical.choose (Classical.choose_spec h)) else .error .keyError, ?_⟩
  intro c b hv
  have hex : ∃ (c' : PCall Val) (b' : Binding Val), ValidCall self f c' b' ∧
      keyOf k f km le tyOf fast c' = keyOf k f km le tyOf fast c := ⟨c, b, hv, rfl⟩
  simp only [hex, dite_true]
  have hs := Classical.choose_spec (Classical.choose_spec hex)
  exact C01_same_key_same_result k self f km le tyOf fast res hres hpl hwf hva _ c _ b hs.1 hv hs.2

/-- **C01, end to end (caching decorators, flat keymaps).**  There is one function `F` on keys such that,
in every state consistent with it, a call whose arguments `c` CPython binds to `b` - keyed as the wrappers
key it, evaluated (if at all) as the function evaluates - returns exactly `res b`, and the state stays consistent. -/
theorem C01_transparent (k : Consts Val) (self : Val) (f : Func Val)
    (km : KM Val) (le : Val → Val → Bool) (tyOf : Val → Val) (fast : Val → Bool)
    (res : Binding Val → Except Exc V) (hres : ResExt res)
    (hpl : Plain f) (hwf : (names f.pos ++ names f.kwonly).Nodup) (hva : f.varargs = false) :
    ∃ F : FlatKey Val → Except Exc V, ∀ (cfg : Cfg) (s : St (FlatKey Val) V) (ci : CallIn (FlatKey Val) V)
      (c : PCall Val) (b : Binding Val),
      ValidCall self f c b → (keys s.c.mem).Nodup → Consistent F s.c →
      ci.key = .ok (keyOf k f km le tyOf fast c) → ci.fn = res b →
      (callCached cfg s ci).2.isIndexError = false →
      expected (res b) (callCached cfg s ci).2 ∧ Consistent F (callCached cfg s ci).1.c := by
  obtain ⟨F, hF⟩ := C01_key_function k self f km le tyOf fast res hres hpl hwf hva
  refine ⟨F, ?_⟩
  intro cfg s ci c b hv hn hc hk hf hne
  have hFk := hF c b hv
  have := C01_call F cfg s ci (keyOf k f km le tyOf fast c) hn hc hk (by rw [hf, hFk]) hne
  rw [hFk] at this
  exact this

/-! ## the hypotheses are satisfiable -/

/-- `def f(x, y=21)` returning its `x` (names x = 10, y = 11) -/
def fxy : Func Nat := { pos := [⟨10, none⟩, ⟨11, some 21⟩], varargs := false, kwonly := [], varkw := false }
def resX : Binding Nat → Except Exc (Option Nat) := fun b => .ok (get? (b.named ++ b.extraKw) 10)

example : ResExt resX := by
  intro b₁ b₂ h _
  simp [resX, h 10]

example : Plain fxy ∧ (names fxy.pos ++ names fxy.kwonly).Nodup ∧ fxy.varargs = false ∧
    ValidCall 99 fxy { args := [20], kwds := [] } { named := [(10, 20), (11, 21)], extraPos := [], extraKw := [] } := by
  refine ⟨⟨rfl, rfl, rfl⟩, by decide, rfl, by decide, by decide⟩

/-- the empty cache is consistent with every `F` -/
example (F : FlatKey Nat → Except Exc (Option Nat)) : Consistent F ({ mem := [], arch := none, swap := none } : Cache (FlatKey Nat) (Option Nat)) :=
  ⟨fun _ _ h => by simp [get?] at h, fun _ _ h => by simp [Cache.aget] at h, fun _ _ h => by simp [sget] at h⟩

end Klepto.C01
