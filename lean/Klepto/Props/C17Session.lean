import Klepto.Props.C20Pickle
import Klepto.Props.C17
/-!
# C17, continued — which keys are the same key in another interpreter

Another interpreter is, for the objects a key is made of, another assignment of addresses: values are
values, module-level singletons (`NULL`, `SENTINEL`, classes) are found by name, instances with the
default identity equality live wherever that process put them.  In the vocabulary of
`Props/C20Pickle.lean` a session change is a relocation `ρ` - about which NOTHING is known, not even
injectivity.  The statement: a key without identity-compared instances is literally the same key in
every session, so what one session archived under it the next one finds (`C17_second_session`).
A key that contains such an instance is not: the witness below is the reason the property speaks of
"argument values", and why default-`repr` objects in string keys are outside it.
-/
namespace Klepto.C17
open Klepto Klepto.C20

/-- **keys of values are session-independent**: whatever the other process's addresses are -/
theorem C17_value_keys_same_in_every_session (ρ : Nat → Nat) (k : PKey) (h : valueOnly k = true) :
    relocKey ρ k = k := relocKey_valueOnly ρ k h

/-- hence an archive written by one session answers the same calls in the next: the lookup of the
(unchanged) key in the (unchanged) archive contents -/
theorem C17_archived_entry_found {V : Type} (ρ : Nat → Nat) (a : List (PKey × V)) (k : PKey) (v : V)
    (h : valueOnly k = true) (hk : AMap.get? a k = some v) : AMap.get? a (relocKey ρ k) = some v := by
  rw [relocKey_valueOnly ρ k h]; exact hk

/-- the hypothesis is needed: a key holding an identity-compared instance is another key elsewhere -/
theorem C17_instance_keys_are_not : ∃ (ρ : Nat → Nat) (k : PKey), relocKey ρ k ≠ k :=
  ⟨(· + 1), [.inst 0], by decide⟩

example : valueOnly [.atom 7, .glob 0, .atom 8, .atom 1] = true := by decide

end Klepto.C17
