import Klepto.Props.C02
import Klepto.Props.C01Bridge
/-!
# C02 end to end: a call spelled differently is not evaluated again

C02's theorems count evaluations per *key*.  C09 says that calls CPython binds identically have
one key, so the count is per *call up to spelling*: after a successful evaluation of `f(1, 2)`,
`f(1, y=2)` and `f(y=2, x=1)` find the stored result (`C02_respelled_not_reevaluated`).
-/
namespace Klepto.C02
open Klepto Klepto.AMap Klepto.Keys Klepto.C01

variable {Val V : Type} [DecidableEq Val]

/-- identically bound calls have one key (C09 in the vocabulary of `keyOf`) -/
theorem C02_same_binding_same_key (k : Consts Val) (self : Val) (f : Func Val)
    (km : KM Val) (le : Val → Val → Bool) (tyOf : Val → Val) (fast : Val → Bool)
    (hpl : Plain f) (hwf : (names f.pos ++ names f.kwonly).Nodup) (hle : TotalOrder le)
    (c₁ c₂ : PCall Val) (b : Binding Val) (h₁ : ValidCall self f c₁ b) (h₂ : ValidCall self f c₂ b) :
    keyOf k f km le tyOf fast c₁ = keyOf k f km le tyOf fast c₂ :=
  C09.C09_flat k self f c₁ c₂ b km le tyOf fast hpl hwf hle h₁.2 h₂.2 h₁.1 h₂.1

/-- **compute once, whatever the spelling**: right after a call `c₁` was evaluated successfully, a call `c₂` that
CPython binds to the same values is answered without evaluating the function (all caching decorators). -/
theorem C02_respelled_not_reevaluated (k : Consts Val) (self : Val) (f : Func Val)
    (km : KM Val) (le : Val → Val → Bool) (tyOf : Val → Val) (fast : Val → Bool)
    (hpl : Plain f) (hwf : (names f.pos ++ names f.kwonly).Nodup) (hle : TotalOrder le)
    (c₁ c₂ : PCall Val) (b : Binding Val) (h₁ : ValidCall self f c₁ b) (h₂ : ValidCall self f c₂ b)
    (cfg : Cfg) (s : St (FlatKey Val) V) (ci₁ ci₂ : CallIn (FlatKey Val) V) (v : V)
    (hno : cfg.algo ≠ .no) (hI : Inv cfg s)
    (hk₁ : ci₁.key = .ok (keyOf k f km le tyOf fast c₁)) (hf₁ : ci₁.fn = .ok v)
    (he : evalsOf (call cfg s ci₁).2 = 1)
    (hk₂ : ci₂.key = .ok (keyOf k f km le tyOf fast c₂)) :
    evalsOf (call cfg (call cfg s ci₁).1 ci₂).2 = 0 := by
  have hkey := C02_same_binding_same_key k self f km le tyOf fast hpl hwf hle c₁ c₂ b h₁ h₂
  have hr := C02_after_eval_retrievable cfg s ci₁ _ v hno hI hk₁ hf₁ he
  rw [C02_eval_iff cfg _ ci₂ _ hk₂, ← hkey]
  have : Retrievable (call cfg s ci₁).1.c (keyOf k f km le tyOf fast c₁) = true := by
    rw [retrievable_iff_retr, hr]; rfl
  simp [this]

end Klepto.C02
