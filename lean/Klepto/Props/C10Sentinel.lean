import Klepto.Props.C10
import Klepto.Lemmas.AMap
/-!
# C10 with a sentinel: flat keys of functions WITH `*args`

`C10_calls` covers signatures without variadic positionals.  The property also claims flat keys
"when a sentinel is configured": the sentinel marks where the positional tail ends, so the tail and
the keyword items cannot be mistaken for each other.  This file proves it for every flat keymap
configuration with a sentinel (typed or not), under the one assumption the mechanism needs: the
sentinel object is not itself passed as an argument, keyword name or value, and is not a type.
-/
namespace Klepto.C10
open Klepto Klepto.AMap Klepto.Keys

variable {Val : Type} [DecidableEq Val]

def flatList : FlatKey Val → List Val
  | .tup l => l
  | .scalar v => [v]

/-- the flat key as a list, with a sentinel `m`, in closed form -/
def keyListM (m : Val) (typed : Bool) (le : Val → Val → Bool) (tyOf : Val → Val) (a : List Val) (kw : List (Val × Val)) : List Val :=
  let items := sortedItems le kw
  if kw.isEmpty then (if typed then a ++ m :: a.map tyOf else a)
  else if typed then a ++ m :: (flatten items ++ m :: (a.map tyOf ++ m :: items.map (fun p => tyOf p.2)))
  else a ++ m :: flatten items

theorem flatList_unwrap (tyOf : Val → Val) (fast : Val → Bool) (key : List Val) :
    flatList (match key with
      | [x] => if fast (tyOf x) then FlatKey.scalar x else FlatKey.tup key
      | _ => FlatKey.tup key) = key := by
  split
  · split <;> rfl
  · rfl

theorem flatList_encodeFlat (km : KM Val) (m : Val) (hm : km.mark = some m) (le : Val → Val → Bool) (tyOf : Val → Val)
    (fast : Val → Bool) (a : List Val) (kw : List (Val × Val)) :
    flatList (encodeFlat km le tyOf fast a kw) = keyListM m km.typed le tyOf a kw := by
  unfold encodeFlat keyListM
  simp only [markL, hm]
  cases ht : km.typed <;> cases he : kw.isEmpty
  · simp only [Bool.false_eq_true, if_false]
    have e : a ++ m :: flatten (sortedItems le kw) = a ++ [m] ++ flatten (sortedItems le kw) := by simp
    rw [e]
    generalize a ++ [m] ++ flatten (sortedItems le kw) = key
    split
    · split <;> rfl
    · rfl
  · simp only [Bool.false_eq_true, if_false, if_true]
    split
    · split <;> rfl
    · rfl
  · simp [flatList, List.append_assoc]
  · simp [flatList, List.append_assoc]

theorem mem_flatten (l : List (Val × Val)) (x : Val) : x ∈ flatten l ↔ ∃ p ∈ l, x = p.1 ∨ x = p.2 := by
  simp [flatten, List.mem_flatMap]

theorem not_mem_flatten_sorted (le : Val → Val → Bool) (kw : List (Val × Val)) (m : Val) (h : m ∉ flatten kw) :
    m ∉ flatten (sortedItems le kw) := by
  intro hm
  rw [mem_flatten] at hm
  obtain ⟨p, hp, hx⟩ := hm
  apply h
  rw [mem_flatten]
  exact ⟨p, (mem_isort _ kw p).mp hp, hx⟩

theorem get?_of_isEmpty (kw : List (Val × Val)) (h : kw.isEmpty = true) (n : Val) : get? kw n = none := by
  cases kw with
  | nil => rfl
  | cons _ _ => simp at h

/-- **C10, flat keymaps with a sentinel, any signature (also with `*args`)**: the key determines the positional
tail and the value bound to every name. -/
theorem C10_flat_sentinel (km : KM Val) (m : Val) (hm : km.mark = some m) (le : Val → Val → Bool) (tyOf : Val → Val)
    (fast : Val → Bool) (a₁ a₂ : List Val) (kw₁ kw₂ : List (Val × Val))
    (hn₁ : (keys kw₁).Nodup) (hn₂ : (keys kw₂).Nodup)
    (ha₁ : m ∉ a₁) (ha₂ : m ∉ a₂) (hk₁ : m ∉ flatten kw₁) (hk₂ : m ∉ flatten kw₂) (hty : ∀ v, tyOf v ≠ m)
    (h : encodeFlat km le tyOf fast a₁ kw₁ = encodeFlat km le tyOf fast a₂ kw₂) :
    a₁ = a₂ ∧ ∀ n, get? kw₁ n = get? kw₂ n := by
  have hl := congrArg flatList h
  rw [flatList_encodeFlat km m hm, flatList_encodeFlat km m hm] at hl
  have hs₁ := not_mem_flatten_sorted le kw₁ m hk₁
  have hs₂ := not_mem_flatten_sorted le kw₂ m hk₂
  have hT : ∀ a : List Val, m ∉ a.map tyOf := by
    intro a hmem
    obtain ⟨v, _, hv⟩ := List.mem_map.mp hmem
    exact hty v hv
  unfold keyListM at hl
  cases ht : km.typed <;> cases he₁ : kw₁.isEmpty <;> cases he₂ : kw₂.isEmpty <;>
    simp only [ht, he₁, he₂, Bool.false_eq_true, if_false, if_true] at hl
  · -- untyped, both with keywords
    obtain ⟨e1, e2⟩ := C10_sentinel_split m _ _ _ _ ha₁ ha₂ hl
    exact ⟨e1, get?_of_sortedItems_eq le kw₁ kw₂ hn₁ hn₂ (flatten_inj _ _ e2)⟩
  · -- untyped, only the first has keywords
    exfalso; apply ha₂; rw [← hl]; simp
  · exfalso; apply ha₁; rw [hl]; simp
  · exact ⟨hl, fun n => by rw [get?_of_isEmpty kw₁ he₁, get?_of_isEmpty kw₂ he₂]⟩
  · -- typed, both with keywords
    obtain ⟨e1, e2⟩ := C10_sentinel_split m _ _ _ _ ha₁ ha₂ hl
    obtain ⟨e3, _⟩ := C10_sentinel_split m _ _ _ _ hs₁ hs₂ e2
    exact ⟨e1, get?_of_sortedItems_eq le kw₁ kw₂ hn₁ hn₂ (flatten_inj _ _ e3)⟩
  · -- typed, only the first has keywords: the second key's type section would have to contain the sentinel
    exfalso
    obtain ⟨_, e2⟩ := C10_sentinel_split m _ _ _ _ ha₁ ha₂ hl
    apply hT a₂; rw [← e2]; simp
  · exfalso
    obtain ⟨_, e2⟩ := C10_sentinel_split m _ _ _ _ ha₁ ha₂ hl
    apply hT a₁; rw [e2]; simp
  · obtain ⟨e1, _⟩ := C10_sentinel_split m _ _ _ _ ha₁ ha₂ hl
    exact ⟨e1, fun n => by rw [get?_of_isEmpty kw₁ he₁, get?_of_isEmpty kw₂ he₂]⟩

end Klepto.C10

namespace Klepto.C10
open Klepto Klepto.AMap Klepto.Keys

variable {Val : Type} [DecidableEq Val]

/-- the sentinel does not occur in what `_keygen` hands to the keymap for this call -/
def SentinelFree (m : Val) (k : Consts Val) (f : Func Val) (c : PCall Val) : Prop :=
  m ∉ (keygen k f [] c).1 ∧ m ∉ flatten (keygen k f [] c).2

/-- **C10 for calls, flat keymap with a sentinel, signatures with or without `*args`**: two accepted calls that
differ in the value bound to some name, or in the extra positionals, get different keys. -/
theorem C10_calls_sentinel (k : Consts Val) (self : Val) (f : Func Val) (c₁ c₂ : PCall Val) (b₁ b₂ : Binding Val)
    (km : KM Val) (m : Val) (hm : km.mark = some m) (le : Val → Val → Bool) (tyOf : Val → Val) (fast : Val → Bool)
    (hpl : Plain f) (hwf : (names f.pos ++ names f.kwonly).Nodup)
    (hk₁ : (keys c₁.kwds).Nodup) (hk₂ : (keys c₂.kwds).Nodup)
    (hb₁ : bind self f c₁ = some b₁) (hb₂ : bind self f c₂ = some b₂)
    (hs₁ : SentinelFree m k f c₁) (hs₂ : SentinelFree m k f c₂) (hty : ∀ v, tyOf v ≠ m)
    (hne : b₁.extraPos ≠ b₂.extraPos ∨ ∃ n, get? (b₁.named ++ b₁.extraKw) n ≠ get? (b₂.named ++ b₂.extraKw) n) :
    encodeFlat km le tyOf fast (keygen k f [] c₁).1 (keygen k f [] c₁).2 ≠
    encodeFlat km le tyOf fast (keygen k f [] c₂).1 (keygen k f [] c₂).2 := by
  obtain ⟨ha₁, hm₁⟩ := keygen_eq_bind k self f c₁ b₁ hpl hwf hk₁ hb₁
  obtain ⟨ha₂, hm₂⟩ := keygen_eq_bind k self f c₂ b₂ hpl hwf hk₂ hb₂
  have hpos : (names f.pos).Nodup := (List.nodup_append.mp hwf).1
  have hn₁ : (keys (keygen k f [] c₁).2).Nodup := by rw [keygen_plain k f c₁ hpl]; exact keygenPlain_nodup f c₁ hpos
  have hn₂ : (keys (keygen k f [] c₂).2).Nodup := by rw [keygen_plain k f c₂ hpl]; exact keygenPlain_nodup f c₂ hpos
  intro heq
  obtain ⟨e1, e2⟩ := C10_flat_sentinel km m hm le tyOf fast _ _ _ _ hn₁ hn₂ hs₁.1 hs₂.1 hs₁.2 hs₂.2 hty heq
  rcases hne with h | ⟨n, h⟩
  · apply h; rw [← ha₁, ← ha₂, e1]
  · apply h; rw [← hm₁, ← hm₂]; exact e2 n

/-! non-vacuity: `def f(x, *args, **kw)` (names x = 10), sentinel 7, calls `f(20, 30)` and `f(20, a=30)` (a = 12) -/
def K0s : Consts Nat := { null := 0, star := 1, dstar := 2 }
def fvs : Func Nat := { pos := [⟨10, none⟩], varargs := true, kwonly := [], varkw := true }
def kms : KM Nat := { typed := false, flat := true, mark := some 7 }

example : SentinelFree 7 K0s fvs { args := [20, 30], kwds := [] } ∧ SentinelFree 7 K0s fvs { args := [20], kwds := [(12, 30)] } ∧
    (bind 99 fvs { args := [20, 30], kwds := [] }).isSome = true ∧ (bind 99 fvs { args := [20], kwds := [(12, 30)] }).isSome = true := by
  unfold SentinelFree; decide

/-- without a sentinel the same two calls collide when spelled `f(20, 12, 30)` / `f(20, a=30)`: the guard `mark = some m` is needed -/
example : encodeFlat { kms with mark := none } (fun a b => decide (a ≤ b)) (fun _ => 100) (fun _ => false)
      (keygen K0s { fvs with pos := [] } [] { args := [12, 30], kwds := [] }).1 (keygen K0s { fvs with pos := [] } [] { args := [12, 30], kwds := [] }).2 =
    encodeFlat { kms with mark := none } (fun a b => decide (a ≤ b)) (fun _ => 100) (fun _ => false)
      (keygen K0s { fvs with pos := [] } [] { args := [], kwds := [(12, 30)] }).1 (keygen K0s { fvs with pos := [] } [] { args := [], kwds := [(12, 30)] }).2 := by
  decide

end Klepto.C10
