import Klepto.Lemmas.DictSpec
import Klepto.Lemmas.BackendSql
import Klepto.Lemmas.BackendDir
import Klepto.Model.PKey
/-!
# C03 — Every archive type refines a Python dict

Specification: `DictSpec` / `DictRun` (`Lemmas/DictSpec.lean`) — a dict stated on contents.
Models: M7 (`Model/Backend.lean`), one per archive class, written from the method bodies.

For each class: an abstraction `view : state → contents` and a one-step theorem
"`DictSpec (view s) op (step s op).out (view (step s op).state)`" under the class's invariant, which
is preserved; `*_run` lifts it to every operation sequence (`DictRun`).  Hypotheses are exactly the
ones the property's quantifier allows: keys the backend accepts (for `dir_archive`: a key universe on
which the file-name map is injective) and values the codec reads back equal.  Outside them the
statement is false of the code; the counter-witnesses at the end are `decide`d on the concrete codec
and replayed on the implementation by suite `backend` (known findings F6/F7).
-/
namespace Klepto.C03
open Klepto AMap Backend
set_option linter.unusedSectionVars false
variable {K V : Type} [DecidableEq K]

/-! ## `dict_archive` (and the in-memory cache in front of any archive): M1 is a dict -/

theorem dict_step (m : List (K × V)) (op : Op K V) (h : (keys m).Nodup) :
    DictSpec (get? m) op (dictStep m op).2 (get? (dictStep m op).1) ∧ (keys (dictStep m op).1).Nodup := by
  cases op with
  | setitem k v => exact ⟨by simp only [dictStep]; rw [view_put]; exact .setitem _ k v, nodup_keys_put m k v h⟩
  | getitem k =>
    simp only [dictStep]
    cases hg : get? m k with
    | none => exact ⟨.getitem_miss _ k hg, h⟩
    | some v => exact ⟨.getitem_hit _ k v hg, h⟩
  | delitem k =>
    simp only [dictStep]
    by_cases hk : has m k = true
    · obtain ⟨v, hv⟩ := (has_eq_true_iff m k).mp hk
      simp only [hk, if_true]
      rw [view_erase m k h]
      exact ⟨.delitem_hit _ k v hv, nodup_keys_erase m k h⟩
    · simp only [hk]
      exact ⟨.delitem_miss _ k ((has_eq_false_iff m k).mp (by simpa using hk)), h⟩
  | contains k => exact ⟨by simp only [dictStep, has]; exact .contains _ k, h⟩
  | len => exact ⟨.len _ m (itemsOf_self m h), h⟩
  | keys => exact ⟨.keys _ m (itemsOf_self m h), h⟩
  | values => exact ⟨.values _ m (itemsOf_self m h), h⟩
  | items => exact ⟨.items _ m (itemsOf_self m h), h⟩
  | get k d => exact ⟨.get _ k d, h⟩
  | pop k d =>
    simp only [dictStep]
    cases hg : get? m k with
    | some v =>
      simp only
      rw [view_erase m k h]
      exact ⟨.pop_hit _ k v d hg, nodup_keys_erase m k h⟩
    | none =>
      cases d with
      | none => exact ⟨.pop_miss _ k hg, h⟩
      | some x => exact ⟨.pop_default _ k x hg, h⟩
  | popitem c =>
    simp only [dictStep]
    cases hl : m.getLast? with
    | none =>
      have : m = [] := by simpa using hl
      subst this
      exact ⟨.popitem_empty _ c (fun k => by simp [get?]), h⟩
    | some p =>
      obtain ⟨k, v⟩ := p
      simp only
      rw [view_erase m k h]
      exact ⟨.popitem _ k v c (getLast?_mem_get? m h k v hl), nodup_keys_erase m k h⟩
  | popkeys ks d =>
    cases d with
    | some x =>
      simp only [dictStep]
      obtain ⟨h1, h2, h3⟩ := popSeq_view x m ks h
      rw [h1, h2]
      exact ⟨.popkeys_default _ ks x, h3⟩
    | none =>
      simp only [dictStep]
      obtain ⟨h1, h2⟩ := popAllL_view m ks h
      have h3 := allPresentOnce_isSome m ks h
      cases hp : popAllL m ks with
      | none =>
        rw [hp] at h1
        have hn : View.popAll (get? m) ks = none := by simpa using h1.symm
        split <;> exact ⟨.popkeys_miss _ ks hn, h⟩
      | some r =>
        rw [hp] at h1
        have hs : View.popAll (get? m) ks = some (get? r.1, r.2) := by simpa using h1.symm
        have : allPresentOnce m ks = true := by rw [h3, hs]; rfl
        simp only [this, if_true]
        exact ⟨.popkeys_all _ ks _ _ hs, h2 r hp⟩
  | setdefault k d =>
    simp only [dictStep]
    cases hg : get? m k with
    | some v => exact ⟨.setdefault_hit _ k v d hg, h⟩
    | none =>
      simp only
      rw [view_put]
      exact ⟨.setdefault_miss _ k d hg, nodup_keys_put m k d h⟩
  | update kvs =>
    simp only [dictStep]
    rw [view_update]
    exact ⟨.update _ kvs, nodup_keys_update m kvs h⟩
  | clear => exact ⟨by simp only [dictStep]; rw [view_nil]; exact .clear _, by simp [dictStep, keys]⟩

/-- the cache in front of an unordered store: same statement, `popitem` takes the observed pair -/
theorem dictC_step (m : List (K × V)) (op : Op K V) (h : (keys m).Nodup) (hr : (dictStepC m op).2 ≠ .refused) :
    DictSpec (get? m) op (dictStepC m op).2 (get? (dictStepC m op).1) ∧ (keys (dictStepC m op).1).Nodup := by
  cases op with
  | popitem c =>
    cases c with
    | none => exact dict_step m _ h
    | some k =>
      simp only [dictStepC] at hr ⊢
      cases hg : get? m k with
      | none => simp [hg] at hr
      | some v =>
        simp only
        rw [view_erase m k h]
        exact ⟨.popitem _ k v _ hg, nodup_keys_erase m k h⟩
  | _ => exact dict_step m _ h

/-- whole histories on a dict -/
def dictRun (m : List (K × V)) : List (Op K V) → List (K × V) × List (Op K V × Out K V)
  | [] => (m, [])
  | op :: ops =>
    let r := dictStep m op
    let rest := dictRun r.1 ops
    (rest.1, (op, r.2) :: rest.2)

theorem dict_run (m : List (K × V)) (ops : List (Op K V)) (h : (keys m).Nodup) :
    DictRun (get? m) (dictRun m ops).2 (get? (dictRun m ops).1) := by
  induction ops generalizing m with
  | nil => exact .nil _
  | cons op ops ih =>
    obtain ⟨h1, h2⟩ := dict_step m op h
    exact .cons _ op _ _ _ _ h1 (ih _ h2)

/-! ## `file_archive` -/

/-- the pairs an operation may write -/
def stores : Op K V → List (K × V)
  | .setitem k v => [(k, v)]
  | .setdefault k d => [(k, d)]
  | .update kvs => kvs
  | _ => []

/-- the codec reads this pair back as it was written -/
def Enc (c : Codec K V) (p : K × V) : Prop := c.ck p.1 = some p.1 ∧ c.cv p.2 = some p.2

theorem mem_put (m : List (K × V)) (k : K) (v : V) (p : K × V) (hp : p ∈ put m k v) : p = (k, v) ∨ p ∈ m := by
  induction m with
  | nil => simp [put] at hp; exact Or.inl hp
  | cons q m ih =>
    obtain ⟨k', v'⟩ := q
    by_cases hk : k' = k
    · subst hk
      simp only [put, if_true, List.mem_cons] at hp
      rcases hp with hp | hp
      · exact Or.inl hp
      · exact Or.inr (List.mem_cons_of_mem _ hp)
    · simp only [put, hk, if_false, List.mem_cons] at hp
      rcases hp with hp | hp
      · exact Or.inr (by simp [hp])
      · rcases ih hp with h | h
        · exact Or.inl h
        · exact Or.inr (List.mem_cons_of_mem _ h)

theorem mem_erase (m : List (K × V)) (k : K) (p : K × V) (hp : p ∈ erase m k) : p ∈ m := by
  induction m with
  | nil => simp [erase] at hp
  | cons q m ih =>
    obtain ⟨k', v'⟩ := q
    by_cases hk : k' = k
    · simp only [erase, hk, if_true] at hp; exact List.mem_cons_of_mem _ hp
    · simp only [erase, hk, if_false, List.mem_cons] at hp
      rcases hp with hp | hp
      · simp [hp]
      · exact List.mem_cons_of_mem _ (ih hp)

theorem mem_update (m o : List (K × V)) (p : K × V) (hp : p ∈ update m o) : p ∈ m ∨ p ∈ o := by
  unfold update at hp
  induction o generalizing m with
  | nil => exact Or.inl hp
  | cons q o ih =>
    simp only [List.foldl_cons] at hp
    rcases ih _ hp with h | h
    · rcases mem_put m q.1 q.2 p h with h | h
      · exact Or.inr (by simp [h])
      · exact Or.inl h
    · exact Or.inr (List.mem_cons_of_mem _ h)

theorem mem_popSeq (x : V) (m : List (K × V)) (ks : List K) (p : K × V) (hp : p ∈ (popSeq x m ks).1) : p ∈ m := by
  induction ks generalizing m with
  | nil => exact hp
  | cons k ks ih => exact mem_erase m k p (ih _ hp)

theorem mem_popAllL (m : List (K × V)) (ks : List K) (r) (hr : popAllL m ks = some r) (p : K × V) (hp : p ∈ r.1) : p ∈ m := by
  induction ks generalizing m r with
  | nil => simp [popAllL] at hr; subst hr; exact hp
  | cons k ks ih =>
    simp only [popAllL] at hr
    cases hg : get? m k with
    | none => simp [hg] at hr
    | some v =>
      simp only [hg] at hr
      cases hq : popAllL (erase m k) ks with
      | none => simp [hq] at hr
      | some r' =>
        simp only [hq, Option.map_some, Option.some.injEq] at hr
        subst hr
        exact mem_erase m k p (ih _ r' hq hp)

/-- a dict operation only ever holds pairs it held before or was given -/
theorem dictStep_mem (m : List (K × V)) (op : Op K V) (p : K × V) (hp : p ∈ (dictStep m op).1) :
    p ∈ m ∨ p ∈ stores op := by
  cases op with
  | setitem k v =>
    rcases mem_put m k v p hp with h | h
    · exact Or.inr (by simp [stores, h])
    · exact Or.inl h
  | getitem k => exact Or.inl hp
  | delitem k =>
    simp only [dictStep] at hp
    split at hp
    · exact Or.inl (mem_erase m k p hp)
    · exact Or.inl hp
  | contains k => exact Or.inl hp
  | len => exact Or.inl hp
  | keys => exact Or.inl hp
  | values => exact Or.inl hp
  | items => exact Or.inl hp
  | get k d => exact Or.inl hp
  | pop k d =>
    simp only [dictStep] at hp
    split at hp
    · exact Or.inl (mem_erase m k p hp)
    · exact Or.inl hp
    · exact Or.inl hp
  | popitem c =>
    simp only [dictStep] at hp
    split at hp
    · exact Or.inl (mem_erase m _ p hp)
    · exact Or.inl hp
  | popkeys ks d =>
    cases d with
    | some x => exact Or.inl (mem_popSeq x m ks p hp)
    | none =>
      simp only [dictStep] at hp
      split at hp
      · split at hp
        · next r hr => exact Or.inl (mem_popAllL m ks r hr p hp)
        · exact Or.inl hp
      · exact Or.inl hp
  | setdefault k d =>
    simp only [dictStep] at hp
    split at hp
    · exact Or.inl hp
    · rcases mem_put m k d p hp with h | h
      · exact Or.inr (by simp [stores, h])
      · exact Or.inl h
  | update kvs => exact mem_update m kvs p hp
  | clear => simp [dictStep] at hp

/-- a dict operation that raises leaves the dict as it was -/
theorem dictStep_err (m : List (K × V)) (op : Op K V) (e : Exc) (he : (dictStep m op).2 = .err e) :
    (dictStep m op).1 = m := by
  cases op with
  | setitem k v => simp [dictStep] at he
  | getitem k => rfl
  | delitem k => simp only [dictStep] at he ⊢; split <;> simp_all
  | contains k => rfl
  | len => rfl
  | keys => rfl
  | values => rfl
  | items => rfl
  | get k d => rfl
  | pop k d => simp only [dictStep] at he ⊢; split <;> simp_all
  | popitem c => simp only [dictStep] at he ⊢; split <;> simp_all
  | popkeys ks d =>
    cases d with
    | some x => simp [dictStep] at he
    | none =>
      simp only [dictStep] at he ⊢
      split
      · cases hp : popAllL m ks with
        | none => rfl
        | some r => next hh => simp [hp, hh] at he
      · rfl
  | setdefault k d => simp only [dictStep] at he ⊢; split <;> simp_all
  | update kvs => simp [dictStep] at he
  | clear => simp [dictStep] at he

theorem fileEncode_ok (c : Codec K V) (m : List (K × V)) (h : ∀ p ∈ m, Enc c p) : fileEncode c m = some m := by
  induction m with
  | nil => rfl
  | cons p m ih =>
    obtain ⟨k, v⟩ := p
    have hp := h (k, v) (by simp)
    simp only [Enc] at hp
    simp [fileEncode, hp.1, hp.2, ih (fun q hq => h q (List.mem_cons_of_mem _ hq))]

theorem fileSave_ok (c : Codec K V) (old memo : List (K × V)) (hn : (keys memo).Nodup) (he : ∀ p ∈ memo, Enc c p) :
    fileSave c old memo = (memo, none) := by
  simp [fileSave, fileEncode_ok c memo he, normalize_id memo hn]

def FileInv (c : Codec K V) (m : List (K × V)) : Prop := (keys m).Nodup ∧ ∀ p ∈ m, Enc c p

theorem save_of (c : Codec K V) (m : List (K × V)) (r : List (K × V) × Out K V)
    (hsave : fileSave c m r.1 = (r.1, none)) (herr : ∀ e, r.2 = .err e → r.1 = m) :
    fileCommit c m r = r := by
  obtain ⟨memo, o⟩ := r
  simp only at hsave herr
  unfold fileCommit
  cases o <;> simp only [hsave]
  next e => rw [herr e rfl]

/-- **`file_archive` refines a dict**: with keys/values the codec reads back unchanged, every
mapping operation answers and leaves contents as a dict does -/
theorem file_step (c : Codec K V) (m : List (K × V)) (op : Op K V) (h : FileInv c m) (ha : ∀ p ∈ stores op, Enc c p) :
    DictSpec (get? m) op (fileStep c m op).2 (get? (fileStep c m op).1) ∧ FileInv c (fileStep c m op).1 := by
  obtain ⟨hn, he⟩ := h
  have hd := dict_step m op hn
  have hmem : ∀ p ∈ (dictStep m op).1, Enc c p := fun p hp =>
    (dictStep_mem m op p hp).elim (he p) (ha p)
  have hsave := fileSave_ok c m (dictStep m op).1 hd.2 hmem
  have hsv := save_of c m (dictStep m op) hsave (dictStep_err m op)
  have done : fileStep c m op = dictStep m op →
      DictSpec (get? m) op (fileStep c m op).2 (get? (fileStep c m op).1) ∧ FileInv c (fileStep c m op).1 := by
    intro hh; rw [hh]; exact ⟨hd.1, hd.2, hmem⟩
  cases op with
  | setitem k v => exact done hsv
  | getitem k => exact done rfl
  | delitem k => exact done hsv
  | contains k => exact done rfl
  | len => exact done rfl
  | keys => exact done rfl
  | values => exact done rfl
  | items => exact done rfl
  | get k d => exact done rfl
  | pop k d => exact done hsv
  | popitem ch => exact done hsv
  | popkeys ks d => exact done hsv
  | update kvs => exact done hsv
  | clear => exact done hsv
  | setdefault k d =>
    simp only [fileStep]
    cases hg : get? m k with
    | some v =>
      -- rewrites the value it found: contents unchanged
      have hput : put m k v = m := by
        clear hd hmem hsave hsv done ha he
        induction m with
        | nil => simp [get?] at hg
        | cons q m ih =>
          obtain ⟨k', v'⟩ := q
          by_cases hk : k' = k
          · simp only [get?, hk, if_true, Option.some.injEq] at hg
            simp [put, hk, hg]
          · simp only [get?, hk, if_false] at hg
            simp only [keys, List.map_cons, List.nodup_cons] at hn
            simp [put, hk, ih hn.2 hg]
      simp only [Option.getD_some, hput, fileSave_ok c m m hn he]
      exact ⟨.setdefault_hit _ k v d hg, hn, he⟩
    | none =>
      have hsave' : fileSave c m (put m k d) = (put m k d, none) := by
        have := hsave; simp only [dictStep, hg] at this; exact this
      simp only [Option.getD_none, hsave']
      have := hd.1; simp only [dictStep, hg] at this
      have h2 := hd.2; simp only [dictStep, hg] at h2
      have h3 := hmem; simp only [dictStep, hg] at h3
      exact ⟨this, h2, h3⟩

/-- a value the encoder rejects: the write raises, the file is untouched and still readable -/
theorem file_unencodable (c : Codec K V) (m : List (K × V)) (k : K) (v : V) (hv : c.cv v = none) :
    fileStep c m (.setitem k v) = (m, .err .other) := by
  have hmem : (k, v) ∈ put m k v := by
    clear hv
    induction m with
    | nil => simp [put]
    | cons q m ih =>
      obtain ⟨k', v'⟩ := q
      by_cases hk : k' = k
      · simp [put, hk]
      · simp only [put, hk, if_false, List.mem_cons]; exact Or.inr ih
  have henc : ∀ l : List (K × V), (k, v) ∈ l → fileEncode c l = none := by
    intro l hl
    induction l with
    | nil => simp at hl
    | cons q l ih =>
      obtain ⟨k', v'⟩ := q
      simp only [List.mem_cons, Prod.mk.injEq] at hl
      rcases hl with ⟨rfl, rfl⟩ | hl
      · simp only [fileEncode, hv]
        cases c.ck k <;> rfl
      · simp only [fileEncode, ih hl]
        cases c.ck k' <;> cases c.cv v' <;> rfl
  simp [fileStep, fileCommit, dictStep, fileSave, henc _ hmem]

/-! ## sqlite `sqltable_archive`: an append-only row list read "last row wins" -/

theorem sqlUpdate_ok (c : Codec K V) (s : SqlSt K V) (l : List (K × V)) (h : ∀ p ∈ l, Enc c p) :
    sqlUpdate c s l = (s ++ l, none) := by
  induction l generalizing s with
  | nil => simp [sqlUpdate]
  | cons p l ih =>
    obtain ⟨k, v⟩ := p
    have hp := h (k, v) (by simp)
    simp only [Enc] at hp
    simp only [sqlUpdate, sqlInsert, hp.1, hp.2]
    rw [ih _ (fun q hq => h q (List.mem_cons_of_mem _ hq))]
    simp

theorem view_sql_append (s l : SqlSt K V) : sqlGet (s ++ l) = View.putAll (sqlGet s) l := by
  unfold View.putAll
  induction l generalizing s with
  | nil => simp
  | cons p l ih =>
    obtain ⟨k, v⟩ := p
    have : s ++ (k, v) :: l = (s ++ [(k, v)]) ++ l := by simp
    rw [this, ih, view_sqlInsertOk]
    rfl

/-- **sqlite `sqltable_archive` refines a dict** (no invariant needed: any row list is a dict) -/
theorem sql_step (c : Codec K V) (s : SqlSt K V) (op : Op K V) (ha : ∀ p ∈ stores op, Enc c p)
    (hr : (sqlStep c s op).2 ≠ .refused) :
    DictSpec (sqlGet s) op (sqlStep c s op).2 (sqlGet (sqlStep c s op).1) := by
  cases op with
  | setitem k v =>
    have hp := ha (k, v) (by simp [stores]); simp only [Enc] at hp
    simp only [sqlStep, sqlInsert, hp.1, hp.2]
    rw [view_sqlInsertOk]; exact .setitem _ k v
  | getitem k =>
    simp only [sqlStep]
    cases hg : sqlGet s k with
    | none => exact .getitem_miss _ k hg
    | some v => exact .getitem_hit _ k v hg
  | delitem k =>
    simp only [sqlStep, sqlPop]
    cases hg : sqlGet s k with
    | none => exact .delitem_miss _ k hg
    | some v => simp only; rw [view_sqlDelete]; exact .delitem_hit _ k v hg
  | contains k => exact .contains _ k
  | len => exact .len _ _ (itemsOf_sqlDict s)
  | keys => exact .keys _ _ (itemsOf_sqlDict s)
  | values => exact .values _ _ (itemsOf_sqlDict s)
  | items => exact .items _ _ (itemsOf_sqlDict s)
  | get k d => exact .get _ k d
  | pop k d =>
    simp only [sqlStep, sqlPop]
    cases hg : sqlGet s k with
    | some v => simp only; rw [view_sqlDelete]; exact .pop_hit _ k v d hg
    | none =>
      cases d with
      | none => exact .pop_miss _ k hg
      | some x =>
        simp only; rw [view_sqlDelete, view_del_of_none _ k hg]
        exact .pop_default _ k x hg
  | popitem ch =>
    simp only [sqlStep] at hr ⊢
    cases hk : AMap.keys (sqlDict s) with
    | nil =>
      simp only
      refine .popitem_empty _ ch (fun k => ?_)
      have : sqlDict s = [] := by simpa [AMap.keys] using hk
      have hv := congrFun (view_sqlDict s) k
      rw [this] at hv
      simpa [get?] using hv.symm
    | cons a l =>
      cases ch with
      | none => simp [hk] at hr
      | some k =>
        simp only
        by_cases hm : k ∈ a :: l
        · simp only [hm, if_true, sqlPop]
          have hkk : k ∈ AMap.keys (sqlDict s) := by rw [hk]; exact hm
          have := (has_iff_mem_keys (sqlDict s) k).mpr hkk
          obtain ⟨v, hv⟩ := (has_eq_true_iff _ k).mp this
          rw [view_sqlDict] at hv
          simp only [hv]
          rw [view_sqlDelete]
          exact .popitem _ k v _ hv
        · simp [hk, hm] at hr
  | popkeys ks d =>
    cases d with
    | some x =>
      simp only [sqlStep]
      obtain ⟨h1, h2⟩ := sqlPopSeq_view x s ks
      rw [h1, h2]
      exact .popkeys_default _ ks x
    | none =>
      simp only [sqlStep]
      have h3 := allPresentOnce_isSome (sqlDict s) ks (nodup_sqlDict s)
      rw [view_sqlDict] at h3
      cases hp : View.popAll (sqlGet s) ks with
      | none =>
        rw [hp] at h3
        simp only [h3, Option.isSome_none, Bool.false_eq_true, if_false]
        exact .popkeys_miss _ ks hp
      | some r =>
        rw [hp] at h3
        obtain ⟨h1, h2⟩ := sqlPopAll_view s ks r hp
        simp only [h3, Option.isSome_some, if_true]
        generalize hq : sqlPopAll s ks = q at h1 h2
        obtain ⟨s', o⟩ := q
        simp only at h1 h2
        subst h2
        simp only
        rw [h1]
        exact .popkeys_all _ ks _ _ hp
  | setdefault k d =>
    simp only [sqlStep]
    cases hg : sqlGet s k with
    | some v => exact .setdefault_hit _ k v d hg
    | none =>
      have hp := ha (k, d) (by simp [stores]); simp only [Enc] at hp
      simp only [sqlInsert, hp.1, hp.2]
      rw [view_sqlInsertOk]; exact .setdefault_miss _ k d hg
  | update kvs =>
    simp only [sqlStep]
    have henc : ∀ p ∈ normalize kvs, Enc c p := by
      intro p hp
      rcases mem_update [] kvs p hp with h | h
      · simp at h
      · exact ha p (by simpa [stores] using h)
    rw [sqlUpdate_ok c s _ henc]
    simp only
    rw [view_sql_append, putAll_normalize]
    exact .update _ kvs
  | clear =>
    simp only [sqlStep]
    have : sqlGet ([] : SqlSt K V) = View.empty := by funext j; rfl
    rw [this]; exact .clear _

/-- an unencodable value (or key): the insert raises, no row is added -/
theorem sql_unencodable (c : Codec K V) (s : SqlSt K V) (k : K) (v : V) (hv : c.cv v = none) :
    sqlStep c s (.setitem k v) = (s, .err .other) := by
  simp only [sqlStep, sqlInsert, hv]
  cases c.ck k <;> rfl

/-! ## `dir_archive`: one directory per key -/

/-- the keys an operation names -/
def opKeys : Op K V → List K
  | .setitem k _ | .getitem k | .delitem k | .contains k | .get k _ | .pop k _ | .setdefault k _ => [k]
  | .popkeys ks _ => ks
  | .update kvs => keys kvs
  | _ => []

/-- **`dir_archive` refines a dict** on every key universe `U` the backend accepts (`DirCodecOK`:
file names distinct on `U`), with values the codec reads back as stored; the invariant is preserved,
so the statement holds along every history (`dir_run`) -/
theorem dir_step (c : Codec K V) (U : K → Prop) (hc : DirCodecOK c U) (s : DirSt K V) (op : Op K V)
    (h : DirInv c U s) (hk : ∀ k ∈ opKeys op, U k) (hv : ∀ p ∈ stores op, c.cv p.2 = some p.2)
    (hr : (dirStep c s op).2 ≠ .refused) :
    DictSpec (get? (toDict c s)) op (dirStep c s op).2 (get? (toDict c (dirStep c s op).1)) ∧
    DirInv c U (dirStep c s op).1 := by
  have hnd := toDict_nodup s h
  cases op with
  | setitem k v =>
    obtain ⟨s', h1, h2, h3⟩ := view_dirStore hc s h k (hk k (by simp [opKeys])) v (hv (k, v) (by simp [stores]))
    simp only [dirStep, h1]; rw [h2]
    exact ⟨.setitem _ k v, h3⟩
  | getitem k =>
    simp only [dirStep, dirGet_eq hc s h k (hk k (by simp [opKeys]))]
    cases hg : get? (toDict c s) k with
    | none => exact ⟨.getitem_miss _ k hg, h⟩
    | some v => exact ⟨.getitem_hit _ k v hg, h⟩
  | delitem k =>
    have hU := hk k (by simp [opKeys])
    simp only [dirStep, has_dir hc s h k hU]
    cases hg : get? (toDict c s) k with
    | none => exact ⟨.delitem_miss _ k hg, h⟩
    | some v =>
      obtain ⟨h1, h2⟩ := view_dirRm hc s h k hU
      simp only [Option.isSome_some, if_true]; rw [h1]
      exact ⟨.delitem_hit _ k v hg, h2⟩
  | contains k =>
    simp only [dirStep, has_dir hc s h k (hk k (by simp [opKeys]))]
    exact ⟨.contains _ k, h⟩
  | len =>
    have : s.length = (toDict c s).length := by simp [toDict]
    simp only [dirStep, this]
    exact ⟨.len _ _ (itemsOf_self _ hnd), h⟩
  | keys => simp only [dirStep, dirKeys_eq s h]; exact ⟨.keys _ _ (itemsOf_self _ hnd), h⟩
  | values => simp only [dirStep, dirItems_eq hc s h]; exact ⟨.values _ _ (itemsOf_self _ hnd), h⟩
  | items => simp only [dirStep, dirItems_eq hc s h]; exact ⟨.items _ _ (itemsOf_self _ hnd), h⟩
  | get k d =>
    simp only [dirStep, dirGet_eq hc s h k (hk k (by simp [opKeys]))]
    exact ⟨.get _ k d, h⟩
  | pop k d =>
    have hU := hk k (by simp [opKeys])
    simp only [dirStep, dirPop, dirGet_eq hc s h k hU]
    cases hg : get? (toDict c s) k with
    | some v =>
      obtain ⟨h1, h2⟩ := view_dirRm hc s h k hU
      simp only; rw [h1]
      exact ⟨.pop_hit _ k v d hg, h2⟩
    | none =>
      cases d with
      | none => exact ⟨.pop_miss _ k hg, h⟩
      | some x => exact ⟨.pop_default _ k x hg, h⟩
  | popitem ch =>
    simp only [dirStep, dirKeys_eq s h] at hr ⊢
    cases hkk : AMap.keys (toDict c s) with
    | nil =>
      simp only
      have : toDict c s = [] := by simpa [AMap.keys] using hkk
      refine ⟨.popitem_empty _ ch (fun k => ?_), h⟩
      rw [this]; rfl
    | cons a l =>
      cases ch with
      | none => simp [hkk] at hr
      | some k =>
        simp only
        by_cases hm : k ∈ a :: l
        · have hmem : k ∈ AMap.keys (toDict c s) := by rw [hkk]; exact hm
          have hU := toDict_U s h k hmem
          obtain ⟨v, hv'⟩ := (has_eq_true_iff _ k).mp ((has_iff_mem_keys _ k).mpr hmem)
          obtain ⟨h1, h2⟩ := view_dirRm hc s h k hU
          simp only [hm, if_true, dirPop, dirGet_eq hc s h k hU, hv']
          rw [h1]
          exact ⟨.popitem _ k v _ hv', h2⟩
        · simp [hkk, hm] at hr
  | popkeys ks d =>
    have hks : ∀ k ∈ ks, U k := fun k hkm => hk k (by simpa [opKeys] using hkm)
    cases d with
    | some x =>
      simp only [dirStep]
      obtain ⟨h1, h2, h3⟩ := dirPopSeq_view hc x s ks h hks
      rw [h1, h2]
      exact ⟨.popkeys_default _ ks x, h3⟩
    | none =>
      simp only [dirStep, dirKeys_eq s h]
      -- the shadow dict has the same keys as the contents
      have hsh : (AMap.keys ((AMap.keys (toDict c s)).map fun k => (k, ()))).Nodup := by
        have e : AMap.keys ((AMap.keys (toDict c s)).map fun k => (k, ())) = AMap.keys (toDict c s) := by
          simp [AMap.keys, List.map_map, Function.comp]
        rw [e]; exact hnd
      have h3 := allPresentOnce_isSome ((AMap.keys (toDict c s)).map fun k => (k, ())) ks hsh
      have hdom : ∀ k, (get? ((AMap.keys (toDict c s)).map fun k => (k, ())) k).isSome = (get? (toDict c s) k).isSome := by
        intro k
        have e1 : has ((AMap.keys (toDict c s)).map fun k => (k, ())) k = true ↔ k ∈ AMap.keys (toDict c s) := by
          rw [has_iff_mem_keys]; simp [AMap.keys, List.map_map, Function.comp]
        have e2 := has_iff_mem_keys (toDict c s) k
        simp only [has] at e1 e2
        cases h1 : (get? ((AMap.keys (toDict c s)).map fun k => (k, ())) k).isSome <;>
          cases h2 : (get? (toDict c s) k).isSome <;> simp_all
      rw [popAll_isSome_congr _ (get? (toDict c s)) ks hdom] at h3
      cases hp : View.popAll (get? (toDict c s)) ks with
      | none =>
        rw [hp] at h3
        simp only [h3, Option.isSome_none, Bool.false_eq_true, if_false]
        exact ⟨.popkeys_miss _ ks hp, h⟩
      | some r =>
        rw [hp] at h3
        obtain ⟨h1, h2, h4⟩ := dirPopAll_view hc s ks h hks r hp
        simp only [h3, Option.isSome_some, if_true]
        generalize hq : dirPopAll c s ks = q at h1 h2 h4
        obtain ⟨s', o⟩ := q
        simp only at h1 h2 h4
        subst h2
        simp only
        rw [h1]
        exact ⟨.popkeys_all _ ks _ _ hp, h4⟩
  | setdefault k d =>
    have hU := hk k (by simp [opKeys])
    simp only [dirStep, dirGet_eq hc s h k hU]
    cases hg : get? (toDict c s) k with
    | some v =>
      -- re-stores the value found: its codec round trip is part of the invariant
      have hmem : (k, v) ∈ toDict c s := (mem_iff_get? _ hnd k v).mpr hg
      have hcv : c.cv v = some v := by
        simp only [toDict, List.mem_map] at hmem
        obtain ⟨p, hp, he⟩ := hmem
        have := (h.2 p hp).2.2
        simp only [Prod.mk.injEq] at he
        rw [← he.2]; exact this
      obtain ⟨s', h1, h2, h3⟩ := view_dirStore hc s h k hU v hcv
      simp only [Option.getD_some, h1]
      rw [h2, view_put_of_some _ k v hg]
      exact ⟨.setdefault_hit _ k v d hg, h3⟩
    | none =>
      obtain ⟨s', h1, h2, h3⟩ := view_dirStore hc s h k hU d (hv (k, d) (by simp [stores]))
      simp only [Option.getD_none, h1]
      rw [h2]
      exact ⟨.setdefault_miss _ k d hg, h3⟩
  | update kvs =>
    simp only [dirStep]
    have hl : ∀ p ∈ normalize kvs, U p.1 ∧ c.cv p.2 = some p.2 := by
      intro p hp
      rcases mem_update [] kvs p hp with hh | hh
      · simp at hh
      · exact ⟨hk p.1 (by simp only [opKeys, AMap.keys]; exact List.mem_map_of_mem hh), hv p (by simpa [stores] using hh)⟩
    obtain ⟨h1, h2, h3⟩ := dirUpdate_view hc s (normalize kvs) h hl
    generalize hq : dirUpdate c s (normalize kvs) = q at h1 h2 h3
    obtain ⟨s', o⟩ := q
    simp only at h1 h2 h3
    subst h1
    simp only
    rw [h2, putAll_normalize]
    exact ⟨.update _ kvs, h3⟩
  | clear =>
    simp only [dirStep]
    refine ⟨?_, by simp [AMap.keys], by simp⟩
    have : get? (toDict c ([] : DirSt K V)) = View.empty := by funext j; rfl
    rw [this]; exact .clear _

/-- a value the encoder rejects: `_store` raises after removing its staging directory; nothing
changed (this is what the `fix:` of F4 established) -/
theorem dir_unencodable (c : Codec K V) (s : DirSt K V) (k : K) (v : V) (hv : c.cv v = none) :
    dirStep c s (.setitem k v) = (s, .err .other) := by
  simp [dirStep, dirStore, hv]

/-! ## whole histories -/

/-- run a step function over an operation sequence, recording (operation, answer) -/
def runWith {S : Type} (step : S → Op K V → S × Out K V) : S → List (Op K V) → S × List (Op K V × Out K V)
  | s, [] => (s, [])
  | s, op :: ops =>
    let r := step s op
    let rest := runWith step r.1 ops
    (rest.1, (op, r.2) :: rest.2)

/-- **C03, `file_archive`**: every operation sequence is a dict history -/
theorem file_run (c : Codec K V) (m : List (K × V)) (ops : List (Op K V)) (h : FileInv c m)
    (ha : ∀ op ∈ ops, ∀ p ∈ stores op, Enc c p) :
    DictRun (get? m) (runWith (fileStep c) m ops).2 (get? (runWith (fileStep c) m ops).1) := by
  induction ops generalizing m with
  | nil => exact .nil _
  | cons op ops ih =>
    obtain ⟨h1, h2⟩ := file_step c m op h (ha op (by simp))
    exact .cons _ op _ _ _ _ h1 (ih _ h2 (fun o ho => ha o (List.mem_cons_of_mem _ ho)))

/-- **C03, sqlite `sqltable_archive`** -/
theorem sql_run (c : Codec K V) (s : SqlSt K V) (ops : List (Op K V))
    (ha : ∀ op ∈ ops, ∀ p ∈ stores op, Enc c p)
    (hr : ∀ x ∈ (runWith (sqlStep c) s ops).2, x.2 ≠ .refused) :
    DictRun (sqlGet s) (runWith (sqlStep c) s ops).2 (sqlGet (runWith (sqlStep c) s ops).1) := by
  induction ops generalizing s with
  | nil => exact .nil _
  | cons op ops ih =>
    have h1 := sql_step c s op (ha op (by simp)) (hr (op, (sqlStep c s op).2) (by simp [runWith]))
    exact .cons _ op _ _ _ _ h1 (ih _ (fun o ho => ha o (List.mem_cons_of_mem _ ho))
      (fun x hx => hr x (by simp only [runWith, List.mem_cons]; exact Or.inr hx)))

/-- **C03, `dir_archive`** (keys from a universe with distinct file names) -/
theorem dir_run (c : Codec K V) (U : K → Prop) (hc : DirCodecOK c U) (s : DirSt K V) (ops : List (Op K V))
    (h : DirInv c U s) (hk : ∀ op ∈ ops, ∀ k ∈ opKeys op, U k) (hv : ∀ op ∈ ops, ∀ p ∈ stores op, c.cv p.2 = some p.2)
    (hr : ∀ x ∈ (runWith (dirStep c) s ops).2, x.2 ≠ .refused) :
    DictRun (get? (toDict c s)) (runWith (dirStep c) s ops).2 (get? (toDict c (runWith (dirStep c) s ops).1)) := by
  induction ops generalizing s with
  | nil => exact .nil _
  | cons op ops ih =>
    obtain ⟨h1, h2⟩ := dir_step c U hc s op h (hk op (by simp)) (hv op (by simp))
      (hr (op, (dirStep c s op).2) (by simp [runWith]))
    exact .cons _ op _ _ _ _ h1 (ih _ h2 (fun o ho => hk o (List.mem_cons_of_mem _ ho))
      (fun o ho => hv o (List.mem_cons_of_mem _ ho))
      (fun x hx => hr x (by simp only [runWith, List.mem_cons]; exact Or.inr hx)))

/-! ## `null_archive`: a dict that discards every write -/

theorem itemsOf_empty : ItemsOf (View.empty : View K V) [] := ⟨by simp [keys], by simp [View.empty]⟩

/-- every answer of a `null_archive` is the answer of an *empty* dict, and it stays empty
(the model has no state to change) -/
theorem null_discards (nv : V) (op : Op K V) :
    ∃ d', DictSpec (View.empty : View K V) op (nullStep nv op) d' := by
  cases op with
  | setitem k v => exact ⟨_, .setitem _ k v⟩
  | getitem k => exact ⟨_, .getitem_miss _ k rfl⟩
  | delitem k => exact ⟨_, .delitem_miss _ k rfl⟩
  | contains k => exact ⟨_, .contains _ k⟩
  | len => exact ⟨_, .len _ [] itemsOf_empty⟩
  | keys => exact ⟨_, .keys _ [] itemsOf_empty⟩
  | values => exact ⟨_, .values _ [] itemsOf_empty⟩
  | items => exact ⟨_, .items _ [] itemsOf_empty⟩
  | get k d => exact ⟨_, .get _ k d⟩
  | pop k d =>
    cases d with
    | none => exact ⟨_, .pop_miss _ k rfl⟩
    | some x => exact ⟨_, .pop_default _ k x rfl⟩
  | popitem c => exact ⟨_, .popitem_empty _ c (fun _ => rfl)⟩
  | popkeys ks d =>
    cases d with
    | some x =>
      have h : ∀ ks : List K, (View.popSeq x (View.empty : View K V) ks) = (View.empty, ks.map fun _ => x) := by
        intro ks
        induction ks with
        | nil => rfl
        | cons k ks ih =>
          have : View.del (View.empty : View K V) k = View.empty := view_del_of_none _ k rfl
          simp only [View.popSeq, this, ih]; rfl
      refine ⟨View.empty, ?_⟩
      have := DictSpec.popkeys_default (View.empty : View K V) ks x
      rw [h ks] at this
      exact this
    | none =>
      cases ks with
      | nil => exact ⟨_, .popkeys_all _ [] _ _ rfl⟩
      | cons k ks => exact ⟨_, .popkeys_miss _ _ rfl⟩
  | setdefault k d => exact ⟨_, .setdefault_miss _ k d rfl⟩
  | update kvs => exact ⟨_, .update _ kvs⟩
  | clear => exact ⟨_, .clear _⟩

/-! ## handles: `copy(name)`, `==`, other names untouched -/

variable [DecidableEq V]

/-- `==` compares contents -/
theorem dictEq_iff (a b : List (K × V)) (ha : (keys a).Nodup) (hb : (keys b).Nodup) :
    dictEq a b = true ↔ get? a = get? b := by
  unfold dictEq
  simp only [Bool.and_eq_true, beq_iff_eq, List.all_eq_true]
  constructor
  · rintro ⟨hab, hba⟩
    funext k
    cases hg : get? a k with
    | some v => exact (hab (k, v) ((mem_iff_get? a ha k v).mpr hg)).symm
    | none =>
      cases hg' : get? b k with
      | none => rfl
      | some w =>
        have := hba (k, w) ((mem_iff_get? b hb k w).mpr hg')
        simp only at this
        rw [hg] at this; cases this
  · intro he
    exact ⟨fun p hp => by rw [← he]; exact (mem_iff_get? a ha p.1 p.2).mp hp,
           fun p hp => by rw [he]; exact (mem_iff_get? b hb p.1 p.2).mp hp⟩

/-- operations through one handle never change an archive stored under another name -/
theorem other_name_untouched (c : Codec K V) (s : Sys K V) (n m : String) (o : Op K V) (hne : m ≠ n) :
    get? (s.step c (.op n o)).1 m = get? s m := by
  simp only [Sys.step]
  cases get? s n with
  | none => rfl
  | some h => simp [get?_put, hne]

/-- `copy(name)` of each archive class denotes the same contents as the original … -/
theorem copy_equal_file (c : Codec K V) (m : List (K × V)) : (BSt.file m).copy c = some (.file m) := rfl
theorem copy_equal_dir (c : Codec K V) (s : DirSt K V) : (BSt.dir s).copy c = some (.dir s) := rfl
theorem copy_equal_dict (c : Codec K V) (m : List (K × V)) (h : (keys m).Nodup) :
    (BSt.dict m).copy c = some (.dict m) := by
  simp only [BSt.copy]; rw [show update [] m = normalize m from rfl, normalize_id m h]
theorem copy_equal_sql (c : Codec K V) (rows : SqlSt K V) (he : ∀ p ∈ rows, Enc c p) :
    ∃ rows', (BSt.sql rows).copy c = some (.sql rows') ∧ sqlGet rows' = sqlGet rows := by
  refine ⟨_, rfl, ?_⟩
  have henc : ∀ p ∈ sqlDict rows, Enc c p := by
    intro p hp
    rcases mem_update [] rows p hp with h | h
    · simp at h
    · exact he p h
  rw [sqlUpdate_ok c [] _ henc]
  simp only [List.nil_append]
  have h1 := view_sqlDict (sqlDict rows)
  have h2 := view_sqlDict rows
  have h3 : sqlDict (sqlDict rows) = sqlDict rows := normalize_id _ (nodup_sqlDict rows)
  rw [h3] at h1
  rw [← h1, h2]

/-- … and is independent afterwards: the copy is stored under its own name, so by
`other_name_untouched` later operations on either leave the other alone -/
theorem copy_independent (c : Codec K V) (s : Sys K V) (n to m : String) (hne : m ≠ to) :
    get? (s.step c (.copy n to)).1 m = get? s m := by
  simp only [Sys.step]
  cases get? s n with
  | none => rfl
  | some h =>
    simp only
    cases h.st.copy c with
    | none => rfl
    | some st' => simp [get?_put, hne]

/-! ## the concrete codec: `dir_archive._fname` on the keys the harness drives the archives with -/

theorem mainPool_fname_injective :
    ∀ a ∈ mainPool, ∀ b ∈ mainPool, a.fname = b.fname → a = b := by decide +kernel

theorem mainPool_plain_ok :
    ∀ k ∈ mainPool, k.plain = true → PKey.atom (.str k.fname) = k := by decide +kernel

/-- the hypotheses of `dir_step`/`dir_run` hold for the real file-name map on the harness's pool
(for any value codec) -/
theorem concrete_dirCodecOK (m : KeyMode) (cv : List (Nat × Option Nat)) :
    DirCodecOK (concreteCodec m cv) (· ∈ mainPool) where
  inj a b ha hb h := mainPool_fname_injective a ha b hb h
  plain_ok k hk hp := mainPool_plain_ok k hk hp

/-- non-vacuity: a populated directory tree meets the invariant, and `dir_step` applies to it -/
example : DirInv (concreteCodec .id [(5, some 5), (6, some 6)]) (· ∈ mainPool)
    [("a", { inp := none, val := 5 }), ("7", { inp := some (.atom (.int 7)), val := 6 })] := by
  refine ⟨by decide, ?_⟩
  intro p hp
  simp only [List.mem_cons, List.mem_nil_iff, or_false] at hp
  rcases hp with rfl | rfl <;> exact ⟨by decide, by decide, by decide⟩

/-! ### where the property fails on the current code (each replayed on the implementation by suite
`backend`, streams `alias` and `bad`; listed in known_findings.json) -/

def pickleCodec : Codec PKey Nat := concreteCodec .id [(0, some 0), (1, some 1), (2, some 2)]
def jsonFileCodec : Codec PKey Nat := concreteCodec .json [(0, some 0), (1, some 1), (2, some 2)]

/-- the full statement, for reference: `dir_archive` is a dict on *all* keys — false (F6) -/
def C03_dir_statement : Prop :=
  ∀ (s : DirSt PKey Nat) (op : Op PKey Nat), DirInv pickleCodec (fun _ => True) s →
    DictSpec (get? (toDict pickleCodec s)) op (dirStep pickleCodec s op).2 (get? (toDict pickleCodec (dirStep pickleCodec s op).1))

/-- F6: `d[1] = x` then `d['1']` answers `x` although `'1'` was never stored (same directory `K_1`) -/
theorem C03_alias_int_str :
    (dirStep pickleCodec (dirStep pickleCodec [] (.setitem (.atom (.int 1)) 1)).1 (.getitem (.atom (.str "1")))).2 = .val 1 := by
  decide +kernel

/-- F6: `'a-b'` and `'a_b'` share `K_a_b`: storing the second replaces the first -/
theorem C03_alias_dash :
    (dirStep pickleCodec (dirStep pickleCodec (dirStep pickleCodec [] (.setitem (.atom (.str "a-b")) 1)).1
      (.setitem (.atom (.str "a_b")) 2)).1 (.getitem (.atom (.str "a-b")))).2 = .val 2 := by
  decide +kernel

/-- F6: the tuple `(1, 2)` and the string `'(1, 2)'` share a directory -/
theorem C03_alias_tuple_str : (PKey.tup [.int 1, .int 2]).fname = (PKey.atom (.str "(1, 2)")).fname := by decide +kernel

/-- F7: the single-file JSON archive turns the key `12` into `'12'` -/
theorem C03_json_key_coerced :
    (fileStep jsonFileCodec (fileStep jsonFileCodec [] (.setitem (.atom (.int 12)) 1)).1 .keys).2
      = .keys [.atom (.str "12")] := by decide +kernel

end Klepto.C03
