import Klepto.Lemmas.CallRel
import Klepto.Lemmas.WF
import Klepto.Props.C05
/-!
# Re-entrant calls: a recursive memoized function is a flat history

M3's `call` is atomic: the function's result is an input of the step.  A recursive memoized
function is not atomic - between the failed lookup of the outer call and its `cache[key] = result`
the inner calls look up, store, evict and count.  This file gives the re-entrant execution a
semantics (`rstep`: a call that completes at once, `enter k` = lookup failed and the evaluation of
`k` starts, `leave v` = the innermost pending evaluation returns and the wrapper stores and purges,
`fail` = it raises) and proves that, as long as no evaluation asks for a key that is itself being
evaluated (which would not terminate), the execution IS an ordinary flat history of atomic calls:
every pending evaluation completes as a plain MISS at the state it completes in
(`reentrant_eq_flat`).  Hence every history theorem of M3 - the size bound, the well-formedness
of the bookkeeping, transparency, compute-once, the counters - speaks about recursive functions too
(`reentrant_wf` is spelled out).  Suite `multi` (scenario `recur`) runs real recursive functions
against the same monitors.
-/
namespace Klepto.Reentrant
open Klepto AMap

variable {K V : Type} [DecidableEq K]

inductive Ev (K V : Type)
  | call (ci : CallIn K V)
  | enter (k : K)
  | leave (v : V) (victim : Option K)
  | fail

structure RSt (K V : Type) where
  s : St K V
  stack : List K          -- keys whose evaluation is pending, innermost first

/-- neither resident nor archived -/
def Absent (c : Cache K V) (k : K) : Prop := get? c.mem k = none ∧ c.aget k = none

def keyOnStack (st : List K) (ci : CallIn K V) : Bool :=
  match ci.key with
  | .ok j => st.contains j
  | _ => false

/-- one event (caching decorators); `none` = the event cannot happen in this state -/
def rstep (cfg : Cfg) (r : RSt K V) : Ev K V → Option (RSt K V)
  | .call ci => if keyOnStack r.stack ci then none else some { r with s := (callCached cfg r.s ci).1 }
  | .enter k =>
    if (get? r.s.c.mem k).isNone && (r.s.c.aget k).isNone && !r.stack.contains k then some { r with stack := k :: r.stack } else none
  | .leave v victim =>
    match r.stack with
    | k :: st => some { s := (missStep cfg r.s k v victim).1, stack := st }
    | [] => none
  | .fail =>
    match r.stack with
    | _ :: st => some { r with stack := st }
    | [] => none

def rrun (cfg : Cfg) : RSt K V → List (Ev K V) → Option (RSt K V)
  | r, [] => some r
  | r, e :: es => match rstep cfg r e with
    | some r' => rrun cfg r' es
    | none => none

/-- the ordinary calls a re-entrant trace amounts to: each completed evaluation is a call made when it completes -/
def flat : List K → List (Ev K V) → List (CallIn K V)
  | _, [] => []
  | st, .call ci :: es => ci :: flat st es
  | st, .enter k :: es => flat (k :: st) es
  | k :: st, .leave v victim :: es => { key := .ok k, fn := .ok v, victim := victim } :: flat st es
  | [], .leave _ _ :: es => flat [] es
  | _ :: st, .fail :: es => flat st es
  | [], .fail :: es => flat [] es

def runCalls (cfg : Cfg) (s : St K V) (cs : List (CallIn K V)) : St K V := cs.foldl (fun s ci => (callCached cfg s ci).1) s

structure Inv (r : RSt K V) : Prop where
  nodupMem : (keys r.s.c.mem).Nodup
  nodupStack : r.stack.Nodup
  absent : ∀ k ∈ r.stack, Absent r.s.c k

/-- a pending evaluation that returns is a plain MISS of an absent key -/
theorem callCached_of_absent (cfg : Cfg) (s : St K V) (k : K) (v : V) (victim : Option K) (h : Absent s.c k) :
    callCached cfg s { key := .ok k, fn := .ok v, victim := victim } = missStep cfg s k v victim := by
  unfold callCached
  have hl : get? (s.c.preload k).mem k = none := by
    rw [preload_get_self]
    obtain ⟨h1, h2⟩ := h
    unfold Cache.aget at h2
    cases ha : s.c.arch with
    | none => simpa [ha] using h1
    | some a => simp only [ha] at h2 ⊢; rw [h2]; exact h1
  simp only [h.1, hl]

/-- a call with another key leaves an absent key absent -/
theorem absent_callCached (cfg : Cfg) (s : St K V) (ci : CallIn K V) (k : K) (hn : (keys s.c.mem).Nodup)
    (hk : Absent s.c k) (hne : ci.key ≠ .ok k) : Absent (callCached cfg s ci).1.c k := by
  obtain ⟨c2, hc2, hmv, _⟩ := callCached_rel cfg s ci hn
  have h2 : get? c2.mem k = none ∧ c2.aget k = none := by
    rcases hc2 with ⟨rfl, _, _⟩ | ⟨k', v, hk', hins, _, _⟩
    · exact hk
    · have hkk : k ≠ k' := fun h => hne (by rw [hk', h])
      exact ⟨by rw [hins.get_other k hkk]; exact hk.1, by rw [hins.aget k]; exact hk.2⟩
  constructor
  · rcases hmv.mem k with h | h
    · rw [h]; exact h2.1
    · exact h
  · rcases hmv.arch k with h | h
    · rw [h]; exact h2.2
    · rw [h2.1] at h; simp at h

theorem nodup_callCached (cfg : Cfg) (s : St K V) (ci : CallIn K V) (hn : (keys s.c.mem).Nodup) :
    (keys (callCached cfg s ci).1.c.mem).Nodup := by
  obtain ⟨c2, hc2, hmv, _⟩ := callCached_rel cfg s ci hn
  apply hmv.nodup
  rcases hc2 with ⟨rfl, _, _⟩ | ⟨k', v, _, hins, _, _⟩
  · exact hn
  · exact hins.nodup hn

theorem inv_rstep (cfg : Cfg) (r r' : RSt K V) (e : Ev K V) (hI : Inv r) (h : rstep cfg r e = some r') : Inv r' := by
  obtain ⟨hn, hs, ha⟩ := hI
  cases e with
  | call ci =>
    simp only [rstep] at h
    split at h
    · cases h
    · rename_i hks
      cases h
      refine ⟨nodup_callCached cfg r.s ci hn, hs, fun k hk => absent_callCached cfg r.s ci k hn (ha k hk) ?_⟩
      intro heq
      apply hks
      simp only [keyOnStack, heq]
      simpa using hk
  | enter k =>
    simp only [rstep] at h
    split at h
    · rename_i hg
      cases h
      simp only [Bool.and_eq_true, Option.isNone_iff_eq_none, Bool.not_eq_true', List.contains_eq_mem, decide_eq_false_iff_not] at hg
      refine ⟨hn, List.nodup_cons.mpr ⟨hg.2, hs⟩, fun j hj => ?_⟩
      rcases List.mem_cons.mp hj with rfl | hj
      · exact ⟨hg.1.1, hg.1.2⟩
      · exact ha j hj
    · cases h
  | leave v victim =>
    simp only [rstep] at h
    cases hst : r.stack with
    | nil => simp [hst] at h
    | cons k st =>
      simp only [hst] at h
      cases h
      rw [hst] at hs ha
      have hk := ha k List.mem_cons_self
      have hnd := List.nodup_cons.mp hs
      rw [← callCached_of_absent cfg r.s k v victim hk]
      refine ⟨nodup_callCached cfg r.s _ hn, hnd.2, fun j hj => absent_callCached cfg r.s _ j hn (ha j (List.mem_cons_of_mem _ hj)) ?_⟩
      intro heq
      simp only [KeyIn.ok.injEq] at heq
      exact hnd.1 (heq ▸ hj)
  | fail =>
    simp only [rstep] at h
    cases hst : r.stack with
    | nil => simp [hst] at h
    | cons k st =>
      simp only [hst] at h
      cases h
      rw [hst] at hs ha
      exact ⟨hn, (List.nodup_cons.mp hs).2, fun j hj => ha j (List.mem_cons_of_mem _ hj)⟩

/-- **a re-entrant execution is a flat history**: the final state of any execution in which no evaluation asks for a
key that is being evaluated equals the final state of the ordinary calls `flat` lists, made one after the other -/
theorem reentrant_eq_flat (cfg : Cfg) (es : List (Ev K V)) (r r' : RSt K V) (hI : Inv r) (h : rrun cfg r es = some r') :
    r'.s = runCalls cfg r.s (flat r.stack es) ∧ Inv r' := by
  induction es generalizing r with
  | nil => simp only [rrun] at h; cases h; exact ⟨rfl, hI⟩
  | cons e es ih =>
    simp only [rrun] at h
    cases hs : rstep cfg r e with
    | none => simp [hs] at h
    | some r1 =>
      simp only [hs] at h
      have hI1 := inv_rstep cfg r r1 e hI hs
      obtain ⟨e1, e2⟩ := ih r1 hI1 h
      refine ⟨?_, e2⟩
      rw [e1]
      cases e with
      | call ci =>
        simp only [rstep] at hs
        split at hs
        · cases hs
        · cases hs; simp [flat, runCalls]
      | enter k =>
        simp only [rstep] at hs
        split at hs
        · cases hs; simp [flat]
        · cases hs
      | leave v victim =>
        simp only [rstep] at hs
        cases hst : r.stack with
        | nil => simp [hst] at hs
        | cons k st =>
          simp only [hst] at hs
          cases hs
          have hk : Absent r.s.c k := hI.absent k (by rw [hst]; exact List.mem_cons_self)
          simp [flat, runCalls, callCached_of_absent cfg r.s k v victim hk]
      | fail =>
        simp only [rstep] at hs
        cases hst : r.stack with
        | nil => simp [hst] at hs
        | cons k st => simp only [hst] at hs; cases hs; simp [flat]

theorem wf_runCalls (cfg : Cfg) (cs : List (CallIn K V)) (s : St K V) (hW : WF cfg s) (hmp : MruNoPurge cfg) :
    WF cfg (runCalls cfg s cs) := by
  unfold runCalls
  induction cs generalizing s with
  | nil => exact hW
  | cons c cs ih =>
    simp only [List.foldl_cons]
    exact ih _ (wf_callCached (cfg := cfg) (s := s) c hW hmp)

/-- the bookkeeping stays well formed through any re-entrant execution -/
theorem reentrant_wf (cfg : Cfg) (es : List (Ev K V)) (r r' : RSt K V) (hI : Inv r) (hW : WF cfg r.s) (hmp : MruNoPurge cfg)
    (h : rrun cfg r es = some r') : WF cfg r'.s := by
  rw [(reentrant_eq_flat cfg es r r' hI h).1]
  exact wf_runCalls cfg _ r.s hW hmp

/-! a concrete re-entrant execution: `lru_cache(maxsize=2)`, `f(3)` evaluates `f(2)` and `f(1)` (keys 3, 2, 1; values 30, 20, 10),
then `f(2)` again is a hit -/
section Example
def lru2 : Cfg := { algo := .lru, safe := false, maxsize := 2, purge := false }
def r0 : RSt Nat Nat := { s := St.init { mem := [], arch := some [], swap := none }, stack := [] }
def trace : List (Ev Nat Nat) :=
  [.enter 3, .enter 2, .call { key := .ok 1, fn := .ok 10, victim := none }, .leave 20 none, .call { key := .ok 1, fn := .ok 10, victim := none },
   .leave 30 none, .call { key := .ok 2, fn := .ok 20, victim := none }]
example : (rrun lru2 r0 trace).isSome = true ∧ ((rrun lru2 r0 trace).map (fun r => (keys r.s.c.mem, r.stack))) = some ([3, 2], []) := by decide
example : Inv r0 := ⟨by decide, by decide, fun k hk => by simp [r0] at hk⟩
end Example

end Klepto.Reentrant

namespace Klepto.C05
open Klepto AMap Klepto.Reentrant
variable {K V : Type} [DecidableEq K]

/-- the harness's side conditions (rr's victim is resident, no mru `IndexError`) for each of the flat calls -/
def okCalls (cfg : Cfg) : St K V → List (CallIn K V) → Bool
  | _, [] => true
  | s, c :: cs => okCall cfg s c && okCalls cfg (callCached cfg s c).1 cs

theorem runCalls_bound (cfg : Cfg) (cs : List (CallIn K V)) (s : St K V)
    (halg : cfg.algo ≠ .inf ∧ cfg.algo ≠ .no) (hmp : MruNoPurge cfg)
    (hW : WF cfg s) (h0 : s.c.mem.length ≤ cfg.maxsize) (hok : okCalls cfg s cs = true) :
    (runCalls cfg s cs).c.mem.length ≤ cfg.maxsize := by
  unfold runCalls
  induction cs generalizing s with
  | nil => simpa using h0
  | cons c cs ih =>
    simp only [okCalls, Bool.and_eq_true] at hok
    simp only [List.foldl_cons]
    have hcall : call cfg s c = callCached cfg s c := by simp [call, halg.2]
    have hstep := C05_step cfg s c halg hW (by
      have := hok.1; simp only [okCall, Bool.and_eq_true] at this; exact this.1) (by
      have := hok.1; simp only [okCall, Bool.and_eq_true, Bool.not_eq_true'] at this; exact this.2)
    rw [hcall] at hstep
    exact ih _ (wf_callCached (cfg := cfg) (s := s) c hW hmp) (by omega) hok.2

/-- **C05 for recursive memoized functions**: through any re-entrant execution (no evaluation asks for a key that is
being evaluated) that starts within the bound, the cache is within its bound whenever a call has completed. -/
theorem C05_reentrant_bound (cfg : Cfg) (es : List (Ev K V)) (r r' : RSt K V)
    (halg : cfg.algo ≠ .inf ∧ cfg.algo ≠ .no) (hmp : MruNoPurge cfg)
    (hI : Inv r) (hW : WF cfg r.s) (h0 : r.s.c.mem.length ≤ cfg.maxsize)
    (hok : okCalls cfg r.s (flat r.stack es) = true)
    (h : rrun cfg r es = some r') : r'.s.c.mem.length ≤ cfg.maxsize := by
  rw [(reentrant_eq_flat cfg es r r' hI h).1]
  exact runCalls_bound cfg _ r.s halg hmp hW h0 hok

end Klepto.C05
