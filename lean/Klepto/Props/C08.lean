import Klepto.Props.C02
/-!
# C08 — Cache/archive synchronisation algebra (dump, load, sync, toggle)

Equational theorems about model M2 (`Klepto/Model/Cache.lean`), pointwise in the key
(`get?` on memory, `aget` on the attached archive).  `⊕` in the comments is right-biased overlay.
-/
namespace Klepto.C08
open Klepto AMap
set_option linter.unusedSectionVars false
variable {K V : Type} [DecidableEq K]

/-! ## plain dict operations never touch the archive -/

theorem C08_dict_ops_frame (c : Cache K V) (k : K) (v : V) :
    ((c.step (.put k v)).1.arch = c.arch ∧ (c.step (.put k v)).1.swap = c.swap) ∧
    ((c.step (.del k)).1.arch = c.arch ∧ (c.step (.del k)).1.swap = c.swap) ∧
    ((c.step (.pop k)).1.arch = c.arch ∧ (c.step (.pop k)).1.swap = c.swap) ∧
    ((c.step .clearMem).1.arch = c.arch ∧ (c.step .clearMem).1.swap = c.swap) := by
  refine ⟨⟨rfl, rfl⟩, ?_, ?_, ⟨rfl, rfl⟩⟩ <;>
    (simp only [Cache.step]; by_cases h : has c.mem k = true <;> simp [h, Cache.delMem])

/-! ## dump -/

/-- `dump()`: `arch' = arch ⊕ mem`; memory unchanged -/
theorem C08_dumpAll (c : Cache K V) (j : K) (hn : (keys c.mem).Nodup) (ha : c.archived = true) :
    c.dumpAll.aget j = (match get? c.mem j with | some v => some v | none => c.aget j) ∧
    c.dumpAll.mem = c.mem := by
  obtain ⟨a, haa⟩ := (archived_iff c).mp ha
  refine ⟨?_, by simp⟩
  rw [aget_dumpAll _ _ hn, haa]
  <;> rfl

/-- `dump(k…)`: only the listed keys that are resident are written; all other archive entries are
left alone -/
theorem C08_dumpKeys (c : Cache K V) (ks : List K) (j : K) (ha : c.archived = true) :
    (c.dumpKeys ks).aget j = (if j ∈ ks ∧ (get? c.mem j).isSome then get? c.mem j else c.aget j) ∧
    (c.dumpKeys ks).mem = c.mem := by
  refine ⟨?_, by simp⟩
  unfold Cache.dumpKeys
  induction ks generalizing c with
  | nil => simp
  | cons k ks ih =>
    simp only [List.foldl_cons]
    rw [ih (c.dump1 k) (by simpa using ha)]
    simp only [dump1_mem, List.mem_cons]
    rw [C07.dump_only_resident]
    by_cases hjk : j = k
    · subst hjk
      by_cases hr : (get? c.mem j).isSome = true
      · simp [hr, ha]
      · simp [hr]
    · simp [hjk]

/-! ## load -/

/-- `load()`: `mem' = mem ⊕ arch`; archive unchanged -/
theorem C08_loadAll (c : Cache K V) (j : K) (han : ArchNodup c) :
    get? c.loadAll.mem j = (match c.aget j with | some v => some v | none => get? c.mem j) ∧
    c.loadAll.arch = c.arch := by
  refine ⟨?_, by simp⟩
  unfold Cache.loadAll
  cases ha : c.arch with
  | none => simp [Cache.aget, ha]
  | some a => simp only [Cache.aget, ha]; exact get?_update_nodup _ _ _ (han a ha)

/-- `load(k…)`: only the listed keys are fetched, absent ones are ignored -/
theorem C08_loadKeys (c : Cache K V) (ks : List K) (j : K) :
    get? (c.loadKeys ks).mem j = (if j ∈ ks ∧ (c.aget j).isSome then c.aget j else get? c.mem j) ∧
    (c.loadKeys ks).arch = c.arch := by
  refine ⟨?_, C02.loadKeys_arch c ks⟩
  unfold Cache.loadKeys
  induction ks generalizing c with
  | nil => simp
  | cons k ks ih =>
    simp only [List.foldl_cons]
    rw [ih (c.load1 k)]
    have hag : ∀ i, (c.load1 k).aget i = c.aget i := fun i => by simp [Cache.aget]
    rw [hag]
    -- memory after `load(k)`
    have hm : get? (c.load1 k).mem j = if j = k ∧ (c.aget k).isSome then c.aget k else get? c.mem j := by
      rw [load1_mem]
      cases ha : c.arch with
      | none => simp [Cache.aget, ha]
      | some a =>
        simp only [Cache.aget, ha]
        cases hak : get? a k with
        | none => simp
        | some v =>
          simp only [get?_put]
          by_cases hjk : j = k <;> simp [hjk]
    rw [hm]
    simp only [List.mem_cons]
    by_cases hjs : j ∈ ks ∧ (c.aget j).isSome = true
    · have : (j = k ∨ j ∈ ks) ∧ (c.aget j).isSome = true := ⟨Or.inr hjs.1, hjs.2⟩
      simp [hjs, this]
    · simp only [hjs, if_false]
      by_cases hjk : j = k
      · subst hjk
        by_cases hs : (c.aget j).isSome = true <;> simp [hs]
      · have : ¬ ((j = k ∨ j ∈ ks) ∧ (c.aget j).isSome = true) := by
          rintro ⟨h1 | h1, h2⟩
          · exact hjk h1
          · exact hjs ⟨h1, h2⟩
        rw [if_neg (by simp [hjk]), if_neg this]

/-! ## sync -/

/-- `sync()`: cache and archive both end up as `arch ⊕ mem` -/
theorem C08_sync (c : Cache K V) (j : K) (hn : (keys c.mem).Nodup) (han : ArchNodup c)
    (ha : c.archived = true) (hb : c.bare = false) :
    let r := match get? c.mem j with | some v => some v | none => c.aget j
    (c.sync false).aget j = r ∧ get? (c.sync false).mem j = r := by
  simp only [Cache.sync, hb, Bool.false_eq_true, if_false]
  have h1 := (C08_dumpAll c j hn ha).1
  have han' : ArchNodup c.dumpAll := archNodup_dumpAll c han
  have h2 := (C08_loadAll c.dumpAll j han').1
  simp only [loadAll_arch, dumpAll_mem] at h2 ⊢
  constructor
  · simpa [Cache.aget] using h1
  · rw [h2, h1]
    cases get? c.mem j <;> cases c.aget j <;> rfl

/-- `sync(clear=True)`: the archive becomes exactly the cache; the cache is unchanged -/
theorem C08_sync_clear (c : Cache K V) (j : K) (hn : (keys c.mem).Nodup)
    (ha : c.archived = true) (hb : c.bare = false) :
    (c.sync true).aget j = get? c.mem j ∧ (c.sync true).mem = c.mem := by
  obtain ⟨a, haa⟩ := (archived_iff c).mp ha
  simp only [Cache.sync, hb, Bool.false_eq_true, if_false, if_true, haa]
  refine ⟨?_, by simp⟩
  rw [aget_dumpAll _ _ (by simpa using hn)]
  simp only [get?]
  cases get? c.mem j <;> simp [Cache.aget, get?]

/-! ## toggling -/

/-- switching archiving off parks the archive; `dump`/`load`/`sync` then do nothing and the parked
archive is untouched -/
theorem C08_off (c c' : Cache K V) (h : c.archivedOff = some c') (hs : c.swap = none) (hb : c.bare = false) :
    c'.arch = none ∧ c'.swap = c.arch ∧ c'.mem = c.mem ∧
    c'.dumpAll = c' ∧ c'.loadAll = c' ∧ (∀ ks, c'.dumpKeys ks = c' ∧ c'.loadKeys ks = c') ∧ c'.sync false = c' := by
  have hoff : c'.arch = none ∧ c'.swap = c.arch ∧ c'.mem = c.mem ∧ c'.bare = false := by
    unfold Cache.archivedOff at h
    simp only [hb, Bool.false_eq_true, if_false] at h
    cases ha : c.arch with
    | none => simp only [ha] at h; cases h; exact ⟨ha, hs, rfl, hb⟩
    | some a =>
      simp only [ha] at h; cases h
      simp [Cache.swapDance, Cache.setArchive, hs, ha, hb]
  obtain ⟨h1, h2, h3, h4⟩ := hoff
  have hd : c'.dumpAll = c' := by unfold Cache.dumpAll; simp [h1]
  have hl : c'.loadAll = c' := by unfold Cache.loadAll; simp [h1]
  refine ⟨h1, h2, h3, hd, hl, fun ks => ⟨?_, ?_⟩, ?_⟩
  · unfold Cache.dumpKeys
    induction ks with
    | nil => rfl
    | cons k ks ih =>
      simp only [List.foldl_cons]
      have : c'.dump1 k = c' := by unfold Cache.dump1; simp [h1]
      rw [this]; exact ih
  · unfold Cache.loadKeys
    induction ks with
    | nil => rfl
    | cons k ks ih =>
      simp only [List.foldl_cons]
      have : c'.load1 k = c' := by unfold Cache.load1; simp [h1]
      rw [this]; exact ih
  · simp [Cache.sync, h4, hd, hl]

/-- … until it is switched back on: `archived(True)` after `archived(False)` restores the archive -/
theorem C08_off_on (c c' c'' : Cache K V) (ha : c.arch ≠ none) (hs : c.swap = none) (hb : c.bare = false)
    (h1 : c.archivedOff = some c') (h2 : c'.archivedOn = some c'') : c'' = c := by
  unfold Cache.archivedOff at h1
  simp only [hb, Bool.false_eq_true, if_false] at h1
  cases hca : c.arch with
  | none => exact absurd hca ha
  | some a =>
    simp only [hca] at h1; cases h1
    unfold Cache.archivedOn at h2
    simp [Cache.swapDance, Cache.setArchive, hs, hca, hb] at h2
    rw [← h2]
    cases c; simp_all

/-- `archived(True)` with nothing parked and no archive: `ValueError` -/
theorem C08_on_nothing (c : Cache K V) (ha : c.arch = none) (hs : c.swap = none) : c.archivedOn = none := by
  unfold Cache.archivedOn; simp [ha, hs]

/-! ## the null archive -/

/-- a null archive stays empty under every dict operation, `dump`, `load`, `sync` and external write -/
theorem C08_null_stays_empty (c : Cache K V) (op : COp K V) (ha : c.arch = none) (hs : c.swap = none)
    (hop : match op with | .on | .openA _ | .setA _ | .drop => False | _ => True) :
    (c.step op).1.arch = none := by
  cases op <;> simp only [Cache.step] at hop ⊢
  case put => exact ha
  case del => split <;> exact ha
  case pop => split <;> exact ha
  case clearMem => exact ha
  case load ks => rw [C02.loadKeys_arch]; exact ha
  case loadAll => simp [ha]
  case dump ks =>
    unfold Cache.dumpKeys
    induction ks generalizing c with
    | nil => exact ha
    | cons k ks ih =>
      simp only [List.foldl_cons]
      have : c.dump1 k = c := by unfold Cache.dump1; simp [ha]
      rw [this]; exact ih c ha hs
  case dumpAll => unfold Cache.dumpAll; simp [ha]
  case sync cl =>
    unfold Cache.sync
    split
    · exact ha
    · split
      · simp [ha, Cache.dumpAll]
      · simp [ha, Cache.dumpAll, Cache.loadAll]
  case off =>
    unfold Cache.archivedOff
    by_cases hb : c.bare = true <;> simp [hb, ha]
  case aput k v => unfold Cache.extPut; simp [ha]
  case adel k => simp [ha]
  all_goals exact absurd hop id

section Examples
def c0 : Cache Nat Nat := { mem := [(1, 10), (2, 20)], arch := some [(2, 99), (3, 30)], swap := none }
example : (c0.step .dumpAll).1.arch = some [(2, 20), (3, 30), (1, 10)] := by decide
example : (c0.step .loadAll).1.mem = [(1, 10), (2, 99), (3, 30)] := by decide
example : (c0.step (.sync true)).1.arch = some [(1, 10), (2, 20)] := by decide
example : ((c0.step .off).1.step .dumpAll).1 = (c0.step .off).1 := by decide
end Examples

end Klepto.C08
