import Klepto.Props.C07Refuse
import Klepto.Props.C15
/-!
# C15 when the archive refuses a write-back (model M3F)

The counters of a call over a refusing archive move exactly as in M3 (`C15_refused_step_counts`): by the
classified event - hit, load or evaluation.  What fails is the last clause of C15, "hit+miss+load equals the
number of completed calls": a refused call has evaluated the function, stored and counted the result and
then raises out of the `# purge cache` block (`C15_refused_counted_not_completed`) - the same shape as `mru`'s
IndexError (F2), part of finding F57.  `C15_refused_completed_iff_counted` is the clause with exactly that
outcome excluded.
-/
namespace Klepto.C15
open Klepto AMap
set_option linter.unusedSectionVars false
variable {K V : Type} [DecidableEq K]

theorem lfuFoldF_stats (r : Refuse V) (vs : List (K × Nat)) (s : St K V) : (lfuFoldF r vs s).1.stats = s.stats := by
  induction vs generalizing s with
  | nil => rfl
  | cons p vs ih =>
    simp only [lfuFoldF]
    cases s.c.dump1F r p.1 with
    | none => rfl
    | some c => simp only; rw [ih]; rfl

theorem overflowF_stats (r : Refuse V) (cfg : Cfg) (s s' : St K V) (vi : Option K)
    (h : overflowF r cfg s vi = .ok s' ∨ overflowF r cfg s vi = .refused s') : s'.stats = s.stats := by
  unfold overflowF at h
  repeat' split at h
  all_goals (try simp only at h)
  all_goals (try split at h)
  all_goals
    rcases h with h | h <;> (try cases h) <;> (try rfl) <;> (try exact lfuFoldF_stats r _ s)

theorem finishF_stats (r : Refuse V) (cfg : Cfg) (s2 : St K V) (k : K) (v : V) (n : Nat) (vi : Option K) :
    (finishF r cfg s2 k v n vi).1.stats = s2.stats := by
  unfold finishF
  split
  · rfl
  · cases ho : overflowF r cfg s2 vi with
    | indexErr => rfl
    | refused s3 => exact overflowF_stats r cfg s2 s3 vi (Or.inr ho)
    | ok s3 => simp only [post_stats]; exact overflowF_stats r cfg s2 s3 vi (Or.inl ho)

/-- the counters after a call over a refusing archive are the counters after M3's call -/
theorem callCachedF_stats (r : Refuse V) (cfg : Cfg) (s : St K V) (ci : CallIn K V) :
    (callCachedF r cfg s ci).1.stats = (callCached cfg s ci).1.stats := by
  unfold callCachedF callCached
  cases ci.key with
  | genError e => rfl
  | unhashable e => rfl
  | ok k =>
    simp only
    cases get? s.c.mem k with
    | some v => rfl
    | none =>
      simp only
      cases get? (s.c.preload k).mem k with
      | some v => simp only [loadStepF, loadStep, finishF_stats, finish_stats]
      | none =>
        simp only
        cases ci.fn with
        | error e => rfl
        | ok v => simp only [missStepF, missStep, finishF_stats, finish_stats]

/-- **counters move by exactly the classified event, refused write-back or not** (five caching algorithms) -/
theorem C15_refused_step_counts (r : Refuse V) (cfg : Cfg) (hno : cfg.algo ≠ .no) (s : St K V) (ci : CallIn K V) :
    (callCachedF r cfg s ci).1.stats = add3 s.stats (delta (classify cfg s ci)) := by
  rw [callCachedF_stats]
  have h := C15_step_counts cfg s ci
  simpa [call, hno] using h

/-- **a call is counted iff it completes - unless it ends in `mru`'s IndexError (F2) or in the archive's
exception (F57)**: every other outcome is M3's -/
theorem C15_refused_completed_iff_counted (r : Refuse V) (cfg : Cfg) (hno : cfg.algo ≠ .no) (s : St K V) (ci : CallIn K V)
    (hne : (callCachedF r cfg s ci).2.isIndexError = false)
    (hnr : ¬ ∃ n, (callCachedF r cfg s ci).2 = .raised r.exc n) :
    Out.completed (callCachedF r cfg s ci).2 = true ↔ classify cfg s ci ≠ .nothing := by
  rcases callCachedF_eq_or_refused r cfg s ci with h | h
  · rw [h] at hne ⊢
    have := C15_completed_iff_counted cfg s ci (by simpa [call, hno] using hne)
    simpa [call, hno] using this
  · exact absurd h hnr

section Examples
open C07
/-- the excluded outcome exists: the second call evaluates, is counted as a miss - and raises -/
theorem C15_refused_counted_not_completed :
    (runF r99 lruF (St.init cF) [.call (mkF 1 99), .call (mkF 2 20)]).2 = [.ret 99 1, .raised .typeError 1] ∧
    (runF r99 lruF (St.init cF) [.call (mkF 1 99), .call (mkF 2 20)]).1.stats = (0, 2, 0) := by decide
end Examples

end Klepto.C15
