#!/usr/bin/env python3
"""apply every seeded mutant to /repo, run the check(s) of its property, undo; update meta.json.
usage: run_mutants.py [name-prefix ...] [--all-props]   (never leaves /repo modified)"""
import sys, os, json, subprocess, glob, time
REPO = os.environ.get('VP_RUN_REPO') or os.environ.get('KLEPTO_REPO') or '/repo'
os.environ['KLEPTO_REPO'] = REPO
HERE = os.path.dirname(os.path.dirname(os.path.abspath(__file__)))
args = [a for a in sys.argv[1:] if not a.startswith('--')]
allprops = '--all-props' in sys.argv
claimed = [c['property_id'] for c in json.load(open(HERE + '/MANIFEST.json'))['checks']]
def sh(cmd, **kw):
    return subprocess.run(cmd, shell=True, stdout=subprocess.PIPE, stderr=subprocess.STDOUT, text=True, **kw)
assert sh('git -C %s status --porcelain --untracked-files=no' % REPO).stdout.strip() == '', 'repo not clean'
rows = []
for d in sorted(glob.glob(HERE + '/seeded/*/')):
    name = os.path.basename(d.rstrip('/'))
    if args and not any(name.startswith(a) for a in args): continue
    meta = json.load(open(d + 'meta.json'))
    prop = meta['property']
    if meta.get('retired'):
        print(name, prop, 'RETIRED (no longer a breaking change on the current tree)', flush=True); continue
    props = claimed if allprops else [prop]
    r = sh('git -C %s apply %spatch.diff' % (REPO, d))
    if r.returncode != 0:
        rows.append((name, prop, 'PATCH-DOES-NOT-APPLY', '')); print(name, prop, 'PATCH-DOES-NOT-APPLY', flush=True); continue
    caught = {}
    try:
        for p in props:
            if p not in claimed:
                caught[p] = 'not-claimed'; continue
            t = time.time()
            r = sh('cd %s && ./check %s --tier quick' % (HERE, p), timeout=1800)
            v = [l for l in r.stdout.splitlines() if l.startswith('VIOLATION')]
            caught[p] = dict(exit=r.returncode, line=v[0] if v else None, secs=round(time.time() - t, 1))
    finally:
        sh('git -C %s checkout -- .' % REPO)
    meta['caught_by'] = caught
    json.dump(meta, open(d + 'meta.json', 'w'), indent=1)
    rows.append((name, prop, caught.get(prop), {k: v['exit'] for k, v in caught.items() if isinstance(v, dict)}))
    print(name, prop, caught.get(prop), flush=True)
assert sh('git -C %s status --porcelain --untracked-files=no' % REPO).stdout.strip() == ''
