#!/usr/bin/env python3
"""take the verdicts of a `tools/run_mutants.py` log (e.g. of a `vp run`) over into seeded/*/meta.json:  apply_mutant_log.py <log>"""
import sys, re, json, ast, os
n = 0
for ln in open(sys.argv[1]):
    m = re.match(r'^(C\d\d_\w+) (C\d\d) (\{.*\})\s*$', ln)
    if not m: continue
    name, prop, d = m.group(1), m.group(2), ast.literal_eval(m.group(3))
    p = '/verif/seeded/%s/meta.json' % name
    if not os.path.exists(p): continue
    meta = json.load(open(p))
    if isinstance(d.get('line'), str): d['line'] = re.sub(r'replay=\S*/out/', 'replay=/verif/out/', d['line'])
    meta.setdefault('caught_by', {})[prop] = d
    json.dump(meta, open(p, 'w'), indent=1); n += 1
print(n, 'verdicts applied')
