#!/usr/bin/env python3
"""verify a seeded mutant delivered by a sub-agent and file it under /verif/seeded/<name>/

usage: verify_seed.py <name> <property> <patch.diff> <demo.py> [notes.md]
checks (in a scratch worktree outside /repo and /verif, removed afterwards):
  - the patch applies to /repo HEAD
  - the pinned test-suite passes exactly as on HEAD (46 stable tests)
  - the demo exits 0 on the original tree and 1 on the patched tree"""
import sys, os, subprocess, json, shutil, tempfile, re
name, prop, patch, demo = sys.argv[1:5]
notes = sys.argv[5] if len(sys.argv) > 5 else None
wt = tempfile.mkdtemp(prefix='seedv_', dir='/tmp')
os.rmdir(wt)
def sh(cmd, **kw):
    return subprocess.run(cmd, shell=True, stdout=subprocess.PIPE, stderr=subprocess.STDOUT, text=True, **kw)
res = {}
try:
    r = sh('git -C /repo worktree add --detach %s HEAD' % wt); assert r.returncode == 0, r.stdout
    r = sh('git -C %s apply %s' % (wt, os.path.abspath(patch))); res['applies'] = r.returncode == 0
    assert res['applies'], r.stdout
    base = json.load(open('/root/.vp/BASELINE.json'))['stable_pass']
    r = sh('cd %s && PYTHONPATH=%s /venv/bin/python -m pytest -q -p no:cacheprovider --timeout=900 --continue-on-collection-errors -rA klepto/tests 2>&1' % (wt, wt))
    passed = set(re.findall(r'^PASSED (\S+)', r.stdout, flags=re.M))
    passed = {p.replace('/', '.').replace('.py::', '::') for p in passed}
    missing = [b for b in base if b not in passed]
    res['tests_pass'] = not missing
    res['tests_tail'] = r.stdout.strip().splitlines()[-1]
    res['tests_missing'] = missing
    r0 = sh('cd /tmp && PYTHONPATH=/repo /venv/bin/python %s' % os.path.abspath(demo), timeout=600)
    r1 = sh('cd /tmp && PYTHONPATH=%s /venv/bin/python %s' % (wt, os.path.abspath(demo)), timeout=600)
    res['demo_original_exit'] = r0.returncode
    res['demo_mutant_exit'] = r1.returncode
    res['demo_mutant_tail'] = r1.stdout.strip().splitlines()[-3:]
    ok = res['tests_pass'] and r0.returncode == 0 and r1.returncode == 1
    res['confirmed'] = ok
    print(json.dumps(res, indent=1))
    if ok:
        d = '/verif/seeded/%s' % name
        os.makedirs(d, exist_ok=True)
        shutil.copy(patch, d + '/patch.diff'); shutil.copy(demo, d + '/demo.py')
        if notes and os.path.exists(notes): shutil.copy(notes, d + '/notes.md')
        meta = dict(name=name, property=prop, confirmed=res, ran=['git apply on scratch worktree of /repo HEAD', 'pinned pytest suite (46 stable tests pass)',
                    'demo.py: exit 0 on /repo, exit 1 on patched tree'], needs='see notes.md', caught_by=None)
        json.dump(meta, open(d + '/meta.json', 'w'), indent=1)
finally:
    sh('git -C /repo worktree remove --force %s' % wt)
    shutil.rmtree(wt, ignore_errors=True)
