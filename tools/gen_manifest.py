#!/usr/bin/env python3
"""(re)generate /verif/MANIFEST.json from the table below; properties without a check go to not_applicable"""
import json
CL = 'suite `clone`: wrapper histories with dill round-trips inserted; the copy must equal the original at the round-trip (info, cache, archive, parked archive, configuration) and then continue exactly as Lean model M3 predicts for the original; independence of the original checked after every later operation'
KS = 'suite `keys`: generated programs (def sources) wrapped as function / bound method / function given its instance / callable instance / partial, ignore specs over names, indices, *, **, self, calls incl. invalid ones; `_keygen`, all keymap classes x flat x typed x sentinel and CPython\'s own binding are compared with Lean model M4; monitors on respelled (C09), mutated-unselected (C10) and mutated-selected (C11) call pairs'
props = [json.loads(l) for l in open('/verif/properties.jsonl')]
W = 'suite `wrapper`: seeded histories on all 12 decorator classes x maxsize x purge x 10 backends x 8 keymaps, compared with Lean model M3 on the property projection'
CLAIMED = {
 'C01': ('Klepto.C01: Consistent is preserved and every keyed call returns F k (hit/load/miss), safe key-failure returns the function outcome; ' + W,
         'mru IndexError (F2) excluded by hypothesis and listed as known finding; keymap information-preservation (RespectsKey) is C10\'s business', '5 C01'),
 'C02': ('Klepto.C02: evaluated iff not retrievable (all 12 wrappers); once retrievable never re-evaluated over any quiet history with a lossless archive; second session; ' + W,
         'mru+purge excluded (F27); clear / archive toggles / external deletes are the cases the property itself allows', '5 C02'),
 'C05': ('Klepto.C05: one-call bound for every algorithm and path, history-level bound by induction over the whole op alphabet, maxsize 0 / None / purge; ' + W,
         'mru IndexError (F2) and mru+purge stale queue (F27) are excluded by hypothesis, pinned by Lean counter-examples and listed as known findings', '5 C05'),
 'C06': ('Klepto.C06: in every well-formed (= reachable) state the purge block removes exactly the policy victim(s): LRU = head of the recency order (log + refcount + compaction refine dkl), MRU = last queue entry, LFU = the min(n, tracked) least-used with counts <= every kept entry, RR = exactly one resident entry; hit and non-overflow frames; ' + W + ' + an independent history-level policy specification as monitor',
         'untracked (bulk-loaded) entries are never chosen (documented); mru+purge stale entry (F27) listed', '5 C06'),
 'C07': ('Klepto.C07: leaving memory implies archived with the same value (all evictions incl. multi-victim lfu and purge), archive entries stable, results retained; ' + W,
         'no_cache with pre-populated un-archived entries (F26) excluded by hypothesis and listed', '5 C07'),
 'C08': ('Klepto.C08: equational laws of model M2 pointwise in the key: dict ops frame, dump = arch+mem (keyed: only listed resident keys), load = mem+arch (keyed: only listed archived keys), sync / sync(clear), off parks the archive and makes dump/load/sync no-ops, off;on = id, null archive stays empty; suite `cache`: a bare klepto.archives.cache over dict/file/dir/sqlite/null archives, random interleavings incl. direct archive mutation, open/drop/archive=, compared with the model on (exception, mem, archive, parked archive, archived())',
         'the archive contents are read through __asdict__/items of the real backend; backend fidelity itself is C03', '5 C08'),
 'C09': ('Klepto.C09 + Klepto.Keys lemmas: _keygen computes CPython\'s binding (keygen_eq_bind), sorted items are canonical, hence calls that bind identically get the same flat key under every keymap (typed, sentinel); non-flat raw keys equal as Python values; ' + KS,
         'proved for plain functions without ignore (partials / methods / ignore are covered by the correspondence suite and by C11\'s plan-generic theorem); non-flat encoded keys leak keyword order (F11) and ignore=** (F14) are listed findings; encoders are parameters', '5 C09'),
 'C10': ('Klepto.C10: the flat key determines the bound arguments for signatures without *args (typed or not, sentinel or not), sentinel split lemma, non-flat injectivity, lift through injective encoders; ' + KS,
         'injectivity of repr/pickle/digest on the value universe is assumed (DESIGN 7); typed separation of ==-equal values is decided by the suite (the model interns objects up to (type, repr))', '5 C10'),
 'C11': ('Klepto.C11: for ANY ignore plan (any callable kind, any ignore specification) calls that agree outside the hidden positions/names have the same _keygen result; unselected positionals and named parameters keep their values in the key; ' + KS,
         'ignore=** hides more than the property allows (keyword-only parameters): listed finding F14', '5 C11'),
 'C12': ('Klepto.C12: deep_round = mapFloats on rebuildable arguments (mutual induction over nested values), shape (all non-float data) preserved, simple_round = top-level map and total, tol=None identity, merge-iff under an injective keymap; suite `round`: (a) CPython round vs the exact Lean pyRound bit-for-bit, (b) simple_round/deep_round on generated nested structures vs the Lean model and vs an oracle written from the property text, (c) the 12 cache decorators: key equality <-> oracle-rounded equality, originals reach the function (is), valid calls do not fail, key() is the stored slot',
         'round() itself is a runtime fact (modelled exactly by pyRound and cross-checked every run); range-like iterables make deep_round raise (F16b, listed); a default that is left implicit is not rounded (noted in DESIGN)', '5 C12'),
 'C15': ('Klepto.C15: counters move by exactly the classified event on every path; ghost-account theorem over all histories; completed iff counted; info/clear; ' + W,
         'mru IndexError (F2) excluded from completed-iff-counted', '5 C15'),
 'C16': ('Klepto.C16: a raising miss is literally a no-op with one evaluation; safe key failures evaluate once and return; single evaluation always; ' + W,
         'the Python handler structure (exception in an except-handler is not caught by a sibling bare except) is encoded in the model and checked by correspondence', '5 C16'),
 'C17': ('Klepto.C17 (thin: noninterference of the model in hash seed and process state; keyword order via C09_flat; second session via C02): decided mainly by suite `session`: the same generated calls keyed in fresh interpreters with PYTHONHASHSEED in {0,1,4242,random}, different process noise and permuted keyword order must give byte-identical keys for raw/string/pickle/named-hash keymaps x flat x typed x sentinel x ignore; writer session -> exit -> reader session over file/dir/sqlite archives must load, not miss; plus suite `keys` for the key structure',
         'encoders (repr, pickle, hashlib) are runtime facts exercised only by the suite; non-flat encoded keys leak keyword order (F11, listed); hashmap() with the builtin hash is outside the property', '5 C17'),
 'C18': ('Klepto.C18: lookup is pure and returns the resident value or KeyError; lookups invisible to later behaviour; key is the slot of the call (thin: one key function in the model); ' + W + ' incl. f.key()/f.lookup() interleavings invisible to the model; suite `round`: key(args) is the slot of the call under tol/deep for all 12 decorators',
         'the 36 duplicated key sites are compared behaviourally (f.key vs. key stored by the call), not proved equal', '5 C18'),
 'C19': ('Klepto.C19: validate (model of the code) succeeds exactly when CPython binding (bind, the specification) succeeds, for every plain signature without keyword-only parameters (any params, defaults, *args, **kw) and every call; validate has no access to the function; ' + KS + '; isvalid/validate verdicts vs. really binding the underlying function, and a call counter inside every generated function',
         'outside the proved fragment the code disagrees with the specification: keyword-only parameters (F17a), partials fixing defaulted parameters positionally (F17b), partials over bound methods (F30) - listed findings with Lean counter-examples', '5 C19'),
 'C20': ('Klepto.C20 (thin, by construction of a value-semantic model): lock-step = determinism of step, independence and shared-store statements on a two-wrapper model; decided mainly by ' + CL,
         'dill fidelity is a runtime fact checked only by the suite; sqlite-backed caches cannot be pickled at all (outside "picklable backends"); raw keymaps with ignore/sentinel (identity-compared NULL objects, F24) are not generated yet', '5 C20'),
}
checks = []
for p in props:
    if p['id'] in CLAIMED:
        text, note, ref = CLAIMED[p['id']]
        checks.append(dict(property_id=p['id'], quick_cmd='./check %s --tier quick' % p['id'], thorough_cmd='./check %s --tier thorough' % p['id'],
            evidence_file='evidence/%s.json' % p['id'], replay_cmd_template='./check %s --replay {path}' % p['id'], engine='lean-proof+correspondence',
            level_claimed=dict(category='proof', text=text, design_ref='DESIGN.md ' + ref),
            level_note='Lean 4.33 kernel, axioms within {propext, Classical.choice, Quot.sound} audited per theorem on every run; hand-written model tied to /repo working tree by differential traces on every run; ' + note,
            technique='machine-checked proof (Lean 4) + model/implementation correspondence'))
m = dict(version=1, setup_cmd='cd lean && lake build',
  hooks=dict(guard='KLEPTO_VERIF', enable='no source hooks: instrumentation is by monkey-patching inside harness processes',
     baseline_off_cmd='cd /repo && /venv/bin/python -m pytest -ra -q -p no:cacheprovider --timeout=900 --continue-on-collection-errors', source_commits=[], add_only=True),
  engines=[dict(name='lean-proof+correspondence', path='check', serves_properties=sorted(CLAIMED), kind_free_text='Lean 4 model + theorems (lean/), Python correspondence harness (harness/), JSON-lines Lean driver (lean_exe driver)')],
  checks=checks,
  notes='work in progress: properties move from not_applicable to checks as their models, theorems and suites are built; fix commits in /repo: 04a9e64 (F25), b3a2d87 (F16), 63609ed (F24)',
  not_applicable=[dict(property_id=p['id'], reason='not yet built in this revision (planned: DESIGN.md section 5); no verdict is claimed') for p in props if p['id'] not in CLAIMED])
json.dump(m, open('/verif/MANIFEST.json', 'w'), indent=1)
print('claimed', sorted(CLAIMED))
