#!/venv/bin/python
"""make corpus replays for listed findings: make_corpus.py <suite-module> <prop> <finding-id>=<json-signature> ...
runs the suite's quick exploration, takes the first violation matching each signature, shrinks it and
copies the replay to corpus/<finding-id>.json"""
import sys, os, json, shutil, importlib
sys.path.insert(0, '/verif/harness')
os.environ.setdefault('PYTHONDONTWRITEBYTECODE', '1')
from common import *
mod = importlib.import_module(sys.argv[1]); prop = sys.argv[2]
wanted = dict(a.split('=', 1) for a in sys.argv[3:])
r = mod.explore(prop, 'quick')
for fid, sj in wanted.items():
    sig = json.loads(sj)
    hit = [v for v in r['violations'] if sig_matches(sig, v['sig'])]
    if not hit: print('no violation matches', fid, sig); continue
    rp = mod.shrink_and_save(prop, hit[0])
    dst = os.path.join(VERIF, 'corpus', fid + '.json')
    shutil.copy(rp, dst)
    print(fid, '->', dst, hit[0]['msg'][:200])
