#!/venv/bin/python
"""replay the corpus file of every open finding and say whether the finding still shows from it"""
import sys, os, json, importlib
sys.path.insert(0, '/verif/harness')
os.environ.setdefault('PYTHONDONTWRITEBYTECODE', '1')
from common import *
import verdict
d = json.load(open('/verif/known_findings.json'))
L = [v for v in d.values() if isinstance(v, list)][0]
for e in L:
    if e.get('status', 'open') != 'open' or not e.get('replay'): continue
    obj = json.load(open(os.path.join(VERIF, e['replay'])))
    try:
        mod = importlib.import_module(verdict.SUITE_MODULES[obj['suite']])
        r = mod.replay(e['property'], obj)
        ok = any(sig_matches(e['signature'], v['sig']) for v in r.get('violations', []))
    except Exception as ex:
        ok = 'EXC %s: %s' % (type(ex).__name__, str(ex)[:80])
    print(e['id'], e['property'], obj['suite'], e['replay'], ok)
