#!/bin/bash
# ingest.sh <Cnn> <suffix>: verify every patch*.diff/demo*.py pair in /tmp/mut_<Cnn>_out, file confirmed ones as seeded/<Cnn>_<suffix>{a,b,c},
# remove the scratch worktree, run the property's check on each
P=$1; SFX=$2
cd /tmp/mut_${P}_out || exit 1
names=""
for t in "a::" "b:2:2" "c:3:3"; do IFS=: read n pn dn <<< "$t"
  if [ -f patch$pn.diff ] && [ -f demo$dn.py ]; then
    python3 /verif/tools/verify_seed.py ${P}_${SFX}$n $P patch$pn.diff demo$dn.py notes.md 2>&1 | grep -E "confirmed\"|demo_.*exit|tests_tail" | tr '\n' ' '; echo " <- ${P}_${SFX}$n"
  fi
done
git -C /repo worktree remove --force /tmp/mut_$P 2>/dev/null
cd /verif && python3 tools/run_mutants.py ${P}_${SFX} 2>&1 | grep "^${P}_"
