#!/bin/sh
# seed sweep on the unchanged tree: every claimed check must exit 0 for every seed
# usage: tools/sweep.sh "<seeds>" [tier] [props...]
cd "$(dirname "$0")/.."
[ -n "$VP_RUN_REPO" ] && export KLEPTO_REPO="$VP_RUN_REPO"
SEEDS="${1:-0 1 2 3 4}"; TIER="${2:-quick}"; shift; shift
PROPS="$*"
[ -z "$PROPS" ] && PROPS=$(python3 -c "import json;print(' '.join(c['property_id'] for c in json.load(open('MANIFEST.json'))['checks']))")
(cd lean && lake build >/dev/null 2>&1)
bad=0
for s in $SEEDS; do for p in $PROPS; do
  out=$(VERIF_SEED=$s ./check $p --tier $TIER 2>&1); rc=$?
  if [ $rc -ne 0 ]; then bad=$((bad+1)); echo "== seed=$s prop=$p exit=$rc"; echo "$out" | grep -v KNOWN-FINDING | tail -6; fi
done; done
echo "sweep done: $bad failing runs (seeds: $SEEDS, tier $TIER, props: $PROPS)"
