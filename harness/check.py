#!/venv/bin/python
"""./check Cnn [--tier quick|thorough] [--replay FILE]

Decides one property (DESIGN.md section 3.4):
  build   := `lake build Klepto.Props.Cnn` + axiom audit of every theorem in namespace Klepto.Cnn
  corr    := the suites feeding Cnn agree with the Lean model on Cnn's observation projection
  monitor := the property evaluated directly on the implementation's own traces
exit 0 (held / only listed findings), exit 1 + VIOLATION line, exit 2 (no verdict)."""
import os, sys, json, time, subprocess, re, collections, traceback

HERE = os.path.dirname(os.path.abspath(__file__))
sys.path.insert(0, HERE)
from common import *

ALLOWED_AXIOMS = {'propext', 'Classical.choice', 'Quot.sound'}
FORBIDDEN = re.compile(r'\b(sorry|admit|native_decide|bv_decide|implemented_by|unsafe)\b|^\s*axiom\s|maxHeartbeats\s+0')

# property -> suites that feed it
SUITES = {
    'C01': ['wrapper', 'keys', 'multi'], 'C02': ['wrapper', 'multi'], 'C05': ['wrapper', 'multi'], 'C06': ['wrapper', 'multi'],
    'C07': ['wrapper', 'multi'], 'C15': ['wrapper', 'multi'], 'C16': ['wrapper', 'multi'], 'C18': ['wrapper', 'round', 'sites', 'keys', 'multi'],
    'C08': ['cache'], 'C20': ['clone'], 'C12': ['round'], 'C17': ['session', 'keys'],
    'C03': ['backend'], 'C04': ['persist', 'multi'], 'C13': ['fs'], 'C14': ['sched'],
    'C09': ['keys', 'round'], 'C10': ['keys', 'round'], 'C11': ['keys'], 'C19': ['keys'],
}


# ------------------------------------------------------------------ Lean side
def strip_comments(src):
    src = re.sub(r'/-.*?-/', '', src, flags=re.S)
    return re.sub(r'--.*', '', src)


# further modules whose theorems live in the property's namespace (they import the property's own file)
EXTRA_MODULES = {'C09': ['Klepto.Props.PosOnly', 'Klepto.Props.C09Tol', 'Klepto.Props.KeysBound'], 'C10': ['Klepto.Props.PosOnly', 'Klepto.Props.C10Str', 'Klepto.Props.C10Sentinel', 'Klepto.Props.KeysBound'], 'C19': ['Klepto.Props.PosOnly', 'Klepto.Props.C19Bound', 'Klepto.Props.C19KwOnly'], 'C01': ['Klepto.Props.C01Bridge', 'Klepto.Props.Reuse'], 'C02': ['Klepto.Props.C02Bridge', 'Klepto.Props.C02Refuse'], 'C16': ['Klepto.Props.C02Refuse'], 'C12': ['Klepto.Props.C12Bridge'], 'C05': ['Klepto.Props.Reentrant', 'Klepto.Props.Reuse', 'Klepto.Props.C07Refuse'], 'C13': ['Klepto.Props.C13Again'], 'C20': ['Klepto.Props.C20Pickle'], 'C07': ['Klepto.Props.C07History', 'Klepto.Props.C07Refuse'], 'C15': ['Klepto.Props.C15Refuse'], 'C14': ['Klepto.Props.C14Views'], 'C17': ['Klepto.Props.C17Session']}


def lean_side(prop, tier):
    """build the property's theorem file, audit axioms, grep for forbidden constructs.
    returns dict(ok, obligations, discharged, theorems, problems, wall)"""
    t0 = time.time()
    target = 'Klepto.Props.%s' % prop
    res = dict(ok=False, obligations=0, discharged=0, theorems=[], problems=[], target=target)
    if not os.path.exists(os.path.join(LEAN, 'Klepto', 'Props', prop + '.lean')):
        res['problems'].append('no theorem file for %s' % prop)
        return res
    extra = EXTRA_MODULES.get(prop, [])
    ok, out, _ = lake_build((target, 'driver', 'Klepto.Audit') + tuple(extra))
    if not ok:
        res['problems'].append('lake build %s failed' % target)
        res['build_log'] = out[-4000:]
        return res
    # forbidden constructs anywhere in the library sources
    for root, _, files in os.walk(os.path.join(LEAN, 'Klepto')):
        for fn in files:
            if fn.endswith('.lean'):
                src = strip_comments(open(os.path.join(root, fn)).read())
                for ln in src.splitlines():
                    if FORBIDDEN.search(ln):
                        res['problems'].append('forbidden construct in %s: %s' % (fn, ln.strip()[:80]))
    # axiom audit
    os.makedirs(OUT, exist_ok=True)
    af = os.path.join(OUT, 'audit_%s.lean' % prop)
    with open(af, 'w') as f:
        f.write('import Klepto.Audit\nimport %s\n%s#eval Klepto.auditNamespace `Klepto.%s\n' % (target, ''.join('import %s\n' % m for m in extra), prop))
    p = subprocess.run(['lake', 'env', 'lean', af], cwd=LEAN, stdout=subprocess.PIPE, stderr=subprocess.STDOUT, text=True, timeout=900)
    if p.returncode != 0:
        res['problems'].append('audit failed: ' + p.stdout[-1500:])
        return res
    for ln in p.stdout.splitlines():
        if ln.startswith('THEOREM '):
            _, name, axs = (ln.split(' ', 2) + [''])[:3]
            axs = [a for a in axs.split(',') if a]
            res['obligations'] += 1
            bad = [a for a in axs if a not in ALLOWED_AXIOMS]
            if bad:
                res['problems'].append('theorem %s depends on %s' % (name, bad))
            else:
                res['discharged'] += 1
            res['theorems'].append(dict(name=name, axioms=axs))
    if res['obligations'] == 0:
        res['problems'].append('no theorems found in namespace Klepto.%s' % prop)
    if tier == 'thorough':
        p = subprocess.run(['lake', 'env', 'leanchecker', target] + extra, cwd=LEAN, stdout=subprocess.PIPE, stderr=subprocess.STDOUT, text=True, timeout=3000)
        res['leanchecker'] = p.returncode
        if p.returncode != 0:
            res['problems'].append('leanchecker rejected %s: %s' % (target, p.stdout[-800:]))
    res['ok'] = not res['problems']
    res['wall'] = time.time() - t0
    return res


# ------------------------------------------------------------------ main
def main():
    args = sys.argv[1:]
    if not args:
        print(__doc__); return 2
    prop = args[0]
    tier = os.environ.get('VERIF_TIER') or 'quick'
    replay = None
    i = 1
    while i < len(args):
        if args[i] == '--tier': tier = args[i + 1]; i += 2
        elif args[i] == '--replay': replay = args[i + 1]; i += 2
        else: i += 1
    if tier not in ('quick', 'thorough'): tier = 'quick'
    t0 = time.time()
    try:
        import verdict
        return verdict.decide(prop, tier, replay, lean_side, t0)
    except NoVerdict as e:
        print('NO-VERDICT property=%s: %s' % (prop, e))
        return 2
    except Exception:
        traceback.print_exc()
        print('NO-VERDICT property=%s: harness crashed' % prop)
        return 2


if __name__ == '__main__':
    sys.exit(main())
