"""suite `fs`, the parts that need strace: (a) sqlite - kills injected at the real write-class system calls of the
sqlite library; (b) validation of the Python-level gate of fs_child.py against the real system-call sequence"""
import os, sys, json, re, subprocess, pickle, collections, time
from multiprocessing.pool import ThreadPool
from common import *
from pcanon import kj, kcanon, canonv, canon_items
import run_fs as RF

HERE = os.path.dirname(os.path.abspath(__file__))
WRITE_CALLS = ['pwrite64', 'write', 'fsync', 'fdatasync', 'unlink', 'unlinkat', 'ftruncate', 'rename', 'openat']
SQL_KEYS = ['a', 'b', 'k1', 7]
SQL_VALS = [1, 'v', None, 2.5, b'by']


def have_strace():
    from shutil import which
    return which('strace') is not None


def gen_sql(tier, idx):
    r = rng('fs-sql', tier, idx)
    keys = list(SQL_KEYS); r.shuffle(keys)
    nprior = r.choice([1, 2, 3])
    prior = [(k, r.choice(SQL_VALS)) for k in keys[:nprior]]
    present = [k for k, _ in prior]; absent = keys[nprior:]
    kind = ['set-big', 'set-over', 'pop', 'update', 'clear', 'open-history', 'set-new', 'delitem'][idx % 8]
    nv = lambda old=None: r.choice([v for v in SQL_VALS if v != old])
    if kind == 'set-big': op = ['setitem', present[0], 'x' * 20000]     # a value that spills onto overflow pages: a multi-page commit
    elif kind == 'set-new': op = ['setitem', absent[0], nv()]
    elif kind == 'set-over': k = present[0]; op = ['setitem', k, nv(dict(prior)[k])]
    elif kind == 'pop': op = ['pop', present[0]]
    elif kind == 'delitem': op = ['delitem', present[0]]
    elif kind == 'update': op = ['update', [(absent[0], nv()), (present[0], nv(dict(prior)[present[0]]))]]
    elif kind == 'open-history':
        # a table in which a key has been assigned several times (superseded rows), merely OPENED by a new handle: opening writes nothing
        # that a kill could leave half-done
        prior = prior + [(present[0], nv(dict(prior)[present[0]])), (present[0], nv())]
        op = ['open', False]
    else: op = ['clear']
    return prior, op


def strace_child(job, tmp, tag, extra):
    p = os.path.join(tmp, 'job_%s.json' % tag)
    json.dump(job, open(p, 'w'))
    env = dict(os.environ, PYTHONPATH=REPO + os.pathsep + HERE, PYTHONDONTWRITEBYTECODE='1')
    tr = os.path.join(tmp, 'trace_%s.txt' % tag)
    cmd = ['strace', '-f', '-y', '-o', tr, '-e', 'trace=' + ','.join(WRITE_CALLS + ['mkdir', 'mkdirat', 'rmdir', 'renameat', 'renameat2'])] + extra + \
          [sys.executable, os.path.join(HERE, 'fs_child.py'), p]
    r = subprocess.run(cmd, stdout=subprocess.PIPE, stderr=subprocess.STDOUT, text=True, env=env, cwd=tmp, timeout=120)
    return r.returncode, (open(tr).read() if os.path.exists(tr) else ''), r.stdout[-500:]


CALL_RE = re.compile(r'^(\d+)\s+(\w+)\((.*)$')


def parse_trace(text):
    """list of (syscall, rest-of-line) for the main tracee, in order"""
    out = []
    for ln in text.splitlines():
        m = CALL_RE.match(ln)
        if not m or 'resumed>' in ln: continue
        out.append((m.group(2), m.group(3)))
    return out


def sql_case(prior, op):
    """dry run to find the write-class calls the operation issues on the database files, then one kill per call"""
    tmp = scratch_dir('kq')
    try:
        cfg = dict(kind='sql', codec='sql', opts={})
        def fresh(tag):
            d = os.path.join(tmp, tag); os.makedirs(d)
            loc = 'sqlite:///%s' % os.path.join(d, 'arch.db')
            job0 = dict(role='run', cfg=cfg, loc=loc, root=d, prior=pickle.dumps(prior).hex(), op=pickle.dumps(None).hex(), nogate=True)
            rc, _, _, tail = RF.child(job0, d, 'setup')
            if rc != 0: raise NoVerdict('sql setup failed: ' + tail)
            return d, loc
        d, loc = fresh('dry')
        job = dict(role='run', cfg=cfg, loc=loc, root=d, prior=pickle.dumps(prior).hex(), op=pickle.dumps(op).hex(), nogate=True, skip_prior=True)
        rc, text, tail = strace_child(job, d, 'op', [])
        if rc != 0: return dict(err='sql dry run failed: ' + tail)
        calls = parse_trace(text)
        # per syscall name: running count from process start; keep those touching the database or its journal
        counts = collections.Counter(); points = []
        for name, rest in calls:
            counts[name] += 1
            if 'arch.db' in rest and name in WRITE_CALLS:
                if name == 'openat' and 'O_CREAT' not in rest: continue
                points.append((name, counts[name], rest[:80]))
        old, new, touched = RF.apply_ref(prior, op)
        views = []
        def one(pt):
            name, n, rest = pt
            dd, lc = fresh('k_%s_%d' % (name, n))
            jb = dict(job, loc=lc, root=dd)
            rc2, _, tl = strace_child(jb, dd, 'op', ['-e', 'inject=%s:signal=SIGKILL:when=%d' % (name, n)])
            rc3, rd, _, tl3 = RF.child(dict(role='read', cfg=cfg, loc=lc, root=dd), dd, 'r')
            if rd is None: return dict(err='reader failed: ' + tl3)
            return dict(point=[name, n, rest], killed=rc2 != 0, view=RF.canon_view(cfg, rd))
        with ThreadPool(min(8, NPROC)) as p:
            views = p.map(one, points)
        rcF, rdF, _, _ = RF.child(dict(role='read', cfg=cfg, loc=loc, root=d), d, 'rfinal')
        final = RF.canon_view(cfg, rdF)
        return dict(prior=prior, op=op, points=points, views=views, final=final, err=None)
    except Exception:
        import traceback
        return dict(err=traceback.format_exc()[-1500:])
    finally:
        rm_rf(tmp)


def sql_model_states(prior, op):
    """crash states of the statement-level model (driver): every prefix of the committed statements"""
    vals = {}
    def vid(v):
        c = json.dumps(canonv(v), sort_keys=True)
        if c not in vals: vals[c] = len(vals) + 1
        return vals[c]
    line = dict(op='crash', kind='sql', prior=[[kj(k), vid(v), False] for k, v in prior], inpFirst=False, order=[])
    k = op[0]
    if k == 'open':
        # opening commits nothing: the only state is the table as it was (the last assignment of each key)
        last = {}
        for a, b in prior: last[json.dumps(kcanon(a), sort_keys=True) if not isinstance(kcanon(a), str) else kcanon(a)] = json.dumps(canonv(b), sort_keys=True)
        return None
    if k == 'setitem': line.update(what='set', kvs=[[kj(op[1]), vid(op[2]), False]])
    elif k == 'update': line.update(what='set', kvs=[[kj(a), vid(b), False] for a, b in op[1]])
    elif k in ('pop', 'delitem'): line.update(what='del', ks=[kj(op[1])])
    elif k == 'clear': line.update(what='clear', order=[kcanon(a) for a, _ in prior])
    outs = run_driver([json.dumps(dict(suite='fs', op='cfg')), json.dumps(line)])
    inv = {v: c for c, v in vals.items()}
    return [sorted([json.dumps(kk, sort_keys=True), inv.get(v, '?')] for kk, v in st['view']) for st in outs[1]['states']]


def explore_sql(tier, n):
    out = dict(cases=0, kills=0, tags=collections.Counter(), violations=[], errors=[], divergences=[])
    if not have_strace():
        out['errors'].append('strace not available'); return out
    for i in range(n):
        prior, op = gen_sql(tier, i)
        c = sql_case(prior, op)
        if c['err']: out['errors'].append(c['err']); continue
        out['cases'] += 1; out['tags']['sql:' + op[0]] += 1
        states = sql_model_states(prior, op)
        if states is None: states = [c['final'].get('items')] if not c['views'] else None      # (an `open`: nothing is written, nothing to kill)
        for v in c['views'] + [dict(point=['done', 0, ''], killed=False, view=c['final'])]:
            if 'err' in v and 'view' not in v: out['errors'].append(v['err']); continue
            out['kills'] += 1; out['tags']['sql:kills'] += 1
            where = 'before %s #%d (%s)' % tuple(v['point']) if v['point'][0] != 'done' else 'after the operation completed'
            bad = RF.atomic_view(dict(kind='sql', codec='sql'), prior, op, v['view'], where)
            if bad:
                out['violations'].append(dict(prop='C13', i=0, sig=dict(backend='sql', op=op[0], what=bad[0], at=v['point'][0]),
                                              msg='sqlite archive %r on prior %r: %s' % (op, prior, bad[1]), sqlcase=dict(prior=pickle.dumps(prior).hex(), op=pickle.dumps(op).hex())))
            elif states is None: pass          # (an `open` that DID write: the old-or-new monitor above is the judge)
            elif op[0] != 'clear' and v['view'].get('items') not in states:
                out['divergences'].append(dict(detail=dict(what='sql view is not a committed prefix', point=v['point'], impl=v['view'], model=states),
                                               cfg=dict(kind='sql'), prior=prior, op=op))
        if states is not None and c['final'].get('items') != states[-1]:
            out['divergences'].append(dict(detail=dict(what='sql final view', impl=c['final'], model=states[-1]), cfg=dict(kind='sql'), prior=prior, op=op))
    return out


# ------------------------------------------------------------------ gate validation
def strace_calls(cfg, text, root):
    """mutating system calls under `root` of an UNGATED run, in the vocabulary of the gate log"""
    log = []
    fdpath = re.compile(r'<([^>]*)>')
    for name, rest in parse_trace(text):
        if root not in rest: continue
        if rest.rstrip().endswith(('ENOENT (No such file or directory)', 'EEXIST (File exists)')) and name in ('mkdir', 'mkdirat'):
            pass
        strs = re.findall(r'"((?:[^"\\]|\\.)*)"', rest)
        fds = fdpath.findall(rest)
        def rel(p):
            return os.path.relpath(p, root) if p.startswith(root) else None
        if name in ('mkdir', 'mkdirat'):
            p = strs[0] if strs[0].startswith('/') else os.path.join(fds[0], strs[0]) if fds else strs[0]
            if rel(p): log.append(['mkdir', rel(p)])
        elif name == 'openat' and 'O_CREAT' in rest and ('O_WRONLY' in rest or 'O_RDWR' in rest):
            p = strs[0]
            if rel(p): log.append(['creat', rel(p)])
        elif name == 'write' and fds and rel(fds[0]):
            log.append(['write', rel(fds[0])])
        elif name in ('unlink', 'unlinkat'):
            p = strs[0] if strs[0].startswith('/') else (os.path.join(fds[0], strs[0]) if fds else strs[0])
            if rel(p): log.append(['rmdir' if 'AT_REMOVEDIR' in rest else 'unlink', rel(p)])
        elif name == 'rmdir':
            if rel(strs[0]): log.append(['rmdir', rel(strs[0])])
        elif name in ('rename', 'renameat', 'renameat2'):
            ps = [s for s in strs if s.startswith('/')]
            if len(ps) == 2 and rel(ps[0]): log.append(['rename', rel(ps[0]), rel(ps[1])])
    return log


def validate_gate(tier):
    """the gate sees what strace sees: same mutating sequence (temp names normalised, close calls dropped)"""
    out = dict(tags=collections.Counter(), errors=[])
    if not have_strace():
        out['errors'].append('strace not available'); return out
    cases = [(dict(kind='dir', codec='pickle', opts={}), [('a', 1), (7, 2)], ['setitem', 7, 'v']),
             (dict(kind='dir', codec='pickle', opts={}), [('a', 1), (7, 2)], ['clear']),
             (dict(kind='file', codec='pickle', opts={}), [('a', 1)], ['setitem', 'b', 2]),
             (dict(kind='dir', codec='json', opts=dict(protocol='json')), [('a', 1)], ['update', [('a', 2), ('b', 3)]]),
             (dict(kind='file', codec='source', opts=dict(serialized=False)), [('a', 1)], ['pop', 'a'])]
    if tier == 'thorough':
        cases += [(dict(kind='dir', codec='pickle', opts=dict(compression=3)), [('a', 1)], ['setitem', 'a', 2]),
                  (dict(kind='dir', codec='source', opts=dict(serialized=False)), [('a', 1), (7, 3)], ['delitem', 7]),
                  (dict(kind='file', codec='json', opts=dict(protocol='json')), [('a', 1)], ['clear'])]
    for cfg, prior, op in cases:
        tmp = scratch_dir('kg')
        try:
            loc = RF.loc_of(cfg, tmp)
            job0 = dict(role='run', cfg=cfg, loc=loc, root=tmp, prior=pickle.dumps(prior).hex(), op=pickle.dumps(None).hex(), nogate=True)
            rc, _, _, tail = RF.child(job0, tmp, 'setup')
            job = dict(role='run', cfg=cfg, loc=loc, root=tmp, prior=pickle.dumps(prior).hex(), op=pickle.dumps(op).hex(), nogate=True, skip_prior=True)
            rc, text, tail = strace_child(job, tmp, 'op', [])
            if rc != 0: out['errors'].append('gate validation: strace run failed: ' + tail); continue
            real, _ = RF.norm_log(cfg, [c for c in strace_calls(cfg, text, tmp) if not c[1].startswith('job_') and not c[1].startswith('trace_')])
            dry = RF.one_crash(cfg, prior, op, None, False, base=os.path.dirname(tmp))     # same file system: same directory-listing order
            if 'error' in dry: out['errors'].append(dry['error']); continue
            gated, _ = RF.norm_log(cfg, dry['log'])
            if real != gated:
                out['errors'].append('the Python-level gate does not see the real system-call sequence for %r on %s: strace %r, gate %r' % (op, cfg['kind'], real, gated))
            else:
                out['tags']['gate-validated'] += 1
        finally:
            rm_rf(tmp)
    return out


if __name__ == '__main__':
    t0 = time.time()
    g = validate_gate('thorough'); print(dict(g['tags']), g['errors'][:3])
    r = explore_sql('quick', 6)
    print(r['cases'], r['kills'], dict(r['tags']), 'viol', [v['msg'][:300] for v in r['violations'][:3]], 'div', r['divergences'][:2], 'err', r['errors'][:2])
    print('wall', time.time() - t0)
