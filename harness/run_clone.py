"""suite `clone` (C20): wrapper traces with dill round-trips; the continuation runs on the restored
copy and is compared with the Lean model exactly like an uninterrupted history"""
import collections
from multiprocessing import Pool
from common import *
import suite_wrapper as sw
import check_wrapper as cw
import run_wrapper as rw

NTRACES = {'quick': 360, 'thorough': 4800}
RULE = ('wrapper traces (12 decorators x backends none/null/dict/file/dir/bare) with 1-2 dill.loads(dill.dumps(f)) inserted; '
        'at the round-trip: equal info(), cache, archive, parked archive, configuration; afterwards the copy must continue '
        'exactly as the model of the original would; independence of the original checked after every later op; plus relocation cases: '
        'raw keys holding identity-compared instances and NULL / SENTINEL, (function, arguments) pickled together - the copy holds the '
        'relocated keys, answers through the copied objects and continues in lock-step (hypotheses and conclusion of C20_pickle_lockstep)')


# ------------------------------------------------------------------ the round trip as a relocation of objects (Props/C20Pickle.lean)
class Thing(object):
    """an argument with the default identity __eq__/__hash__; pickled by value: the copy is a new object"""
    def __init__(self, n): self.n = n


def target(obj, x, y=0):
    return (obj.n, x, y)


def reloc_case(a):
    """keys that hold identity-compared instances and klepto's singletons (NULL from `ignore`, SENTINEL): after ONE pickle of
    (function, its argument objects) the copy must hold the relocated keys - every instance replaced by ITS copy, the singletons
    the very same objects -, answer lookups through the copied objects, and continue in lock-step (C20_pickle_lockstep)"""
    tier, idx = a
    import random, dill, klepto, klepto.safe
    from klepto.keymaps import keymap, SENTINEL
    from klepto._inspect import NULL
    r = rng('reloc', tier, idx)
    algo = ['lru', 'lfu', 'mru', 'rr', 'inf'][idx % 5]; safe = (idx // 5) % 2 == 1
    kmk = ['plain', 'sentinel', 'typed', 'typed-sentinel'][(idx // 10) % 4]
    ign = [None, ('y',), ('y', 1)][(idx // 40) % 3]
    cfg = dict(reloc=True, idx=idx, tier=tier, algo=algo, safe=safe, keymap=kmk, ignore=ign)
    viol = []
    def bad(kind, msg): viol.append(dict(prop='C20', i=0, sig=dict(kind=kind, algo=algo, keymap=kmk), msg='%s.%s_cache(raw keymap %s, ignore=%r): %s' % ('safe' if safe else 'klepto', algo, kmk, ign, msg), cfg=cfg, ops=[]))
    try:
        km = dict(plain=lambda: keymap(), sentinel=lambda: keymap(sentinel=SENTINEL), typed=lambda: keymap(typed=True), **{'typed-sentinel': lambda: keymap(typed=True, sentinel=SENTINEL)})[kmk]()
        kw = dict(keymap=km)
        if ign is not None: kw['ignore'] = ign
        if algo != 'inf': kw['maxsize'] = 3
        f = getattr(klepto.safe if safe else klepto, algo + '_cache')(**kw)(target)
        objs = [Thing(i) for i in range(4)]
        random.seed(idx)
        for _ in range(r.choice([4, 8, 12])):
            f(objs[r.randrange(4)], r.randrange(3))
        g, cobjs = dill.loads(dill.dumps((f, objs)))
        if any(c is o for c, o in zip(cobjs, objs)) or len(set(map(id, cobjs))) != 4:
            return dict(cfg=cfg, viol=viol, err='the harness assumes dill copies instances by value, one copy each', n=0)
        back = {id(o): c for o, c in zip(objs, cobjs)}
        def reloc(k):
            if isinstance(k, tuple): return tuple(reloc(e) for e in k)
            if isinstance(k, dict): return {n: reloc(v) for n, v in k.items()}
            return back.get(id(k), k)
        def same(k1, k2):
            """k2 is k1 relocated: instances are THEIR copies, NULL / SENTINEL the same objects, the rest equal values"""
            if isinstance(k1, tuple): return isinstance(k2, tuple) and len(k1) == len(k2) and all(same(x, y) for x, y in zip(k1, k2))
            if isinstance(k1, dict): return isinstance(k2, dict) and list(k1) == list(k2) and all(same(k1[n], k2[n]) for n in k1)
            if isinstance(k1, Thing): return k2 is back[id(k1)]
            if k1 is NULL or k1 is SENTINEL or isinstance(k1, type): return k2 is k1
            return type(k1) is type(k2) and k1 == k2
        def compare(when):
            kf, kg = list(f.__cache__()), list(g.__cache__())
            if len(kf) != len(kg) or not all(same(x, y) for x, y in zip(kf, kg)):
                wrong = [('singleton-not-restored' if any(e is NULL or e is SENTINEL for e in (x if isinstance(x, tuple) else (x,))) else 'keys-not-relocated')
                         for x, y in zip(kf, kg) if not same(x, y)] or ['keys-not-relocated']
                bad(wrong[0], '%s the copy\'s cache keys are not the relocated keys of the original: %.200r vs %.200r' % (when, kg, kf)); return False
            if [f.__cache__()[k] for k in kf] != [g.__cache__()[k] for k in kg] or tuple(f.info()) != tuple(g.info()):
                bad('copy-differs', '%s values or info() differ: %r vs %r' % (when, tuple(g.info()), tuple(f.info()))); return False
            return True
        if compare('right after the round trip'):
            for i in range(4):
                for x in range(3):
                    outs = []
                    for h, os_ in ((f, objs), (g, cobjs)):
                        try: outs.append(('ret', h.lookup(os_[i], x)))
                        except KeyError: outs.append(('KeyError',))
                        except Exception as e: outs.append(('exc', type(e).__name__))
                    if outs[0] != outs[1]:
                        bad('relocated-entry-not-found', 'lookup(obj%d, %d): original %r, copy (through the copied object) %r' % (i, x, outs[0], outs[1])); break
                if viol: break
            for step in range(12):
                if viol: break
                i, x = r.randrange(4), r.randrange(4)
                st = random.getstate()
                o1 = f(objs[i], x); random.setstate(st); o2 = g(cobjs[i], x)
                if o1 != o2: bad('copy-continues-differently', 'call %d (obj%d, %d): original %r copy %r' % (step, i, x, o1, o2)); break
                if not compare('after %d further calls' % (step + 1)): break
        return dict(cfg=cfg, viol=viol, err=None, n=1)
    except Exception:
        import traceback
        return dict(cfg=cfg, viol=viol, err=traceback.format_exc()[-1200:], n=0)


def explore(prop, tier):
    with Pool(NPROC) as p:
        trs = p.map(sw.work_clone, [(tier, i) for i in range(NTRACES[tier])], chunksize=4)
        rel = p.map(reloc_case, [(tier, i) for i in range(NTRACES[tier] // 3)], chunksize=4)
    errors = [t['err'] for t in trs if t['err']]
    trs = [t for t in trs if not t['err']]
    divs, viols, tags, nontriv = rw._analyse(prop, trs)
    errors += [o['err'] for o in rel if o['err']]
    viols = viols + [v for o in rel for v in o['viol']]
    tags = dict(tags); tags['relocation-case'] = sum(o['n'] for o in rel)
    hist = collections.Counter('backend=' + t['cfg']['backend'] for t in trs)
    return dict(suite='clone', traces=len(trs), evaluations=sum(len(t['recs']) for t in trs), distinct_nontrivial=nontriv,
                tags=dict(tags), divergences=divs, violations=viols,
                samples=[dict(cfg=t['cfg'], ops=t['ops'][:12], n_ops=len(t['ops'])) for t in trs[:2]],
                errors=errors, rule=RULE, required_tags=['clone', 'evict', 'hit', 'load', 'relocation-case'], config_histogram=dict(hist))


def replay(prop, obj):
    if (obj.get('cfg') or {}).get('reloc'):
        o = reloc_case((obj['cfg']['tier'], obj['cfg']['idx']))
        if o['err']: raise NoVerdict(o['err'])
        return dict(violations=[dict(prop='C20', sig=v['sig'], msg=v['msg'], i=0) for v in o['viol']], divergence=None)
    return rw.replay(prop, obj)


def shrink_and_save(prop, v):
    if (v.get('cfg') or {}).get('reloc'):
        return write_replay(prop, 'violation', dict(suite='clone', property=prop, cfg=v['cfg'], signature=v['sig'], message=v['msg'],
                                                     how_to_replay='cd /verif && ./check C20 --replay <this file>'))
    return rw.shrink_and_save(prop, v)


def search(prop, tier, divergences, budget_s, known):
    return None
