"""suite `clone` (C20): wrapper traces with dill round-trips; the continuation runs on the restored
copy and is compared with the Lean model exactly like an uninterrupted history"""
import collections
from multiprocessing import Pool
from common import *
import suite_wrapper as sw
import check_wrapper as cw
import run_wrapper as rw

NTRACES = {'quick': 360, 'thorough': 4800}
RULE = ('wrapper traces (12 decorators x backends none/null/dict/file/dir/bare) with 1-2 dill.loads(dill.dumps(f)) inserted; '
        'at the round-trip: equal info(), cache, archive, parked archive, configuration; afterwards the copy must continue '
        'exactly as the model of the original would; independence of the original checked after every later op')


def explore(prop, tier):
    with Pool(NPROC) as p:
        trs = p.map(sw.work_clone, [(tier, i) for i in range(NTRACES[tier])], chunksize=4)
    errors = [t['err'] for t in trs if t['err']]
    trs = [t for t in trs if not t['err']]
    divs, viols, tags, nontriv = rw._analyse(prop, trs)
    hist = collections.Counter('backend=' + t['cfg']['backend'] for t in trs)
    return dict(suite='clone', traces=len(trs), evaluations=sum(len(t['recs']) for t in trs), distinct_nontrivial=nontriv,
                tags=dict(tags), divergences=divs, violations=viols,
                samples=[dict(cfg=t['cfg'], ops=t['ops'][:12], n_ops=len(t['ops'])) for t in trs[:2]],
                errors=errors, rule=RULE, required_tags=['clone', 'evict', 'hit', 'load'], config_histogram=dict(hist))


replay = rw.replay
shrink_and_save = rw.shrink_and_save


def search(prop, tier, divergences, budget_s, known):
    return None
