"""Suite `keys`: generated *programs* (def sources exec'd so that `inspect` sees real code objects),
wrapped as plain function / bound method / function receiving its instance / callable instance /
functools.partial, with ignore specifications and calls; `_keygen`, the keymaps and `inspect`'s own
binding are compared with the Lean model M4 (Klepto/Model/Keys.lean)."""
import os, sys, json, inspect, functools, hashlib, itertools, collections
from common import *

POOL = [1, 1.0, True, 2, 0, -3, 2.5, 'a', 'x', 'y', None, (1, 2), 'k', 7, 'z', 0.1, 10, '\u03a9mega', '\u03a3mega']      # (two texts outside latin-1 that differ in one character)
UNHASHABLE = [[1], [2, 3], {'q': 1}]


class Obj(object):
    """a live object with the default repr (`<suite_keys.Obj object at 0x...>`), identity equality and its own state"""
    def __init__(self, n): self.n = n
    def describe(self): return self.n


class Bag(object):
    """an attribute bag backed by a mapping: asking it for an attribute it does not have raises KeyError (not AttributeError)"""
    def __init__(self, **kw): self.__dict__['_d'] = dict(kw)
    def __getattr__(self, name):
        if name.startswith('__'): raise AttributeError(name)        # (special-method probes of pickle / copy are answered the usual way)
        return self.__dict__.get('_d', {})[name]


OBJS = [Obj(1), Obj(2), Bag(n=3)]
# the generated functions are all called `target`: an argument may well have an attribute of that name which is no method of its
# own (plain data; a method borrowed from another object) - it is then NOT an instance the function is bound to
OBJS[0].target = 2.5
OBJS[1].target = OBJS[0].describe
OBJ_MARK = {id(o): '<OBJ%d>' % i for i, o in enumerate(OBJS)}
OBJ_BY_MARK = {'<OBJ%d>' % i: o for i, o in enumerate(OBJS)}
CALL_POOL = POOL + OBJS          # values for call arguments (defaults stay JSON-representable)
PNAMES = ['x', 'y', 'z', 'w']
# parameter names that are also names inside klepto's own machinery (`_keygen(func, ignored, ...)`, `validate(func, ...)`,
# the rounding decorators' `args`/`kwds`, the keymaps' `key`): a user's function may call its parameters anything
CLASH_NAMES = ['func', 'ignored', 'args', 'key']


def pnames(prog, n=None):
    base = prog.get('pnames') or PNAMES
    return base[:prog['npos'] if n is None else n]
KWONLY = ['k', 'm']


CALLS = []        # appended to by every generated function body: validate/isvalid must never call it


class KInterner:
    """objects up to (type, repr): the finest notion, valid for raw and for encoded keys"""
    def __init__(self):
        self.ids = {}
        self.objs = []
    def __call__(self, v):
        k = (type(v).__module__, type(v).__qualname__, repr(v)) if not isinstance(v, type) else ('type', v.__module__, v.__qualname__)
        if k not in self.ids:
            self.ids[k] = len(self.objs); self.objs.append(v)
        return self.ids[k]
    def obj(self, i): return self.objs[i]


def gen_program(r, idx):
    """returns dict(src, npos, ndef, varargs, nkwonly, kwdef, varkw, kind, pfix...)"""
    npos = r.choice([0, 1, 2, 2, 3, 4])
    ndef = r.randrange(npos + 1)
    varargs = r.random() < 0.35
    nkw = r.choice([0, 0, 1, 2]) if (varargs or r.random() < 0.5) else 0
    kwdef = [r.random() < 0.5 for _ in range(nkw)]
    varkw = r.random() < 0.35
    kind = r.choice(['func', 'func', 'wrapped', 'method', 'unbound', 'callable', 'partial', 'partial', 'partial_method', 'partial_callable'])
    noself = False
    if r.random() < 0.06:        # the fully variadic signature `(*args, **kw)`: nothing is named, the key is tail + keyword items only
        npos, ndef, varargs, nkw, kwdef, varkw = 0, 0, True, 0, [], True
        noself = r.random() < 0.5    # methods / __call__ written `def m(*args, **kw)`: the instance arrives inside *args
    if idx % 40 == 7:
        # stratum: a method / __call__ that names NO positional parameter but has keyword-only ones, `def m(*args, k=.., **kw)`:
        # the instance arrives inside *args, and the first name the code object knows is a keyword-only parameter
        npos, ndef, varargs, noself = 0, 0, True, True
        nkw = 1 + (idx // 40) % 2; kwdef = [(idx // 80) % 2 == 0, True][:nkw]; varkw = (idx // 160) % 2 == 0
        kind = ['method', 'callable', 'partial_method', 'partial_callable'][(idx // 40) % 4]
    defaults = [r.choice(POOL) for _ in range(ndef)]
    kwdefaults = [r.choice(POOL) for _ in range(nkw)]
    # stratum: a default VALUE that can neither be copied nor pickled (a stream, a lock, a module) - binding does not look at values
    if idx % 15 == 4 and ndef: defaults[0] = ['<<STDERR>>', '<<LOCK>>', '<<MODULE>>'][(idx // 15) % 3]
    if idx % 15 == 9 and nkw and kwdef[0]: kwdefaults[0] = ['<<LOCK>>', '<<STDERR>>'][(idx // 15) % 2]
    return dict(noself=noself, npos=npos, ndef=ndef, varargs=varargs, nkw=nkw, kwdef=kwdef, varkw=varkw, kind=kind,
                defaults=defaults, kwdefaults=kwdefaults,
                nposonly=r.choice([0, 0, 0, 0, 1, 2]),     # leading positional-only parameters (`def f(x, y, /, z)`), capped at npos
                args_attr=r.random() < 0.3,      # a callable instance with an attribute `args` of its own (it is not a functools.partial)
                named_inst=r.random() < 0.3,     # a callable instance that carries a __name__ (as after functools.update_wrapper)
                falsy=r.random() < 0.3,     # the instance (methods, callable instances) is falsy: `bool(inst)` is False
                static_call=(idx % 3 == 1),   # kinds `callable` / `partial_callable`: `__call__` is a staticmethod (it takes no instance)
                sub_override=(idx % 2 == 0),  # kind `unbound`: the instance belongs to a SUBCLASS that overrides the method and delegates with super()
                pnames=(CLASH_NAMES if (r.random() < 0.12 and not varargs) else None),
                p_npos=r.choice([0, 1, 1, 2]), p_kw=r.random() < 0.5, p_kwname=r.choice(PNAMES + KWONLY + ['q']),
                p_vals=[r.choice(POOL) for _ in range(3)])


_SPECIAL = {}
def special(v):
    """program descriptions are plain data; the uncopyable default values are materialised here (one object each per process)"""
    if isinstance(v, str) and v.startswith('<<') and v.endswith('>>'):
        if v not in _SPECIAL:
            import threading
            _SPECIAL[v] = {'<<STDERR>>': sys.stderr, '<<LOCK>>': threading.Lock(), '<<MODULE>>': os}[v]
        return _SPECIAL[v]
    return v


def build_callable(prog):
    """exec the program; returns (callable handed to klepto, Func description built from inspect, self object or None)"""
    params = []
    pos = pnames(prog)
    nreq = prog['npos'] - prog['ndef']
    ns = {}
    for i, n in enumerate(pos):
        if i >= nreq:
            ns['_d%d' % i] = special(prog['defaults'][i - nreq])
            params.append('%s=_d%d' % (n, i))
        else:
            params.append(n)
    npo = min(prog.get('nposonly', 0), prog['npos'])
    if npo: params.insert(npo, '/')
    if prog['varargs']: params.append('*args')
    elif prog['nkw']: params.append('*')
    for i in range(prog['nkw']):
        n = KWONLY[i]
        if prog['kwdef'][i]:
            ns['_k%d' % i] = special(prog['kwdefaults'][i])
            params.append('%s=_k%d' % (n, i))
        else:
            params.append(n)
    if prog['varkw']: params.append('**kw')
    kind = prog['kind']
    inst = None
    ns['_calls'] = CALLS
    # the binding oracle: a twin with the same parameter list that returns what CPython bound (inspect.Signature.bind wrongly
    # rejects a keyword that shares the name of a positional-only parameter and belongs in **kw)
    selfp = [] if (prog.get('noself') and kind in ('method', 'callable', 'partial_method', 'partial_callable')) else ['self']
    static = bool(prog.get('static_call')) and kind in ('callable', 'partial_callable') and not prog.get('noself')
    if static: selfp = []
    own = params if kind in ('func', 'partial', 'wrapped') else selfp + params
    exec('def probe(%s): return dict(locals())\n' % ', '.join(own), ns)
    if kind in ('func', 'partial', 'wrapped'):
        src = 'def target(%s):\n    _calls.append(1); return 0\n' % ', '.join(params)
        exec(src, ns)
        f = ns['target']
        f.__probe__ = ns['probe']
        if kind == 'wrapped':
            # a functools.wraps wrapper whose own parameters differ from those of the function it wraps: the callable handed to
            # klepto is the wrapper, and it is the wrapper's parameters that a call binds
            def inner(only): return 0
            f = functools.wraps(inner)(f)
            src += '# target = functools.wraps(inner)(target)   with   def inner(only)\n'
    else:
        meth = '__call__' if kind in ('callable', 'partial_callable') else 'target'
        src = 'class C(object):\n%s    def %s(%s):\n        _calls.append(1); return 0\n' % ('    @staticmethod\n' if static else '', meth, ', '.join(selfp + params))
        if prog.get('falsy'): src += '    def __len__(self): return 0\n'
        exec(src, ns)
        getattr(ns['C'], meth).__probe__ = ns['probe']
        inst = ns['C']()
        if kind == 'unbound' and prog.get('sub_override'):
            # the function handed to klepto is C.target; the instance's own attribute of that name is D.target (bound to the instance)
            exec('class D(C):\n    def target(self, *a, **k):\n        return super().target(*a, **k)\n', ns)
            inst = ns['D'](); src += '# the instance is a D():  class D(C): def target(self, *a, **k): return super().target(*a, **k)\n'
        if kind == 'callable' and prog.get('args_attr'):
            inst.args = ('zz', 3); src += '# inst.args = ("zz", 3)\n'
        if kind == 'callable' and prog.get('named_inst'):
            inst.__name__ = 'target'; src += '# inst.__name__ = "target"\n'
        if kind in ('method', 'partial_method'): f = inst.target
        elif kind == 'unbound': f = ns['C'].target
        else: f = inst
    if kind in ('partial', 'partial_method', 'partial_callable'):
        pa = tuple(prog['p_vals'][:prog['p_npos']])
        pk = {prog['p_kwname']: prog['p_vals'][2]} if prog['p_kw'] else {}
        f = functools.partial(f, *pa, **pk)
    return f, src, inst


def describe(f, I):
    """Func description for the Lean model, taken from inspect (not from klepto)"""
    pargs, pkw = (), {}
    g = f
    if isinstance(f, functools.partial):
        pargs, pkw, g = f.args, f.keywords or {}, f.func
    if not inspect.isfunction(g) and not inspect.ismethod(g):
        g = g.__call__
    spec = inspect.getfullargspec(g)
    nd = len(spec.defaults or ())
    pos = []
    for i, n in enumerate(spec.args):
        j = i - (len(spec.args) - nd)
        pos.append([I(n), I(spec.defaults[j]) if j >= 0 else None])
    kwo = [[I(n), I(spec.kwonlydefaults[n]) if spec.kwonlydefaults and n in spec.kwonlydefaults else None] for n in spec.kwonlyargs]
    try:
        npo = sum(1 for q in inspect.signature(getattr(g, '__func__', g), follow_wrapped=False).parameters.values() if q.kind == q.POSITIONAL_ONLY)
    except (TypeError, ValueError):
        npo = 0
    return dict(nposonly=npo, pos=pos, varargs=spec.varargs is not None, kwonly=kwo, varkw=spec.varkw is not None,
                pArgs=[I(a) for a in pargs], pKwds=[[I(k), I(v)] for k, v in pkw.items()],
                bound=bool(inspect.ismethod(g) and g.__self__ is not None))


def gen_ignore(r, prog):
    """an ignore specification mixing names, indices, '*', '**', 'self'"""
    cands = pnames(prog) + list(range(prog['npos'] + 2)) + ['*', '**', 'self'] + KWONLY[:prog['nkw']] + ['q'] + [-1, -2]
    n = r.choice([0, 0, 1, 1, 2, 3])
    return tuple(r.sample(cands, min(n, len(cands))))


def gen_call(r, prog, malformed=False):
    nfree = prog['npos'] + (1 if prog['kind'] == 'unbound' else 0)
    if prog['npos'] == 0 and prog['nkw'] == 0 and prog['varargs'] and prog['kind'] in ('func', 'wrapped') and r.random() < 0.5:
        return [r.choice(POOL)], {}          # one positional, nothing named: the flat key is the bare value (1-tuple unwrapping)
    na = r.choice([nfree, nfree, max(0, nfree - 1), max(0, nfree - 2), nfree + 1, nfree + 2, 0, 1])
    pool = CALL_POOL + (UNHASHABLE if malformed else [])
    args = [r.choice(pool) for _ in range(na)]
    names = pnames(prog) + KWONLY[:prog['nkw']] + ['q', 'r']
    kw = {}
    for n in r.sample(names, min(len(names), r.choice([0, 0, 1, 2, 3]))):
        kw[n] = r.choice(pool)
    if prog['kind'] in ('method', 'callable', 'partial_method') and not prog.get('noself') and r.random() < 0.06:
        kw['self'] = r.choice(pool)          # the instance parameter is already bound: CPython rejects this keyword unless it can go to **kw... it cannot
    return args, kw


def sbind(sig, a, k):
    """inspect.Signature.bind, repaired: a keyword that shares the name of a positional-only parameter is an ordinary extra
    keyword when the signature has **kw (CPython accepts the call; inspect raises)"""
    try:
        return sig.bind(*a, **k)
    except TypeError:
        po = [p.name for p in sig.parameters.values() if p.kind == p.POSITIONAL_ONLY]
        vk = [p.name for p in sig.parameters.values() if p.kind == p.VAR_KEYWORD]
        moved = {n: k[n] for n in k if n in po}
        if not moved or not vk: raise
        ba = sig.bind(*a, **{n: v for n, v in k.items() if n not in moved})
        extra = dict(ba.arguments.get(vk[0], {})); extra.update(moved)
        ba.arguments[vk[0]] = extra
        return ba


def true_signature(f):
    """inspect.signature, repaired: for an instance whose `__call__` is a staticmethod CPython 3.12's inspect drops the first
    parameter as if it were the instance (the call itself binds all of them)"""
    g = f.func if isinstance(f, functools.partial) else f
    if not inspect.isroutine(g) and not inspect.isclass(g) and isinstance(type(g).__dict__.get('__call__'), staticmethod):
        fn = type(g).__dict__['__call__'].__func__
        if isinstance(f, functools.partial):
            return inspect.signature(functools.partial(fn, *f.args, **(f.keywords or {})), follow_wrapped=False)
        return inspect.signature(fn, follow_wrapped=False)
    return inspect.signature(f, follow_wrapped=False)


def respell(r, f, args, kw, inst_first):
    """other spellings of the same call: positional <-> keyword, keyword order, defaults spelled out.
    Returns a list of (args, kw) that CPython binds identically (oracle: inspect.signature)."""
    try:
        sig = true_signature(f)
        ba = sbind(sig, args, kw)
        full_bind(f, args, kw)
    except (TypeError, ValueError):
        return []
    out = []
    params = list(sig.parameters.values())
    # spell positionals as keywords from some point on (positional-only parameters cannot be renamed)
    npo = sum(1 for p in params if p.kind == p.POSITIONAL_ONLY)
    pos_names = [p.name for p in params if p.kind in (p.POSITIONAL_ONLY, p.POSITIONAL_OR_KEYWORD)]
    for cut in range(npo, len(args) + 1):
        if cut > len(pos_names): continue
        if len(args) > len(pos_names): break        # varargs in use: positionals cannot be renamed
        if inst_first and cut == 0: continue
        a2 = list(args[:cut]); k2 = dict(kw)
        okk = True
        for i in range(cut, len(args)):
            if pos_names[i] in k2: okk = False
            k2[pos_names[i]] = args[i]
        if okk: out.append((a2, k2))
    # spell out defaults
    ba2 = sbind(sig, args, kw); ba2.apply_defaults()
    k3 = dict(kw)
    for p in params:
        if p.kind in (p.POSITIONAL_OR_KEYWORD, p.KEYWORD_ONLY) and p.default is not p.empty and p.name not in ba.arguments:
            if r.random() < 0.6: k3[p.name] = p.default
    out.append((list(args), k3))        # (when positionals spill into *args only keyword-only defaults are left to spell)
    # ... and positionally: while the next open positional parameter has a default (the only way to spell a positional-only default)
    a4 = list(args)
    byname = {p.name: p for p in params}
    while len(a4) < len(pos_names) and byname[pos_names[len(a4)]].default is not inspect.Parameter.empty and pos_names[len(a4)] not in kw:
        a4.append(byname[pos_names[len(a4)]].default)
        out.append((list(a4), dict(kw)))
    # permute keyword order
    items = list(kw.items())
    if len(items) > 1:
        r.shuffle(items); out.append((list(args), dict(items)))
        out.append((list(args), dict(reversed(list(kw.items())))))
    res = []
    for a2, k2 in out:
        try:
            b2 = sbind(sig, a2, k2); b2.apply_defaults()
            full_bind(f, a2, k2)
        except (TypeError, ValueError):
            continue
        if canonical_binding(sig, b2) == canonical_binding(sig, ba2):
            res.append((a2, k2))
    return res


def canonical_binding(sig, ba):
    """bound arguments as (named map, extra positionals, extra keywords) - the C09 notion of 'same call'"""
    named, extra_pos, extra_kw = {}, (), {}
    for name, p in sig.parameters.items():
        if p.kind == p.VAR_POSITIONAL: extra_pos = tuple(ba.arguments.get(name, ()))
        elif p.kind == p.VAR_KEYWORD: extra_kw = dict(ba.arguments.get(name, {}))
        elif name in ba.arguments: named[name] = ba.arguments[name]
    return (sorted((k, type(v).__name__, repr(v)) for k, v in named.items()), tuple((type(v).__name__, repr(v)) for v in extra_pos),
            sorted((k, type(v).__name__, repr(v)) for k, v in extra_kw.items()))


KEYMAPS = [
    ('raw', dict()), ('raw', dict(typed=True)), ('raw', dict(sentinel=True)), ('raw', dict(flat=False)), ('raw', dict(flat=False, typed=True)),
    ('string', dict()), ('string', dict(typed=True)), ('string', dict(flat=False)), ('string', dict(sentinel=True, typed=True)),
    ('md5', dict(sentinel=True)), ('string', dict(sentinel=True)), ('pickle', dict(sentinel=True)),
    ('picklep', dict()), ('picklep', dict(typed=True)),       # picklemap(serializer='pickle'): real pickle byte strings
    ('pickle', dict()), ('pickle', dict(flat=False, typed=True)), ('md5', dict()), ('md5', dict(typed=True, sentinel=True)), ('sha1', dict(flat=False)),
    # chained keymaps `inner + outer` (the options outside `_inner` are the OUTER keymap's, which builds the first structured key)
    ('chain', dict(typed=True, _outer_kind='md5', _inner=['string', {}])),
    ('chain', dict(typed=True, sentinel=True, _outer_kind='string', _inner=['pickle', {'typed': True}])),
    ('chain', dict(typed=True, _outer_kind='sha1', _inner=['raw', {'sentinel': True}])),
    # stringmap with an `encoding`: 'repr' (a string-like type: repr of the key) and 'utf_8' (a codec: repr of the key, encoded)
    ('stringr', dict()), ('stringu', dict(typed=True)), ('stringr', dict(flat=False, sentinel=True)),
    # a NARROW codec: text it cannot encode has no key (the keymap raises; it must not be mapped onto something it can encode)
    ('stringl', dict()),
]


def make_km(kind, opts):
    from klepto.keymaps import keymap, stringmap, picklemap, hashmap, SENTINEL
    o = dict(opts)
    if o.pop('sentinel', False): o['sentinel'] = SENTINEL
    if kind == 'chain':
        inner = make_km(*o.pop('_inner')); outer_kind = o.pop('_outer_kind')
        if opts.get('sentinel'): o['sentinel'] = True
        return inner + make_km(outer_kind, {k: v for k, v in opts.items() if not k.startswith('_')})
    if kind == 'raw': return keymap(**o)
    if kind == 'string': return stringmap(**o)
    if kind == 'stringr': return stringmap(encoding='repr', **o)
    if kind == 'stringu': return stringmap(encoding='utf_8', **o)
    if kind == 'stringl': return stringmap(encoding='latin_1', **o)
    if kind == 'pickle': return picklemap(**o)
    if kind == 'picklep': return picklemap(serializer='pickle', **o)
    return hashmap(algorithm=kind, **o)


def encoder(kind):
    if kind == 'raw': return lambda o: o
    if kind == 'string': return str
    if kind in ('pickle', 'stringr'): return repr
    if kind == 'stringu': return lambda o: repr(o).encode('utf_8')
    if kind == 'stringl':
        def enc_l(o):
            try: return repr(o).encode('latin_1')
            except UnicodeEncodeError: return '<<no key: the codec cannot encode this text>>'
        return enc_l
    if kind == 'picklep': return lambda o: __import__('pickle').dumps(o)
    return lambda o: hashlib.new(kind, repr(o).encode()).hexdigest()


def full_bind(f, args, kw):
    """CPython's binding of the *underlying* function, with the partial's fixed arguments and the bound
    instance made explicit (oracle for the Lean specification `bind`): returns (named, extraPos, extraKw)"""
    pargs, pkw, g = (), {}, f
    if isinstance(f, functools.partial):
        pargs, pkw, g = f.args, f.keywords or {}, f.func
    if not inspect.isfunction(g) and not inspect.ismethod(g):
        g = g.__call__
    pre = ()
    if inspect.ismethod(g):
        pre = (g.__self__,); g = g.__func__
    sig = inspect.signature(g, follow_wrapped=False)
    probe = getattr(g, '__probe__', None)
    if probe is not None:
        loc = probe(*(pre + tuple(pargs) + tuple(args)), **dict(pkw, **kw))      # raises TypeError exactly when the call would
        named, epos, ekw = {}, [], {}
        for name, p in sig.parameters.items():
            if p.kind == p.VAR_POSITIONAL: epos = list(loc[name])
            elif p.kind == p.VAR_KEYWORD: ekw = dict(loc[name])
            else: named[name] = loc[name]
        if not any(p.kind == p.POSITIONAL_ONLY for p in sig.parameters.values()):
            ba = sig.bind(*(pre + tuple(pargs) + tuple(args)), **dict(pkw, **kw)); ba.apply_defaults()   # second oracle, where it is right
            assert all(ba.arguments[n] is named[n] or ba.arguments[n] == named[n] for n in named), (ba.arguments, named)
        return named, epos, ekw
    ba = sig.bind(*(pre + tuple(pargs) + tuple(args)), **dict(pkw, **kw))
    ba.apply_defaults()
    named, epos, ekw = {}, [], {}
    for name, p in sig.parameters.items():
        if p.kind == p.VAR_POSITIONAL: epos = list(ba.arguments.get(name, ()))
        elif p.kind == p.VAR_KEYWORD: ekw = dict(ba.arguments.get(name, {}))
        else: named[name] = ba.arguments[name]
    return named, epos, ekw
