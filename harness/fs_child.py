"""child interpreter of suites `fs` (C13) and `sched` (C14).
usage: fs_child.py <job.json>   -> writes <job>.out.json  (unless killed)

role `run`  : build the prior contents (ungated), then run one archive operation with every mutating
              file-system call gated.  The gate logs the call; with `kill_at = i` the process dies
              (os._exit) *before* its i-th gated call; with `torn = true` and the i-th call a write, half of the
              bytes are written first.
role `read` : a fresh process opens the archive and reports what it sees."""
import sys, os, json, pickle, traceback, builtins, io

LOG = []
KILL_AT = None
TORN = False
ROOT = None
_real = {}


def _rel(p):
    p = os.path.abspath(p)
    r = os.path.abspath(ROOT)
    if p == r: return '.'
    if p.startswith(r + os.sep): return p[len(r) + 1:]
    return None


def gate(kind, path, data=None, extra=None):
    """called before a mutating call; returns normally if the call may proceed"""
    rel = _rel(path)
    if rel is None: return
    idx = len(LOG)
    LOG.append([kind, rel] + ([_rel(extra)] if extra is not None else []))
    if KILL_AT is not None and idx == KILL_AT:
        if TORN and kind == 'write' and data is not None:
            f, payload = data
            f.write(payload[:max(1, len(payload) // 2)]); os.fsync(f.fileno())
        _flush_log(killed=True)
        os._exit(137)


def _flush_log(killed=False):
    with _real['open'](JOBFILE + '.log.json', 'w') as f:
        json.dump(dict(log=LOG, killed=killed), f)


class GatedFile:
    """buffers like a BufferedWriter on a small payload: creation at open, one write + close at close.
    The descriptor is opened at creation and kept, so a file renamed meanwhile still receives the data."""
    def __init__(self, path, mode, **kw):
        self.path = path; self.mode = mode; self.buf = []; self.closed = False
        gate('creat', path)
        self.f = _real['open'](path, 'wb', buffering=0)
    def write(self, data):
        if isinstance(data, str): data = data.encode()
        self.buf.append(bytes(data)); return len(data)
    def flush(self): pass
    def close(self):
        if self.closed: return
        self.closed = True
        data = b''.join(self.buf)
        try: now = os.readlink('/proc/self/fd/%d' % self.f.fileno())       # the file may have been renamed since it was created
        except OSError: now = self.path
        if now.endswith(' (deleted)'): now = self.path
        gate('write', now, (self.f, data))
        self.f.write(data); os.fsync(self.f.fileno())
        gate('close', now)
        self.f.close()
    def __enter__(self): return self
    def __exit__(self, *a): self.close()
    def __del__(self):
        try: self.close()
        except Exception: pass
    def fileno(self): raise io.UnsupportedOperation('fileno')
    def tell(self): return sum(map(len, self.buf))
    def seekable(self): return False
    def writable(self): return True
    def readable(self): return False


def install():
    _real.update(open=builtins.open, mkdir=os.mkdir, rename=os.rename, replace=os.replace, unlink=os.unlink,
                 remove=os.remove, rmdir=os.rmdir)
    def g_open(file, mode='r', *a, **kw):
        if isinstance(file, (str, bytes, os.PathLike)) and any(c in mode for c in 'wax') and _rel(os.fspath(file)) is not None:
            return GatedFile(os.fspath(file), mode)
        return _real['open'](file, mode, *a, **kw)
    def resolve(path, dir_fd):
        if dir_fd is not None: return os.path.join(os.readlink('/proc/self/fd/%d' % dir_fd), os.fspath(path))
        return os.fspath(path)
    def g_mkdir(path, mode=0o777, *, dir_fd=None):
        gate('mkdir', resolve(path, dir_fd)); return _real['mkdir'](path, mode, dir_fd=dir_fd)
    def g_unlink(path, *, dir_fd=None):
        gate('unlink', resolve(path, dir_fd)); return _real['unlink'](path, dir_fd=dir_fd)
    def g_remove(path, *, dir_fd=None):
        gate('unlink', resolve(path, dir_fd)); return _real['remove'](path, dir_fd=dir_fd)
    def g_rmdir(path, *, dir_fd=None):
        gate('rmdir', resolve(path, dir_fd)); return _real['rmdir'](path, dir_fd=dir_fd)
    def g_rename(src, dst, *, src_dir_fd=None, dst_dir_fd=None):
        gate('rename', resolve(src, src_dir_fd), None, resolve(dst, dst_dir_fd))
        return _real['rename'](src, dst, src_dir_fd=src_dir_fd, dst_dir_fd=dst_dir_fd)
    def g_replace(src, dst, *, src_dir_fd=None, dst_dir_fd=None):
        gate('rename', resolve(src, src_dir_fd), None, resolve(dst, dst_dir_fd))
        return _real['replace'](src, dst, src_dir_fd=src_dir_fd, dst_dir_fd=dst_dir_fd)
    builtins.open = g_open; io.open = g_open
    os.mkdir = g_mkdir; os.unlink = g_unlink; os.remove = g_remove; os.rmdir = g_rmdir; os.rename = g_rename; os.replace = g_replace


def open_archive(cfg, loc, cached=False):
    import klepto.archives as ka
    kind, opts = cfg['kind'], dict(cfg['opts'])
    if kind == 'file': return ka.file_archive(loc, cached=cached, **opts)
    if kind == 'dir': return ka.dir_archive(loc, cached=cached, **opts)
    if kind == 'sql': return ka.sqltable_archive(loc, cached=cached)
    raise ValueError(kind)


def raw_archive(cfg, loc):
    """the archive class itself, without the factory's update(dict) on open"""
    import klepto._archives as k_
    kind, opts = cfg['kind'], dict(cfg['opts'])
    if kind == 'file': return k_.file_archive(loc, **opts)
    if kind == 'dir': return k_.dir_archive(loc, **opts)
    if kind == 'sql':
        db, table = k_._sqlname(loc)
        return k_.sqltable_archive(db, table)


def do_op(cfg, loc, op, a=None):
    kind = op[0]
    if kind == 'open':                       # merely opening an existing archive (the factory, as a user does)
        open_archive(cfg, loc, cached=op[1]); return
    if kind == 'dump':                       # dump from a cache
        from klepto.archives import cache as kcache
        c = kcache(archive=a if a is not None else raw_archive(cfg, loc))
        for k, v in op[1]: c[k] = v
        install_now()
        c.dump(); return
    a = a if a is not None else raw_archive(cfg, loc)
    install_now()
    if kind == 'setitem': a[op[1]] = op[2]
    elif kind == 'delitem': del a[op[1]]
    elif kind == 'pop': a.pop(op[1], None)
    elif kind == 'update': a.update(op[1])
    elif kind == 'clear': a.clear()
    elif kind == 'popitem': a.popitem()
    elif kind == 'setdefault': a.setdefault(op[1], op[2])
    elif kind == 'popkeys': a.popkeys(op[1], None)
    else: raise ValueError(kind)


_installed = [False]
NOGATE = [False]
def install_now():
    if NOGATE[0]: return
    if not _installed[0]:
        install(); _installed[0] = True


def run(job):
    global KILL_AT, TORN, ROOT
    cfg, loc = job['cfg'], job['loc']
    ROOT = job['root']
    prior = pickle.loads(bytes.fromhex(job['prior']))
    op = pickle.loads(bytes.fromhex(job['op']))
    NOGATE[0] = bool(job.get('nogate'))
    a = raw_archive(cfg, loc)
    if not job.get('skip_prior'):
        for k, v in prior: a[k] = v
    if cfg.get('symlink') and cfg['kind'] == 'file' and os.path.lexists(loc) and not os.path.islink(loc):
        # the archive's path is a symbolic link to the file (a shared location linked into a project directory)
        real = os.path.join(os.path.dirname(loc), 'real_' + os.path.basename(loc))          # (same extension: source archives are imported by name)
        os.rename(loc, real); os.symlink(os.path.basename(real), loc)
    if op is None: return dict(log=[], exc=None)
    KILL_AT = job.get('kill_at'); TORN = job.get('torn', False)
    exc = None
    try:
        if op[0] == 'open':
            install_now(); do_op(cfg, loc, op)
        else:
            do_op(cfg, loc, op, a if op[0] != 'dump' else a)
    except Exception as e:
        exc = '%s: %s' % (type(e).__name__, e)
    _flush_log()
    return dict(log=LOG, exc=exc)


def read(job):
    from pcanon import canon_items, kcanon
    cfg, loc = job['cfg'], job['loc']
    out = {}
    try:
        a = open_archive(cfg, loc, cached=False)
        try: out['len'] = len(a)
        except Exception as e: out['len'] = 'EXC:%s' % type(e).__name__
        try: out['keys'] = sorted(kcanon(k) for k in a.keys())
        except Exception as e: out['keys'] = 'EXC:%s' % type(e).__name__
        try: out['asdict'] = canon_items(a.__asdict__())
        except Exception as e: out['asdict'] = 'EXC:%s:%s' % (type(e).__name__, str(e)[:80])
        try: out['items'] = canon_items(dict(a.items()))
        except Exception as e: out['items'] = 'EXC:%s' % type(e).__name__
    except Exception as e:
        out['open'] = 'EXC:%s:%s' % (type(e).__name__, str(e)[:120])
    try:
        c = open_archive(cfg, loc, cached=True); c.load()
        out['load'] = canon_items(dict(c))
    except Exception as e:
        out['load'] = 'EXC:%s' % type(e).__name__
    return out


def main():
    global JOBFILE
    JOBFILE = sys.argv[1]
    job = json.load(open(JOBFILE))
    try:
        out = dict(run=run, read=read)[job['role']](job)
    except Exception:
        out = dict(error=traceback.format_exc()[-2000:])
    with (_real.get('open') or builtins.open)(JOBFILE + '.out.json', 'w') as f: json.dump(out, f)


if __name__ == '__main__':
    main()
