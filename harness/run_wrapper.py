"""suite `wrapper`: explore / replay / search / shrink (interface used by verdict.py)"""
import json, time, collections, os
from multiprocessing import Pool
from common import *
import suite_wrapper as sw
import check_wrapper as cw

NTRACES = {'quick': 480, 'thorough': 7200}
REQUIRED = {
    'C01': ['hit', 'load', 'miss', 'evict'], 'C02': ['hit', 'load', 'miss', 'evict'],
    'C05': ['overflow', 'purge', 'loadAll'], 'C06': ['evict', 'hit', 'compaction'], 'C07': ['evict', 'purge'],
    'C15': ['hit', 'load', 'miss', 'clear', 'info'], 'C16': ['raise', 'keyfail'], 'C18': ['lookup', 'key'],
}
RULE = ('seeded traces over 12 decorator classes x maxsize x purge x 10 backends x 8 keymaps, 20-400 ops '
        '(calls + load/dump/clear/toggle/archive/lookup/key/ext writes); a trace is non-trivial if it '
        'exercised eviction, purge, archive load, a raising call or a key failure; distinct = distinct (cfg, ops)')


def _model_outs(trs):
    lines = []
    for tr in trs: lines += [json.dumps(l) for l in tr['lines']]
    outs = run_driver(lines) if lines else []
    pos = 0
    res = []
    for tr in trs:
        n = len(tr['lines'])
        if n and outs[pos] != 'ok':
            raise NoVerdict('driver rejected cfg line %r: %r' % (tr['lines'][0], outs[pos]))
        res.append(outs[pos + 1:pos + n]); pos += n
    return res


def _analyse(prop, trs):
    """returns (divergences, violations, tags, nontrivial count)"""
    outs = _model_outs(trs)
    divs, viols = [], []
    tags = collections.Counter()
    nontrivial = set()
    for tr, mo in zip(trs, outs):
        if tr['cfg']['algo'] == 'lru':
            # a hit normally lengthens the model's use log by one: a shorter log means compaction ran
            prev = 0
            for o in mo:
                q = len(o.get('queue', []))
                if isinstance(o.get('out'), dict) and o['out'].get('evals') == 0 and 'ret' in o['out'] and q <= prev and prev > 0:
                    tags['compaction'] += 1
                prev = q
        res = cw.compare_trace(tr, mo, [prop])
        if res[prop]:
            divs.append(dict(detail=res[prop], cfg=tr['cfg'], ops=tr['ops']))
        v, tg = cw.monitor_trace(tr)
        tags.update(tg)
        if any(tg.get(t) for t in ('evict', 'purge', 'load', 'raise', 'keyfail')):
            nontrivial.add(hashlib.sha256(json.dumps([tr['cfg'], tr['ops']], sort_keys=True).encode()).hexdigest())
        if prop in ('C16', 'C18'):
            tv, ndrop = cw.twin_violations(prop, tr)
            v = v + tv
            if ndrop: tags['twin-run'] += 1
        for x in v:
            if x['prop'] in (prop, '*'):
                viols.append(dict(x, prop=prop, cfg=tr['cfg'], ops=tr['ops']))
    return divs, viols, tags, len(nontrivial)


def _run_many(jobs):
    with Pool(NPROC) as p:
        trs = p.map(sw.work, jobs, chunksize=4)
    return trs


def corpus_traces():
    d = os.path.join(VERIF, 'corpus')
    res = []
    if os.path.isdir(d):
        for fn in sorted(os.listdir(d)):
            if fn.endswith('.json'):
                try: obj = json.load(open(os.path.join(d, fn)))
                except Exception: continue
                if obj.get('suite') == 'wrapper' and 'ops' in obj and not obj.get('probe'):
                    res.append(obj)
    return res


def dispatch_probe():
    """C05, last clause ("... however maxsize is passed"): every bounded decorator class of both modules, with maxsize 0 / None / n given
    POSITIONALLY, must behave as when it is given by keyword (0 keeps nothing resident, None never evicts, n bounds the cache)"""
    import klepto, klepto.safe
    viols = []; n = 0
    for mod in (klepto, klepto.safe):
        for algo in ('lfu', 'lru', 'mru', 'rr'):
            C = getattr(mod, algo + '_cache')
            for ms in (0, None, 1, 3):
                for how in ('positional', 'keyword', 'positional+keywords'):
                    n += 1
                    name = '%s.%s_cache(%s)' % (mod.__name__, algo, {'positional': repr(ms), 'keyword': 'maxsize=%r' % (ms,), 'positional+keywords': '%r, purge=False' % (ms,)}[how])
                    try:
                        dec = C(ms) if how == 'positional' else (C(maxsize=ms) if how == 'keyword' else C(ms, purge=False))
                        f = dec(lambda x: x * 2)
                        sizes = []
                        for x in (1, 2, 3, 1, 4, 5, 6):
                            assert f(x) == x * 2
                            sizes.append(len(f.__cache__()))
                        info = f.info()
                        if ms == 0: ok = max(sizes) == 0 and info.maxsize == 0
                        elif ms is None: ok = sizes[-1] == 6 and info.maxsize is None
                        else: ok = max(sizes) <= ms and info.maxsize == ms
                        if not ok:
                            viols.append(dict(prop='C05', sig=dict(kind='maxsize-dispatch', how=how, maxsize=repr(ms)), probe='dispatch', i=0, cfg=dict(decorator=name), ops=[],
                                              msg='%s: sizes after each of seven calls %r, info %r' % (name, sizes, tuple(info))))
                    except Exception as e:
                        viols.append(dict(prop='C05', sig=dict(kind='maxsize-dispatch', how=how, maxsize=repr(ms)), probe='dispatch', i=0, cfg=dict(decorator=name), ops=[],
                                          msg='%s raised %s: %s' % (name, type(e).__name__, str(e)[:80])))
    return viols, n


def explore(prop, tier):
    n = NTRACES[tier]
    trs = [sw.run_trace(o['cfg'], o['ops']) for o in corpus_traces()]
    trs += _run_many([(tier, i) for i in range(n)])
    errors = [t['err'] for t in trs if t['err']]
    trs = [t for t in trs if not t['err']]
    divs, viols, tags, nontriv = _analyse(prop, trs)
    if prop == 'C05':
        pv, pn = dispatch_probe()
        viols += pv; tags['maxsize-dispatch-probe'] = pn
    hist = collections.Counter()
    for t in trs:
        c = t['cfg']
        hist['%s%s' % ('safe.' if c['safe'] else '', c['algo'])] += 1
        hist['backend=' + c['backend']] += 1
        hist['keymap=' + c['keymap']] += 1
    samples = [dict(cfg=t['cfg'], ops=t['ops'][:12], n_ops=len(t['ops'])) for t in trs[:2]]
    return dict(suite='wrapper', traces=len(trs), evaluations=sum(len(t['recs']) for t in trs),
                distinct_nontrivial=nontriv, tags=dict(tags), divergences=divs, violations=viols,
                samples=samples, errors=errors, rule=RULE, required_tags=REQUIRED.get(prop, []),
                config_histogram=dict(hist))


def replay(prop, obj):
    if obj.get('probe') == 'dispatch':
        pv, _ = dispatch_probe()
        return dict(violations=[dict(prop=v['prop'], sig=v['sig'], msg=v['msg'], i=0) for v in pv if v['cfg'] == obj['cfg']], divergence=None)
    tr = sw.run_trace(obj['cfg'], obj['ops'])
    if tr['err']:
        raise NoVerdict('replay failed to run: ' + tr['err'])
    divs, viols, tags, _ = _analyse(prop, [tr])
    return dict(violations=[dict(prop=v['prop'], sig=v['sig'], msg=v['msg'], i=v['i']) for v in viols],
                divergence=divs[0]['detail'] if divs else None)


def _still_fails(prop, cfg, sig):
    def f(ops):
        tr = sw.run_trace(cfg, ops)
        if tr['err']: return False
        v, _ = cw.monitor_trace(tr)
        if prop in ('C16', 'C18'):
            v = v + cw.twin_violations(prop, tr)[0]
        return any(x['prop'] in (prop, '*') and x['sig'] == sig for x in v)
    return f


def shrink_and_save(prop, v):
    if v.get('probe'):
        return write_replay(prop, 'violation', dict(suite='wrapper', property=prop, probe=v['probe'], cfg=v['cfg'], signature=v['sig'], message=v['msg'],
                                                     how_to_replay='cd /verif && ./check %s --replay <this file>' % prop))
    cfg, ops = v['cfg'], v['ops'][:v['i'] + 1]
    fails = _still_fails(prop, cfg, v['sig'])
    if fails(ops):
        ops = ddmin(ops, fails, max_tests=150)
    else:
        ops = v['ops']
    tr = sw.run_trace(cfg, ops)
    obj = dict(suite='wrapper', property=prop, cfg=cfg, ops=ops, signature=v['sig'], message=v['msg'],
               observed=[dict(op=r['op'], out=r['out'], mem=r['after']['mem'], arch=r['after']['arch'], stats=r['after']['stats']) for r in tr['recs']][-8:],
               keys=tr.get('keys'), how_to_replay='cd /verif && ./check %s --replay <this file>' % prop)
    return write_replay(prop, 'violation', obj)


def search(prop, tier, divergences, budget_s, known):
    """correspondence or proof broke without a monitor hit: look for a failing input near the
    diverging traces (same decorator / backend, other seeds, longer histories)"""
    import verdict
    t0 = time.time()
    base = [d for d in divergences if d.get('suite') == 'wrapper']
    rnd = 0
    while time.time() - t0 < budget_s:
        jobs = []
        for j in range(NPROC * 4):
            jobs.append(('search-%s-%d' % (tier, rnd), j))
        rnd += 1
        trs = []
        with Pool(NPROC) as p:
            trs = p.map(_search_work, [(job, base[j % len(base)]['cfg'] if base else None) for j, job in enumerate(jobs)])
        for tr in trs:
            if tr['err']: continue
            v, _ = cw.monitor_trace(tr)
            if prop in ('C16', 'C18'):
                v = v + cw.twin_violations(prop, tr)[0]
            for x in v:
                if x['prop'] == prop and not verdict.match_known(prop, x['sig'], known):
                    return shrink_and_save(prop, dict(x, cfg=tr['cfg'], ops=tr['ops']))
    return None


def _search_work(a):
    (tier, idx), basecfg = a
    r = rng('wrapper-search', tier, idx)
    cfg = sw.gen_cfg(r, 'quick', idx)
    if basecfg is not None and r.random() < 0.8:
        for k in ('algo', 'safe', 'backend', 'keymap', 'purge'):
            if r.random() < 0.8: cfg[k] = basecfg[k]
        if r.random() < 0.5: cfg['maxsize'] = basecfg['maxsize']
        if cfg['backend'] in sw.DISK_BACKENDS and cfg['keymap'] not in ('string', 'md5', 'string_nonflat'):
            cfg['keymap'] = 'string'
    ops = sw.gen_ops(r, cfg)
    return sw.run_trace(cfg, ops)
