"""child interpreter of suite `session` (C17): run with its own PYTHONHASHSEED.
usage: session_child.py <job.json>   -> prints one JSON object"""
import sys, json, os, random

EVALS = []
def f1(x, y=2, *args, **kw): EVALS.append(1); return repr(('f1', x, y, args, sorted(kw.items())))
def f2(alpha, beta, gamma=0.5): EVALS.append(1); return repr(('f2', alpha, beta, gamma))
def f3(value, factor): EVALS.append(1); return repr(('f3', type(value).__name__, type(factor).__name__))
class K(object):
    def m(self, u, v=1, **kw): return ('m', u, v, sorted(kw.items()))
def f4(alpha, beta, gamma, delta, z): EVALS.append(1); return repr(('f4', z))
FUNCS = {'f1': f1, 'f2': f2, 'f3': f3, 'f4': f4}

def make_km(kind, opts):
    from klepto.keymaps import keymap, stringmap, picklemap, hashmap, SENTINEL
    o = dict(opts)
    if o.pop('sentinel', False): o['sentinel'] = SENTINEL
    if kind == 'raw': return keymap(**o)
    if kind == 'string': return stringmap(**o)
    if kind == 'stringr': return stringmap(encoding='repr', **o)
    if kind == 'stringu': return stringmap(encoding='utf_8', **o)
    if kind == 'pickle': return picklemap(**o)
    if kind == 'picklep': return picklemap(serializer='pickle', **o)
    if kind == 'dill2': return picklemap(serializer='dill', protocol=2, **o)
    if kind == 'hash': return hashmap(**o)
    return hashmap(algorithm=kind, **o)

def make_archive(kind, path):
    import klepto.archives as ka
    if kind == 'file': return ka.file_archive(path + '.pkl', cached=False)
    if kind == 'dir': return ka.dir_archive(path + '_d', cached=False)
    if kind == 'sql': return ka.sqltable_archive('sqlite:///' + path + '.db', cached=False)
    raise ValueError(kind)

from decimal import Decimal
from fractions import Fraction

def build(call):
    """a call description -> (args, kwargs); kwargs in the order given *for this session*"""
    return [eval(a) for a in call['args']], dict((k, eval(v)) for k, v in call['kw'])

def main():
    job = json.load(open(sys.argv[1]))
    # perturb process state: interned strings, import order, a warmed-up random module
    for i in range(job.get('noise', 0)): sys.intern('noise_%d_%d' % (i, os.getpid()))
    if job.get('noise', 0) % 2:
        # ... and its arithmetic context: this process rounds decimals half-up with a short precision (keys do not do arithmetic on arguments)
        import decimal, fractions
        decimal.getcontext().rounding = decimal.ROUND_HALF_UP; decimal.getcontext().prec = 6
    import klepto, klepto.safe
    from klepto._inspect import _keygen
    from klepto.archives import cache as kcache
    out = dict(hashseed=os.environ.get('PYTHONHASHSEED'), keys=[], calls=[])
    if job['mode'] == 'keys':
        work = [(ii, ci) for ii, item in enumerate(job['items']) for ci in range(len(item['calls']))]
        order = list(range(len(work)))
        if job.get('shuffle'): random.Random(job['shuffle']).shuffle(order)
        res = [None] * len(work)
        kms = {}
        for oi in order:
            ii, ci = work[oi]
            item = job['items'][ii]
            f = FUNCS[item['func']] if item['func'] != 'm' else K().m
            if ii not in kms:
                kms[ii] = make_km(item['km'][0], item['km'][1])
                if job.get('noise', 0) % 2:
                    # this session has first seen an argument no keymap can encode (what a safe decorator shrugs off): it must leave no trace
                    try: kms[ii]((i for i in ()), lambda: 0)
                    except Exception: pass
            km = kms[ii]
            ign = tuple(item['ignore'])
            a, k = build(item['calls'][ci])
            try:
                if item.get('tol') is not None:
                    # the decorators' own first step: round the arguments of the call
                    from klepto.rounding import deep_round, simple_round
                    ra = (deep_round if item.get('deep') else simple_round)(item['tol'])(lambda *a_, **k_: (a_, k_))
                    a, k = ra(*a, **k)
                ua, uk = _keygen(f, ign, *a, **k)
                key = km(*ua, **uk)
                res[oi] = repr(key)
            except Exception as e:
                res[oi] = 'EXC:' + type(e).__name__
        out['keys'] = res
    else:
        item = job['item']
        f = FUNCS[item['func']]
        km = make_km(item['km'][0], item['km'][1])
        mod = klepto.safe if item['safe'] else klepto
        D = getattr(mod, item['algo'] + '_cache')
        arch = make_archive(item['archive'], job['path'])
        kw = dict(cache=kcache(archive=arch), keymap=km, ignore=tuple(item['ignore']) or None)
        if item['algo'] not in ('no', 'inf'): kw['maxsize'] = item['maxsize']
        evals = EVALS
        d = D(**kw)(f)
        for call in item['calls']:
            a, k = build(call)
            n0 = len(evals)
            r = d(*a, **k)
            out['calls'].append(dict(evals=len(evals) - n0, result=repr(r)))
        d.dump()
        i = d.info()
        out['info'] = [i.hit, i.miss, i.load]
        out['archive_keys'] = sorted(repr(x) for x in arch.keys())
    print(json.dumps(out))

if __name__ == '__main__':
    main()
