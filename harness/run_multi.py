"""suite `multi` (monitor only; C01 C02 C05 C07 C15): situations the wrapper model M3 does not express because they are not one
atomic call on one cache:

  recur  - the memoized function calls ITSELF through the wrapper (re-entrant calls: the bookkeeping of the outer call is
           suspended while inner calls store, evict and count);
  twin   - two instances of one decorator (two caches) over ONE on-disk archive, used alternately in one process;
  unser  - an eviction victim that the archive cannot serialise: the failing write-back must not damage what is archived.
  names  - text arguments whose archive file names are close relatives (composed / decomposed accents, compatibility characters, a common
           prefix longer than a file name, trailing blank / dot, letter case) over a dir_archive, small cache, two sessions: every
           call returns its own result.
  chdir  - the archive is opened by a RELATIVE name and the program changes its current directory while the function is in use: nothing
           that reached the archive is evaluated again, no second store appears, a pickled handle still addresses the same store.
  hashraises - a `safe` decorator with the raw keymap and an argument whose __hash__ raises (TypeError, KeyError, ValueError, RuntimeError).
  jsonpurge - purge=True over a JSON file archive with non-text keys (the archive hands keys back as text): the memory bound still holds.
  redecorate - a second decorator (fresh function object) over the SAME cache object while the first one's results are still only in memory.
  rrlookup - rr_cache over a bare archive used as the cache: lookup()/key()/info() between calls do not change what is evicted.
  stacked - a klepto cache over a klepto-cached function, and over a function with attributes named like the interface: the outer
           wrapper's info()/clear()/__cache__() are its own.
  bigvalue - results whose pickle exceeds a megabyte, evicted into a compressing dir_archive: archived with the same value.
  reuse  - ONE decorator object applied to two functions (`memo = lru_cache(maxsize=3); f = memo(f0); g = memo(g0)`): each
           function's results are its own, each has its own account in info(), clear() of one leaves the other's counters.

The monitors are the properties' own words (results equal the function's, size <= maxsize after every top-level call, every key
evaluated once while a lossless archive is attached, hit+miss+load = number of calls, nothing evaluated is lost). There is no Lean
side to these scenarios: they widen the correspondence of the *assumption* under which M3 is a model (calls are atomic, one cache
per archive), and are labelled as such in the evidence."""
import os, sys, json, time, random, collections, traceback
from multiprocessing import Pool
from common import *

NCASES = {'quick': 360, 'thorough': 3600}
RULE = ('monitor-only scenarios outside the atomic-call model: (recur) recursive memoized functions on all 12 decorators x purge x archive, '
        '(twin) two decorator instances alternating on one file/dir/sqlite archive, (unser) an unserialisable eviction victim, (reuse) one decorator object applied to two functions; '
        'non-trivial = every scenario (each has nested calls, shared storage or a failing write-back)')
ALGOS = ['lru', 'lfu', 'mru', 'rr', 'inf', 'no']


NAME_ARGS = ['caf\u00e9', 'cafe\u0301', '\u00c5ngstr\u00f6m', 'A\u030angstro\u0308m', 'P' * 300 + 'x', 'P' * 300 + 'y', 'P' * 252 + 'q', 'P' * 252 + 'r',
             'name ', 'name', 'name.', 'Name', '\u212b', '\u00c5', 'data/run1.csv', 'data/run2.csv', 'http://host/x', 'data']


def ref_fib(n, memo={}):
    if n not in memo: memo[n] = n if n < 2 else ref_fib(n - 1) + ref_fib(n - 2)
    return memo[n]


def make_archive(kind, tmp, name):
    import klepto.archives as ka
    if kind == 'dict': return ka.dict_archive(name, cached=False)
    if kind == 'file': return ka.file_archive(os.path.join(tmp, name + '.pkl'), cached=False)
    if kind == 'filejson': return ka.file_archive(os.path.join(tmp, name + '.json'), cached=False, protocol='json')
    if kind == 'dir': return ka.dir_archive(os.path.join(tmp, name + '_d'), cached=False)
    if kind == 'sql': return ka.sqltable_archive('sqlite:///%s' % os.path.join(tmp, name + '.db'), cached=False)
    raise ValueError(kind)


def gen(tier, idx):
    r = rng('multi', tier, idx)
    scen = ['recur', 'recur', 'twin', 'unser'][idx % 4]
    if idx % 8 == 1: scen = 'reuse'
    if idx % 8 == 5: scen = 'names'
    if idx % 8 == 3 or idx % 16 == 12: scen = 'chdir'
    if idx % 16 == 7: scen = 'hashraises'
    if idx % 32 == 11: scen = 'jsonpurge'
    if idx % 32 == 27: scen = 'redecorate'
    if idx % 64 == 19: scen = 'rrlookup'
    if idx % 64 == 51: scen = 'stacked'
    if idx % 64 == 35: scen = 'bigvalue'
    algo = ALGOS[(idx // 4) % 6]; safe = (idx // 24) % 2 == 1
    cfg = dict(scen=scen, algo=algo, safe=safe, seed=r.randrange(10 ** 6), maxsize=r.choice([1, 2, 3, 3, 5]), purge=r.random() < 0.35)
    if scen == 'reuse': cfg.update(algo=ALGOS[(idx // 8) % 6], safe=(idx // 48) % 2 == 1)
    if scen == 'names':
        # text arguments whose file names are close relatives: composed / decomposed accents, a long common prefix beyond what a file
        # name can hold, trailing blanks and dots, letter case - over a dir_archive (one directory per key), small cache, two sessions
        cfg.update(algo=['lru', 'lfu', 'mru', 'rr', 'no'][(idx // 8) % 5], safe=(idx // 40) % 2 == 1, arch='dir', purge=False, maxsize=r.choice([1, 2]),
                   keymap=['string', 'raw', 'stringr'][(idx // 8) % 3], calls=[r.randrange(len(NAME_ARGS)) for _ in range(24)])
    if scen == 'names': pass
    elif scen == 'bigvalue':
        # results whose pickle is larger than a megabyte, evicted into a dir_archive that writes its entries with klepto's own (compressing /
        # memory-mapping) pickler: what left memory is in the archive WITH THE SAME VALUE
        cfg.update(algo=['lru', 'lfu', 'mru', 'rr', 'no'][(idx // 64) % 5], safe=(idx // 64) % 2 == 1, arch='dirz', purge=(idx // 128) % 2 == 1, maxsize=1,
                   opts=[dict(compression=3), dict(compression=9), dict(fast=True)][(idx // 64) % 3], calls=[r.randrange(3) for _ in range(8)])
    elif scen == 'stacked':
        # a klepto cache over a klepto cache (a small in-memory one over an archived one), and a function that carries attributes of its own
        # named like the wrapper's interface: the OUTER wrapper's info / clear / lookup / __cache__ are the outer wrapper's
        cfg.update(algo=['lru', 'lfu', 'mru', 'rr', 'inf', 'no'][(idx // 64) % 6], safe=(idx // 64) % 2 == 1, arch='none', purge=False, maxsize=2,
                   inner=['inf', 'lru', 'no'][(idx // 64) % 3], calls=[r.randrange(5) for _ in range(12)])
    elif scen == 'rrlookup':
        # random replacement draws its victims from the global `random` stream: a lookup()/key()/info() in between - whatever the cache object
        # has to do to answer it (an archive used directly as the cache reads files, imports modules) - must not draw from that stream
        cfg.update(algo='rr', safe=(idx // 64) % 2 == 1, arch=['baredirsrc', 'barefilesrc', 'baredir', 'dict', 'barefile'][(idx // 64) % 5], purge=False, maxsize=r.choice([2, 3]),
                   calls=[r.randrange(8) for _ in range(24)], looks=[r.randrange(8) for _ in range(24)])
    elif scen == 'redecorate':
        # a second decorator (a fresh function object) is put over the SAME cache object while results of the first are still only in memory
        cfg.update(algo=['lfu', 'lru', 'mru', 'rr', 'inf'][(idx // 32) % 5], safe=(idx // 160) % 2 == 1, arch=['dict', 'file', 'dir'][(idx // 32) % 3], purge=False,
                   maxsize=r.choice([2, 3]), calls=[r.randrange(8) for _ in range(10)], calls2=[r.randrange(8) for _ in range(24)])
    elif scen == 'jsonpurge':
        # purge=True over an archive that does not hand keys back as it got them (a JSON file turns int keys into text): whatever that does
        # to what can be found again (F7), the memory bound is the cache's own business
        cfg.update(algo=['lru', 'lfu', 'mru', 'rr'][(idx // 32) % 4], safe=(idx // 128) % 2 == 1, arch='filejson', purge=True, maxsize=r.choice([1, 2, 3]),
                   keymap=['hash', 'string'][(idx // 256) % 2], calls=[r.randrange(12) for _ in range(30)])
    elif scen == 'hashraises':
        # a `safe` decorator, the raw keymap, an argument whose __hash__ raises (not only TypeError: any exception): the function's result is returned
        cfg.update(algo=ALGOS[(idx // 16) % 6], safe=True, arch=['none', 'dict'][(idx // 96) % 2], purge=False,
                   exc=['TypeError', 'KeyError', 'ValueError', 'RuntimeError'][(idx // 16) % 4], calls=[r.randrange(4) for _ in range(6)])
    elif scen == 'chdir':
        # the archive is named RELATIVE to the current directory, and the program changes directory while the function is in use
        j = idx // 16
        cfg.update(algo=['lru', 'lfu', 'mru', 'rr', 'inf', 'no'][(j // 2) % 6], safe=(j // 5) % 2 == 1, purge=(j // 3) % 2 == 1, maxsize=r.choice([1, 2, 3]),
                   arch=['file', 'filejson', 'filesrc', 'dir', 'sql'][j % 5], later=j % 2 == 1,
                   calls=[r.randrange(6) for _ in range(16)], calls2=[r.randrange(6) for _ in range(16)])
    elif scen == 'recur':
        cfg.update(arch=r.choice(['none', 'dict', 'dict', 'file']), tops=[r.randrange(6, 15) for _ in range(r.choice([2, 3, 4]))])
    elif scen == 'reuse':
        # the two functions are called on disjoint arguments first (their accounts must be separate whatever else is shared),
        # then on common ones (their results must be their own)
        cfg.update(arch='none', purge=False, calls=[[r.randrange(2), r.randrange(6)] for _ in range(r.choice([10, 20]))],
                   common=[[r.randrange(2), r.randrange(4)] for _ in range(8)], keepstats=r.random() < .5)
    elif scen == 'twin':
        if algo in ('inf', 'no'): cfg['algo'] = r.choice(['lru', 'lfu', 'mru', 'rr'])
        cfg.update(arch=r.choice(['file', 'dir', 'sql']), purge=False, calls=[[r.randrange(2), r.randrange(12)] for _ in range(r.choice([20, 40]))])
    else:
        if algo in ('inf', 'no'): cfg['algo'] = r.choice(['lru', 'lfu', 'mru', 'rr'])
        cfg.update(arch=r.choice(['filejson', 'file', 'sql']), purge=False, bad=r.randrange(3, 8), calls=[r.randrange(10) for _ in range(30)])
        # (fixed strata: every bounded algorithm meets every archive; the database table RAISES on a value it cannot bind, the files swallow it)
        cfg.update(algo=['lru', 'lfu', 'mru', 'rr'][(idx // 16) % 4], arch=['sql', 'file', 'filejson'][(idx // 64) % 3], maxsize=[1, 2, 3][(idx // 16) % 3],
                   purge=(idx // 64) % 2 == 1)        # (with purge=True the overflow writes EVERYTHING back: a write-back that raises half-way must not empty the memory)
    return cfg


def decorator(cfg):
    import klepto, klepto.safe
    return getattr(klepto.safe if cfg['safe'] else klepto, cfg['algo'] + '_cache')


def dkw(cfg, cache=None):
    from klepto.keymaps import stringmap
    kw = dict(keymap=stringmap())
    if cfg['algo'] not in ('inf', 'no'): kw.update(maxsize=cfg['maxsize'], purge=cfg['purge'])
    if cache is not None: kw['cache'] = cache
    return kw


def run_case(cfg):
    from klepto.archives import cache as kcache
    tmp = scratch_dir('km'); cwd = os.getcwd()
    viol = []
    def bad(prop, kind, msg, **extra):
        viol.append(dict(prop=prop, sig=dict(kind=kind, scen=cfg['scen'], algo=cfg['algo'], safe=cfg['safe'], **extra), msg='%s %s.%s_cache(maxsize=%s, purge=%s, archive=%s): %s' % (
            cfg['scen'], 'safe' if cfg['safe'] else 'klepto', cfg['algo'], cfg['maxsize'], cfg['purge'], cfg.get('arch'), msg)))
    class _Raised(object): pass
    def callf(f, *a):
        """a call of a decorated function; an exception out of it is the property's business (C01), not the harness's"""
        try: return f(*a)
        except Exception as e:
            bad('C01', 'call-raises', 'the call %r raised %s: %s' % (a, type(e).__name__, str(e)[:80]), exc=type(e).__name__)
            return _Raised
    try:
        os.chdir(tmp); random.seed(cfg['seed'])
        D = decorator(cfg); bounded = cfg['algo'] in ('lru', 'lfu', 'mru', 'rr')
        if cfg['scen'] == 'recur':
            a = None if cfg['arch'] == 'none' else make_archive(cfg['arch'], tmp, 'r')
            evals = []
            @D(**dkw(cfg, kcache(archive=a) if a is not None else None))
            def fib(n):
                evals.append(n)
                return n if n < 2 else fib(n - 1) + fib(n - 2)
            ncalls = 0
            for n in cfg['tops']:
                e0 = len(evals)
                try: got = fib(n)
                except Exception as e:
                    bad('C01', 'recursive-call-raises', 'fib(%d) raised %s: %s' % (n, type(e).__name__, str(e)[:80]), exc=type(e).__name__); break
                ncalls += 1 + 2 * sum(1 for m in evals[e0:] if m >= 2)
                if got != ref_fib(n): bad('C01', 'recursive-wrong-result', 'fib(%d) = %r, the function gives %r' % (n, got, ref_fib(n)))
                size = len(fib.__cache__())
                if bounded and size > cfg['maxsize']:
                    bad('C05', 'recursive-size-exceeds-maxsize', 'after fib(%d) the cache holds %d entries' % (n, size))
                i = fib.info()
                if i.hit + i.miss + i.load != ncalls:
                    bad('C15', 'recursive-counters-do-not-add-up', 'after %d calls (nested ones included) hit+miss+load = %d+%d+%d' % (ncalls, i.hit, i.miss, i.load))
                if i.miss != len(evals):
                    bad('C15', 'recursive-miss-is-not-evaluations', 'miss = %d but the function was evaluated %d times' % (i.miss, len(evals)))
            if a is not None and cfg['algo'] != 'no' or (a is not None and cfg['algo'] == 'no'):
                dup = [m for m, c in collections.Counter(evals).items() if c > 1]
                if dup: bad('C02', 'recursive-re-evaluation', 'with a lossless archive attached the arguments %r were evaluated more than once' % sorted(dup)[:6])
        elif cfg['scen'] == 'reuse':
            memo = D(**dkw(cfg))
            fns = [memo(lambda x: ('f', x)), memo(lambda x: ('g', x))]
            done = [0, 0]
            def stats(w): return tuple(fns[w].info())[:3]
            for phase, calls in (('disjoint', [[w, x + 100 * w] for w, x in cfg['calls']]), ('common', cfg['common'])):
                for w, x in calls:
                    other = stats(1 - w)
                    try:
                        got = fns[w](x)
                        if done[w] is not None: done[w] += 1
                        if got != ('fg'[w], x):
                            bad('C01', 'reused-decorator-wrong-result', '%s(%d) returned %r: the result of the OTHER function decorated with the same decorator object' % ('fg'[w], x, got), phase=phase)
                    except Exception as e:
                        done[w] = None        # (the wrapper's own bookkeeping raised half-way: its account is no longer checked)
                        bad('C01', 'reused-decorator-call-raises', '%s(%d) raised %s: %s' % ('fg'[w], x, type(e).__name__, str(e)[:60]), phase=phase, exc=type(e).__name__)
                    if bounded and len(fns[w].__cache__()) > cfg['maxsize']:
                        bad('C05', 'reused-decorator-size-exceeds-maxsize', 'after %s(%d) its cache holds %d entries' % ('fg'[w], x, len(fns[w].__cache__())), phase=phase)
                    if done[w] is not None and sum(stats(w)) != done[w]:
                        bad('C15', 'reused-decorator-counters-do-not-add-up', '%s completed %d calls, its info() says hit+miss+load = %r' % ('fg'[w], done[w], stats(w)), phase=phase)
                    if stats(1 - w) != other:
                        bad('C15', 'reused-decorator-call-counted-on-the-other-function', 'a call of %s moved the counters of %s from %r to %r' % ('fg'[w], 'fg'[1 - w], other, stats(1 - w)), phase=phase)
                    if len(viol) > 6: break
                if phase == 'disjoint':
                    keep = stats(0)
                    fns[1].clear(keepstats=cfg['keepstats'])
                    if stats(0) != keep:
                        bad('C15', 'reused-decorator-clear-resets-the-other-function', 'g.clear(keepstats=%r) moved the counters of f from %r to %r' % (cfg['keepstats'], keep, stats(0)))
                    if not cfg['keepstats'] and done[1] is not None: done[1] = 0
        elif cfg['scen'] == 'chdir':
            import klepto.archives as ka, dill
            os.makedirs(os.path.join(tmp, 'work')); os.makedirs(os.path.join(tmp, 'elsewhere'))
            os.chdir(os.path.join(tmp, 'work'))
            def mk():
                k_ = cfg['arch']
                if k_ == 'file': return ka.file_archive('memo.pkl', cached=False)
                if k_ == 'filejson': return ka.file_archive('memo.json', cached=False, protocol='json')
                if k_ == 'filesrc': return ka.file_archive('memo.py', cached=False, serialized=False)
                if k_ == 'dir': return ka.dir_archive('memo', cached=False)
                return ka.sqltable_archive('sqlite:///memo.db', cached=False)
            evals = []
            def g(x): evals.append(x); return 'v%d' % x
            f = D(**dkw(cfg, kcache(archive=mk())))(g)
            for x in cfg['calls']:
                if callf(f, x) not in ('v%d' % x, _Raised): bad('C01', 'chdir-wrong-result', 'g(%d) wrong before the directory change' % x)
            f.dump()
            if cfg.get('later', cfg['seed'] % 2):
                # a later session: a fresh decorator on a fresh handle that finds the store ALREADY THERE under its relative name
                f = D(**dkw(cfg, kcache(archive=mk())))(g)
                for x in cfg['calls'][:4]:
                    if callf(f, x) not in ('v%d' % x, _Raised): bad('C01', 'chdir-wrong-result', 'g(%d) wrong in the later session' % x)
            pick = dill.dumps(f.__cache__().archive) if cfg['arch'] != 'sql' else None      # (a sqlite3 connection does not pickle)
            os.chdir(os.path.join(tmp, 'elsewhere'))
            n0 = len(evals)
            for x in cfg['calls2']:
                if callf(f, x) not in ('v%d' % x, _Raised): bad('C01', 'chdir-wrong-result', 'g(%d) wrong after the directory change' % x)
            f.dump()
            again = sorted(set(x for x in evals[n0:] if x in evals[:n0]))
            if again and cfg['algo'] != 'no' or (cfg['algo'] == 'no' and again):
                bad('C02', 'chdir-re-evaluation', 'after os.chdir() the arguments %r, whose results had reached the %s archive opened as a relative name, were evaluated again' % (again, cfg['arch']), arch=cfg['arch'])
            stray = sorted(os.listdir(os.path.join(tmp, 'elsewhere')))
            if stray: bad('C04', 'chdir-second-store', 'after os.chdir() the handle wrote to a second store %r in the new current directory' % stray, arch=cfg['arch'])
            # a handle unpickled in the new directory addresses the store it was pickled from
            try:
                h = dill.loads(pick) if pick is not None else f.__cache__().archive
                want = dict(f.__cache__().archive.items()); os.chdir(os.path.join(tmp, 'work')); ref_ = dict(mk().items()); os.chdir(os.path.join(tmp, 'elsewhere'))
                if dict(h.items()) != ref_ or want != ref_:
                    bad('C04', 'chdir-unpickled-handle-other-store', 'a %s handle opened by a relative name, pickled, and unpickled after os.chdir() reads %d entries, the store holds %d (the live handle reads %d)' % (
                        cfg['arch'], len(dict(h.items())), len(ref_), len(want)), arch=cfg['arch'])
            except Exception as e:
                bad('C04', 'chdir-unpickle-raises', '%s: %s' % (type(e).__name__, str(e)[:80]), arch=cfg['arch'])
        elif cfg['scen'] == 'jsonpurge':
            from klepto.keymaps import hashmap, stringmap
            def h(x): return 'v%d' % x
            kw = dict(keymap=hashmap() if cfg['keymap'] == 'hash' else stringmap(), maxsize=cfg['maxsize'], purge=True, cache=kcache(archive=make_archive('filejson', tmp, 'jp')))
            f = D(**kw)(h)
            for x in cfg['calls']:
                got = callf(f, x)
                if got not in ('v%d' % x, _Raised): bad('C01', 'jsonpurge-wrong-result', 'h(%d) = %r' % (x, got))
                if len(f.__cache__()) > cfg['maxsize']:
                    bad('C05', 'purge-size-exceeds-maxsize', 'purge=True over a JSON file archive (%s keys): after h(%d) the cache holds %d entries' % (cfg['keymap'], x, len(f.__cache__())), keymap=cfg['keymap'])
                    break
        elif cfg['scen'] == 'bigvalue':
            import klepto.archives as ka
            def big(x): return ('%d' % x) * 1600000 if x else 'small'
            a = ka.dir_archive(os.path.join(tmp, 'bz'), cached=False, **cfg['opts'])
            f = D(**dkw(cfg, kcache(archive=a)))(big)
            for x in cfg['calls']:
                got = callf(f, x)
                if got is not _Raised and got != big(x): bad('C01', 'bigvalue-wrong-result', 'big(%d) returned %d characters %.20r..., the function gives %d characters' % (x, len(got), got, len(big(x))))
                for k_ in list(a.keys()):
                    try: v_ = a[k_]
                    except Exception as e: v_ = 'EXC %s' % type(e).__name__
                    if not (isinstance(v_, str) and (v_ == 'small' or (len(v_) == 1600000 and len(set(v_)) == 1))):
                        bad('C07', 'archived-value-differs', 'after big(%d) the archive entry %.30r reads as %.40r (%s characters)' % (x, k_, v_, len(v_) if isinstance(v_, str) else '?'), opts=sorted(cfg['opts']))
                        break
                if viol: break
        elif cfg['scen'] == 'stacked':
            import klepto, klepto.safe
            from klepto.keymaps import stringmap
            evals = []
            def base(x): evals.append(x); return 'v%d' % x
            base.info = 'an attribute of the function itself'; base.tag = 7
            Di = getattr(klepto, cfg['inner'] + '_cache')
            inner = Di(keymap=stringmap()) if cfg['inner'] in ('inf', 'no') else Di(maxsize=50, keymap=stringmap())
            mid = inner(base)
            okw = dict(keymap=stringmap()) if cfg['algo'] in ('inf', 'no') else dict(keymap=stringmap(), maxsize=cfg['maxsize'])
            for target_, what in ((mid, 'a klepto-cached function'), (base, 'a function with an attribute called info')):
                f = D(**okw)(target_)
                n = 0
                for x in cfg['calls']:
                    if callf(f, x) not in ('v%d' % x, _Raised): bad('C01', 'stacked-wrong-result', 'f(%d) wrong' % x)
                    n += 1
                try:
                    i = f.info(); tot = i.hit + i.miss + i.load
                    want_ms = None if cfg['algo'] == 'inf' else (0 if cfg['algo'] == 'no' else cfg['maxsize'])
                    if tot != n or i.maxsize != want_ms:
                        bad('C15', 'outer-info-is-not-the-outer-account', 'a %s.%s_cache over %s: after %d calls the outer wrapper\'s info() is %r (it made %d calls, its maxsize is %r)' % (
                            'safe' if cfg['safe'] else 'klepto', cfg['algo'], what, n, tuple(i), n, want_ms), what=what.split()[1])
                    if i.size != len(f.__cache__()):
                        bad('C18', 'outer-cache-is-not-the-outer-cache', 'over %s: info().size = %d, len(f.__cache__()) = %d' % (what, i.size, len(f.__cache__())), what=what.split()[1])
                    if getattr(f, 'tag', None) != 7 and target_ is base: bad('C18', 'function-attributes-not-carried-over', 'f.tag = %r' % (getattr(f, 'tag', None),))
                    f.clear()
                    if tuple(f.info())[:3] != (0, 0, 0):
                        bad('C15', 'outer-clear-does-not-reset-the-outer-account', 'over %s: after clear() info() is %r' % (what, tuple(f.info())), what=what.split()[1])
                except TypeError as e:
                    bad('C15', 'outer-info-is-not-callable', 'over %s: f.info is %r' % (what, getattr(f, 'info', None)), what=what.split()[1])
        elif cfg['scen'] == 'rrlookup':
            import klepto.archives as ka
            from klepto.keymaps import hashmap
            def run(tag, with_lookups):
                k_ = cfg['arch']
                if k_ == 'baredirsrc': c = ka.dir_archive(os.path.join(tmp, 'rr_' + tag), serialized=False, cached=False)
                elif k_ == 'barefilesrc': c = ka.file_archive(os.path.join(tmp, 'rr_%s.py' % tag), serialized=False, cached=False)
                elif k_ == 'baredir': c = ka.dir_archive(os.path.join(tmp, 'rr_' + tag), cached=False)
                elif k_ == 'barefile': c = ka.file_archive(os.path.join(tmp, 'rr_%s.pkl' % tag), cached=False)
                else: c = kcache(archive=make_archive('dict', tmp, 'rr_' + tag))
                f = D(maxsize=cfg['maxsize'], keymap=hashmap(algorithm='md5'), cache=c)(lambda x: 'v%d' % x)
                random.seed(cfg['seed'])
                trace = []
                for x, y in zip(cfg['calls'], cfg['looks']):
                    if with_lookups:
                        try: f.lookup(y)
                        except KeyError: pass
                        f.key(y); f.info()
                    got = callf(f, x)
                    trace.append((got, sorted(f.__cache__().keys())))
                return trace
            t1, t2 = run('a', True), run('b', False)
            for i_, (a_, b_) in enumerate(zip(t1, t2)):
                if a_ != b_:
                    bad('C18', 'introspection-changes-eviction', 'rr over %s: with lookup()/key()/info() before every call the cache after call %d (x=%d) holds %d keys %s..., without them %s... (same seed of the random stream)' % (
                        cfg['arch'], i_, cfg['calls'][i_], len(a_[1]), [k[:6] for k in a_[1]], [k[:6] for k in b_[1]]), arch=cfg['arch'])
                    break
        elif cfg['scen'] == 'redecorate':
            evals = []
            def make():
                def g(x): evals.append(x); return 'v%d' % x
                return g
            c = kcache(archive=make_archive(cfg['arch'], tmp, 'rd'))
            f1 = D(**dkw(cfg, c))(make())
            for x in cfg['calls']:
                if callf(f1, x) not in ('v%d' % x, _Raised): bad('C01', 'redecorate-wrong-result', 'g(%d) wrong under the first decorator' % x)
            f2 = D(**dkw(cfg, c))(make())
            for x in cfg['calls2']:
                if callf(f2, x) not in ('v%d' % x, _Raised): bad('C01', 'redecorate-wrong-result', 'g(%d) wrong under the second decorator' % x)
            dup = sorted(x for x, n_ in collections.Counter(evals).items() if n_ > 1)
            if dup and not viol:
                bad('C02', 'redecorate-re-evaluation', 'a second decorator over the same cache object (lossless %s archive attached throughout, nothing cleared): the arguments %r were evaluated again' % (cfg['arch'], dup[:6]))
        elif cfg['scen'] == 'hashraises':
            from klepto.keymaps import keymap
            E = dict(TypeError=TypeError, KeyError=KeyError, ValueError=ValueError, RuntimeError=RuntimeError)[cfg['exc']]
            class Unhash(object):
                def __init__(self, n): self.n = n
                def __hash__(self): raise E('no hash for %d' % self.n)
                def __eq__(self, o): return isinstance(o, Unhash) and o.n == self.n
            evals = []
            def h(u): evals.append(u.n); return 'v%d' % u.n
            kw = dict(keymap=keymap())
            if cfg['algo'] not in ('inf', 'no'): kw.update(maxsize=cfg['maxsize'], purge=False)
            if cfg['arch'] != 'none': kw['cache'] = kcache(archive=make_archive('dict', tmp, 'h'))
            f = D(**kw)(h)
            for x in cfg['calls']:
                n0 = len(evals)
                try:
                    got = f(Unhash(x))
                    if got != 'v%d' % x or len(evals) != n0 + 1:
                        bad('C16', 'safe-unhashable-wrong', 'h(<unhashable %d>) returned %r after %d evaluations' % (x, got, len(evals) - n0), exc=cfg['exc'])
                except Exception as e:
                    bad('C16', 'safe-unhashable-raises', 'the argument\'s __hash__ raises %s; the safe decorator raised %s: %s instead of returning the function\'s result (evaluations: %d)' % (
                        cfg['exc'], type(e).__name__, str(e)[:60], len(evals) - n0), exc=cfg['exc'], got=type(e).__name__)
                    break
        elif cfg['scen'] == 'names':
            from klepto.keymaps import stringmap, keymap
            km = dict(string=lambda: stringmap(), raw=lambda: keymap(), stringr=lambda: stringmap(encoding='repr'))[cfg['keymap']]
            evals = []
            def h(s): evals.append(s); return ('v', s)
            def session(tag):
                kw = dict(keymap=km(), cache=kcache(archive=make_archive('dir', tmp, 'names')))
                if cfg['algo'] != 'no': kw.update(maxsize=cfg['maxsize'], purge=False)
                f = D(**kw)(h)
                for i in cfg['calls']:
                    try: got = f(NAME_ARGS[i])
                    except Exception as e:
                        bad('C01', 'names-call-raises', '%s session: h(%.30r...) raised %s: %s' % (tag, NAME_ARGS[i], type(e).__name__, str(e)[:60]), exc=type(e).__name__); return
                    if got != ('v', NAME_ARGS[i]):
                        bad('C01', 'names-wrong-result', '%s session: h(%.40r) [%d characters] returned the result of h(%.40r) [%d characters]: two arguments share one archive entry' % (
                            tag, NAME_ARGS[i], len(NAME_ARGS[i]), got[1], len(got[1]))); return
                f.dump()          # (the session ends by writing what is still only in memory)
            session('first'); session('second')
            # C02: with the (lossless) archive attached every argument is evaluated once over both sessions - except those whose key no
            # file name can hold (the archive cannot store them at all)
            again = sorted(set(a_ for a_ in evals if evals.count(a_) > 1 and len(a_) < 200))
            if again and not viol:
                bad('C02', 'names-re-evaluation', 'the arguments %r were evaluated more than once although the dir_archive stayed attached over both sessions' % (again,))
        elif cfg['scen'] == 'twin':
            evals = []
            def g(x): evals.append(x); return 'v%d' % x
            fs = [D(**dkw(cfg, kcache(archive=make_archive(cfg['arch'], tmp, 'shared'))))(g) for _ in range(2)]
            for who, x in cfg['calls']:
                got = callf(fs[who], x)
                if got not in ('v%d' % x, _Raised): bad('C01', 'twin-wrong-result', 'instance %d: g(%d) = %r' % (who, x, got))
            fresh = dict(make_archive(cfg['arch'], tmp, 'shared').items())
            held = set(fresh) | set(fs[0].__cache__()) | set(fs[1].__cache__())
            lost = sorted(x for x in set(evals) if fs[0].key(x) not in held)
            if lost: bad('C07', 'twin-evicted-entry-lost', 'arguments %r were evaluated and are now neither in a cache nor in the shared archive (archive keys %r)' % (lost[:6], sorted(fresh)[:8]))
            wrong = sorted(k for k, v in fresh.items() if not (isinstance(v, str) and v.startswith('v')))
            if wrong: bad('C07', 'twin-archive-corrupt', 'the shared archive holds foreign values under %r' % wrong[:4])
        else:
            evals = []
            BAD = cfg['bad']
            class NoWay(object):
                def __reduce__(self): raise TypeError('cannot serialise NoWay')
            def h(x):
                evals.append(x)
                return ({1, 2} if cfg['arch'] == 'filejson' else NoWay()) if x == BAD else 'v%d' % x
            f = D(**dkw(cfg, kcache(archive=make_archive(cfg['arch'], tmp, 'u'))))(h)
            archived_before = {}
            for x in cfg['calls']:
                snap = dict(make_archive(cfg['arch'], tmp, 'u').items())
                resident = dict(f.__cache__())
                raised = False
                try: f(x)
                except Exception: raised = True         # a failing write-back may surface; what matters is what is left behind
                now = dict(make_archive(cfg['arch'], tmp, 'u').items())
                if raised:
                    # the write-back of a victim RAISED: the victim has not reached the archive, so it must not have left memory either
                    gone_ = sorted(repr(k) for k in resident if k not in f.__cache__() and k not in now)
                    if gone_:
                        bad('C07', 'victim-lost-when-its-write-back-raises', 'f(%d) raised out of the eviction\'s archive write; the entries %s are now neither in memory nor in the archive' % (x, gone_[:3]))
                        break
                gone = sorted(k for k in snap if k not in now)
                if gone:
                    bad('C07', 'unserialisable-victim-damages-archive', 'after f(%d) the archive lost the entries %r (it held %d, holds %d)' % (x, gone[:5], len(snap), len(now)))
                    break
        return dict(cfg=cfg, viol=viol, err=None, n=1)
    except Exception as e:
        tb = traceback.extract_tb(e.__traceback__)
        if tb and os.sep + 'klepto' + os.sep in tb[-1].filename or any(os.sep + 'klepto' + os.sep in fr.filename for fr in tb[-4:]):
            # the exception came out of the library (a management operation, a constructor): every property of the scenario is off
            bad('*', 'operation-raised', '%s: %s (in %s)' % (type(e).__name__, str(e)[:80], tb[-1].name), exc=type(e).__name__)
            return dict(cfg=cfg, viol=viol, err=None, n=1)
        return dict(cfg=cfg, viol=viol, err=traceback.format_exc()[-1200:], n=0)
    finally:
        os.chdir(cwd); rm_rf(tmp)


def recur_trace(tier, idx):
    """a wrapper-suite configuration driven by a RECURSIVE function; the completions form a flat history (reentrant_eq_flat) that is
    compared with the Lean model M3 like any other wrapper trace"""
    import suite_wrapper as sw
    r = rng('multi-recur', tier, idx)
    cfg = sw.gen_cfg(r, 'quick', idx)
    cfg.update(raising=[], keyerr=[], malformed=False, bystander=False, late_attach=False, longargs=False, nkeys=16, pre_mem=0, pre_arch=0)
    if cfg['backend'] not in ('dict', 'plain', 'null'): cfg['backend'] = 'dict'
    if cfg['keymap'] == 'hash': cfg['keymap'] = 'string'
    cfg['_tops'] = [r.randrange(4, 14) for _ in range(r.choice([2, 3, 4]))]
    return sw.run_recursive_trace(cfg, cfg['_tops'])


def twin_trace(tier, idx):
    """instance A's history when a second instance B of the same decorator shares its archive: B's write-backs are external archive
    writes in A's history; compared with M3 like any other wrapper trace"""
    import suite_wrapper as sw
    r = rng('multi-twin', tier, idx)
    cfg = sw.gen_cfg(r, 'quick', idx)
    cfg.update(raising=[], keyerr=[], malformed=False, bystander=False, late_attach=False, longargs=False, nkeys=10, pre_mem=0, pre_arch=0)
    if cfg['backend'] in ('plain', 'null') or cfg['backend'].startswith('bare'): cfg['backend'] = r.choice(['dict', 'file', 'dir', 'sql'])
    if cfg['backend'] in sw.DISK_BACKENDS and cfg['keymap'] not in ('string', 'md5', 'string_nonflat'): cfg['keymap'] = 'string'
    if cfg['keymap'] == 'hash': cfg['keymap'] = 'string'
    cfg['_calls'] = [[r.randrange(2), r.randrange(10)] for _ in range(r.choice([20, 40]))]
    return sw.run_twin_trace(cfg, cfg['_calls'])


def refuse_trace(tier, idx):
    """a wrapper-suite configuration over an archive that REFUSES some results (their pickling raises): the failing write-backs of
    evictions, purges and dump() are compared state by state with the Lean model M3F (Model/WrapperFail.lean, Props/C07Refuse.lean)"""
    import suite_wrapper as sw
    r = rng('multi-refuse', tier, idx)
    cfg = sw.gen_cfg(r, 'quick', idx)
    cfg.update(raising=[], keyerr=[], malformed=False, bystander=False, late_attach=False, longargs=False, mixedargs=False, pre_mem=0, pre_arch=0,
               backend=r.choice(['file', 'dir', 'sql']), keymap='string', variant=0, purge=r.random() < 0.4)
    cfg['maxsize'] = r.choice([1, 2, 3, 5])
    cfg['nkeys'] = cfg['maxsize'] + r.choice([2, 3, 5])
    cfg['refuse'] = sorted(r.sample(range(cfg['nkeys']), r.choice([1, 1, 2])))
    ops = []
    for _ in range(r.choice([30, 60])):
        p = r.random()
        if p < 0.86: ops.append(['call', r.randrange(cfg['nkeys'])])
        elif p < 0.91: ops.append(['dumpAll'])
        elif p < 0.95: ops.append(['dump', sorted(r.sample(range(cfg['nkeys']), 2))])
        elif p < 0.98: ops.append(['lookup', r.randrange(cfg['nkeys'])])
        else: ops.append(['info'])
    cfg['_ops'] = ops
    t = sw.run_trace(cfg, ops)
    t['refuse'] = True
    return t


def refuse_monitor(t):
    """C07 in the property's own words on a refuse trace: whatever was in memory or in the archive before an operation is in memory or
    in the archive, with the same value, after it - in particular when the operation raised the archive's exception"""
    v = []
    for rec in t['recs']:
        b, a = rec['before'], rec['after']
        if 'error' in a or 'error' in b: continue
        before = dict((k, x) for k, x in (b['arch'] or [])); before.update(dict((k, x) for k, x in b['mem']))
        after = dict((k, x) for k, x in (a['arch'] or [])); after.update(dict((k, x) for k, x in a['mem']))
        lost = sorted(k for k in before if k not in after or after[k] != before[k])
        arch_b = dict((k, x) for k, x in (b['arch'] or [])); arch_a = dict((k, x) for k, x in (a['arch'] or []))
        damaged = sorted(k for k in arch_b if arch_a.get(k, '<gone>') != arch_b[k])
        if lost or damaged:
            v.append(dict(prop='C07', i=rec['i'], sig=dict(kind='refused-write-back-loses-entries', algo=t['cfg']['algo']),
                          msg='%r (outcome %r): entries %r lost, archive entries %r changed' % (rec['op'], rec['out'], lost[:4], damaged[:4]), cfg=t['cfg'], ops=t['ops']))
            break
    return v


def refuse_monitor_c05(t):
    """C05 in the property's own words on a refuse trace: after every call the number of resident entries is at most the larger of
    maxsize and the number resident before the call (the model M3F agrees with the code that this FAILS for a call whose write-back is
    refused - C05_refused_overfull - the finding F57)"""
    v = []
    ms = t['cfg']['maxsize'] if t['cfg']['algo'] not in ('no', 'inf') else (0 if t['cfg']['algo'] == 'no' else None)
    if ms is None: return v
    for rec in t['recs']:
        b, a = rec['before'], rec['after']
        if rec['op'][0] != 'call' or 'error' in a or 'error' in b: continue
        if len(a['mem']) > max(ms, len(b['mem'])):
            refused = isinstance(rec['out'], dict) and bool(rec['out'].get('exc'))
            v.append(dict(prop='C05', i=rec['i'], sig=dict(kind='overfull-after-refused-write-back' if refused else 'overfull-on-a-refusing-archive', algo=t['cfg']['algo']),
                          msg='%r (outcome %r): %d entries resident, %d before, maxsize %r' % (rec['op'], rec['out'], len(a['mem']), len(b['mem']), ms), cfg=t['cfg'], ops=t['ops']))
            break
    return v


def refuse_monitor_c15(t):
    """C15, last clause, on a refuse trace: hit+miss+load moves by one exactly for the calls that complete (M3F agrees with the code that a
    call whose write-back is refused IS counted and raises - C15_refused_counted_not_completed - part of finding F57)"""
    v = []
    for rec in t['recs']:
        b, a = rec['before'], rec['after']
        if rec['op'][0] != 'call' or 'error' in a or 'error' in b: continue
        d = sum(a['stats']) - sum(b['stats'])
        done = isinstance(rec['out'], dict) and 'ret' in rec['out']
        if d != (1 if done else 0):
            v.append(dict(prop='C15', i=rec['i'], sig=dict(kind='counted-but-raised-after-refused-write-back' if (d == 1 and not done) else 'miscounted-on-a-refusing-archive', algo=t['cfg']['algo']),
                          msg='%r (outcome %r): the counters moved by %d (%r -> %r)' % (rec['op'], rec['out'], d, b['stats'], a['stats']), cfg=t['cfg'], ops=t['ops']))
            break
    return v


def work(a):
    tier, idx = a
    o = run_case(gen(tier, idx))
    if o['cfg']['scen'] == 'recur':
        o['trace'] = recur_trace(tier, idx)
    elif o['cfg']['scen'] == 'twin':
        o['trace'] = twin_trace(tier, idx)
    elif o['cfg']['scen'] == 'unser':
        o['trace'] = refuse_trace(tier, idx // 16)       # (its own counter - the scenario sits at idx % 16 == 15 - so that all twelve decorators come up)
    return o


def explore(prop, tier, offset=0):
    with Pool(NPROC) as p:
        res = p.map(work, [(tier, offset + i) for i in range(NCASES[tier])], chunksize=4)
    tags = collections.Counter(); viols = []; errors = []
    for o in res:
        if o['err']: errors.append(o['err']); continue
        tags[o['cfg']['scen']] += 1; tags['algo=' + o['cfg']['algo']] += 1
        for v in o['viol']:
            if v['prop'] in (prop, '*'): viols.append(dict(v, prop=prop, i=0, cfg=o['cfg'], ops=[]))
    if prop == 'C07':
        # two PROCESSES evicting the same key into a shared dir_archive (the twin scenario inside one process never overlaps two stores)
        import run_sched
        pv, pe = run_sched.same_key_probe('C07'); viols += pv; errors += pe; tags['same-key-probe'] += 1
    n = sum(tags[s] for s in ('recur', 'twin', 'unser', 'reuse', 'names', 'chdir', 'hashraises', 'jsonpurge', 'redecorate', 'rrlookup', 'stacked', 'bigvalue'))
    # the recursive traces against the model (flat history of completions)
    import run_wrapper as rw
    trs = [o['trace'] for o in res if o.get('trace') is not None]
    errors += [t['err'] for t in trs if t['err']]
    trs = [t for t in trs if not t['err']]
    ftr = [t for t in trs if t.get('refuse')]; trs = [t for t in trs if not t.get('refuse')]
    divs, mv, wtags, _ = rw._analyse(prop, trs) if prop in ('C01', 'C02', 'C05', 'C06', 'C07', 'C15') else ([], [], {}, 0)
    if prop in ('C01', 'C02', 'C05', 'C06', 'C07', 'C15', 'C16'):
        # refuse traces: model M3F on the property's projection (the monitors of the wrapper suite assume write-backs that succeed)
        import check_wrapper as cw
        for t, mo in zip(ftr, rw._model_outs(ftr)):
            d = cw.compare_trace(t, mo, [prop])[prop]
            if d: divs.append(dict(detail=d, cfg=t['cfg'], ops=t['ops'], refuse=True))
            tags['refuse-trace'] += 1
            tags['refused-write-backs'] += sum(1 for x in t['recs'] if isinstance(x['out'], dict) and x['out'].get('exc') and x['op'][0] in ('call', 'dump', 'dumpAll'))
            tags['refused-eviction'] += sum(1 for x in t['recs'] if isinstance(x['out'], dict) and x['out'].get('exc') and x['op'][0] == 'call')
            if prop == 'C07': viols += [dict(x, recursive=True) for x in refuse_monitor(t)]
            if prop == 'C05': viols += [dict(x, recursive=True) for x in refuse_monitor_c05(t)]
            if prop == 'C15': viols += [dict(x, recursive=True) for x in refuse_monitor_c15(t)]
    for d in divs: d['suite'] = 'multi'
    viols += [dict(v, recursive=True) for v in mv]
    rt = [t for t in trs if t.get('recursive')]; tt = [t for t in trs if t.get('twin')]
    tags['recursive-trace'] = len(rt); tags['recursive-completions'] = sum(len(t['recs']) for t in rt); tags['evictions-in-model-traces'] = wtags.get('evict', 0)
    tags['twin-trace'] = len(tt); tags['twin-external-writes'] = sum(1 for t in tt for x in t['recs'] if x['op'][0] == 'extput')
    return dict(suite='multi', traces=n + len(trs), evaluations=n + sum(len(t['recs']) for t in trs), distinct_nontrivial=n, tags=dict(tags), divergences=divs, violations=viols, samples=[res[0]['cfg'], res[2]['cfg']],
                errors=errors[:3], rule=RULE, required_tags=['recur', 'twin', 'unser', 'reuse', 'names', 'chdir', 'hashraises', 'jsonpurge', 'recursive-trace', 'twin-trace'] + (['refuse-trace', 'refused-eviction'] if prop in ('C01', 'C02', 'C05', 'C06', 'C07', 'C15', 'C16') else []), config_histogram=None)


def replay(prop, obj):
    if (obj.get('cfg') or {}).get('probe') == 'same-key':
        import run_sched
        pv, pe = run_sched.same_key_probe(prop)
        if pe: raise NoVerdict(pe[0])
        return dict(violations=[dict(prop=prop, sig=v['sig'], msg=v['msg'], i=0) for v in pv], divergence=None)
    if obj.get('recursive'):
        import suite_wrapper as sw, run_wrapper as rw
        if '_ops' in obj['cfg']:
            t = sw.run_trace(obj['cfg'], obj['cfg']['_ops'])
            if t['err']: raise NoVerdict(t['err'])
            import check_wrapper as cw
            d = cw.compare_trace(t, rw._model_outs([t])[0], [prop])[prop]
            return dict(violations=[dict(prop=prop, sig=v['sig'], msg=v['msg'], i=v.get('i', 0)) for v in (refuse_monitor(t) if prop == 'C07' else refuse_monitor_c05(t) if prop == 'C05' else refuse_monitor_c15(t) if prop == 'C15' else [])], divergence=d)
        t = sw.run_recursive_trace(obj['cfg'], obj['cfg']['_tops']) if '_tops' in obj['cfg'] else sw.run_twin_trace(obj['cfg'], obj['cfg']['_calls'])
        if t['err']: raise NoVerdict(t['err'])
        divs, mv, _, _ = rw._analyse(prop, [t])
        return dict(violations=[dict(prop=prop, sig=v['sig'], msg=v['msg'], i=v.get('i', 0)) for v in mv], divergence=divs[0]['detail'] if divs else None)
    o = run_case(obj['cfg'])
    if o['err']: raise NoVerdict(o['err'])
    return dict(violations=[dict(prop=prop, sig=v['sig'], msg=v['msg'], i=0) for v in o['viol'] if v['prop'] in (prop, '*')], divergence=None)


def shrink_and_save(prop, v):
    if v.get('recursive'):
        return write_replay(prop, 'violation', dict(suite='multi', property=prop, recursive=True, cfg=v['cfg'], completions=v['ops'], signature=v['sig'], message=v['msg'],
                                                     how_to_replay='cd /verif && ./check %s --replay <this file>   (re-runs the recursive function on cfg._tops)' % prop))
    return write_replay(prop, 'violation', dict(suite='multi', property=prop, cfg=v['cfg'], signature=v['sig'], message=v['msg'],
                                                 how_to_replay='cd /verif && ./check %s --replay <this file>' % prop))


def search(prop, tier, divergences, budget_s, known):
    return None
