"""suite `sched`, sqlite part: the locking is inside the sqlite library, so the processes run freely (no schedule control);
the property is monitored on what they return and on the final contents"""
import os, sys, json, subprocess, collections, pickle, time
from common import *
from pcanon import kcanon, canonv, canon_items

HERE = os.path.dirname(os.path.abspath(__file__))
CHILD = r'''
import sys, json, os, time
sys.path.insert(0, %(here)r)
import klepto.archives as ka
from pcanon import canon_items, kcanon
role, loc, me, n, start = sys.argv[1], sys.argv[2], int(sys.argv[3]), int(sys.argv[4]), float(sys.argv[5])
a = ka.sqltable_archive(loc, cached=False)
while time.time() < start: pass
out = dict(errors=[], seen=[])
if role == 'writer':
    for i in range(n):
        try: a['w%%d_%%d' %% (me, i)] = me * 1000 + i
        except Exception as e: out['errors'].append('%%s: %%s' %% (type(e).__name__, e))
else:
    for i in range(n):
        try:
            k = ['asdict', 'len', 'keys', 'get'][i %% 4]
            if k == 'asdict': out['seen'].append(canon_items(a.__asdict__()))
            elif k == 'len': len(a)
            elif k == 'keys': out['seen'].append([[x, None] for x in sorted(kcanon(y) for y in a.keys())])
            else: a.get('p0')
        except Exception as e: out['errors'].append('%%s: %%s' %% (type(e).__name__, e))
print(json.dumps(out))
'''


def one_run(nw, nr, n, tag):
    tmp = scratch_dir('ksq')
    try:
        loc = 'sqlite:///%s' % os.path.join(tmp, 'arch.db')
        env = dict(os.environ, PYTHONPATH=REPO + os.pathsep + HERE, PYTHONDONTWRITEBYTECODE='1')
        src = os.path.join(tmp, 'child.py'); open(src, 'w').write(CHILD % dict(here=HERE))
        setup = "import klepto.archives as ka; a = ka.sqltable_archive(%r, cached=False); a['p0'] = 1; a['p1'] = 'v'" % loc
        subprocess.run([sys.executable, '-c', setup], env=env, cwd=tmp, check=True)
        start = time.time() + 0.6
        ps = [subprocess.Popen([sys.executable, src, 'writer', loc, str(i), str(n), str(start)], env=env, cwd=tmp, stdout=subprocess.PIPE, stderr=subprocess.PIPE, text=True) for i in range(nw)]
        ps += [subprocess.Popen([sys.executable, src, 'reader', loc, str(i), str(n), str(start)], env=env, cwd=tmp, stdout=subprocess.PIPE, stderr=subprocess.PIPE, text=True) for i in range(nr)]
        outs = []
        for p in ps:
            o, e = p.communicate(timeout=300)
            if p.returncode != 0: return dict(err='sql child failed: ' + e[-500:])
            outs.append(json.loads(o.strip().splitlines()[-1]))
        fin = subprocess.run([sys.executable, '-c', "import sys, json; sys.path.insert(0, %r)\nimport klepto.archives as ka\nfrom pcanon import canon_items\nprint(json.dumps(canon_items(ka.sqltable_archive(%r, cached=False).__asdict__())))" % (HERE, loc)],
                             env=env, cwd=tmp, stdout=subprocess.PIPE, text=True, check=True)
        return dict(err=None, outs=outs, final=json.loads(fin.stdout.strip().splitlines()[-1]), nw=nw, nr=nr, n=n)
    except Exception:
        import traceback
        return dict(err=traceback.format_exc()[-1200:])
    finally:
        rm_rf(tmp)


def monitor(r):
    viol = []
    cv = lambda v: json.dumps(canonv(v), sort_keys=True)
    expected = {kcanon('p0'): cv(1), kcanon('p1'): cv('v')}
    for w in range(r['nw']):
        for i in range(r['n']): expected[kcanon('w%d_%d' % (w, i))] = cv(w * 1000 + i)
    def bad(what, msg): viol.append(dict(prop='C14', i=0, sig=dict(backend='sql', what=what), msg='sqlite archive, %d writers x %d distinct keys, %d readers: %s' % (r['nw'], r['n'], r['nr'], msg),
                                         sqlcase=dict(nw=r['nw'], nr=r['nr'], n=r['n'])))
    for o in r['outs']:
        if o['errors']: bad('error', 'a process failed: %s' % o['errors'][0]); break
        for seen in o['seen']:
            for k, v in seen:
                if k not in expected: bad('phantom', 'a reader saw key %s, never stored' % k); break
                if v is not None and v != expected[k]: bad('value', 'a reader saw %s -> %s, stored %s' % (k, v, expected[k])); break
            d = dict(map(tuple, seen))
            if kcanon('p0') not in d: bad('absent', 'a reader missed the untouched key p0')
    fin = dict(map(tuple, r['final']))
    if fin != expected:
        lost = [k for k in expected if k not in fin]
        bad('lost-entry' if lost else 'contents', 'final contents differ: lost %r' % lost[:5])
    return viol[:1]


IDLER = r"""
import sys
import klepto.archives as ka
a = ka.sqltable_archive(sys.argv[1], cached=False)
# operations that change nothing: each must leave the handle without an open transaction
a.pop('absent', None); a.get('absent'); ('absent' in a); len(a); a.popkeys(['nope', 'neither'], None); list(a.keys())
try: a.pop('absent')
except KeyError: pass
try: del a['absent']
except KeyError: pass
print('ready', flush=True)
sys.stdin.readline()
"""


def lingering_probe():
    """a process that only made operations which change nothing (pop / popkeys of absent keys with a default, failed deletes, reads)
    keeps its handle open and idles; a writer in ANOTHER process must get through at once (single-table clause of C14: writers are
    serialised by the database, not locked out by a bystander)"""
    tmp = scratch_dir('ksq')
    try:
        loc = 'sqlite:///%s' % os.path.join(tmp, 'arch.db')
        env = dict(os.environ, PYTHONPATH=REPO + os.pathsep + HERE, PYTHONDONTWRITEBYTECODE='1')
        subprocess.run([sys.executable, '-c', "import klepto.archives as ka; a = ka.sqltable_archive(%r, cached=False); a['p0'] = 1" % loc], env=env, cwd=tmp, check=True)
        idler = subprocess.Popen([sys.executable, '-c', IDLER, loc], env=env, cwd=tmp, stdin=subprocess.PIPE, stdout=subprocess.PIPE, stderr=subprocess.PIPE, text=True)
        try:
            if idler.stdout.readline().strip() != 'ready':
                return [], ['lingering probe: the idle process failed: ' + idler.stderr.read()[-300:]]
            t0 = time.time()
            w = subprocess.run([sys.executable, '-c', "import klepto.archives as ka\na = ka.sqltable_archive(%r, cached=False)\ntry:\n    a['w'] = 2; print('ok')\nexcept Exception as e: print('ERR %%s: %%s' %% (type(e).__name__, e))" % loc],
                               env=env, cwd=tmp, stdout=subprocess.PIPE, stderr=subprocess.PIPE, text=True, timeout=120)
            dt = time.time() - t0
        finally:
            try: idler.stdin.write('\n'); idler.stdin.flush()
            except Exception: pass
            idler.wait(timeout=30)
        res = (w.stdout.strip().splitlines() or ['?'])[-1]
        if res != 'ok' or dt > 4.0:
            return [dict(prop='C14', i=0, sig=dict(backend='sql', what='bystander-locks-writers-out'), probe='lingering',
                         msg='sqlite archive: a process that had only made operations that change nothing (pop of an absent key with a default, reads) kept its handle open; a writer in another process got %r after %.1f s' % (res, dt))], []
        return [], []
    except Exception:
        import traceback
        return [], [traceback.format_exc()[-800:]]
    finally:
        rm_rf(tmp)


def explore_sql(tier):
    out = dict(runs=0, ops=0, tags=collections.Counter(), violations=[], errors=[])
    cfgs = [(2, 1, 25), (3, 2, 15)] if tier == 'quick' else [(2, 1, 60), (3, 2, 40), (2, 2, 80), (4, 1, 30)] * 3
    for nw, nr, n in cfgs:
        r = one_run(nw, nr, n, 'x')
        if r['err']: out['errors'].append(r['err']); continue
        out['runs'] += 1; out['tags']['sql:runs'] += 1; out['ops'] += (nw + nr) * n
        out['violations'] += monitor(r)
    pv, pe = lingering_probe(); out['violations'] += pv; out['errors'] += pe; out['tags']['sql:lingering-probe'] += 1
    return out


def replay(obj):
    if obj.get('probe') == 'lingering':
        pv, pe = lingering_probe()
        if pe: raise NoVerdict(pe[0])
        return dict(violations=[dict(prop='C14', sig=v['sig'], msg=v['msg'], i=0) for v in pv], divergence=None)
    c = obj['sqlcase']
    r = one_run(c['nw'], c['nr'], c['n'], 'r')
    if r['err']: raise NoVerdict(r['err'])
    return dict(violations=[dict(prop='C14', sig=v['sig'], msg=v['msg'], i=0) for v in monitor(r)], divergence=None)
