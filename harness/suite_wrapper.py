"""Suite `wrapper`: the twelve decorator classes against model M3 (Klepto/Model/Wrapper.lean).

A trace = configuration + list of python-level ops.  `run_trace` executes it on the REAL klepto
(imported from /repo's working tree), and returns, per op, (a) the JSON line that tells the Lean
model what the key pipeline / user function / random.choice did for that op, (b) the observation
of the implementation in the same shape as the Lean driver's output, (c) what the property monitors
saw.  Everything is deterministic given (cfg, ops)."""
import os, sys, json, random, collections
from common import *

ALGOS = ['no', 'inf', 'lfu', 'lru', 'mru', 'rr']
MEM_BACKENDS = ['plain', 'null', 'dict', 'bare_dict']
DISK_BACKENDS = ['file', 'dir', 'sql', 'bare_file', 'bare_dir', 'bare_sql', 'sqlmem']
KEYMAPS = ['raw', 'string', 'pickle', 'md5', 'raw_nonflat', 'string_nonflat', 'raw_typed', 'hash']


class Boom(Exception):
    pass


class Halt(BaseException):
    """what the memoized function raises for odd argument numbers: an exception that is NOT an `Exception` (as KeyboardInterrupt, SystemExit,
    GeneratorExit are) - it passes through like any other, and what the wrapper set up for the call is taken down again"""
    pass


ROOT_CAUSE = ValueError('the root cause of every Boom raised by the memoized function')


class BadRepr(object):
    """an argument whose repr() raises something that is not a TypeError: string / pickle(repr) / digest keymaps cannot build a key"""
    def __init__(self, n): self.n = n
    def __repr__(self):
        # a KeyError collides with the wrappers' own control flow (`except KeyError`): every other argument raises that one
        raise (KeyError if self.n % 2 else ValueError)('no repr for %d' % self.n)
    __str__ = __repr__


def make_keymap(kind):
    from klepto.keymaps import keymap, stringmap, picklemap, hashmap
    if kind == 'raw': return keymap()
    if kind == 'string': return stringmap()
    if kind == 'pickle': return picklemap()
    if kind == 'md5': return hashmap(algorithm='md5')
    if kind == 'raw_nonflat': return keymap(flat=False)
    if kind == 'string_nonflat': return stringmap(flat=False)
    if kind == 'raw_typed': return keymap(typed=True)
    if kind == 'hash': return hashmap()
    if kind == 'default': return None
    raise ValueError(kind)


ARCHIVE_OPTIONS = {
    # (serialized=False archives are read back through the import system and are unreliable inside one
    #  long-running process - findings of C03/C04, not used here)
    'file': [{}, {}, {'protocol': 2}, {'protocol': 'json'}],
    'dir': [{}, {}, {'protocol': 'json'}, {'compression': 3}, {'protocol': 2}, {'memmode': 'r'}],
}


def make_backend(kind, tmp, name='a', variant=0):
    """returns (cache object handed to the decorator, the archive object or None, bare?)"""
    import klepto.archives as ka
    from klepto.archives import cache as kcache
    if kind == 'plain':
        return {}, None, False            # a plain dict: the decorator wraps it in `cache`
    if kind == 'null':
        return kcache(), None, False
    bare = kind.startswith('bare_')
    k = kind[5:] if bare else kind
    if k == 'dict':
        a = ka.dict_archive(name, cached=False)
    elif k == 'file':
        o = ARCHIVE_OPTIONS['file']
        oo = o[variant % len(o)]
        # (a dotted file name + serialized=False is unreadable: the archive is imported as a module - finding F28, C03/C04)
        a = ka.file_archive(os.path.join(tmp, name + ('_src.py' if oo.get('serialized') is False else '.pkl')), cached=False, **oo)
    elif k == 'dir':
        o = ARCHIVE_OPTIONS['dir']
        a = ka.dir_archive(os.path.join(tmp, name + '_d'), cached=False, **o[variant % len(o)])
    elif k == 'sql':
        a = _sqlite(tmp, name)
    elif k == 'sqlmem':
        a = ka.sqltable_archive(cached=False)     # the default database ':memory:' - private to this archive object
    else:
        raise ValueError(kind)
    if bare:
        return a, None, True
    return kcache(archive=a), a, False


def _sqlite(tmp, name):
    import klepto.archives as ka
    # the sqlite3 fallback: a file database keeps sessions apart
    return ka.sqltable_archive('sqlite:///%s' % os.path.join(tmp, name + '.db'), cached=False)


def gen_cfg(r, tier, idx):
    # stratified: every block of 12 consecutive traces covers the 12 decorator classes; the
    # block number walks through backend class x purge so that each decorator meets each of them
    algo = ALGOS[idx % 6]
    safe = (idx // 6) % 2 == 1
    blk = idx // 12
    purge = blk % 3 == 2
    maxsize = r.choice([1, 2, 3, 3, 5, 10, 25] + ([40] if tier == 'thorough' else []))
    bsel = blk % 5
    if bsel in (0, 1, 2):
        backend = 'dict'                      # cache + lossless in-memory archive
    elif bsel == 3:
        backend = r.choice(['plain', 'null', 'bare_dict'])
    else:
        backend = r.choice(DISK_BACKENDS)
    keymap = r.choice(KEYMAPS)
    # un-keyable arguments: `hash` fails inside the keymap, `raw` yields an unhashable key
    malformed = blk % 4 == 1
    if malformed:
        keymap = ['raw', 'hash', 'raw', 'string'][(blk // 4) % 4]
    if backend in DISK_BACKENDS:
        keymap = r.choice(['string', 'md5', 'string_nonflat'])
    # mostly more keys than slots, so that evictions and reloads happen
    nkeys = r.choice([k for k in (3, 5, 8, 12) if k > maxsize] or [12]) if r.random() < 0.8 else r.choice([3, 5, 8, 12])
    if maxsize >= 25: nkeys = r.choice([12, 30, 45])
    nops = r.choice([40, 120, 300] if backend not in DISK_BACKENDS else [20, 60])
    raising = sorted(r.sample(range(nkeys), r.choice([0, 0, 1, 2]))) if nkeys > 2 else []
    keyerr = [x for x in raising if r.random() < 0.3]
    return dict(algo=algo, safe=safe, maxsize=maxsize, purge=purge, backend=backend, keymap=keymap,
                nkeys=nkeys, nops=nops, raising=raising, keyerr=keyerr,
                pre_mem=r.choice([0, 0, 0, 2, maxsize + 2]),
                pre_arch=r.choice([0, 0, 3, maxsize + 3]),
                malformed=malformed, clone=False,
                # a second memoized function of the same configuration (own cache, own archive of the same class built the same way,
                # other on-disk name) is called with the same arguments in between: the two must not see each other
                bystander=(blk % 7) in (0, 2, 3, 5),
                # the archive is attached only after decoration (f.archive(obj)), as test_cache_info does
                late_attach=(backend in ('plain', 'null') and (blk // 5) % 2 == 0),
                longargs=(backend in ('dir', 'bare_dir', 'file') and keymap == 'string' and (blk // 5) % 2 == 1),
                mixedargs=(keymap == 'raw' and not malformed and (blk // 3) % 2 == 0))


def compaction_sweep(r, cfg):
    """lru keeps a queue of recorded uses and compacts it when it exceeds 10*maxsize entries; whether the compaction coincides with
    the last hit before a miss depends on the queue length at that moment, so the length of the hit run is swept"""
    ms, nk = cfg['maxsize'], cfg['nkeys']
    ops = []
    for it, k in enumerate(range(10 * ms - 5, 10 * ms + 4)):
        S = [(it + j) % nk for j in range(ms)]
        c = (it + ms + r.randrange(max(1, nk - ms))) % nk
        ops += [['call', x] for x in S] + [['call', S[0]]] * k + [['call', S[-1]], ['call', c]]
        if r.random() < 0.3: ops.append(['call', r.choice(S)])
    return ops


def gen_ops(r, cfg):
    ops = _gen_ops(r, cfg)
    if cfg['algo'] == 'lru' and cfg['maxsize'] in (2, 3) and cfg['nkeys'] > cfg['maxsize'] and not cfg['malformed'] and r.random() < 0.6:
        ops = ops[:len(ops) // 3] + compaction_sweep(r, cfg) + ops[len(ops) // 3:][:40]
    if cfg.get('late_attach'):
        ops.insert(min(len(ops), r.randrange(0, 4)), ['setarch', 'dict', []])
    return ops


def _gen_ops(r, cfg):
    ops = []
    nk = cfg['nkeys']
    hot = r.random() < 0.3          # hit-dominated histories
    recent = []
    for _ in range(cfg['nops']):
        p = r.random()
        x = r.randrange(nk)
        # a burst of hits on the most recently called keys, longer than 10*maxsize recorded uses:
        # this is what it takes to reach lru's queue compaction
        if cfg['maxsize'] <= 5 and recent and r.random() < 0.02:
            pool = recent[-r.choice([1, 2, 3]):]
            for _ in range(10 * cfg['maxsize'] + r.randrange(2, 9)):
                ops.append(['call', r.choice(pool)])
            continue
        if hot and r.random() < 0.7: x = x % 2
        if p < 0.74:
            # (malformed stratum: one call in seven cannot be keyed)
            ops.append(['callbad' if (cfg['malformed'] and r.random() < 0.15) else 'call', x])
            if x not in recent[-3:]: recent.append(x)
        elif p < 0.78:
            if cfg['malformed']:
                # an un-keyable call, often followed at once by an ordinary one (whatever the failed call left in the bookkeeping is then the most recent thing)
                ops.append(['callbad', x])
                if r.random() < 0.6: ops.append(['call', r.randrange(nk)])
            else: ops.append(['call', x])
        elif p < 0.81: ops.append(['loadAll'])
        elif p < 0.84: ops.append(['dumpAll'])
        elif p < 0.86: ops.append(['clear', r.random() < 0.5])
        elif p < 0.88: ops.append(['off'])
        elif p < 0.90: ops.append(['on'])
        elif p < 0.92: ops.append(['load', [r.randrange(nk) for _ in range(r.choice([1, 1, 2, 3]))]])
        elif p < 0.94: ops.append(['dump', [r.randrange(nk) for _ in range(r.choice([1, 1, 2, 3]))]])
        elif p < 0.955: ops.append(['lookup', x])
        elif p < 0.965: ops.append(['key', x])
        elif p < 0.975: ops.append(['extput', x])
        elif p < 0.982: ops.append(['extdel', x])
        elif p < 0.988: ops.append(['setarch', r.choice(['dict', 'null', 'dict']), [r.randrange(nk) for _ in range(r.choice([0, 2]))]])
        elif p < 0.994: ops.append(['archivedq'])
        else: ops.append(['info'])
    return ops


def value_of(x):
    # falsy and None results are legitimate results too
    return [None, 0, '', x * 7 + 1, 'v%d' % x, -x][x % 6] if x > 2 else [None, 0, ''][x]


_CUR = dict(log=[], raising=set(), keyerr=set(), refuse=set())


class NoWay(object):
    """a result no archive can encode (its pickling raises); equal and hashable by its number, so that it can be interned"""
    def __init__(self, n): self.n = n
    def __eq__(self, o): return isinstance(o, NoWay) and o.n == self.n
    def __ne__(self, o): return not self == o
    def __hash__(self): return hash(('NoWay', self.n))
    def __repr__(self): return 'NoWay(%d)' % self.n
    def __reduce__(self): raise TypeError('cannot serialise NoWay(%d)' % self.n)
    __reduce_ex__ = lambda self, proto: self.__reduce__()


def result_of(x):
    """refuse stratum (model M3F): some arguments have a result the attached archive refuses"""
    return NoWay(x) if x in _CUR.get('refuse', ()) else value_of(x)


def fun(x):
    """the memoized function of every trace: module level, so that dill pickles it by reference and
    a restored copy of the decorated function shares the evaluation log"""
    xx = x[0] if isinstance(x, list) else x
    if isinstance(xx, BadRepr): xx = xx.n
    if isinstance(xx, str): xx = int(xx[-2:])          # long-argument stratum: the argument number is in the last two characters
    elif isinstance(xx, tuple): xx = xx[0]              # mixed-argument stratum: (x,), x + 0.5, 's07'
    elif isinstance(xx, float) and xx != int(xx): xx = int(xx)
    _CUR['log'].append(xx)
    rec = _CUR.get('recurse')
    if rec is not None:
        # recursive stratum: the body makes nested calls THROUGH the wrapper (x-1 and x-2) before it returns its own value
        rec['stack'][-1]['ran'] = True
        if isinstance(xx, int) and xx >= 2:
            rec['call'](xx - 1); rec['call'](xx - 2)
    if xx in _CUR['keyerr']: raise KeyError(xx)
    if xx in _CUR['raising']: raise (Halt if xx % 2 else Boom)(xx) from ROOT_CAUSE        # (explicitly chained: what arrives must still say so)
    return result_of(xx)


def other(x):
    """the bystander's function: same arguments, other results"""
    return 'other-%s' % (x if not isinstance(x, str) else x[-2:])        # (a value every backend can store)


_BLOCKED = [0]


class Runner:
    def __init__(self, cfg, tmp):
        import klepto, klepto.safe
        from klepto.archives import cache as kcache
        self.cfg = cfg
        self.tmp = tmp
        self.kcache = kcache
        self.K = Interner()
        self.V = Interner()
        self.log = []
        mod = klepto.safe if cfg['safe'] else klepto
        C = getattr(mod, cfg['algo'] + '_cache')
        raising, keyerr = set(cfg['raising']), set(cfg['keyerr'])
        _CUR.update(log=self.log, raising=raising, keyerr=keyerr, refuse=set(cfg.get('refuse') or ()))
        self.fun = fun
        self.orig = None
        c, arch, bare = make_backend(cfg['backend'], tmp, variant=cfg.get('variant', 0))
        self.bare = bare
        kw = dict(cache=c, keymap=make_keymap(cfg['keymap']))
        if cfg['algo'] not in ('no', 'inf'):
            kw.update(maxsize=cfg['maxsize'], purge=cfg['purge'])
        self.dec = C(**kw)
        self.f = self.dec(fun)
        self.c = self.f.__cache__()
        self.narch = 0
        self.by = None
        if cfg.get('bystander'):
            c2, _, _ = make_backend(cfg['backend'], tmp, name='by', variant=cfg.get('variant', 0))
            kw2 = dict(kw, cache=c2, keymap=make_keymap(cfg['keymap']))
            self.by = C(**kw2)(other)
        # pre-populate (f-consistent entries only)
        good = [x for x in range(cfg['nkeys']) if x not in raising]
        self.hashable = True
        try: hash(self.keyof(0))
        except TypeError: good = []; self.hashable = False
        self.init_mem, self.init_arch = [], None
        if not bare and self.c.archived():
            for x in good[:cfg['pre_arch']]:
                self.c.archive[self.keyof(x)] = value_of(x)
        for x in good[::-1][:cfg['pre_mem']]:
            dict.__setitem__(self.c, self.keyof(x), value_of(x)) if not bare else self.c.__setitem__(self.keyof(x), value_of(x))
        self.init_mem = self.pairs(self.c)
        self.init_arch = self.archpairs()

    # -- observation helpers
    def keyof(self, x):
        return self.f.key(self.A(x))

    def pairs(self, d):
        items = list(d.items()) if not hasattr(d, '__asdict__') else list(d.__asdict__().items())
        return sorted([self.K(k), self.V(v)] for k, v in items)

    def archpairs(self):
        if self.bare: return None
        a = self.c.archive
        from klepto._archives import null_archive
        if isinstance(a, null_archive): return None
        return self.pairs(a)

    def swappairs(self):
        if self.bare: return None
        from klepto._archives import null_archive
        s = self.c.__swap__
        if isinstance(s, null_archive): return None
        return self.pairs(s)

    def observe(self):
        try:
            info = self.f.info()
            return dict(mem=self.pairs(self.c), arch=self.archpairs(), swap=self.swappairs(),
                        stats=[info.hit, info.miss, info.load], size=info.size, maxsize=info.maxsize)
        except Exception as e:
            # the cache / archive cannot even be read back: reported as a violation by the monitors
            return dict(error='%s: %s' % (type(e).__name__, str(e)[:80]), mem=[], arch=None, swap=None,
                        stats=[-1, -1, -1], size=-1, maxsize=None)

    def cfg_line(self):
        c = self.cfg
        line = dict(suite='wrapper', op='cfg', algo=c['algo'], safe=c['safe'], maxsize=c['maxsize'],
                    purge=(True if c['algo'] == 'no' else (False if c['algo'] == 'inf' else c['purge'])),
                    bare=self.bare, mem=self.init_mem, arch=self.init_arch)
        if c.get('refuse'):
            # model M3F: which (interned) results the archive refuses, whether its bulk write is all-or-nothing (file_archive: one
            # encoded dict) or item by item (dir, sqlite), and what its encoder raises - probed on a scratch archive of the same kind
            _, probe, _ = make_backend(c['backend'], self.tmp, name='probe', variant=c.get('variant', 0))
            try: probe['p'] = NoWay(-1); exc = None
            except Exception as e: exc = exc_name(e)
            if exc is None: raise RuntimeError('the %s archive accepted NoWay' % c['backend'])
            line.update(suite='wrapperF', refuse=[self.V(NoWay(x)) for x in c['refuse']], bulkAtomic=c['backend'] == 'file', exc=exc)
        return line

    def A(self, x):
        """the argument passed for argument number x; the long-argument stratum uses long strings with a long common prefix
        (the string key "('LL..07',)" is 244 characters: still a legal file name)"""
        if self.cfg.get('mixedargs'):
            # arguments of mixed types (int, str, tuple, float) under the raw keymap: the keys cannot be ORDERED among each other, only compared for equality
            return [x, 's%02d' % x, (x,), x + 0.5][x % 4]
        return 'L' * 236 + '%02d' % x if self.cfg.get('longargs') else x

    def keyin(self, args):
        try:
            k = self.f.key(*args)
        except Exception as e:
            return {'gen': exc_name(e)}, None
        try:
            hash(k)
        except TypeError:
            return {'unh': 'TypeError'}, k
        return {'ok': self.K(k)}, k

    def fnout(self, x):
        if x in self.cfg['keyerr']: return {'err': 'KeyError'}
        if x in self.cfg['raising']: return {'err': 'user:%d' % x}
        return {'ok': self.V(result_of(x))}

    def snapshot(self, f):
        c = f.__cache__()
        old_f, old_c = self.f, self.c
        self.f, self.c = f, c
        try:
            o = self.observe()
        finally:
            self.f, self.c = old_f, old_c
        return o

    def clone(self):
        """C20: serialise the decorated function with dill, restore it, compare, continue on the copy"""
        import dill
        f = self.f
        try:
            g = dill.loads(dill.dumps(f))
        except Exception as e:
            return {'clone': 'unpicklable', 'exc': type(e).__name__}
        a, b = self.snapshot(f), self.snapshot(g)
        def probe(h):
            res = []
            for a in (1.75, 2.5, -0.125, 3, 'x', (1.25, 2), 1e-9):
                try: res.append(repr(h.key(a)))
                except Exception as e: res.append(type(e).__name__)
            return res
        def astate(h):
            c = h.__cache__()
            res = []
            for o in (c, getattr(c, 'archive', None), getattr(c, '__swap__', None)):
                st = getattr(o, 'state', None)
                res.append((type(o).__name__, sorted((k, repr(v)) for k, v in st.items()) if isinstance(st, dict) else None))
            return res
        same_cfg = (probe(g) == probe(f) and astate(g) == astate(f) and
                    repr(g.__map__()) == repr(f.__map__()) and g.__mask__() == f.__mask__()
                    and g.info().maxsize == f.info().maxsize and bool(g.archived()) == bool(f.archived())
                    and type(g.__cache__()).__name__ == type(f.__cache__()).__name__
                    and type(getattr(g.__cache__(), 'archive', None)).__name__ == type(getattr(f.__cache__(), 'archive', None)).__name__)
        res = {'clone': 'ok', 'same_state': a == b, 'same_cfg': same_cfg, 'wrapped': g.__wrapped__ is f.__wrapped__,
               'orig': a, 'copy': b}
        self.orig, self.orig_snap = f, a
        self.replaced = False
        c0 = f.__cache__()
        names = {type(c0).__name__, type(getattr(c0, 'archive', None)).__name__, type(getattr(c0, '__swap__', None)).__name__}
        self.clone_persistent = bool(names & {'file_archive', 'dir_archive', 'sqltable_archive', 'sql_archive'})
        self.f, self.c = g, g.__cache__()
        # a second copy taken at the same moment is kept aside, untouched, for the twin run at the end of the trace
        self.twin = None
        if not self.clone_persistent:
            try: self.twin = dill.loads(dill.dumps(f))
            except Exception: self.twin = None
        return res

    def twin_run(self):
        """C20 'as the original would have': the untouched original and an untouched copy taken at the same moment are
        driven through the same calls from the same state of the global random stream; results, contents, statistics
        and evictions must coincide"""
        if self.orig is None or getattr(self, 'twin', None) is None: return None
        n = self.cfg['nkeys'] + 4
        seq = [(i * 7 + 3) % n for i in range(3 * (self.cfg['maxsize'] if self.cfg['maxsize'] < 12 else 12) + 12)]
        st0 = random.getstate()
        random.seed(sub_seed('twin', len(self.log)))      # a state of the global stream that is NOT the one at pickling time
        st = random.getstate()
        def drive(h):
            random.setstate(st)
            outs = []
            # management operations that are no-ops on the original must be no-ops on the copy: switching on what is on, asking the state
            try: h.archived(True); outs.append('on:ok')
            except ValueError: outs.append('on:ValueError')
            outs.append('archived=%r' % bool(h.archived()))
            for x in seq:
                try: outs.append(repr(h(self.A(x))))
                except (Exception, Halt) as e: outs.append(type(e).__name__)
            snap = self.snapshot(h)
            return outs, snap['mem'], snap['arch'], snap['stats']
        try:
            a, b = drive(self.twin), drive(self.orig)
        finally:
            random.setstate(st0)
        return dict(ok=a == b, copy=repr(a)[:300], orig=repr(b)[:300], ncalls=len(seq))

    def independence(self):
        """after the copy has been used: the original's in-memory state is as it was at pickling time
        (a persistent archive is shared storage and may have changed)"""
        if self.orig is None: return None
        now = self.snapshot(self.orig)
        a = self.orig_snap
        persistent = self.clone_persistent
        if self.bare and persistent:
            return dict(ok=now['stats'] == a['stats'], what='stats')
        if persistent:
            cur = self.observe()
            shared_ok = now['arch'] is None or cur['arch'] is None or self.replaced or now['arch'] == cur['arch']
            return dict(ok=(now['mem'], now['stats']) == (a['mem'], a['stats']) and shared_ok, what='mem/stats/shared archive')
        return dict(ok=(now['mem'], now['stats'], now['arch'], now['swap']) == (a['mem'], a['stats'], a['arch'], a['swap']), what='mem/stats/archive')

    # -- one op: returns (model line or None, out, tags)
    def do(self, op):
        kind = op[0]
        f, c = self.f, self.c
        tags = []
        if kind in ('call', 'callbad'):
            x = op[1]
            args = ([x],) if kind == 'callbad' else (x,)
            if kind == 'callbad' and self.cfg['keymap'] == 'string': args = (BadRepr(x),)
            if kind == 'call': args = (self.A(x),)
            key, rawk = self.keyin(args)
            if self.by is not None and kind == 'call' and x % 3 != 0:
                st = random.getstate()           # (the bystander's own random evictions must not shift the stream f's wrapper draws from)
                try: self.by(*args)
                except Exception: pass
                finally: random.setstate(st)
            chosen = []
            orig = random.choice
            def mychoice(seq):
                v = orig(seq); chosen.append(v); return v
            random.choice = mychoice
            n0 = len(self.log)
            def run_call():
                try:
                    return {'ret': self.V(f(*args))}
                except (Exception, Halt) as e:
                    o = {'exc': exc_name(e)}
                    if isinstance(e, (Boom, Halt)) and not (e.__cause__ is ROOT_CAUSE and e.__suppress_context__ is True and isinstance(e.args[0], int)):
                        o['altered'] = 'cause=%r suppress_context=%r args=%r' % (e.__cause__, e.__suppress_context__, e.args)
                    return o
            try:
                if getattr(self, 'after_raise', False) and 'sql' not in self.cfg['backend'] and _BLOCKED[0] < 3:
                    # the call right after one that raised is made from ANOTHER thread: whatever the raising call still holds
                    # (a lock, a half-open resource) must not keep other callers out
                    import threading
                    box = {}
                    t = threading.Thread(target=lambda: box.update(out=run_call()), daemon=True)
                    t.start(); t.join(3)
                    out = box.get('out') or {'exc': 'BLOCKED: the call did not return within 3 s from a second thread', 'blocked': True}
                else:
                    out = run_call()
            finally:
                random.choice = orig
            self.after_raise = 'exc' in out and not out.get('blocked')
            out['evals'] = len(self.log) - n0
            line = dict(op='call', key=key, fn=self.fnout(x),
                        victim=self.K(chosen[0]) if chosen else None)
            return line, out, args
        if kind == 'clone':
            return None, self.clone(), None
        if kind == 'lookup':
            key, rawk = self.keyin((self.A(op[1]),))
            n0 = len(self.log)
            try: out = {'ret': self.V(f.lookup(self.A(op[1])))}
            except Exception as e: out = {'exc': exc_name(e)}
            out['evals'] = len(self.log) - n0
            return dict(op='lookup', key=key), out, None
        if kind == 'key':
            n0 = len(self.log)
            k1 = f.key(self.A(op[1])); k2 = f.key(self.A(op[1]))
            return None, {'keyeq': k1 == k2 and type(k1) is type(k2), 'evals': len(self.log) - n0}, None
        if kind == 'clear':
            f.clear(op[1]); return dict(op='clear', keep=op[1]), 'unit', None
        if kind == 'loadAll':
            f.load(); return dict(op='loadAll'), 'unit', None
        if kind == 'dumpAll':
            if self.cfg.get('refuse'):
                try: f.dump(); out = 'unit'
                except Exception as e: out = {'exc': exc_name(e), 'evals': 0}
                return dict(op='dumpAll'), out, None
            f.dump(); return dict(op='dumpAll'), 'unit', None
        if kind in ('load', 'dump', 'setarch', 'extput', 'extdel') and not self.hashable:
            return None, 'skip', None
        if kind == 'load':
            ks = [self.keyof(x) for x in op[1]]
            f.load(*ks); return dict(op='load', ks=[self.K(k) for k in ks]), 'unit', None
        if kind == 'dump':
            ks = [self.keyof(x) for x in op[1]]
            if self.cfg.get('refuse'):
                try: f.dump(*ks); out = 'unit'
                except Exception as e: out = {'exc': exc_name(e), 'evals': 0}
                return dict(op='dump', ks=[self.K(k) for k in ks]), out, None
            f.dump(*ks); return dict(op='dump', ks=[self.K(k) for k in ks]), 'unit', None
        if kind in ('on', 'off'):
            try:
                f.archived(kind == 'on'); out = 'unit'
            except Exception as e:
                out = {'exc': exc_name(e), 'evals': 0}
            return dict(op=kind), out, None
        if kind == 'archivedq':
            return dict(op='archivedq'), {'flag': bool(f.archived())}, None
        if kind == 'info':
            i = f.info()
            return dict(op='info'), {'info': [i.hit, i.miss, i.load, i.maxsize, i.size]}, None
        if kind == 'setarch':
            import klepto.archives as ka
            self.replaced = True
            self.narch += 1
            xs = [x for x in op[2] if x not in self.cfg['raising']]
            if op[1] == 'null':
                a = ka.null_archive('n%d' % self.narch, cached=False); contents = None
            else:
                a = ka.dict_archive('s%d' % self.narch, cached=False)
                for x in xs: a[self.keyof(x)] = value_of(x)
                contents = self.pairs(a)
            try:
                f.archive(a); out = 'unit'
            except Exception as e:
                out = {'exc': exc_name(e), 'evals': 0}
            return dict(op='setarch', a=contents), out, None
        if kind in ('extput', 'extdel'):
            x = op[1]
            if self.bare or not c.archived() or x in self.cfg['raising']:
                return None, 'skip', None
            k = self.keyof(x)
            if kind == 'extput':
                c.archive[k] = value_of(x)
                return dict(op='extput', k=self.K(k), v=self.V(value_of(x))), 'unit', None
            if k in c.archive:
                del c.archive[k]
            return dict(op='extdel', k=self.K(k)), 'unit', None
        raise ValueError(op)


def run_recursive_trace(cfg, tops):
    """a recursive memoized function: every call - top-level or nested - is recorded WHEN IT COMPLETES, with the state right after it.
    By `Klepto.Reentrant.reentrant_eq_flat` that sequence is an ordinary history of atomic calls, so the result has the format of
    `run_trace` and goes through the same model comparison and monitors."""
    tmp = scratch_dir('kwr')
    cwd = os.getcwd()
    orig_choice = random.choice
    try:
        os.chdir(tmp)
        random.seed(sub_seed('rr', json.dumps(cfg, sort_keys=True)))
        R = Runner(cfg, tmp)
        lines = [R.cfg_line()]
        recs, ops = [], []
        state = dict(before=R.observe())
        stack = []
        def patched(seq):
            v = orig_choice(seq); stack[-1]['chosen'].append(v); return v
        def rcall(x):
            frame = dict(ran=False, chosen=[]); stack.append(frame)
            args = (R.A(x),)
            key, rawk = R.keyin(args)
            try:
                out = {'ret': R.V(R.f(*args))}
            except (Exception, Halt) as e:
                out = {'exc': exc_name(e)}
            stack.pop()
            out['evals'] = 1 if frame['ran'] else 0
            line = dict(op='call', key=key, fn=R.fnout(x), victim=R.K(frame['chosen'][0]) if frame['chosen'] else None)
            after = R.observe()
            recs.append(dict(i=len(recs), op=['call', x], line=line, out=out, before=state['before'], after=after))
            ops.append(['call', x]); lines.append(line); state['before'] = after
        random.choice = patched
        _CUR['recurse'] = dict(call=rcall, stack=stack)
        try:
            for x in tops: rcall(x)
        finally:
            _CUR['recurse'] = None; random.choice = orig_choice
        return dict(cfg=cfg, ops=ops, lines=lines, recs=recs, err=None, recursive=True,
                    keys=[repr(k)[:60] for k in R.K.vals], vals=[repr(v)[:40] for v in R.V.vals])
    except Exception:
        import traceback
        _CUR['recurse'] = None; random.choice = orig_choice
        return dict(cfg=cfg, ops=[], lines=[], recs=[], err=traceback.format_exc()[-1500:])
    finally:
        os.chdir(cwd)
        rm_rf(tmp)


def run_twin_trace(cfg, calls):
    """two instances of one decorator (two caches) over ONE archive, called alternately. The trace is instance A's: A's calls are call
    ops; whatever instance B writes into the shared archive appears in A's history as external archive writes (`extput`), which is
    exactly what the model's alphabet has for 'another session of the same function wrote to the archive'."""
    import klepto, klepto.safe
    tmp = scratch_dir('kwt')
    cwd = os.getcwd()
    try:
        os.chdir(tmp)
        random.seed(sub_seed('rr', json.dumps(cfg, sort_keys=True)))
        R = Runner(cfg, tmp)
        if R.bare or not R.c.archived() or not R.hashable: return dict(cfg=cfg, ops=[], lines=[], recs=[], err=None)
        from klepto.archives import cache as kcache
        shared = R.c.archive if cfg['backend'] == 'dict' else make_backend(cfg['backend'], tmp, variant=cfg.get('variant', 0))[1]
        C = getattr(klepto.safe if cfg['safe'] else klepto, cfg['algo'] + '_cache')
        kw = dict(cache=kcache(archive=shared), keymap=make_keymap(cfg['keymap']))
        if cfg['algo'] not in ('no', 'inf'): kw.update(maxsize=cfg['maxsize'], purge=cfg['purge'])
        B = C(**kw)(fun)
        lines = [R.cfg_line()]
        recs, ops = [], []
        before = R.observe()
        def push(op, line, out, after=None):
            nonlocal before
            after = after if after is not None else R.observe()
            recs.append(dict(i=len(recs), op=op, line=line, out=out, before=before, after=after))
            ops.append(op)
            if line is not None: lines.append(line)
            before = after
        for who, x in calls:
            if who == 0:
                line, out, _ = R.do(['call', x])
                push(['call', x], line, out)
            else:
                a0 = dict(R.c.archive.items())
                st = random.getstate()
                try: B(R.A(x))
                finally: random.setstate(st)
                a1 = dict(R.c.archive.items())
                new = [(k, v) for k, v in a1.items() if k not in a0 or a0[k] != v]
                for n_, (k, v) in enumerate(new):
                    # several writes of one call are replayed one by one: the states in between are the archive with the first n of them
                    # applied (an archive write is `archive[k] = v`); the last one is the state really observed
                    synth = None
                    if n_ < len(new) - 1 and before.get('arch') is not None:
                        cur = dict(map(tuple, before['arch'])); cur[R.K(k)] = R.V(v)
                        synth = dict(before, arch=sorted([a, b] for a, b in cur.items()))
                    push(['extput', x], dict(op='extput', k=R.K(k), v=R.V(v)), 'unit', synth)
                gone = [k for k in a0 if k not in a1]
                if gone:
                    recs.append(dict(i=len(recs), op=['extdel', x], line=None, out={'crash': 'the other instance removed %r from the shared archive' % gone[:3]}, before=before, after=before))
                    break
        return dict(cfg=cfg, ops=ops, lines=lines, recs=recs, err=None, twin=True,
                    keys=[repr(k)[:60] for k in R.K.vals], vals=[repr(v)[:40] for v in R.V.vals])
    except Exception:
        import traceback
        return dict(cfg=cfg, ops=[], lines=[], recs=[], err=traceback.format_exc()[-1500:])
    finally:
        os.chdir(cwd)
        rm_rf(tmp)


def run_trace(cfg, ops):
    """execute on the implementation. Returns dict(lines=[...], obs=[...], err=None|str)"""
    tmp = scratch_dir_for('kw', json.dumps(cfg, sort_keys=True))
    try:
        with fd_budget(json.dumps(cfg, sort_keys=True)):
            return _run_trace(cfg, ops, tmp)
    finally:
        rm_rf(tmp)          # (outside the descriptor budget: a change that leaks descriptors must not leave the scratch directory behind)


def _run_trace(cfg, ops, tmp):
    cwd = os.getcwd()
    try:
        os.chdir(tmp)
        random.seed(sub_seed('rr', json.dumps(cfg, sort_keys=True)))
        R = Runner(cfg, tmp)
        lines = [R.cfg_line()]
        recs = []
        before = R.observe()
        for i, op in enumerate(ops):
            try:
                line, out, args = R.do(op)
            except Exception as e:
                # a management operation of the implementation raised: the monitors report it
                recs.append(dict(i=i, op=op, line=None, out={'crash': '%s: %s' % (type(e).__name__, str(e)[:100])},
                                 before=before, after=before))
                break
            after = R.observe()
            if R.orig is not None and op[0] != 'clone':
                ind = R.independence()
                if ind is not None and not ind['ok']:
                    out = dict(out, independence=ind) if isinstance(out, dict) else dict(out=out, independence=ind)
            recs.append(dict(i=i, op=op, line=line, out=out, before=before, after=after))
            if line is not None: lines.append(line)
            before = after
        tw = R.twin_run() if cfg.get('clone') else None
        if tw is not None:
            recs.append(dict(i=len(ops), op=['twin'], line=None, out=dict(twin=tw), before=before, after=before))
        return dict(cfg=cfg, ops=ops, lines=lines, recs=recs, err=None,
                    keys=[repr(k)[:60] for k in R.K.vals], vals=[repr(v)[:40] for v in R.V.vals])
    except Exception as e:
        import traceback
        return dict(cfg=cfg, ops=ops, lines=[], recs=[], err=traceback.format_exc()[-1500:])
    finally:
        os.chdir(cwd)
        rm_rf(tmp)


def gen_trace(tier, idx):
    r = rng('wrapper', tier, idx)
    cfg = gen_cfg(r, tier, idx)
    ops = gen_ops(r, cfg)
    return cfg, ops


def work(args):
    tier, idx = args
    cfg, ops = gen_trace(tier, idx)
    return run_trace(cfg, ops)


def gen_clone_trace(tier, idx):
    """suite `clone` (C20): a wrapper trace with 1-2 dill round-trips inserted at random points"""
    r = rng('clone', tier, idx)
    cfg = gen_cfg(r, tier, idx)
    if cfg['backend'] in ('sql', 'bare_sql', 'sqlmem') and idx % 3:
        cfg['backend'] = r.choice(['file', 'dir', 'bare_file', 'bare_dir'])   # sqlite connections cannot be pickled ...
    # (... every third of them stays: as long as such a function cannot be pickled it is outside the property; the day it can, it is inside)
    cfg['clone'] = True
    cfg['variant'] = r.randrange(12)
    if cfg['backend'] in ('dir', 'bare_dir') and ARCHIVE_OPTIONS['dir'][cfg['variant'] % 6].get('serialized') is False:
        cfg['keymap'] = 'md5'      # source-text entries are imported as modules named K_<key>: the key must be an identifier
    if cfg['nops'] > 120: cfg['nops'] = 120
    ops = gen_ops(r, cfg)
    for _ in range(r.choice([1, 1, 2])):
        ops.insert(r.randrange(len(ops) + 1), ['clone'])
    return cfg, ops


def work_clone(args):
    tier, idx = args
    cfg, ops = gen_clone_trace(tier, idx)
    return run_trace(cfg, ops)
