"""child interpreter of suite `persist` (C04).
usage: persist_child.py <job.json>  -> writes <job>.out.json
roles:
  writer : open the archive, apply the write history, after every op record the contents seen through
           the writing handle, a fresh handle, copy(), a handle rebuilt from `state`, an unpickled handle;
           finally pickle the handle to <job>.handle and exit
  reader : (another process, another cwd) open a fresh handle on the location, unpickle the writer's
           handle, report what each sees
  fwriter/freader : a cached function decorated on the archive (writer dumps; reader is a new function
           object on a fresh handle and must be served from the archive)"""
import sys, os, json, pickle, traceback


def sq(x): return x * x            # a function stored as a value (by reference / by value, as dill decides)


class Unpicklable:
    def __init__(self, n): self.n = n
    def __reduce__(self): raise TypeError('cannot encode')


def dyn_class():
    """a class that exists only in the process that stores its instance (defined in `__main__` of the writer):
    dill pickles it by value, so a reader that has never heard of it can still load the instance"""
    import __main__
    if not hasattr(__main__, 'Dyn'):
        ns = {}
        exec("class Dyn(object):\n    def __init__(self, n): self.n = n; self.tag = 'dyn'\n", __main__.__dict__, ns)
        ns['Dyn'].__module__ = '__main__'
        __main__.Dyn = ns['Dyn']
    return __main__.Dyn


def mat(v, made):
    """materialise value descriptions: mutable containers are fresh objects that the writer mutates after storing"""
    if isinstance(v, dict) and '__fn__' in v:
        return sq if v['__fn__'] == 'sq' else (lambda x, _k=v['__fn__']: (x, _k))
    if isinstance(v, dict) and '__dyn__' in v:
        return dyn_class()(v['__dyn__'])
    if isinstance(v, dict) and '__mut__' in v:
        o = pickle.loads(bytes.fromhex(v['__mut__']))
        made.append(o)
        return o
    if isinstance(v, dict) and '__val__' in v:
        return pickle.loads(bytes.fromhex(v['__val__']))
    raise ValueError(v)


def open_archive(cfg, loc):
    import klepto.archives as ka
    kind, opts = cfg['kind'], dict(cfg['opts'])
    if kind == 'file': return ka.file_archive(loc, cached=False, **opts)
    if kind == 'dir': return ka.dir_archive(loc, cached=False, **opts)
    if kind == 'sql': return ka.sqltable_archive(loc, cached=False)
    raise ValueError(kind)


def rebuild_from_state(cfg, a):
    """a new handle made from what the archive reports about itself: name/state, the way copy() does"""
    import klepto._archives as k_
    st = a.state
    if cfg['kind'] == 'file': return k_.file_archive(filename=st['id'], **{k: v for k, v in st.items() if k != 'id'})
    if cfg['kind'] == 'dir': return k_.dir_archive(dirname=st['id'], **{k: v for k, v in st.items() if k != 'id'})
    if cfg['kind'] == 'sql':
        db, table = k_._sqlname(a.name)
        return k_.sqltable_archive(database=db, table=table, **st)


def view(a):
    """contents through handle `a`, canonical"""
    from pcanon import canon_items, kcanon
    try:
        d = dict(a.items())
        d2 = a.__asdict__()
        c1, c2 = canon_items(d), canon_items(d2)
        if c1 != c2: return dict(exc='items() and __asdict__() differ: %r / %r' % (c1, c2))
        ks = sorted(kcanon(k) for k in a.keys())
        if ks != [p[0] for p in c1] or len(a) != len(c1):
            return dict(exc='keys()/len() disagree with items(): %r %r %r' % (ks, len(a), c1))
        return dict(items=c1)
    except Exception as e:
        return dict(exc='%s: %s' % (type(e).__name__, str(e)[:200]))


def writer(job):
    import dill
    cfg = job['cfg']; loc = job['loc']
    a = open_archive(cfg, loc)
    cached = None
    if cfg.get('cached'):
        from klepto.archives import cache as kcache
        cached = kcache(archive=a)
    H = cached if cached is not None else a
    ops = pickle.loads(bytes.fromhex(job['ops']))
    recs = []
    for i, op in enumerate(ops):
        made = []
        kind = op[0]
        exc = None
        try:
            if kind == 'setitem': H[op[1]] = mat(op[2], made)
            elif kind == 'delitem': del H[op[1]]
            elif kind == 'pop': H.pop(op[1], None)
            elif kind == 'setdefault': H.setdefault(op[1], mat(op[2], made))
            elif kind == 'update': H.update([(k, mat(v, made)) for k, v in op[1]])
            elif kind == 'popkeys': H.popkeys(list(op[1]), None)
            elif kind == 'clear': H.clear()
            elif kind == 'dump': cached.dump()
            elif kind == 'dumpk': cached.dump(*op[1])
            elif kind == 'sync': cached.sync(clear=True)
        except Exception as e:
            exc = '%s: %s' % (type(e).__name__, str(e)[:200])
        # the caller goes on using its objects: what was stored must be a snapshot
        for o in (made if job.get('mutate', True) else []):
            if isinstance(o, list): o.append('MUTATED')
            elif isinstance(o, dict): o['MUTATED'] = 1
            elif isinstance(o, set): o.add('MUTATED')
        rec = dict(i=i, exc=exc, W=view(a))
        if job.get('every') or i == len(ops) - 1 or i % 3 == 2:
            rec['F'] = view(open_archive(cfg, loc))
            try: rec['C'] = view(a.copy())
            except Exception as e: rec['C'] = dict(exc='copy: %s: %s' % (type(e).__name__, e))
            try: rec['S'] = view(rebuild_from_state(cfg, a))
            except Exception as e: rec['S'] = dict(exc='state: %s: %s' % (type(e).__name__, e))
            if cfg['kind'] != 'sql':
                try: rec['P'] = view(dill.loads(dill.dumps(a)))
                except Exception as e: rec['P'] = dict(exc='pickle: %s: %s' % (type(e).__name__, e))
        recs.append(rec)
    if cfg['kind'] != 'sql':
        with open(job['handle'], 'wb') as f: dill.dump(a, f)
    return dict(recs=recs, state=repr(sorted(a.state.items(), key=repr)))


def reader(job):
    import dill
    cfg = job['cfg']; loc = job['loc']
    out = dict(F=view(open_archive(cfg, loc)))
    if cfg['kind'] != 'sql' and os.path.exists(job['handle']):
        try:
            with open(job['handle'], 'rb') as f: h = dill.load(f)
            out['P'] = view(h)
            out['state'] = repr(sorted(h.state.items(), key=repr))
        except Exception as e:
            out['P'] = dict(exc='unpickle: %s: %s' % (type(e).__name__, e))
    out['stray'] = sorted(os.listdir(os.getcwd()))
    return out


EVALS = []
def target(x, y=1):
    EVALS.append((x, y)); return 'r:%r:%r' % (x, y)


def make_cached_function(job, a):
    import klepto, klepto.safe
    from klepto.keymaps import keymap, stringmap, picklemap, hashmap
    km = dict(raw=keymap(), string=stringmap(), pickle=picklemap(), md5=hashmap(algorithm='md5'))[job['keymap']]
    mod = klepto.safe if job['safe'] else klepto
    deco = getattr(mod, job['deco'])
    kw = dict(cache=a, keymap=km)
    if job['deco'] not in ('no_cache', 'inf_cache'): kw['maxsize'] = job['maxsize']
    return deco(**kw)(target)


def fwriter(job):
    from klepto.archives import cache as kcache
    a = kcache(archive=open_archive(job['cfg'], job['loc']))
    f = make_cached_function(job, a)
    res = [repr(f(*c[0], **c[1])) for c in job['calls']]
    f.dump()
    return dict(results=res, info=tuple(f.info()), evals=len(EVALS))


def freader(job):
    from klepto.archives import cache as kcache
    a = kcache(archive=open_archive(job['cfg'], job['loc']))
    f = make_cached_function(job, a)
    res = [repr(f(*c[0], **c[1])) for c in job['calls']]
    return dict(results=res, info=tuple(f.info()), evals=len(EVALS))


def main():
    job = json.load(open(sys.argv[1]))
    try:
        out = dict(writer=writer, reader=reader, fwriter=fwriter, freader=freader)[job['role']](job)
    except Exception:
        out = dict(error=traceback.format_exc()[-2000:])
    with open(sys.argv[1] + '.out.json', 'w') as f: json.dump(out, f)


if __name__ == '__main__':
    main()
