"""suite `persist` (C04): what is written through one handle is what every other handle sees

Per trace: one persistent archive configuration, a write history applied in a *writer process*; the
contents are read back through
  W  the writing handle           F  a fresh handle in the writer process
  C  copy()                       S  a handle rebuilt from the archive's reported name/state
  P  dill.loads(dill.dumps(h))    rF / rP  a fresh handle / the unpickled handle in a *new process started
                                           after the writer exited*, with another working directory
and compared with (a) a Python dict holding snapshots taken at store time (monitor: the property itself)
and (b) the contents of Lean model M7 after the same operations (correspondence).  Mutable values are
mutated by the writer after storing.  A second part re-creates a cached function on the archive in a new
process and requires it to be served from the archive (loads, no evaluation).
Import-based archives (serialized=False) run with byte-code caching off and on."""
import os, sys, json, time, subprocess, collections, pickle, copy, hashlib
from multiprocessing.pool import ThreadPool
from common import *
from pcanon import kj, kcanon, canonv, canon_items
import run_backend as RB
import persist_child

HERE = os.path.dirname(os.path.abspath(__file__))
RULE = ('write histories of 4-24 mutating ops (setitem delitem pop setdefault update popkeys clear; behind a cache also dump/dump(keys)/sync) on '
        'file{pickle,json,source} / dir{pickle,json,source,compressed,fast} / sqlite-file archives in a writer process; contents read through the writing handle, '
        'a fresh handle, copy(), a handle rebuilt from state, an unpickled handle, and - after the writer exited - a fresh and an unpickled handle in a new '
        'process with another cwd; compared with a snapshot dict and with Lean model M7; plus writer/reader sessions of a cached function re-created on the '
        'archive; non-trivial = trace with an overwrite, a delete, a mutated-after-store value, or a cross-process read')
NTRACES = {'quick': 180, 'thorough': 1800}
NFUNC = {'quick': 36, 'thorough': 360}
CONFIGS = [
    ('file', 'pickle', {}), ('file', 'json', dict(protocol='json')), ('file', 'source', dict(serialized=False)),
    ('dir', 'pickle', {}), ('dir', 'json', dict(protocol='json')), ('dir', 'source', dict(serialized=False)),
    ('dir', 'pickle', dict(compression=3)), ('dir', 'pickle', dict(fast=True)),
    ('sql', 'sql', {}),
]


def loc_of(cfg, tmp):
    kind, opts = cfg['kind'], cfg['opts']
    if kind == 'file':
        ext = '.py' if opts.get('serialized') is False else ('.json' if opts.get('protocol') == 'json' else '.pkl')
        return os.path.join(tmp, 'store', 'arch' + ext)
    if kind == 'dir': return os.path.join(tmp, 'store', 'archdir')
    return 'sqlite:///%s' % os.path.join(tmp, 'store', 'arch.db')


class Dyn(object):
    """stand-in (in the harness process) for an instance of a class that the WRITER process defines in its `__main__`"""
    def __init__(self, n): self.n = n; self.tag = 'dyn'


def vdesc(v):
    if isinstance(v, Dyn): return {'__dyn__': v.n}
    if callable(v): return {'__fn__': 'sq'}
    if isinstance(v, (list, dict, set)): return {'__mut__': pickle.dumps(v).hex()}
    return {'__val__': pickle.dumps(v).hex()}


NONASCII = 'caf\u00e9 \u4e2d\u6587'
VALUES = {
    'pickle': [0, 1, -5, 2 ** 70, 'v', 'w w', '', 1.5, -0.0, float('inf'), None, True, (1, 2), [1, [2, 'x']], {'a': (1,)}, b'by', {1: 2}, ((),),
               [[], {}], {'k': [1.5, None]}, persist_child.sq, {3, 4}, Dyn(7), Dyn(8)] + [NONASCII],
    'json': [0, 1, -5, 2 ** 70, 'v', 'w w', '', 1.5, None, True, [1, 2], [1, ['x', None]], {'a': 1, 'b': [2]}, {}, float('inf')] + [NONASCII],
    'source': [0, 1, -5, 2 ** 70, 'v', 'w w', '', 1.5, None, True, (1, 2), [1, [2]], {'a': 1}, 'it''s'] + [NONASCII],
    'sql': [0, 1, -5, 2 ** 40, 'v', 'w w', '', 1.5, -0.25, None, True, b'by'] + [NONASCII],
}


def gen(tier, idx):
    r = rng('persist', tier, idx)
    kind, codec, opts = CONFIGS[idx % len(CONFIGS)]
    cached = (idx // len(CONFIGS)) % 4 == 3
    bytecode = codec == 'source' and (idx // len(CONFIGS)) % 2 == 1
    keys = RB.key_pool(r, kind, codec, 'main')
    values = list(VALUES[codec]); r.shuffle(values); values = values[:r.choice([4, 7, 10])]
    n = r.choice([4, 8, 14, 24] if tier == 'thorough' else [4, 8, 14])
    ops = []
    K = lambda: r.choice(keys); V = lambda: r.choice(values)
    kinds = ['setitem'] * 6 + ['delitem', 'pop', 'pop', 'setdefault', 'update', 'update', 'popkeys', 'clear']
    if cached: kinds += ['dump'] * 4 + ['dumpk', 'sync']
    for _ in range(n):
        k = r.choice(kinds)
        if k == 'setitem': ops.append(['setitem', K(), V()])
        elif k in ('delitem', 'pop'): ops.append([k, K()])
        elif k == 'setdefault': ops.append(['setdefault', K(), V()])
        elif k == 'update': ops.append(['update', [[K(), V()] for _ in range(r.choice([1, 2, 3]))]])
        elif k == 'popkeys': ops.append(['popkeys', [K() for _ in range(r.choice([1, 2]))]])
        elif k == 'dumpk': ops.append(['dumpk', [K() for _ in range(r.choice([1, 2]))]])
        else: ops.append([k])
    if idx % 3 == 0: ops.append(['setitem', K(), NONASCII])         # (text beyond ASCII is stored in every third case)
    if codec == 'source' and bytecode:
        # one key rewritten at once with values whose source text has the same length (1, 2, 3): every store is read back before the next one
        # (the reads leave compiled byte code behind), all inside one second - the import system's staleness check (mtime in whole seconds, size)
        # cannot tell the versions apart, so nothing compiled may outlive the source it was compiled from
        k0 = K(); ops += [['setitem', k0, 1], ['setitem', k0, 2], ['setitem', k0, 3]]
    if cached:
        ops.append(['dump'])
        if r.random() < 0.5 and len(values) > 1:
            # an entry the archive already holds gets a new value and only that key is written back: the last word on it
            k0 = K(); v1, v2 = r.sample(values, 2)
            ops += [['setitem', k0, v1], ['dump'], ['setitem', k0, v2], ['dumpk', [k0]]]
    return dict(kind=kind, codec=codec, opts=opts, cached=cached, bytecode=bytecode, clocale=(idx // len(CONFIGS)) % 2 == 0), ops


def make_decoys(cfg, loc, tmp, ops):
    """source-text archives are read through the import system: a directory that comes EARLIER on the module search path than anything
    the archive adds holds modules with the archive's own names (`arch.py`; `K_<key>/__init__.py`) and foreign contents - the user's
    script directory may well contain a `memo.py` of its own.  The archive must read its own files."""
    d = os.path.join(tmp, 'decoy'); os.makedirs(d)
    if cfg['kind'] == 'file':
        open(os.path.join(d, os.path.splitext(os.path.basename(loc))[0] + '.py'), 'w').write("memo = {'__decoy__': 'foreign'}\n")
    else:
        keys = set()
        for o in ops:
            if o[0] in ('setitem', 'delitem', 'pop', 'setdefault'): keys.add(o[1])
            elif o[0] == 'update': keys.update(k for k, _ in o[1])
            elif o[0] in ('popkeys', 'dumpk'): keys.update(o[1])
        for k in keys:
            if isinstance(k, str) and k.isidentifier():
                pk = os.path.join(d, 'K_' + k); os.makedirs(pk, exist_ok=True)
                open(os.path.join(pk, '__init__.py'), 'w').write("memo = '__decoy__'\n")
    return d


def run_child(job, tmp, tag, cwd, bytecode, decoy=None):
    p = os.path.join(tmp, 'job_%s.json' % tag)
    json.dump(job, open(p, 'w'))
    env = dict(os.environ, PYTHONPATH=(decoy + os.pathsep if decoy else '') + REPO + os.pathsep + HERE)
    if bytecode: env.pop('PYTHONDONTWRITEBYTECODE', None)
    else: env['PYTHONDONTWRITEBYTECODE'] = '1'
    if tag == 'r' and (job.get('cfg') or {}).get('clocale'):
        # every other reader runs where text files default to ASCII (the C locale, no UTF-8 mode): what the writer stored as text
        # must not depend on the reader's locale
        env.update(LC_ALL='C', LANG='C', PYTHONCOERCECLOCALE='0', PYTHONUTF8='0')
    r = subprocess.run([sys.executable, os.path.join(HERE, 'persist_child.py'), p], stdout=subprocess.PIPE, stderr=subprocess.STDOUT,
                       text=True, env=env, cwd=cwd, timeout=300)
    op = p + '.out.json'
    if r.returncode != 0 or not os.path.exists(op):
        return dict(error='child failed: ' + r.stdout[-1500:])
    return json.load(open(op))


class CVals:
    """interning of canonical value descriptions; id 0 is None"""
    def __init__(self): self.ids = {json.dumps('None'): 0}; self.objs = {0: None}
    def __call__(self, obj):
        c = json.dumps(canonv(obj), sort_keys=True)
        if c not in self.ids:
            self.ids[c] = len(self.ids); self.objs[self.ids[c]] = copy.deepcopy(obj) if not callable(obj) else obj
        return self.ids[c]
    def of_canon(self, c):
        return self.ids.get(c, -1)


def run_trace(cfg, ops):
    tmp = scratch_dir_for('kp', json.dumps(cfg, sort_keys=True, default=repr))
    try:
        os.makedirs(os.path.join(tmp, 'store')); os.makedirs(os.path.join(tmp, 'wcwd')); os.makedirs(os.path.join(tmp, 'rcwd'))
        loc = loc_of(cfg, tmp)
        job = dict(role='writer', cfg=cfg, loc=loc, handle=os.path.join(tmp, 'handle.pkl'), every=len(ops) <= 8, mutate=not cfg['cached'],
                   ops=pickle.dumps([[o[0]] + [(vdesc(x) if (o[0] in ('setitem', 'setdefault') and j == 1) else
                                               ([[p[0], vdesc(p[1])] for p in x] if o[0] == 'update' else x)) for j, x in enumerate(o[1:])] for o in ops]).hex())
        decoy = make_decoys(cfg, loc, tmp, ops) if cfg['codec'] == 'source' and cfg['kind'] in ('file', 'dir') else None
        w = run_child(job, tmp, 'w', os.path.join(tmp, 'wcwd'), cfg['bytecode'], decoy)
        if 'error' in w: return dict(cfg=cfg, ops=ops, err=w['error'])
        rd = run_child(dict(job, role='reader'), tmp, 'r', os.path.join(tmp, 'rcwd'), cfg['bytecode'], decoy)
        if 'error' in rd: return dict(cfg=cfg, ops=ops, err=rd['error'])
        # ---- lines for the Lean model (protocol of suite `backend`) and the snapshot reference
        vals = CVals()
        for o in ops:
            if o[0] in ('setitem', 'setdefault'): vals(o[2])
            elif o[0] == 'update':
                for k, v in o[1]: vals(v)
        i = 0; cv = []
        while i < len(vals.objs):
            try: cv.append([i, vals(RB.oracle_readback(cfg['codec'], cfg['opts'], vals.objs[i]))])
            except Exception: cv.append([i, None])
            i += 1
        ckmode = 'json' if (cfg['kind'] == 'file' and cfg['codec'] == 'json') else ('sql' if cfg['kind'] == 'sql' else 'id')
        lines = [dict(suite='backend', op='cfg', kind=cfg['kind'], ck=ckmode, cv=cv, cached=cfg['cached'])]
        for o in ops:
            k = o[0]; l = dict(op=k, h='a')
            if k == 'setitem': l.update(k=kj(o[1]), v=vals(o[2]))
            elif k == 'delitem': l.update(k=kj(o[1]))
            elif k == 'pop': l.update(k=kj(o[1]), d=0)
            elif k == 'setdefault': l.update(k=kj(o[1]), d=vals(o[2]))
            elif k == 'update': l.update(kvs=[[kj(a), vals(b)] for a, b in o[1]])
            elif k == 'popkeys': l.update(ks=[kj(a) for a in o[1]], d=0)
            elif k == 'dumpk': l.update(ks=[kj(a) for a in o[1]])
            lines.append(l)
        return dict(cfg=cfg, ops=ops, err=None, w=w, r=rd, lines=lines, vals={v: k for k, v in vals.ids.items()}, cv=dict(map(tuple, cv)))
    except Exception:
        import traceback
        return dict(cfg=cfg, ops=ops, err=traceback.format_exc()[-2000:])
    finally:
        rm_rf(tmp)


def reference(tr):
    """the property's own oracle: a dict of snapshots (what was stored, as it was when it was stored)"""
    cfg = tr['cfg']
    mem, arch = {}, {}
    H = mem if cfg['cached'] else arch
    views = []
    for o in tr['ops']:
        k = o[0]
        snap = lambda v: v if callable(v) else copy.deepcopy(v)
        if k == 'setitem': H[o[1]] = snap(o[2])
        elif k == 'delitem': H.pop(o[1], None)           # (a KeyError for a missing key leaves contents unchanged)
        elif k == 'pop': H.pop(o[1], None)
        elif k == 'setdefault': H.setdefault(o[1], snap(o[2]))
        elif k == 'update': H.update([(a, snap(b)) for a, b in o[1]])
        elif k == 'popkeys': [H.pop(a, None) for a in o[1]]
        elif k == 'clear': H.clear()
        elif k == 'dump': arch.update(mem)
        elif k == 'dumpk': arch.update({a: mem[a] for a in o[1] if a in mem})
        elif k == 'sync': arch.clear(); arch.update(mem)
        views.append(canon_items(arch))
    return views


def monitor(tr):
    cfg = tr['cfg']
    viol = []
    ref = reference(tr)
    touched_vals = []
    for o in tr['ops']:
        if o[0] in ('setitem', 'setdefault'): touched_vals.append(o[2])
        elif o[0] == 'update': touched_vals += [v for _, v in o[1]]
    def cause():
        ids = tr['vals']; inv = {v: k for k, v in ids.items()}
        for v in touched_vals:
            i = inv.get(json.dumps(canonv(v), sort_keys=True))
            if i is not None and tr['cv'].get(i) not in (i,): return 'value-readback'
        return 'none'
    def bad(view, i, what, msg):
        viol.append(dict(prop='C04', i=i, sig=dict(backend=cfg['kind'], codec=cfg['codec'], view=view, what=what, cause=cause(), bytecode=cfg['bytecode']),
                         msg='%s archive (%s%s%s), view %s after op %d %r: %s' % (cfg['kind'], cfg['codec'], ', cached' if cfg['cached'] else '',
                                                                                   ', bytecode caching on' if cfg['bytecode'] else '', view, i, tr['ops'][i][:2], msg)))
    for rec in tr['w']['recs']:
        i = rec['i']
        for vn in ('W', 'F', 'C', 'S', 'P'):
            if vn not in rec: continue
            v = rec[vn]
            if 'exc' in v: bad(vn, i, 'exception', v['exc'][:300])
            elif v['items'] != ref[i]: bad(vn, i, 'contents', 'sees %r, stored %r' % (v['items'], ref[i]))
            if viol: return viol[:1]
    last = len(tr['ops']) - 1
    for vn in ('F', 'P'):
        if vn not in tr['r']: continue
        v = tr['r'][vn]
        if 'exc' in v: bad('r' + vn, last, 'exception', v['exc'][:300])
        elif v['items'] != ref[last]: bad('r' + vn, last, 'contents', 'a new process sees %r, stored %r' % (v['items'], ref[last]))
        if viol: return viol[:1]
    if 'state' in tr['r'] and tr['r']['state'] != tr['w']['state']:
        bad('rP', last, 'settings', 'unpickled handle reports state %s, the writer had %s' % (tr['r']['state'], tr['w']['state']))
    return viol[:1]


def work(a):
    tier, idx = a
    cfg, ops = gen(tier, idx)
    return run_trace(cfg, ops)


# ------------------------------------------------------------------ cached function re-created on the archive
def fgen(tier, idx):
    r = rng('persistf', tier, idx)
    kind, codec, opts = [c for c in CONFIGS if c[1] in ('pickle', 'sql')][idx % 5]
    deco = r.choice(['lru_cache', 'lfu_cache', 'mru_cache', 'rr_cache', 'inf_cache', 'no_cache'])
    keymap = r.choice(['string', 'md5', 'pickle'] if kind == 'sql' else ['raw', 'string', 'md5', 'pickle'])
    ncalls = r.choice([1, 3, 5])
    calls = []
    for _ in range(ncalls):
        x = r.choice([1, 2, 3, 'a', 2.5]); kw = {} if r.random() < .5 else {'y': r.choice([1, 7, 'b'])}
        calls.append([[x], kw])
    return dict(cfg=dict(kind=kind, codec=codec, opts=opts, cached=True, bytecode=False), deco=deco, safe=r.random() < .4, keymap=keymap,
                maxsize=r.choice([1, 2, 10]), calls=calls)


def fwork(a):
    tier, idx = a
    job = fgen(tier, idx)
    tmp = scratch_dir_for('kpf', idx)
    try:
        os.makedirs(os.path.join(tmp, 'store')); os.makedirs(os.path.join(tmp, 'wcwd')); os.makedirs(os.path.join(tmp, 'rcwd'))
        job['loc'] = loc_of(job['cfg'], tmp)
        w = run_child(dict(job, role='fwriter'), tmp, 'fw', os.path.join(tmp, 'wcwd'), False)
        rd = run_child(dict(job, role='freader'), tmp, 'fr', os.path.join(tmp, 'rcwd'), False)
        return dict(job=job, w=w, r=rd, err=w.get('error') or rd.get('error'))
    finally:
        rm_rf(tmp)


def fmonitor(t):
    job, w, r = t['job'], t['w'], t['r']
    distinct = len({json.dumps(c, sort_keys=True) for c in job['calls']})
    viol = []
    sig = dict(part='redecorate', backend=job['cfg']['kind'], deco=job['deco'], safe=job['safe'], keymap=job['keymap'])
    def bad(what, msg): viol.append(dict(prop='C04', i=0, sig=dict(sig, what=what), msg='re-decorated %s%s (keymap %s) on %s archive: %s' % (
        'safe.' if job['safe'] else '', job['deco'], job['keymap'], job['cfg']['kind'], msg)))
    if r['results'] != w['results']: bad('result', 'reader session returned %r, writer %r' % (r['results'], w['results']))
    elif r['evals'] != 0: bad('evaluated', 'reader session evaluated the function %d times although every result is archived (info %r)' % (r['evals'], r['info']))
    elif r['info'][1] != 0: bad('miss', 'reader session counted misses: info %r' % (r['info'],))
    return viol


# ------------------------------------------------------------------ analysis
def _analyse(prop, trs):
    RB.check_pool()
    lines = []
    for tr in trs: lines += [json.dumps(l) for l in tr['lines']]
    outs = run_driver(lines) if lines else []
    pos = 0
    divs, viols = [], []
    tags = collections.Counter(); nontrivial = set()
    for tr in trs:
        n = len(tr['lines']); mo = outs[pos + 1:pos + n]; pos += n
        for o in tr['ops']: tags[o[0]] += 1
        tags['bytecode-on' if tr['cfg']['bytecode'] else 'bytecode-off'] += 1
        if tr['cfg']['cached']: tags['cached'] += 1
        if tr['r'].get('stray'): tags['note:unpickling-created-%s-in-cwd' % tr['r']['stray'][0]] += 1
        nontrivial.add(hashlib.sha256(repr((tr['cfg'], tr['ops'])).encode()).hexdigest())
        ids = tr['vals']
        for i, m in enumerate(mo):
            if 'bad-op' in m: raise NoVerdict('driver rejected %r: %r' % (tr['lines'][i + 1], m))
            marc = m['sys']['a']['arch']
            model_view = 'EXC' if marc == 'EXC' else sorted(([RB._kc(k), ids.get(v, '?%d' % v)] for k, v in marc), key=lambda p: p[0])
            rec = tr['w']['recs'][i]
            for vn in ('W', 'F', 'C', 'S', 'P'):
                if vn not in rec: continue
                iv = rec[vn].get('items', 'EXC')
                if iv != model_view:
                    divs.append(dict(detail=dict(i=i, op=repr(tr['ops'][i])[:200], view=vn, impl=iv if iv != 'EXC' else rec[vn], model=model_view),
                                     cfg=tr['cfg'], ops=tr['ops'])); break
            else: continue
            break
        else:
            if mo:
                m = mo[-1]; marc = m['sys']['a']['arch']
                model_view = 'EXC' if marc == 'EXC' else sorted(([RB._kc(k), ids.get(v, '?%d' % v)] for k, v in marc), key=lambda p: p[0])
                for vn in ('F', 'P'):
                    if vn in tr['r'] and tr['r'][vn].get('items', 'EXC') != model_view:
                        divs.append(dict(detail=dict(i=len(mo) - 1, view='r' + vn, impl=tr['r'][vn], model=model_view), cfg=tr['cfg'], ops=tr['ops'])); break
        for v in monitor(tr): viols.append(dict(v, cfg=tr['cfg'], ops=tr['ops']))
    return divs, viols, tags, len(nontrivial)


def partial_probe(idx):
    """an operation on several items that FAILS part-way (a later item cannot be encoded, a later key is missing): whatever it has done so far,
    a fresh handle on the store sees exactly what the handle that did it sees - no change may stay private to the writing handle.
    Runs in a child process (its own connections); monitor only: what a failing multi-item operation leaves behind is C03's business."""
    kind = ['sql', 'file', 'dir'][idx % 3]
    opname = ['update-bad-later-item', 'popkeys-missing-later-key', 'update-then-clear', 'clear'][(idx // 3) % 4]
    if idx >= 12:
        # update(another archive): the entries of an archive that encodes its files differently (compressed / json / plain) arrive readable
        kind = 'dir'; opname = ['update-from-compressed-archive', 'update-from-json-archive', 'update-from-plain-archive-into-compressed'][idx % 3]
    tmp = scratch_dir('kpp')
    code = r'''
import sys, os, json
import klepto.archives as ka
kind, opname, tmp = sys.argv[1], sys.argv[2], sys.argv[3]
def mk():
    if kind == 'sql': return ka.sqltable_archive('sqlite:///%s' % os.path.join(tmp, 'p.db'), cached=False)
    if kind == 'file': return ka.file_archive(os.path.join(tmp, 'p.pkl'), cached=False)
    return ka.dir_archive(os.path.join(tmp, 'pd'), cached=False)
class Bad(object):
    def __reduce__(self): raise TypeError('cannot encode')
bad = [3] if kind == 'sql' else Bad()
a = mk(); a['a'] = 1; a['b'] = 2
out = {}
try:
    if opname == 'update-bad-later-item': a.update([('c', 3), ('d', bad), ('e', 5)])
    elif opname == 'popkeys-missing-later-key': a.popkeys(['a', 'nope', 'b'])
    elif opname == 'update-then-clear': a.update({'c': 3}); a.clear()
    elif opname.startswith('update-from'):
        if opname == 'update-from-plain-archive-into-compressed':
            a = ka.dir_archive(os.path.join(tmp, 'pdz'), cached=False, compression=3); a['a'] = 1; a['b'] = 2
            S = ka.dir_archive(os.path.join(tmp, 'src'), cached=False)
            mk = lambda: ka.dir_archive(os.path.join(tmp, 'pdz'), cached=False, compression=3)
        else:
            S = ka.dir_archive(os.path.join(tmp, 'src'), cached=False, **(dict(compression=3) if 'compressed' in opname else dict(protocol='json')))
        S['c'] = [1, 2.5]; S['d'] = 'text'
        a.update(S)
        out['want'] = sorted((repr(k), repr(v)) for k, v in dict(a=1, b=2, c=[1, 2.5], d='text').items())
    else: a.clear()
    out['exc'] = None
except Exception as e:
    out['exc'] = type(e).__name__
def view(h):
    try: return sorted((repr(k), repr(v)) for k, v in h.items())
    except Exception as e: return 'EXC %s: %s' % (type(e).__name__, str(e)[:60])
out['W'] = view(a)
out['F'] = view(mk())
print(json.dumps(out))
'''
    try:
        env = dict(os.environ, PYTHONPATH=REPO + os.pathsep + HERE, PYTHONDONTWRITEBYTECODE='1')
        r = subprocess.run([sys.executable, '-c', code, kind, opname, tmp], stdout=subprocess.PIPE, stderr=subprocess.PIPE, text=True, env=env, cwd=tmp, timeout=120)
        if r.returncode != 0: return dict(viol=[], err='partial probe child failed: ' + r.stderr[-600:])
        out = json.loads(r.stdout.strip().splitlines()[-1])
        viol = []
        if out.get('want') is not None and (out['W'] != out['want'] or out['F'] != out['want']):
            viol.append(dict(prop='C04', i=0, sig=dict(backend=kind, codec='pickle', view='F', what='entries-taken-over-from-another-archive-unreadable', cause='none', bytecode=False, op=opname),
                             msg='dir archive, %s: the handle reads %r, a fresh handle %r, stored %r' % (opname, out['W'], out['F'], out['want']), cfg=dict(partial=idx), ops=[]))
        elif out['W'] != out['F']:
            viol.append(dict(prop='C04', i=0, sig=dict(backend=kind, codec='pickle', view='F', what='fresh-handle-differs-from-the-writing-handle', cause='none', bytecode=False, op=opname),
                             msg='%s archive, %s (raised %s): the handle that did it reads %r, a fresh handle on the same store reads %r' % (kind, opname, out['exc'], out['W'], out['F']),
                             cfg=dict(partial=idx), ops=[]))
        return dict(viol=viol, err=None)
    except Exception:
        import traceback
        return dict(viol=[], err=traceback.format_exc()[-800:])
    finally:
        rm_rf(tmp)


def tables_probe(idx):
    """several tables in ONE database file, named through the `?table=NAME` form (names of every first letter): each archive, and a fresh
    handle on it in a new process, holds its own entries only, under the table it was asked for"""
    names = [['beta', 'late', 'alpha', 'eta'], ['tab', 'memo2', 'x_y', 'tbl'], ['a', 'b', 'e', 'l']][idx % 3]
    tmp = scratch_dir('kpt')
    code = r'''
import sys, os, json
import klepto.archives as ka
tmp, role = sys.argv[1], sys.argv[2]; names = sys.argv[3:]
url = lambda n: 'sqlite:///%s?table=%s' % (os.path.join(tmp, 't.db'), n)
out = {}
if role == 'w':
    hs = [ka.sqltable_archive(url(n), cached=False) for n in names] + [ka.sqltable_archive('sqlite:///%s' % os.path.join(tmp, 't.db'), cached=False)]
    for i, h in enumerate(hs): h['own%d' % i] = i; h['shared'] = 'from%d' % i
for i, n in enumerate(names + [None]):
    h = ka.sqltable_archive(url(n) if n else 'sqlite:///%s' % os.path.join(tmp, 't.db'), cached=False)
    out[str(i)] = sorted((k, repr(v)) for k, v in h.items())
print(json.dumps(out))
'''
    try:
        env = dict(os.environ, PYTHONPATH=REPO + os.pathsep + HERE, PYTHONDONTWRITEBYTECODE='1')
        views = {}
        for role in ('w', 'r'):
            r = subprocess.run([sys.executable, '-c', code, tmp, role] + names, stdout=subprocess.PIPE, stderr=subprocess.PIPE, text=True, env=env, cwd=tmp, timeout=120)
            if r.returncode != 0: return dict(viol=[], err='tables probe child failed: ' + r.stderr[-600:])
            views[role] = json.loads(r.stdout.strip().splitlines()[-1])
        viol = []
        for role, v in views.items():
            for i in range(len(names) + 1):
                want = sorted([('own%d' % i, repr(i)), ('shared', repr('from%d' % i))])
                got = [tuple(x) for x in v[str(i)]]
                if got != want:
                    viol.append(dict(prop='C04', i=0, sig=dict(backend='sql', codec='sql', view='F', what='tables-of-one-database-mixed-up', cause='none', bytecode=False),
                                     msg='sqlite file with the tables %r and the default table: a fresh handle on table %r (%s process) reads %r, stored there %r' % (
                                         names, (names + ['<default>'])[i], 'the writing' if role == 'w' else 'a new', got, want), cfg=dict(tables=idx), ops=[]))
                    return dict(viol=viol, err=None)
        return dict(viol=viol, err=None)
    except Exception:
        import traceback
        return dict(viol=[], err=traceback.format_exc()[-800:])
    finally:
        rm_rf(tmp)


def explore(prop, tier):
    with ThreadPool(NPROC) as p:
        trs = p.map(work, [(tier, i) for i in range(NTRACES[tier])])
        fts = p.map(fwork, [(tier, i) for i in range(NFUNC[tier])])
        pps = p.map(partial_probe, list(range(15))) + p.map(tables_probe, list(range(3)))
    errors = [t['err'] for t in trs if t['err']] + [t['err'] for t in fts if t['err']]
    trs = [t for t in trs if not t['err']]; fts = [t for t in fts if not t['err']]
    divs, viols, tags, nontriv = _analyse(prop, trs)
    errors += [o['err'] for o in pps if o['err']]
    viols = viols + [v for o in pps for v in o['viol']]
    tags['partial-operation-probe'] = len(pps)
    for t in fts:
        tags['redecorate'] += 1; tags['redecorate:' + t['job']['deco']] += 1
        for v in fmonitor(t): viols.append(dict(v, fjob=t['job']))
    hist = collections.Counter('%s/%s%s%s' % (t['cfg']['kind'], t['cfg']['codec'], json.dumps(t['cfg']['opts'], sort_keys=True) if t['cfg']['opts'] else '',
                                              '+cache' if t['cfg']['cached'] else '') for t in trs)
    return dict(suite='persist', traces=len(trs) + len(fts), evaluations=sum(len(t['ops']) for t in trs) + sum(2 * len(t['job']['calls']) for t in fts),
                distinct_nontrivial=nontriv + len(fts), tags=dict(tags), divergences=divs, violations=viols,
                samples=[dict(cfg=t['cfg'], ops=[repr(o)[:80] for o in t['ops'][:6]]) for t in trs[:2]],
                errors=errors, rule=RULE, required_tags=['setitem', 'delitem', 'update', 'clear', 'dump', 'bytecode-on', 'cached', 'redecorate'],
                config_histogram=dict(hist))


def _ser(ops): return dict(pickled=__import__('dill').dumps(ops).hex(), readable=[repr(o)[:160] for o in ops])


def replay(prop, obj):
    if isinstance(obj.get('cfg'), dict) and ('partial' in obj['cfg'] or 'tables' in obj['cfg']):
        o = partial_probe(obj['cfg']['partial']) if 'partial' in obj['cfg'] else tables_probe(obj['cfg']['tables'])
        if o['err']: raise NoVerdict(o['err'])
        return dict(violations=[dict(prop='C04', sig=v['sig'], msg=v['msg'], i=0) for v in o['viol']], divergence=None)
    if 'fjob' in obj:
        tmp = None
        t = fwork_job(obj['fjob'])
        return dict(violations=[dict(prop='C04', sig=v['sig'], msg=v['msg'], i=0) for v in fmonitor(t)], divergence=None)
    ops = __import__('dill').loads(bytes.fromhex(obj['ops']['pickled']))
    tr = run_trace(obj['cfg'], ops)
    if tr['err']: raise NoVerdict(tr['err'])
    divs, viols, _, _ = _analyse(prop, [tr])
    return dict(violations=[dict(prop='C04', sig=v['sig'], msg=v['msg'], i=v['i']) for v in viols], divergence=divs[0]['detail'] if divs else None)


def fwork_job(job):
    tmp = scratch_dir('kpf')
    try:
        os.makedirs(os.path.join(tmp, 'store')); os.makedirs(os.path.join(tmp, 'wcwd')); os.makedirs(os.path.join(tmp, 'rcwd'))
        job = dict(job); job['loc'] = loc_of(job['cfg'], tmp)
        w = run_child(dict(job, role='fwriter'), tmp, 'fw', os.path.join(tmp, 'wcwd'), False)
        rd = run_child(dict(job, role='freader'), tmp, 'fr', os.path.join(tmp, 'rcwd'), False)
        if w.get('error') or rd.get('error'): raise NoVerdict(w.get('error') or rd.get('error'))
        return dict(job=job, w=w, r=rd)
    finally:
        rm_rf(tmp)


def shrink_and_save(prop, v):
    if 'fjob' in v:
        return write_replay(prop, 'violation', dict(suite='persist', property=prop, fjob={k: x for k, x in v['fjob'].items() if k != 'loc'},
                                                    signature=v['sig'], message=v['msg']))
    cfg = v['cfg']
    if 'partial' in cfg or 'tables' in cfg:
        return write_replay(prop, 'violation', dict(suite='persist', property=prop, cfg=cfg, signature=v['sig'], message=v['msg'],
                                                     how_to_replay='cd /verif && ./check C04 --replay <this file>'))
    def fails(ops):
        tr = run_trace(cfg, ops)
        return (not tr['err']) and any(x['sig'] == v['sig'] for x in monitor(tr))
    ops = v['ops']
    try: ops = ddmin(ops, fails, 40)
    except Exception: pass
    return write_replay(prop, 'violation', dict(suite='persist', property=prop, cfg=cfg, ops=_ser(ops), signature=v['sig'], message=v['msg']))


def search(prop, tier, divergences, budget_s, known):
    import verdict
    t0 = time.time(); rnd = 0
    while time.time() - t0 < budget_s:
        with ThreadPool(NPROC) as p:
            trs = p.map(work, [('search%d' % rnd, i) for i in range(NPROC * 3)])
        rnd += 1
        for tr in trs:
            if tr['err']: continue
            for v in monitor(tr):
                if not verdict.match_known(prop, v['sig'], known):
                    return shrink_and_save(prop, dict(v, cfg=tr['cfg'], ops=tr['ops']))
    return None


if __name__ == '__main__':
    tier = sys.argv[1] if len(sys.argv) > 1 else 'quick'
    t0 = time.time()
    r = explore('C04', tier)
    print(json.dumps({k: r[k] for k in ('traces', 'evaluations', 'tags', 'config_histogram')}, indent=1))
    print('errors', len(r['errors'])); [print(e) for e in r['errors'][:3]]
    print('divergences', len(r['divergences']))
    for d in r['divergences'][:6]: print(json.dumps(dict(cfg=d['cfg'], detail=d['detail']), default=repr)[:1500]); print()
    print('violations', len(r['violations']))
    c = collections.Counter(json.dumps(v['sig'], sort_keys=True) for v in r['violations'])
    for s, n in c.most_common(): print(n, s)
    seen = set()
    for v in r['violations']:
        s = json.dumps(v['sig'], sort_keys=True)
        if s in seen: continue
        seen.add(s); print(v['msg'][:700]); print()
    print('wall', time.time() - t0)
