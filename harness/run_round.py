"""suite `round` (C12, and the tol/deep part of C18): klepto.rounding and the cache decorators' key path
against Lean model M5 (Klepto/Model/Round.lean, incl. the exact `pyRound`) and an independent oracle"""
import os, sys, json, math, struct, time, random, collections, traceback
from multiprocessing import Pool
from common import *

NCASES = {'quick': 7200, 'thorough': 120000}
NSCALAR = {'quick': 40000, 'thorough': 600000}
RULE = ('(a) round(x, n) of CPython vs the exact integer model pyRound on floats near decimal ties, random bit patterns, dyadic rationals, '
        'huge/tiny magnitudes, n in -330..330; (b) argument structures (scalars, str, bytes, exceptions, nested list/tuple/set/frozenset/dict '
        'with str and non-str keys, range) x tol in {None,-2..6} x deep, through simple_round/deep_round and through the 12 cache decorators; '
        'non-trivial = a structure containing a float below the top level, a tie, or a case the code rejects')

TOLS = [None, 0, 1, 2, 3, -1, -2, 4, 6]


# ------------------------------------------------------------------ floats
def fl_enc(x):
    if math.isnan(x): return 'nan'
    if math.isinf(x): return {'inf': x < 0}
    if x == 0.0: return {'z': math.copysign(1.0, x) < 0}
    m, e = math.frexp(abs(x))
    m = int(m * (1 << 53)); e -= 53
    while m % 2 == 0: m //= 2; e += 1
    return {'f': [x < 0, m, e]}


def fl_dec(j):
    if j == 'nan': return float('nan')
    if 'inf' in j: return float('-inf') if j['inf'] else float('inf')
    if 'z' in j: return -0.0 if j['z'] else 0.0
    neg, m, e = j['f']
    v = math.ldexp(float(m), e) if m < (1 << 53) else float(m) * 2.0 ** e
    return -v if neg else v


def bits(x):
    return struct.pack('<d', x) if not math.isnan(x) else b'nan'


def gen_float(r):
    c = r.random()
    if c < .25: return r.uniform(-1000, 1000)
    if c < .5: return round(r.uniform(-100, 100), r.randrange(0, 5)) + r.choice([0, 5e-1, 5e-2, 5e-3, 5e-4, 5e-5, 5e-6])
    if c < .6: return struct.unpack('<d', struct.pack('<Q', r.getrandbits(64)))[0]
    if c < .75: return r.randrange(-10 ** 6, 10 ** 6) / r.choice([2, 4, 8, 16, 10, 100, 1000, 125])
    if c < .85: return r.uniform(-1, 1) * 10 ** r.randrange(-320, 308)
    return r.choice([0.0, -0.0, float('inf'), float('-inf'), float('nan'), 0.5, 1.5, 2.5, -0.5, 2.675, 1e22, 5e-324, 1.7976931348623157e308, 0.125, 1.005])


def scalar_job(a):
    """CPython round vs pyRound: returns (lines, expected)"""
    tier, k = a
    r = rng('round-scalar', tier, k)
    out = []
    for _ in range(400):
        x = gen_float(r)
        n = r.choice([0, 0, 1, 1, 2, 2, 3, 4, 5, 6, -1, -2, -3, 8, 12, 15, 16, 17, 20, 22, 23, 30, -5, -10, 300, -300, 330, -330])
        try: y = fl_enc(round(x, n))
        except OverflowError: y = {'err': 'OverflowError'}
        out.append((dict(op='pyround', n=n, x=fl_enc(x)), y, repr(x)))
    return out


# ------------------------------------------------------------------ structures
class E1(Exception):
    pass


from fractions import Fraction
from decimal import Decimal
# (numbers that are not floats - Fraction, Decimal, complex - are data like any other: never rounded)
LEAVES = [1, 0, True, None, 'a', 'xyz', 7, -3, b'ab', E1('boom'), 10 ** 20, (), 'k', Fraction(1, 3), Fraction(3, 10), Decimal('2.665'), 1.26 + 0j]


SUBDICT = [False]


def gen_value(r, depth=0):
    c = r.random()
    if depth > 3 or c < .38: return gen_float(r) if r.random() < .6 else r.choice([1.25, 2.5, 0.125, 3.14159, 2.675, 1e-7, 123456.789, 1.0, -1.5, 0.5, 1.5])
    if c < .55: return r.choice(LEAVES)
    n = r.choice([0, 1, 2, 3])
    elems = [gen_value(r, depth + 1) for _ in range(n)]
    if c < .67: return elems
    if c < .77: return tuple(elems)
    if c < .83:
        try: return set(e for e in elems if not isinstance(e, (list, dict, set)))
        except TypeError: return elems
    if c < .86:
        try: return frozenset(e for e in elems if not isinstance(e, (list, dict, set)))
        except TypeError: return tuple(elems)
    # (dict keys are inserted in a shuffled order: rounding must keep every value under its own key)
    if c < .96:
        items = [('k%d' % i, e) for i, e in enumerate(elems)]; r.shuffle(items)
        if SUBDICT[0] and r.random() < .4:
            import collections
            return collections.defaultdict(int, items) if r.random() < .5 else collections.OrderedDict(items)
        return dict(items)
    if c < .985:
        items = [(i, e) for i, e in enumerate(elems)]; r.shuffle(items); return dict(items)
    return range(r.randrange(4))


class VI:
    """interning of the non-float leaves and types of one case"""
    def __init__(self): self.ids = {}; self.objs = []
    def __call__(self, v):
        k = (type(v).__name__, repr(v)) if not isinstance(v, type) else ('type', v.__name__)
        if k not in self.ids: self.ids[k] = len(self.objs); self.objs.append(v)
        return self.ids[k]


def pv_enc(I, v):
    if isinstance(v, float): return fl_enc(v)
    if isinstance(v, (str, BaseException)): return {'l': I(v)}
    if isinstance(v, dict):
        return {'d': [all(isinstance(k, str) for k in v), [[I(k), pv_enc(I, x)] for k, x in v.items()]]}
    try: it = list(iter(v))
    except TypeError: return {'l': I(v)}
    try: type(v)(tuple(it)); rb = True
    except Exception: rb = False
    # (an iterable that cannot be rebuilt from its elements can only come back unchanged: `ty` then names the object itself)
    return {'s': [I(type(v)) if rb else I(v), rb, [pv_enc(I, x) for x in it]]}


def pv_dec(I, j):
    if j == 'nan' or 'f' in j or 'z' in j or 'inf' in j: return fl_dec(j)
    if 'l' in j: return I.objs[j['l']]
    if 'd' in j: return dict((I.objs[k], pv_dec(I, x)) for k, x in j['d'][1])
    ty, rb, xs = j['s']
    if not rb: return I.objs[ty]
    return I.objs[ty](tuple(pv_dec(I, x) for x in xs))


def canon(v):
    """type-aware canonical form: floats by bit pattern, sets unordered"""
    if isinstance(v, float): return ('float', bits(v))
    if isinstance(v, BaseException): return ('exc', type(v).__name__, repr(v))
    if isinstance(v, dict): return ('dict', type(v).__name__, sorted(((canon(k), canon(x)) for k, x in v.items()), key=repr))
    if isinstance(v, (set, frozenset)): return (type(v).__name__, sorted((canon(x) for x in v), key=repr))
    if isinstance(v, (list, tuple)): return (type(v).__name__, [canon(x) for x in v])
    return (type(v).__name__, repr(v))


def oracle(v, tol, deep, top=True):
    """the property's own words: floats rounded to tol decimals - top-level only, or at any depth inside
    lists, tuples, sets and dicts; everything else identical"""
    if isinstance(v, float): return round(v, tol)
    if not deep or isinstance(v, (str, bytes, BaseException)): return v
    if isinstance(v, dict): return dict((k, oracle(x, tol, deep, False)) for k, x in v.items())
    if isinstance(v, (list, tuple, set, frozenset)): return type(v)(oracle(x, tol, deep, False) for x in v)
    return v


def struct_job(a):
    tier, k = a
    r = rng('round-struct', tier, k)
    from klepto.rounding import deep_round, simple_round
    out = []
    for ci in range(60):
        try:
            I = VI()
            tol = r.choice(TOLS); deep = r.random() < .5
            # (dict subclasses - defaultdict, OrderedDict - only where the rounding rebuilds every dict it meets: the rebuilt value is a plain dict
            #  on both sides then; elsewhere the model, which has one dict type, could not name what comes back unchanged)
            SUBDICT[0] = bool(deep and tol is not None)
            nargs = r.choice([0, 1, 2, 3]); args = [gen_value(r, 0 if r.random() < .6 else 3) for _ in range(nargs)]
            kw = dict(('p%d' % i, gen_value(r, 0 if r.random() < .6 else 3)) for i in range(r.choice([0, 0, 1, 2])))
            dec = (deep_round if deep else simple_round)(tol)
            got = {}
            @dec
            def probe(*a_, **k_): got['a'], got['k'] = a_, k_; return 0
            def once(I, again=False):
                rec = dict(tol=tol, deep=deep, args=repr(args)[:200], kw=repr(kw)[:200], has_range='range(' in repr((args, kw)), again=again)
                try:
                    probe(*args, **kw)
                    impl = ('ok', canon(list(got['a'])), canon(got['k']))
                except Exception as e:
                    impl = ('exc', type(e).__name__)
                # oracle from the property text
                try:
                    if tol is None: oa, ok_ = list(args), dict(kw)
                    else: oa, ok_ = [oracle(x, tol, deep) for x in args], dict((n, oracle(x, tol, deep)) for n, x in kw.items())
                    orc = ('ok', canon(oa), canon(ok_))
                except OverflowError:
                    orc = ('exc', 'OverflowError')
                line = dict(op='round', deep=deep, tol=tol, args=[pv_enc(I, x) for x in args], kwds=[[I(n), pv_enc(I, x)] for n, x in kw.items()])
                nontrivial = any(isinstance(x, (list, tuple, set, frozenset, dict)) for x in list(args) + list(kw.values())) and tol is not None
                out.append(dict(rec=rec, impl=impl, orc=orc, line=line, objs=I, nontrivial=nontrivial))
            once(I)
            # the same objects again, changed in place in between (the rounding must look at what they hold now)
            mutable = [x for x in list(args) + list(kw.values()) if isinstance(x, (list, dict, set))]
            if mutable and ci % 2 == 0:
                for x in mutable:
                    nv = r.choice([5.123456, 0.98765, -2.55555])
                    if isinstance(x, list): x[:1] = [nv]
                    elif isinstance(x, dict): x[next(iter(x), 'k0')] = nv
                    else: x.add(nv)
                once(VI(), again=True)
        except Exception:
            out.append(dict(err=traceback.format_exc()[-800:]))
    # decode model answers inside the worker (objects do not travel)
    lines = [json.dumps(dict(suite='round', op='cfg'))] + [json.dumps(o['line']) for o in out if 'line' in o]
    mo = run_driver(lines)[1:]
    res = []
    j = 0
    for o in out:
        if 'err' in o: res.append(o); continue
        m = mo[j]; j += 1
        if isinstance(m, dict) and 'bad-op' in m: res.append(dict(err='driver: %r' % m)); continue
        if 'err' in m: model = ('exc', m['err'])
        else:
            I = o['objs']
            model = ('ok', canon([pv_dec(I, x) for x in m['args']]), canon(dict((I.objs[n], pv_dec(I, x)) for n, x in m['kwds'])))
        res.append(dict(rec=o['rec'], impl=o['impl'], orc=o['orc'], model=model, nontrivial=o['nontrivial']))
    return res


# ------------------------------------------------------------------ through the cache decorators
DECOS = [(m, a + '_cache') for m in ('klepto', 'safe') for a in ('no', 'inf', 'lfu', 'lru', 'mru', 'rr')]
SEEN = []


def target(x, y=0.25, *rest, **kw):
    SEEN.append((x, y, rest, kw))
    return len(SEEN)


def eqtypes_of(k, ci): return (k + ci) % 4 == 3


def cache_job(a):
    """key equality <-> oracle-rounded equality; originals reach the function; key() == stored key"""
    tier, k = a
    r = rng('round-cache', tier, k)
    import klepto, klepto.safe
    from klepto.keymaps import stringmap, picklemap, hashmap, keymap
    out = []
    for ci in range(12):
        try:
            mod, nm = DECOS[(k * 12 + ci) % 12]
            D = getattr(klepto.safe if mod == 'safe' else klepto, nm)
            tol = r.choice([None, 0, 1, 2, 3, -1]); deep = r.random() < .5
            kmk = r.choice(['string', 'pickle', 'md5', 'raw'])
            # stratum: one negative argument that rounds to -0.0, spelled in every form (a text key shows the sign of a zero, so
            # every spelling has to round it the same way)
            negzero = (k + ci) % 6 == 2
            # stratum: ==-equal hashable containers of differently typed members, (3.0, 2.54) (3, 2.54) (True, 2.54), rounded deeply by one
            # decorator: what one call's container rounds to must not be remembered for the next
            tupwrap = (k + ci) % 8 == 3
            if tupwrap: deep = True; tol = tol if tol in (0, 1, 2) else 1; kmk = kmk if kmk != 'raw' else ['string', 'pickle', 'md5'][k % 3]
            if negzero: tol = [0, 1][((k + ci) // 6) % 2]; kmk = ['string', 'pickle', 'md5'][(k // 3 + ci) % 3]
            km = {'string': stringmap, 'pickle': picklemap, 'md5': lambda: hashmap(algorithm='md5'), 'raw': keymap}[kmk]()
            # stratum: a TYPED keymap under a tolerance - 1, 1.0 and True are three different arguments and rounding keeps their types
            typedkm = eqtypes_of(k, ci) and (k + ci) % 8 == 7
            if typedkm:
                km = {'string': lambda: stringmap(typed=True), 'pickle': lambda: picklemap(typed=True), 'md5': lambda: hashmap(algorithm='md5', typed=True),
                      'raw': lambda: keymap(typed=True)}[kmk]()
                tol = tol if tol is not None else 2
            kwd = dict(keymap=km, tol=tol, deep=deep)
            if nm not in ('no_cache', 'inf_cache'): kwd['maxsize'] = 50
            f = D(**kwd)(target)
            G = klepto.keygen(keymap=km, tol=tol, deep=deep)(target)
            base = r.choice([1.234, 2.5, 0.125, 2.675, 1.005, 3.0])
            eqtypes = eqtypes_of(k, ci)          # stratum: ==-equal arguments of different types back to back (3.0, 3, 3.0, ...)
            if eqtypes: base = r.choice([3.0, 1.0]) if not typedkm else 1.0
            if negzero: eqtypes = False; base = [-0.25, -0.004, -0.0][k % 3] if tol == 0 else [-0.004, -0.04, -0.0][k % 3]
            calls = []
            for _ in range(6):
                x = base + r.choice([0, 0.004, 0.04, 0.4, -0.004, 1e-9] if not eqtypes else [0, 0, 0, 0.004])
                if negzero: x = base
                if eqtypes and x == base and r.random() < .5: x = int(x) if r.random() < .7 or base != 1.0 else True
                if typedkm: x = [1.0, 1, True, 1, True, 1.0][_]
                if tupwrap: x = (x, 2.54) if _ % 2 else ((x, 'a'), 2.54)
                elif r.random() < .3 and (kmk != 'raw' or mod == 'safe'): x = [x, r.choice([1, 'a', 2.55])] if r.random() < .5 else {'q': x}
                form = r.choice(['pos', 'kw', 'default', 'extra', 'spelled', 'owntol', 'owntol'] if not eqtypes else ['pos', 'pos', 'pos', 'default'])
                if negzero: form = ['pos', 'kw', 'default', 'spelled', 'extra', 'kw'][_]
                calls.append((form, x))
                if form == 'default' and r.random() < .5: calls.append(('spelled', x))     # the same call with the default written out
            keys, viol = [], []
            for form, x in calls:
                args, kw = {'pos': ((x, 0.5), {}), 'kw': ((), {'x': x, 'y': 0.5}), 'default': ((x,), {}), 'spelled': ((x, 0.25), {}), 'extra': ((x, 0.5, 1.26), {'z': 2.345}),
                            # the function's OWN keywords called tol / deep / keymap: they are arguments like any other
                            'owntol': ((x, 0.5), {'tol': r.choice([4, 7, 7]), 'deep': r.choice([0, 1])})}[form]
                n0 = len(SEEN)
                if kmk == 'raw' and isinstance(x, (list, dict)):
                    # safe decorator, raw keymap, unhashable argument: the key is unusable and the wrapper must fall back to
                    # evaluating the function - on the caller's own objects, once, without raising
                    try:
                        f(*args, **kw)
                        sx, sy, srest, skw = SEEN[-1]
                        if len(SEEN) != n0 + 1 or sx is not (args[0] if args else kw['x']) or (len(args) > 1 and sy is not args[1]) or \
                           not all(a_ is b_ for a_, b_ in zip(srest, args[2:])) or any(skw[n_] is not kw[n_] for n_ in skw if n_ in kw):
                            viol.append(dict(prop='C12', sig=dict(kind='function-saw-rounded-arguments', dec='%s.%s' % (mod, nm)),
                                             msg='%s.%s(tol=%r, raw keymap, unhashable argument): the function received %r instead of the original %r (evaluations: %d)' % (
                                                 mod, nm, tol, SEEN[-1], (args, kw), len(SEEN) - n0)))
                    except Exception as e:
                        viol.append(dict(prop='C12', sig=dict(kind='valid-call-fails', dec='%s.%s' % (mod, nm), exc=type(e).__name__, deep=deep),
                                         msg='%s.%s(tol=%r, deep=%r, raw) raised %s: %s on the valid call %r %r' % (mod, nm, tol, deep, type(e).__name__, e, args, kw)))
                    continue
                try:
                    kk = f.key(*args, **kw)
                    # the public key generator `klepto.keygen` with the same settings: same key, without evaluating; `.key()` repeats
                    # it, `.valid()` judges the call, `.call()` evaluates the function on the ORIGINAL arguments
                    n1 = len(SEEN)
                    gk = G(*args, **kw); gk2 = G.key(); gv = G.valid()
                    if len(SEEN) != n1 or repr(gk) != repr(kk) or repr(gk2) != repr(kk) or gv is not True:
                        viol.append(dict(prop='C12', sig=dict(kind='keygen-differs-from-decorator', tol=tol is not None, evaluated=len(SEEN) != n1, valid=bool(gv)),
                                         msg='klepto.keygen(tol=%r, deep=%r, %s)(target)%r %r = %.80r, .key() = %.80r, .valid() = %r, evaluations %d; %s.%s.key = %.80r' % (
                                             tol, deep, kmk, args, kw, gk, gk2, gv, len(SEEN) - n1, mod, nm, kk)))
                    if ci % 3 == 0:
                        G.call(); sx, sy, srest, skw = SEEN.pop()
                        if sx is not (args[0] if args else kw['x']) or not all(a_ is b_ for a_, b_ in zip(srest, args[2:])):
                            viol.append(dict(prop='C12', sig=dict(kind='function-saw-rounded-arguments', dec='klepto.keygen'),
                                             msg='klepto.keygen(tol=%r).call(): the function received %r instead of the original %r' % (tol, (sx, sy, srest, skw), (args, kw))))
                    before = set(f.__cache__())
                    ret = f(*args, **kw)
                    cache = f.__cache__()
                    # C18: lookup() of the call just made returns its result - whatever the spelling, with the same rounding as the call
                    if nm != 'no_cache':
                        try:
                            lv = f.lookup(*args, **kw)
                            if lv != ret:
                                viol.append(dict(prop='C18', sig=dict(kind='lookup-differs-from-the-call', dec='%s.%s' % (mod, nm), tol=tol is not None),
                                                 msg='%s.%s(tol=%r, deep=%r, %s): the call %r %r returned %r, lookup of the same call %r' % (mod, nm, tol, deep, kmk, args, kw, ret, lv)))
                        except Exception as e:
                            viol.append(dict(prop='C18', sig=dict(kind='lookup-misses-the-resident-call', dec='%s.%s' % (mod, nm), tol=tol is not None, exc=type(e).__name__),
                                             msg='%s.%s(tol=%r, deep=%r, %s): the call %r %r was just made and is resident, lookup of the same call raised %s: %s' % (
                                                 mod, nm, tol, deep, kmk, args, kw, type(e).__name__, str(e)[:60])))
                    added = set(cache) - before
                    if nm != 'no_cache' and added and kk not in added:
                        viol.append(dict(prop='C18', sig=dict(kind='key-not-the-slot', dec='%s.%s' % (mod, nm), tol=tol is not None, added=True),
                                         msg='%s.%s(tol=%r, deep=%r, %s): key(%r,%r)=%.80r but the call was stored under %.200r' % (mod, nm, tol, deep, kmk, args, kw, kk, sorted(added, key=repr))))
                    if nm != 'no_cache' and kk not in cache:
                        viol.append(dict(prop='C18', sig=dict(kind='key-not-the-slot', dec='%s.%s' % (mod, nm), tol=tol is not None),
                                         msg='%s.%s(tol=%r, deep=%r, %s): key(%r,%r)=%.80r is not in the cache after the call (cache keys %.200r)' % (mod, nm, tol, deep, kmk, args, kw, kk, list(cache))))
                    if len(SEEN) > n0:
                        sx, sy, srest, skw = SEEN[-1]
                        orig_ok = (sx is (args[0] if args else kw['x'])) and all(a_ is b_ for a_, b_ in zip(srest, args[2:]))
                        if not orig_ok:
                            viol.append(dict(prop='C12', sig=dict(kind='function-saw-rounded-arguments', dec='%s.%s' % (mod, nm)),
                                             msg='%s.%s(tol=%r): the function received %r instead of the original %r' % (mod, nm, tol, SEEN[-1], (args, kw))))
                    # oracle-rounded binding: the floats *passed in the call* are rounded (a default that is
                    # left implicit is not an argument of the call and enters the key as it is)
                    def orr(v_): return oracle(v_, tol, deep) if tol is not None else v_
                    passed_y = len(args) > 1 or 'y' in kw
                    bound = dict(x=orr(args[0] if args else kw['x']),
                                 y=orr(args[1] if len(args) > 1 else kw['y']) if passed_y else 0.25,      # (a default left implicit enters the key as it is)
                                 rest=tuple(orr(e) for e in args[2:]), z=orr(kw['z']) if 'z' in kw else '<none>',
                                 own=sorted((n, orr(v)) for n, v in kw.items() if n in ('tol', 'deep')))
                    ob = canon(bound)
                    keys.append((repr(kk), ob, (args, kw), form, x))
                except Exception as e:
                    viol.append(dict(prop='C12', sig=dict(kind='valid-call-fails', dec='%s.%s' % (mod, nm), exc=type(e).__name__, deep=deep),
                                     msg='%s.%s(tol=%r, deep=%r, %s) raised %s: %s on the valid call %r %r' % (mod, nm, tol, deep, kmk, type(e).__name__, e, args, kw)))
            for i in range(len(keys)):
                for j2 in range(i + 1, len(keys)):
                    same_key, same_round = keys[i][0] == keys[j2][0], keys[i][1] == keys[j2][1]
                    if same_key != same_round:
                        viol.append(dict(prop='C12', sig=dict(kind='merge-mismatch', dec='%s.%s' % (mod, nm), merged=same_key, deep=deep, keymap=kmk),
                                         msg='%s.%s(tol=%r, deep=%r, %s): calls %r and %r %s but their arguments round to %s values' % (
                                             mod, nm, tol, deep, kmk, keys[i][2], keys[j2][2], 'share a key' if same_key else 'get different keys',
                                             'different' if not same_round else 'the same')))
            # C10 under a tolerance: with a typed keymap ==-equal arguments of different types are different arguments, rounded or not
            if typedkm:
                for i in range(len(keys)):
                    for j2 in range(i + 1, len(keys)):
                        xi, xj = keys[i][4], keys[j2][4]
                        if keys[i][3] == keys[j2][3] and keys[i][3] != 'owntol' and type(xi) is not type(xj) and type(xi) in (int, float, bool) and type(xj) in (int, float, bool) \
                           and xi == xj and keys[i][0] == keys[j2][0]:
                            viol.append(dict(prop='C10', sig=dict(kind='typed-values-merged-under-tol', dec='%s.%s' % (mod, nm), keymap=kmk, types=sorted([type(xi).__name__, type(xj).__name__])),
                                             msg='%s.%s(tol=%r, deep=%r, %s typed=True): %r and %r are different arguments for a typed keymap but the calls %r and %r share the key %.100s' % (
                                                 mod, nm, tol, deep, kmk, xi, xj, keys[i][2], keys[j2][2], keys[i][0])))
                            break
                    else: continue
                    break
            # C09 under a tolerance: one argument object, the same explicit arguments, spelled positionally and by keyword
            done9 = False
            for i in range(len(keys)):
                for j2 in range(i + 1, len(keys)):
                    if not done9 and {keys[i][3], keys[j2][3]} == {'pos', 'kw'} and keys[i][4] is keys[j2][4] and keys[i][0] != keys[j2][0]:
                        done9 = True
                        viol.append(dict(prop='C09', sig=dict(kind='respelled-under-tol', dec='%s.%s' % (mod, nm), tol=tol, keymap=kmk),
                                         msg='%s.%s(tol=%r, deep=%r, %s): target(%r, 0.5) and target(x=%r, y=0.5) bind the same values but get keys %.120s and %.120s' % (
                                             mod, nm, tol, deep, kmk, keys[i][4], keys[i][4], keys[i][0], keys[j2][0])))
            # C09 under a tolerance: the default written out vs left implicit is one binding, hence one key
            for i in range(len(keys)):
                for j2 in range(len(keys)):
                    if keys[i][3] == 'default' and keys[j2][3] == 'spelled' and keys[i][4] is keys[j2][4] and keys[i][0] != keys[j2][0]:
                        viol.append(dict(prop='C09', sig=dict(kind='default-spelled-vs-omitted-under-tol', dec='%s.%s' % (mod, nm), tol=tol),
                                         msg='%s.%s(tol=%r, deep=%r, %s): target(%r) and target(%r, 0.25) bind the same values (y=0.25 is the default) but get keys %.120s and %.120s' % (
                                             mod, nm, tol, deep, kmk, keys[i][4], keys[i][4], keys[i][0], keys[j2][0])))
                        break
            # C18 on a callable whose signature cannot be inspected (a builtin): key()/lookup() must not evaluate it either
            if (k + ci) % 3 == 1:
                it = iter(range(1000))
                gb = D(**{k_: v_ for k_, v_ in kwd.items() if k_ not in ('keymap', 'tol', 'deep')}, keymap=keymap())(next)      # (no rounding: an iterator is not a value to round)
                try:
                    kb = gb.key(it)
                    try: gb.lookup(it)
                    except KeyError: pass
                    first = next(it)
                    if first != 0:
                        viol.append(dict(prop='C18', sig=dict(kind='key-or-lookup-evaluates-the-function', dec='%s.%s' % (mod, nm), builtin=True),
                                         msg='%s.%s over the builtin next: key()/lookup() consumed %d item(s) of the iterator' % (mod, nm, first)))
                    got = gb(it)
                    if got != first + 1 or repr(gb.key(it)) != repr(kb):
                        viol.append(dict(prop='C18', sig=dict(kind='builtin-key-unstable', dec='%s.%s' % (mod, nm), builtin=True),
                                         msg='%s.%s over the builtin next: call returned %r (expected %r), key %r then %r' % (mod, nm, got, first + 1, kb, gb.key(it))))
                except Exception as e:
                    viol.append(dict(prop='C18', sig=dict(kind='builtin-key-raises', dec='%s.%s' % (mod, nm), exc=type(e).__name__, builtin=True),
                                     msg='%s.%s over the builtin next: %s: %s' % (mod, nm, type(e).__name__, e)))
            # stratum: a ONE-SHOT ITERATOR (list iterator, generator, map object) as an argument under a tolerance: whatever rounding
            # does for the key, "the function always receives the caller's original arguments" - an iterator that has been run
            # through is not the caller's argument any more - and "rounding never makes a valid call fail"
            if (k + ci) % 4 == 2 and tol is not None:
                took = []
                def consume(x, y=0.25):
                    took.append(list(x)); return len(took[-1])
                fi = D(**kwd)(consume)
                src = [1.04, 2, 'a']
                for what, mk in (('list iterator', lambda: iter(src)), ('generator', lambda: (v_ for v_ in src)), ('map object', lambda: map(float, [1.04, 2]))):
                    it = mk(); n0 = len(took); want = [1.04, 2.0] if what == 'map object' else src
                    try:
                        got = fi(it)
                        if took[n0:] != [want] or got != len(want):
                            viol.append(dict(prop='C12', sig=dict(kind='iterator-argument-consumed', dec='%s.%s' % (mod, nm), deep=deep),
                                             msg='%s.%s(tol=%r, deep=%r, %s keymap): the function was handed a %s over %r and found %r in it (result %r): the decorator ran through the caller\'s iterator' % (
                                                 mod, nm, tol, deep, kmk, what, want, took[n0:], got)))
                    except Exception as e:
                        viol.append(dict(prop='C12', sig=dict(kind='valid-call-fails', dec='%s.%s' % (mod, nm), exc=type(e).__name__, deep=deep, one_shot_iterator=True),
                                         msg='%s.%s(tol=%r, deep=%r, %s keymap) raised %s: %s when called with a %s' % (mod, nm, tol, deep, kmk, type(e).__name__, e, what)))
            out.append(dict(cfg=dict(dec='%s.%s' % (mod, nm), tol=tol, deep=deep, keymap=kmk, calls=repr(calls)[:300]), viol=viol, n=len(calls)))
        except Exception:
            out.append(dict(err=traceback.format_exc()[-800:]))
    return out


def soak_job(a):
    """rounding is a function of (tol, arguments): ONE rounding decorator in a long-lived process, after hundreds of roundings - many of
    which raised (arguments it cannot rebuild, F16b) or went deep - rounds like a fresh one"""
    tier, k = a
    from klepto.rounding import deep_round, simple_round
    out = []
    try:
        for deep in (True, False):
            dec = (deep_round if deep else simple_round)(1)
            got = {}
            @dec
            def probe(*a_, **k_): got['a'], got['k'] = a_, k_; return 0
            nested = 1.26
            for _ in range(40): nested = [nested]
            for i in range(1500):
                try: probe(range(3), [1.26, range(2)]) if i % 2 else probe(nested, x=(1.26, {'k': 1.31}))
                except Exception: pass
            viol = []
            for args, kw in (([1.26, [1.34, (2.55,)]], {'p': 1.26}), ([{'a': 1.26}], {}), ([1.04], {'q': [1.26]})):
                try: probe(*args, **kw); impl = ('ok', canon(list(got['a'])), canon(got['k']))
                except Exception as e: impl = ('exc', type(e).__name__)
                orc = ('ok', canon([oracle(x, 1, deep) for x in args]), canon(dict((n, oracle(x, 1, deep)) for n, x in kw.items())))
                if impl != orc:
                    viol.append(dict(prop='C12', sig=dict(kind='rounding-depends-on-history', deep=deep),
                                     msg='%s(tol=1) after 1500 earlier roundings through the same decorator: args %r kwds %r -> %.200r, a fresh decorator gives %.200r' % (
                                         'deep_round' if deep else 'simple_round', args, kw, impl, orc)))
                    break
            out.append(dict(cfg=dict(soak=True, deep=deep), viol=viol, n=1503))
    except Exception:
        out.append(dict(err=traceback.format_exc()[-800:]))
    return out


# ------------------------------------------------------------------ interface
def explore(prop, tier, seedoff=0):
    t0 = time.time()
    with Pool(NPROC) as p:
        sc = p.map(scalar_job, [(tier, seedoff + i) for i in range(NSCALAR[tier] // 400)])
        st = p.map(struct_job, [(tier, seedoff + i) for i in range(NCASES[tier] // 60)])
        ca = p.map(cache_job, [(tier, seedoff + i) for i in range(max(12, NCASES[tier] // 100))])
        ca += p.map(soak_job, [(tier, 0)])
    divs, viols, errors = [], [], []
    tags = collections.Counter()
    # (a) pyRound vs CPython
    flat = [x for job in sc for x in job]
    mo = run_driver([json.dumps(dict(suite='round', op='cfg'))] + [json.dumps(l) for l, _, _ in flat])[1:]
    for (l, exp, rx), m in zip(flat, mo):
        tags['scalar'] += 1
        same = (m == exp) or ('err' not in m and 'err' not in exp and bits(fl_dec(m)) == bits(fl_dec(exp)))
        if not same:
            divs.append(dict(detail=dict(what='pyRound vs CPython round', x=rx, n=l['n'], cpython=exp, model=m), cfg=dict(x=rx, n=l['n']), ops=[]))
    # (b) structures
    nontrivial = 0
    samples = []
    for job in st:
        for o in job:
            if 'err' in o: errors.append(o['err']); continue
            tags['struct'] += 1
            if o['nontrivial']: nontrivial += 1; tags['nested'] += 1
            if o['rec']['tol'] is None: tags['tol-none'] += 1
            if o['impl'][0] == 'exc': tags['impl-raises'] += 1
            if len(samples) < 3 and o['nontrivial']: samples.append(o['rec'])
            if o['impl'] != o['model']:
                divs.append(dict(detail=dict(what='rounding model', case=o['rec'], impl=repr(o['impl'])[:300], model=repr(o['model'])[:300]), cfg=o['rec'], ops=[]))
            if o['impl'] != o['orc']:
                kind = 'rounding-raises' if o['impl'][0] == 'exc' else 'rounded-wrongly'
                viols.append(dict(prop='C12', i=0, sig=dict(kind=kind, deep=o['rec']['deep'], exc=o['impl'][1] if o['impl'][0] == 'exc' else None,
                                           unrebuildable_iterable=o['rec']['has_range']),
                                  msg='%s(tol=%r): args %s kwds %s -> %.200r, the property says %.200r' % (
                                      'deep_round' if o['rec']['deep'] else 'simple_round', o['rec']['tol'], o['rec']['args'], o['rec']['kw'], o['impl'], o['orc']),
                                  cfg=o['rec'], ops=[]))
    # (c) decorators
    for job in ca:
        for o in job:
            if 'err' in o: errors.append(o['err']); continue
            tags['cache-config'] += 1; tags['cache-calls'] += o['n']
            for v in o['viol']:
                if v['prop'] == prop: viols.append(dict(v, i=0, cfg=o['cfg'], ops=[]))
    if prop in ('C18', 'C09', 'C10'):
        divs = []        # C18, C09 and C10 use only the decorator part of this suite
        viols = [v for v in viols if v['prop'] == prop]
    else:
        viols = [v for v in viols if v['prop'] == 'C12']
    return dict(suite='round', traces=tags['struct'] + tags['cache-config'], evaluations=tags['scalar'] + tags['struct'] + tags['cache-calls'],
                distinct_nontrivial=nontrivial, tags=dict(tags), divergences=divs, violations=viols, samples=samples, errors=errors[:3],
                rule=RULE, required_tags=['scalar', 'nested', 'tol-none', 'cache-config'], config_histogram=None)


def replay(prop, obj):
    if (obj.get('signature') or {}).get('kind') == 'default-spelled-vs-omitted-under-tol':
        # deterministic: one decorator configuration, the call with the default omitted and written out
        import klepto, klepto.safe
        from klepto.keymaps import stringmap, picklemap, hashmap, keymap
        c = obj['case']
        mod, nm = c['dec'].split('.')
        D = getattr(klepto.safe if mod == 'safe' else klepto, nm)
        km = {'string': stringmap, 'pickle': picklemap, 'md5': lambda: hashmap(algorithm='md5'), 'raw': keymap}[c['keymap']]()
        kwd = dict(keymap=km, tol=c['tol'], deep=c['deep'])
        if nm not in ('no_cache', 'inf_cache'): kwd['maxsize'] = 50
        f = D(**kwd)(target)
        k1, k2 = f.key(1.234), f.key(1.234, 0.25)
        viol = []
        if repr(k1) != repr(k2):
            viol.append(dict(prop='C09', sig=dict(kind='default-spelled-vs-omitted-under-tol', dec=c['dec'], tol=c['tol']),
                             msg='%s(tol=%r): target(1.234) and target(1.234, 0.25) get keys %.100r and %.100r' % (c['dec'], c['tol'], k1, k2)))
        return dict(violations=viol, divergence=None)
    if (obj.get('signature') or {}).get('kind') in ('iterator-argument-consumed', 'valid-call-fails') and ((obj.get('signature') or {}).get('one_shot_iterator') or (obj.get('signature') or {}).get('kind') == 'iterator-argument-consumed'):
        # deterministic: one decorator configuration, a list iterator / generator / map object as the argument
        import klepto, klepto.safe
        from klepto.keymaps import stringmap, picklemap, hashmap, keymap
        c = obj['case']
        mod, nm = c['dec'].split('.')
        D = getattr(klepto.safe if mod == 'safe' else klepto, nm)
        km = {'string': stringmap, 'pickle': picklemap, 'md5': lambda: hashmap(algorithm='md5'), 'raw': keymap}[c['keymap']]()
        kwd = dict(keymap=km, tol=c['tol'], deep=c['deep'])
        if nm not in ('no_cache', 'inf_cache'): kwd['maxsize'] = 50
        took = []
        def consume(x, y=0.25):
            took.append(list(x)); return len(took[-1])
        fi = D(**kwd)(consume)
        src = [1.04, 2, 'a']; viol = []
        for what, mk in (('list iterator', lambda: iter(src)), ('generator', lambda: (v_ for v_ in src)), ('map object', lambda: map(float, [1.04, 2]))):
            n0 = len(took); want = [1.04, 2.0] if what == 'map object' else src
            try:
                got = fi(mk())
                if took[n0:] != [want] or got != len(want):
                    viol.append(dict(prop='C12', sig=dict(kind='iterator-argument-consumed', dec=c['dec'], deep=c['deep']), msg='%s(tol=%r, deep=%r): the function found %r in a %s over %r' % (c['dec'], c['tol'], c['deep'], took[n0:], what, want)))
            except Exception as e:
                viol.append(dict(prop='C12', sig=dict(kind='valid-call-fails', dec=c['dec'], exc=type(e).__name__, deep=c['deep'], one_shot_iterator=True), msg='%s(tol=%r, deep=%r) raised %s: %s when called with a %s' % (c['dec'], c['tol'], c['deep'], type(e).__name__, e, what)))
        return dict(violations=viol, divergence=None)
    raise NoVerdict('replays of suite round are re-generated from the seed: run ./check %s with VERIF_SEED=%s' % (prop, obj.get('seed')))


def shrink_and_save(prop, v):
    return write_replay(prop, 'violation', dict(suite='round', property=prop, seed=SEED, case=v['cfg'], signature=v['sig'], message=v['msg']))


def search(prop, tier, divergences, budget_s, known):
    import verdict
    t0 = time.time(); off = 100000
    while time.time() - t0 < budget_s:
        r = explore(prop, 'quick', seedoff=off); off += 1000
        for v in r['violations']:
            if not verdict.match_known(prop, v['sig'], known):
                return shrink_and_save(prop, v)
    return None
